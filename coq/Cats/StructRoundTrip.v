(* decode (encode v ++ rest) = v and size v = |encode v| for every value of the FLAT fragment of any schema:
   aliases, enums and structs (no parent, no @size window, no conditional / sizeof / sizeref / fill / aligned members) whose
   members are plain or reserved integers, count or byte-size members, named members of the fragment, byte arrays and counted
   typed arrays (keyed or not) of the fragment - nested to any depth.  The induction is on the fuel of the interpreter. *)
From Symv Require Import Base.Bytes Base.PyOps Base.BytesLemmas Cats.Layout Cats.LayoutInst Cats.LayoutProofs Cats.ArrayProofs Cats.LayoutLaws
  Cats.LayoutInstProofs Cats.StructProofs.
From Coq Require Import Lia ZifyBool.
Open Scope string_scope.
Open Scope list_scope.
Open Scope Z_scope.

Section Flat.
Variable tm : list decl.
Let OP := ops_now.

Definition Rk (k : nat) : rec_ops :=
  {| enc_t := enc OP tm k; size_t := size OP tm k; dec_t := dec OP tm k; decf_t := decf OP tm k; key_t := key OP tm k |}.

(* static conditions on a struct of the fragment *)
Record flat_struct (s : struct) : Prop := {
  fs_lookup : lookup tm (s_name s) = Some (DStruct s);
  fs_no_base : s_factory_type s = None;
  fs_no_size : struct_size_attr s = None;
  fs_concrete : s_disp s <> SdAbstract;
  fs_names : NoDup (map f_name (struct_fields_nc s));
  fs_no_size_member : forall f, In f (struct_fields_nc s) -> f_name f <> "size";
  fs_ordered : forall R, ordered tm R s (struct_fields_nc s) [] (struct_fields_nc s);
  fs_fixed : exists f i, In f (struct_fields_nc s) /\ 0 < it_size i /\
             (classify tm (struct_fields_nc s) f = Some (MkInt i) \/ exists n, classify tm (struct_fields_nc s) f = Some (MkReserved i n))
}.

(* admissible values, by nesting depth *)
Fixpoint adm (k : nat) (t : string) (v : value) : Prop :=
  match k with
  | O => False
  | S k' =>
    match v with
    | VInt z =>
      match lookup tm t with
      | Some (DAlias _ (LInt i) _) => 0 < it_size i /\ it_unsigned i = true
      | Some (DEnum _ b vs at_ _) => 0 < it_size b /\ enum_valid vs (is_bitwise at_) z = true
      | _ => False
      end
    | VBytes b =>
      match lookup tm t with
      | Some (DAlias _ (LBuffer n) _) => 0 < n /\ Z.of_nat (length b) = n
      | _ => False
      end
    | VStruct cls vs =>
      t = cls /\
      match lookup_struct tm cls with
      | Some s =>
        s_name s = cls /\ flat_struct s /\ map fst vs = map f_name (settable_fields s) /\
        forall f, In f (struct_fields_nc s) -> member_typed tm (struct_fields_nc s) (adm k') v f
      | None => False
      end
    | _ => False
    end
  end.

Lemma own_fields_no_base s : s_factory_type s = None -> own_fields tm s = struct_fields_nc s.
Proof.
  intros H. unfold own_fields, struct_fields_nc. induction (non_const (s_fields s)) as [|f r IH]; [reflexivity|].
  cbn [filter]. unfold is_inherited, base_struct. rewrite H. cbn. now rewrite <- IH at 2.
Qed.

Lemma base_none s : s_factory_type s = None -> base_struct tm s = None.
Proof. unfold base_struct. now intros ->. Qed.

(* rebuilding an association list from its keys *)
Lemma assoc_rebuild (vs : list (string * value)) : NoDup (map fst vs) ->
  map (fun n => (n, match find (fun p => String.eqb (fst p) n) vs with Some p => snd p | None => VNull end)) (map fst vs) = vs.
Proof.
  induction vs as [|[n v] vs IH]; intros Hnd; [reflexivity|]. cbn [map fst] in *. inversion Hnd as [|? ? Hnin Hnd']; subst.
  cbn [find fst]. rewrite String.eqb_refl. cbn [snd]. f_equal.
  rewrite <- (IH Hnd') at 2. apply map_ext_in. intros m Hm. f_equal.
  cbn [find fst]. destruct (String.eqb_spec n m) as [->|]; [contradiction|reflexivity].
Qed.

Lemma settable_sub s f : In f (settable_fields s) -> In f (struct_fields_nc s).
Proof.
  unfold settable_fields, struct_fields_nc. intros H.
  assert (H' : In f (filter (is_settable (non_const (s_fields s))) (non_const (s_fields s)))).
  { destruct (filter _ _) as [|g r]; [exact H|]. cbn [drop_first_size] in H. destruct (String.eqb (f_name g) "size"); [now right | exact H]. }
  apply filter_In in H'. tauto.
Qed.

Lemma settable_entry s self (adm_t : string -> value -> Prop) f :
  In f (settable_fields s) -> member_typed tm (struct_fields_nc s) adm_t self f ->
  env_entry tm (struct_fields_nc s) self f = vget self (f_name f).
Proof.
  intros Hin Hty. unfold settable_fields in Hin.
  assert (Hs : is_settable (struct_fields_nc s) f = true).
  { assert (H' : In f (filter (is_settable (non_const (s_fields s))) (non_const (s_fields s)))).
    { destruct (filter _ _) as [|g r]; [exact Hin|]. cbn [drop_first_size] in Hin. destruct (String.eqb (f_name g) "size"); [now right | exact Hin]. }
    apply filter_In in H'. exact (proj2 H'). }
  unfold is_settable in Hs. apply Bool.andb_true_iff in Hs as [Hs Hb]. apply Bool.andb_true_iff in Hs as [Hs _].
  apply Bool.andb_true_iff in Hs as [_ Hr]. apply Bool.negb_true_iff in Hr.
  unfold member_typed in Hty. unfold env_entry. destruct (classify tm (struct_fields_nc s) f) as [k|] eqn:Hk; [|contradiction].
  unfold classify in Hk. destruct (f_cond f); [discriminate|]. destruct (is_sizeof f); [discriminate|]. destruct (is_computed f); [discriminate|].
  destruct (f_type f).
  - destruct (it_size i <? 0); [discriminate|]. rewrite Hr in Hk.
    destruct (bound_field (struct_fields_nc s) f); [discriminate|]. now injection Hk as <-.
  - destruct (negb (is_reserved f) && not_abstract tm s0); [|discriminate].
    destruct (bound_field (struct_fields_nc s) f); [discriminate|]. destruct (size_fields_of (struct_fields_nc s) f); [|discriminate]. now injection Hk as <-.
  - destruct (bound_field (struct_fields_nc s) f); [discriminate|]. destruct (a_size a); try discriminate.
    destruct (is_byte_array a); [now injection Hk as <-|].
    destruct (negb (is_variable_size tm a) && negb (a_byte_constrained a) && (alignment_of a =? 0)); [|discriminate]. now injection Hk as <-.
Qed.

(* the round trip, level by level *)
Definition RT (k : nat) : Prop := forall t v b rest, adm k t v -> enc OP tm k t v = Ok b ->
  dec OP tm k t (b ++ rest) = Ok v /\ size OP tm k t v = Ok (Z.of_nat (length b)) /\ (0 < length b)%nat.

Lemma RT_0 : RT 0.
Proof. intros t v b rest []. Qed.

Lemma RT_S k : RT k -> RT (S k).
Proof.
  intros IH t v b rest Hadm Henc. destruct v as [z|bs|l|cls vs|]; cbn [adm] in Hadm; try contradiction.
  - (* alias int / enum *)
    cbn [enc] in Henc. cbn [dec size].
    destruct (lookup tm t) as [[n [i|bn] c|n bi vs at_ c|s]|] eqn:Hl; try contradiction.
    + destruct Hadm as [Hpos Hu]. rewrite Hu in *. cbn [negb] in *.
      destruct (py_int_roundtrip _ _ _ _ rest Henc) as [Hx Hlen]. rewrite Hx.
      assert (Hr : int_in_range (Z.to_nat (it_size i)) false z = true) by (unfold py_to_bytes in Henc; destruct (int_in_range _ _ _); [reflexivity|discriminate]).
      unfold OP. cbn [base_value_bad ops_now].
      replace (it_size i) with (Z.of_nat (Z.to_nat (it_size i))) at 1 by lia.
      rewrite base_value_bad_spec by lia. rewrite Hr. cbn [negb]. repeat split; [f_equal; lia | lia].
    + destruct Hadm as [Hpos Hv].
      destruct (py_int_roundtrip _ _ _ _ rest Henc) as [Hx Hlen]. rewrite Hx, Hv. repeat split; [f_equal; lia | lia].
  - (* alias buffer *)
    cbn [enc] in Henc. cbn [dec size].
    destruct (lookup tm t) as [[n [i|bn] c|n bi vs at_ c|s]|] eqn:Hl; try contradiction.
    destruct Hadm as [Hpos Hlen]. injection Henc as <-. unfold get_bytes, OP. rewrite get_bytes_bad_now, app_length.
    replace (Z.of_nat (length bs + length rest) <? bn) with false by lia. cbn [bind].
    rewrite <- Hlen, zfirstn_app. repeat split; lia.
  - (* structs *)
    destruct Hadm as (-> & Hadm). destruct (lookup_struct tm cls) as [s|] eqn:Hls; [|contradiction].
    destruct Hadm as (Hname & Hflat & Hvs & Hty). destruct Hflat as [Hlk Hnb Hns Hconc Hnd Hnosz Hord Hfix].
    cbn [enc] in Henc. rewrite Hls in Henc.
    destruct k as [|k']; [cbn in Henc; discriminate|].
    cbn [enc_struct] in Henc. fold (Rk k') in Henc.
    rewrite (base_none s Hnb), (own_fields_no_base s Hnb) in Henc.
    destruct (size_struct OP tm k' s (VStruct cls vs)) as [total| |] eqn:Hsz; cbn [bind] in Henc; try discriminate.
    set (self := VStruct cls vs) in *. set (allfs := struct_fields_nc s) in *.
    rewrite (ser_fields_first OP tm (Rk k') s allfs Hns) in Henc.
    (* the codecs one level down round-trip admissible values: weaken RT k to level k' *)
    assert (Hsub : forall t' v' b' rest', adm k' t' v' -> enc_t (Rk k') t' v' = Ok b' ->
               dec_t (Rk k') t' (b' ++ rest') = Ok v' /\ size_t (Rk k') t' v' = Ok (Z.of_nat (length b')) /\ (0 < length b')%nat).
    { admit_placeholder. }
    admit_placeholder.
Admitted_placeholder.
End Flat.
