(* decode (encode v ++ rest) = v and size v = |encode v| for every value of the fragment `admf` of any schema:
   aliases, enums and concrete structs (without parent; or with an abstract parent - with or without @size window) whose members are of the
   kinds classified in StructProofs.v, nested to any depth; struct values are admissible at their own class and, through the factory
   (decf_S, factory_ok, decf_via_dec), at the abstract parent of their class.
   The induction (RT_all) is on the nesting depth; the fuel of the interpreter follows.  RT_dec / RT_decf are the two public shapes. *)
From Symv Require Import Base.Bytes Base.PyOps Base.BytesLemmas Cats.Layout Cats.LayoutInst Cats.LayoutProofs Cats.ArrayProofs Cats.LayoutLaws
  Cats.LayoutInstProofs Cats.StructProofs.
From Coq Require Import Lia ZifyBool.
Open Scope string_scope.
Open Scope list_scope.
Open Scope Z_scope.

Section Flat.
Variable tm : list decl.
Let OP := ops_now.

Definition Rk (k : nat) : rec_ops :=
  {| enc_t := enc OP tm k; size_t := size OP tm k; dec_t := dec OP tm k; decf_t := decf OP tm k; key_t := key OP tm k |}.

(* static conditions on a struct of the fragment *)
Record flat_struct (s : struct) : Prop := {
  fs_lookup : lookup tm (s_name s) = Some (DStruct s);
  fs_no_base : s_factory_type s = None;
  fs_no_size : struct_size_attr s = None;
  fs_concrete : s_disp s <> SdAbstract;
  fs_names : NoDup (map f_name (struct_fields_nc s));
  fs_no_size_member : forall f, In f (struct_fields_nc s) -> f_name f <> "size";
  fs_ordered : lordered tm (struct_fields_nc s) [] [] (struct_fields_nc s);
  fs_fixed : exists f, In f (struct_fields_nc s) /\ pos_member tm (struct_fields_nc s) f;
  fs_closed : forall f, In f (struct_fields_nc s) -> ~ fill_member tm (struct_fields_nc s) f
}.

(* a concrete struct with an abstract parent that carries the @size member first (Symbol transactions, blocks, receipts):
   f0 = the size member, hrest = the other parent members; own members follow *)
Record based_struct (s a : struct) (f0 : field) (i : intty) (hrest : list field) : Prop := {
  bs_lookup : lookup tm (s_name s) = Some (DStruct s);
  bs_base : base_struct tm s = Some a;
  bs_concrete : s_disp s <> SdAbstract;
  bs_all : struct_fields_nc s = f0 :: hrest ++ own_fields tm s;
  bs_parent : struct_fields_nc a = f0 :: hrest;
  bs_names : NoDup (map f_name (f0 :: hrest ++ own_fields tm s));
  bs_attr_a : struct_size_attr a = Some "size";
  bs_attr_s : struct_size_attr s = Some "size";
  bs_f0_name : f_name f0 = "size";
  bs_f0_type : f_type f0 = FInt i;
  bs_f0_width : 0 < it_size i;
  bs_f0_unsigned : it_unsigned i = true;
  bs_f0_cond : f_cond f0 = None;
  bs_f0_plain : is_reserved f0 = false;
  bs_f0_settable : is_settable (struct_fields_nc s) f0 = true;
  bs_ordered_h : lordered tm (struct_fields_nc s) [] ["size"] hrest;
  bs_ordered_o : lordered tm (struct_fields_nc s) hrest [] (own_fields tm s);
  bs_closed_h : forall f, In f hrest -> ~ fill_member tm (struct_fields_nc s) f
}.

(* a concrete struct with an abstract parent that has NO @size member (NEM transactions): the parent's _deserialize reads its members
   and hands over the window [consumed, len(buffer)) *)
Record based_nosize_struct (s a : struct) (hfs : list field) : Prop := {
  bn_lookup : lookup tm (s_name s) = Some (DStruct s);
  bn_base : base_struct tm s = Some a;
  bn_concrete : s_disp s <> SdAbstract;
  bn_all : struct_fields_nc s = hfs ++ own_fields tm s;
  bn_parent : struct_fields_nc a = hfs;
  bn_names : NoDup (map f_name (hfs ++ own_fields tm s));
  bn_attr_a : struct_size_attr a = None;
  bn_attr_s : struct_size_attr s = None;
  bn_no_size_member : forall f, In f (struct_fields_nc s) -> f_name f <> "size";
  bn_ordered_h : lordered tm (struct_fields_nc s) [] [] hfs;
  bn_ordered_o : lordered tm (struct_fields_nc s) hfs [] (own_fields tm s);
  bn_fixed : exists f, In f (struct_fields_nc s) /\ pos_member tm (struct_fields_nc s) f;
  bn_closed : forall f, In f (struct_fields_nc s) -> ~ fill_member tm (struct_fields_nc s) f
}.

Definition struct_ok (s : struct) : Prop :=
  flat_struct s \/ (exists a f0 i hrest, based_struct s a f0 i hrest) \/ (exists a hfs, based_nosize_struct s a hfs).

Lemma struct_ok_concrete s : struct_ok s -> s_disp s <> SdAbstract.
Proof. intros [H|[(a & f0 & i & hrest & H)|(a & hfs & H)]]; now destruct H. Qed.

(* ---- TFactory.deserialize: the pieces of `decf` as top-level definitions ---- *)
Definition names_of (da : attribute) : list string := flat_map (fun x => match x with AvStr n => [n] | _ => [] end) (at_values da).
Definition disc_names (a : struct) : list string :=
  match find_attr (s_attrs a) "discriminator" with Some da => names_of da | None => [] end.
Definition fchildren (t : string) : list decl :=
  filter (fun d => match d with DStruct c => match s_factory_type c with Some f => String.eqb f t | None => false end | _ => false end) tm.
Definition key_of (names : list string) (c : struct) : list (option value) :=
  map (fun n =>
    match find (fun at_ => String.eqb (at_name at_) "initializes"
                           && match at_values at_ with AvStr tn :: _ => String.eqb tn n | _ => false end)
               (match s_attrs c with Some l => l | None => [] end) with
    | Some ia =>
      match at_values ia with
      | _ :: AvStr cn :: _ =>
        match find_field (s_fields c) cn with
        | Some cf =>
          match f_type cf, f_value cf with
          | FInt _, VNum z => Some (VInt z)
          | FName et, VName vn => match lookup tm et with Some (DEnum _ _ vs _ _) => option_map VInt (enum_const vs vn) | _ => None end
          | _, _ => None
          end
        | None => None
        end
      | _ => None
      end
    | None => None
    end) names.
Definition veq (x y : option value) : bool := match x, y with Some (VInt p), Some (VInt q) => p =? q | _, _ => false end.
Fixpoint keys_eq (x y : list (option value)) : bool :=
  match x, y with [], [] => true | p :: x', q :: y' => veq p q && keys_eq x' y' | _, _ => false end.
Definition factory_pick (t : string) (names : list string) (actual : list (option value)) : option decl :=
  find (fun d => match d with DStruct c => keys_eq (key_of names c) actual | _ => false end) (rev (fchildren t)).

Lemma decf_S k1 t buf : decf OP tm (S (S k1)) t buf =
  match lookup_struct tm t with
  | Some a =>
    bind (dec_header_with OP tm (Rk k1) a (struct_fields_nc a) buf) (fun h =>
    let '(e0, _, _) := h in
    match find_attr (s_attrs a) "discriminator" with
    | Some da =>
      match factory_pick t (names_of da) (map (fun n => eget e0 n) (names_of da)) with
      | Some (DStruct c) => dec_struct OP tm (S k1) c buf
      | _ => Crash "KeyError"
      end
    | None => Crash "KeyError"
    end)
  | None => Crash "NameError"
  end.
Proof. reflexivity. Qed.

(* a concrete child s of the abstract struct named t: the factory reads the parent header with the parent's own member list
   (same result as with the child's), the discriminator members are plain members of the header *)
Record factory_ok (t : string) (a s : struct) : Prop := {
  fo_parent : lookup_struct tm t = Some a;
  fo_abs : s_disp a = SdAbstract;
  fo_ft : s_factory_type s = Some t;
  fo_hdr : forall f, In f (struct_fields_nc a) ->
           f_cond f = None /\ size_fields_of (struct_fields_nc a) f = size_fields_of (struct_fields_nc s) f;
  fo_disc : find_attr (s_attrs a) "discriminator" <> None;
  fo_names : forall n, In n (disc_names a) -> n <> "size" /\ exists f, In f (struct_fields_nc a) /\ f_name f = n /\
             ((exists i, classify tm (struct_fields_nc s) f = Some (MkInt i)) \/ (exists t', classify tm (struct_fields_nc s) f = Some (MkNamed t')))
}.

(* the members a value must type: all of them, except the leading @size member of a struct whose parent has one (it is not part of the value) *)
Definition typed_members (s : struct) : list field :=
  match base_struct tm s with
  | Some a => match struct_size_attr a, struct_fields_nc s with Some _, f0 :: r => r | _, l => l end
  | None => struct_fields_nc s
  end.

(* admissible values of static type t, by struct nesting depth; a struct value is admissible at its own class and, through the factory,
   at the abstract parent of its class *)
Fixpoint admf (n : nat) (t : string) (v : value) : Prop :=
  match v with
  | VInt z =>
    match lookup tm t with
    | Some (DAlias _ (LInt i) _) => 0 < it_size i /\ it_unsigned i = true
    | Some (DEnum _ b vs at_ _) => 0 < it_size b /\ enum_valid vs (is_bitwise at_) z = true
    | _ => False
    end
  | VBytes b =>
    match lookup tm t with
    | Some (DAlias _ (LBuffer n) _) => 0 < n /\ Z.of_nat (length b) = n
    | _ => False
    end
  | VStruct cls vs =>
    match n with
    | O => False
    | S n' =>
      match lookup_struct tm cls with
      | Some s =>
        s_name s = cls /\ struct_ok s /\ map fst vs = map f_name (settable_fields s) /\
        (forall f, In f (typed_members s) -> member_typed tm (struct_fields_nc s) (admf n') v f) /\
        (t = cls \/ exists a, factory_ok t a s /\ factory_pick t (disc_names a) (map (fun n => vget v n) (disc_names a)) = Some (DStruct s))
      | None => False
      end
    end
  | _ => False
  end.

(* values whose static type is their own (concrete) type: what T.deserialize decodes *)
Definition adm (n : nat) (t : string) (v : value) : Prop := admf n t v /\ is_abs tm t = false.

Lemma own_fields_no_base s : s_factory_type s = None -> own_fields tm s = struct_fields_nc s.
Proof.
  intros H. unfold own_fields, struct_fields_nc.
  assert (G : forall l, filter (fun f => negb (is_inherited tm s f)) l = l).
  { induction l as [|f r IH]; [reflexivity|]. cbn [filter]. unfold is_inherited at 1, base_struct. rewrite H. cbn [negb]. now rewrite IH. }
  apply G.
Qed.

Lemma base_none s : s_factory_type s = None -> base_struct tm s = None.
Proof. unfold base_struct. now intros ->. Qed.

(* rebuilding an association list from its keys *)
Lemma assoc_rebuild (vs : list (string * value)) : NoDup (map fst vs) ->
  map (fun n => (n, match find (fun p => String.eqb (fst p) n) vs with Some p => snd p | None => VNull end)) (map fst vs) = vs.
Proof.
  induction vs as [|[n v] vs IH]; intros Hnd; [reflexivity|]. cbn [map fst] in *. inversion Hnd as [|? ? Hnin Hnd']; subst.
  cbn [find fst]. rewrite String.eqb_refl. cbn [snd]. f_equal.
  rewrite <- (IH Hnd') at 2. apply map_ext_in. intros m Hm. f_equal.
  cbn [find fst]. destruct (String.eqb_spec n m) as [->|]; [contradiction|reflexivity].
Qed.

Lemma settable_filter s f : In f (settable_fields s) -> In f (struct_fields_nc s) /\ is_settable (struct_fields_nc s) f = true.
Proof.
  unfold settable_fields, struct_fields_nc. intros H.
  assert (H' : In f (filter (is_settable (non_const (s_fields s))) (non_const (s_fields s)))).
  { destruct (filter _ _) as [|g r]; [exact H|]. cbn [drop_first_size] in H. destruct (String.eqb (f_name g) "size"); [now right | exact H]. }
  apply filter_In in H'. exact H'.
Qed.

Lemma settable_sub s f : In f (settable_fields s) -> In f (struct_fields_nc s).
Proof. intros H. exact (proj1 (settable_filter s f H)). Qed.

Lemma nodup_map_filter {A B} (f : A -> B) (p : A -> bool) l : NoDup (map f l) -> NoDup (map f (filter p l)).
Proof.
  induction l as [|x l IH]; intros H; [constructor|]. cbn [map] in H. inversion H as [|? ? Hnin Hnd]; subst. cbn [filter].
  destruct (p x); [|now apply IH]. cbn [map]. constructor; [|now apply IH].
  intros Hin. apply Hnin. apply in_map_iff in Hin as (y & Hy & Hyin). apply filter_In in Hyin as [Hyin _]. rewrite <- Hy. now apply in_map.
Qed.

Lemma settable_names_nodup s : NoDup (map f_name (struct_fields_nc s)) -> NoDup (map f_name (settable_fields s)).
Proof.
  intros H. unfold settable_fields. fold (struct_fields_nc s).
  pose proof (nodup_map_filter f_name (is_settable (struct_fields_nc s)) (struct_fields_nc s) H) as Hf.
  destruct (filter _ _) as [|g r]; [constructor|]. cbn [drop_first_size]. destruct (String.eqb (f_name g) "size"); [|exact Hf].
  cbn [map] in Hf. now inversion Hf.
Qed.

Lemma eget_as_find e n : eget e n = option_map snd (find (fun p => String.eqb (fst p) n) e).
Proof. unfold eget. destruct (find _ e); reflexivity. Qed.

Lemma vget_as_find cls vs n : vget (VStruct cls vs) n = option_map snd (find (fun p => String.eqb (fst p) n) vs).
Proof. unfold vget. destruct (find _ vs); reflexivity. Qed.

(* one-step unfoldings of the mutually recursive interpreter (stated once so that proofs never unfold the fixpoint bodies) *)
Lemma enc_struct_value k t cls vs :
  enc OP tm (S k) t (VStruct cls vs) =
  match lookup_struct tm cls with Some s => enc_struct OP tm k s (VStruct cls vs) | None => Crash "AttributeError" end.
Proof. reflexivity. Qed.

Lemma enc_struct_S k s v :
  enc_struct OP tm (S k) s v =
  bind (size_struct_with OP tm (Rk k) s v) (fun total =>
  match base_struct tm s with
  | Some b =>
    bind (serialize_fields_go OP tm (Rk k) b (struct_fields_nc s) total v true (struct_fields_nc b)) (fun hb =>
    bind (serialize_fields_go OP tm (Rk k) s (struct_fields_nc s) total v true (own_fields tm s)) (fun ob => Ok (hb ++ ob)))
  | None => serialize_fields_go OP tm (Rk k) s (struct_fields_nc s) total v true (own_fields tm s)
  end).
Proof. reflexivity. Qed.

Lemma size_struct_value k t cls vs :
  size OP tm (S k) t (VStruct cls vs) =
  match lookup_struct tm cls with Some s => size_struct OP tm k s (VStruct cls vs) | None => Crash "AttributeError" end.
Proof. reflexivity. Qed.

Lemma size_struct_S k s v : size_struct OP tm (S k) s v = size_struct_with OP tm (Rk k) s v.
Proof. reflexivity. Qed.

Lemma size_struct_with_eq R s v :
  size_struct_with OP tm R s v =
  match base_struct tm s with
  | Some b =>
    bind (size_fields OP tm R (struct_fields_nc s) v (struct_fields_nc b)) (fun hs =>
    bind (size_fields OP tm R (struct_fields_nc s) v (own_fields tm s)) (fun os => Ok (hs + os)))
  | None => size_fields OP tm R (struct_fields_nc s) v (own_fields tm s)
  end.
Proof. reflexivity. Qed.

Lemma dec_struct_type k t s buf : lookup tm t = Some (DStruct s) -> dec OP tm (S k) t buf = dec_struct OP tm k s buf.
Proof. intros H. cbn [dec]. now rewrite H. Qed.

Lemma dec_struct_S_no_base k s buf : s_disp s <> SdAbstract -> base_struct tm s = None ->
  dec_struct OP tm (S k) s buf =
  bind (deserialize_loop OP tm (Rk k) s (struct_fields_nc s) (own_fields tm s) [] [] [] [] buf) (fun r =>
  Ok (VStruct (s_name s) (collect s (fst r)))).
Proof. intros Hd Hb. cbn [dec_struct]. rewrite Hb. destruct (s_disp s); try reflexivity. contradiction. Qed.

Lemma dec_struct_S_base k s a buf : s_disp s <> SdAbstract -> base_struct tm s = Some a ->
  dec_struct OP tm (S k) s buf =
  bind (dec_header_with OP tm (Rk k) a (struct_fields_nc s) buf) (fun h =>
  let '(e0, ws, we) := h in
  let wbuf := zskipn ws (zfirstn we buf) in
  bind (deserialize_loop OP tm (Rk k) s (struct_fields_nc s) (own_fields tm s) [] [] [] e0 wbuf) (fun r =>
  Ok (VStruct (s_name s) (collect s (fst r))))).
Proof. intros Hd Hb. cbn [dec_struct]. rewrite Hb. destruct (s_disp s); try reflexivity. contradiction. Qed.

(* struct values: encoding and size follow the dynamic class, not the static type *)
Lemma enc_static_irrel k t cls vs : enc OP tm (S k) t (VStruct cls vs) = enc OP tm (S k) cls (VStruct cls vs).
Proof. reflexivity. Qed.
Lemma size_static_irrel k t cls vs : size OP tm (S k) t (VStruct cls vs) = size OP tm (S k) cls (VStruct cls vs).
Proof. reflexivity. Qed.

(* the round trip: at nesting depth n every fuel >= 2n + 1 suffices *)
Definition RT1 (k : nat) (t : string) (v : value) : Prop :=
  (forall b rest, enc OP tm k t v = Ok b ->
     dec_any tm (Rk k) t (b ++ rest) = Ok v /\ size OP tm k t v = Ok (Z.of_nat (length b)) /\ (0 < length b)%nat) /\
  (forall sz, size OP tm k t v = Ok sz -> 0 < sz).
Definition RT (n : nat) : Prop := forall k, (2 * n + 1 <= k)%nat -> forall t v, admf n t v -> RT1 k t v.

Lemma admf_leaf_not_abs t v : match v with VInt _ | VBytes _ => True | _ => False end -> admf 0 t v -> is_abs tm t = false.
Proof.
  unfold is_abs, lookup_struct. destruct v as [z|b|l|cls vs|]; cbn [admf]; try contradiction; intros _.
  all: destruct (lookup tm t) as [[? [?|?] ?|? ? ? ? ?|?]|]; intros H; try contradiction; reflexivity.
Qed.

Lemma RT_leaf k t v : (1 <= k)%nat -> match v with VInt _ | VBytes _ => True | _ => False end -> admf 0 t v -> RT1 k t v.
Proof.
  intros Hk Hleaf Hadm. destruct k as [|k]; [lia|]. split.
  - intros b rest Henc. unfold dec_any. rewrite (admf_leaf_not_abs t v Hleaf Hadm). cbn [Rk dec_t].
    destruct v as [z|bs| | |]; try contradiction; cbn [admf] in Hadm; cbn [enc] in Henc; cbn [dec size].
    + destruct (lookup tm t) as [[n [i|bn] c|n bi vs at_ c|s]|] eqn:Hl; try contradiction.
      * destruct Hadm as [Hpos Hu]. rewrite Hu in *. cbn [negb] in *.
        destruct (py_int_roundtrip _ _ _ _ rest Henc) as [Hx Hlen]. rewrite Hx.
        assert (Hr : int_in_range (Z.to_nat (it_size i)) false z = true) by (unfold py_to_bytes in Henc; destruct (int_in_range _ _ _); [reflexivity|discriminate]).
        unfold OP. cbn [base_value_bad ops_now].
        replace (it_size i) with (Z.of_nat (Z.to_nat (it_size i))) at 1 by lia.
        rewrite base_value_bad_spec by lia. rewrite Hr. cbn [negb]. repeat split; [f_equal; lia | lia].
      * destruct Hadm as [Hpos Hv].
        destruct (py_int_roundtrip _ _ _ _ rest Henc) as [Hx Hlen]. rewrite Hx, Hv. repeat split; [f_equal; lia | lia].
    + destruct (lookup tm t) as [[n [i|bn] c|n bi vs at_ c|s]|] eqn:Hl; try contradiction.
      destruct Hadm as [Hpos Hlen]. injection Henc as <-. unfold get_bytes, OP. rewrite get_bytes_bad_now, app_length.
      replace (Z.of_nat (length bs + length rest) <? bn) with false by lia. cbn [bind].
      rewrite <- Hlen, zfirstn_app. repeat split; lia.
  - intros sz Hsz. destruct v as [z|bs| | |]; try contradiction; cbn [admf] in Hadm; cbn [size] in Hsz.
    + destruct (lookup tm t) as [[n [i|bn] c|n bi vs at_ c|s]|] eqn:Hl; try contradiction; injection Hsz as <-; tauto.
    + destruct (lookup tm t) as [[n [i|bn] c|n bi vs at_ c|s]|] eqn:Hl; try contradiction. injection Hsz as <-. tauto.
Qed.

Lemma admf_leaf_any n t v : match v with VInt _ | VBytes _ => True | _ => False end -> admf n t v -> admf 0 t v.
Proof. destruct v; try contradiction; intros _ H; destruct n; exact H. Qed.

(* the factory reads the parent header with the parent's own member list: same result as with the child's *)
Lemma des_loop_allfs_ext R sx allfs1 allfs2 : forall fs proc e buf,
  (forall f, In f fs -> f_cond f = None /\ size_fields_of allfs1 f = size_fields_of allfs2 f) ->
  deserialize_loop OP tm R sx allfs1 fs proc [] [] e buf = deserialize_loop OP tm R sx allfs2 fs proc [] [] e buf.
Proof.
  induction fs as [|f r IH]; intros proc e buf H; [reflexivity|].
  destruct (H f (or_introl eq_refl)) as [Hc Hsf]. cbn [deserialize_loop]. rewrite Hc.
  assert (Hd : deserialize_field OP tm R sx allfs1 e f buf = deserialize_field OP tm R sx allfs2 e f buf).
  { unfold deserialize_field, cond_local. rewrite Hc. cbn [bind]. f_equal. unfold load_field. destruct (f_type f); [reflexivity| |reflexivity]. now rewrite Hsf. }
  rewrite Hd. destruct (deserialize_field OP tm R sx allfs2 e f buf) as [x| |]; cbn [bind find drain_queue]; [|reflexivity|reflexivity].
  apply IH. intros g Hg. apply H. now right.
Qed.

Lemma dec_header_allfs_ext R a allfs1 allfs2 buf :
  (forall f, In f (struct_fields_nc a) -> f_cond f = None /\ size_fields_of allfs1 f = size_fields_of allfs2 f) ->
  dec_header_with OP tm R a allfs1 buf = dec_header_with OP tm R a allfs2 buf.
Proof. intros H. unfold dec_header_with. now rewrite (des_loop_allfs_ext R a allfs1 allfs2 _ [] [] buf H). Qed.

Lemma veq_eq x y : veq x y = true -> x = y.
Proof. unfold veq. destruct x as [[p| | | |]|], y as [[q| | | |]|]; try discriminate. intros H. do 2 f_equal. lia. Qed.

Lemma decf_via_dec k' t a s cls self buf e1 ws we hfields :
  factory_ok t a s -> lookup tm cls = Some (DStruct s) ->
  dec_header_with OP tm (Rk k') a (struct_fields_nc s) buf = Ok (e1, ws, we) ->
  env_ok OP tm (Rk k') (struct_fields_nc s) hfields e1 self ->
  (forall f, In f (struct_fields_nc a) -> f_name f <> "size" -> In f hfields) ->
  factory_pick t (disc_names a) (map (fun n => vget self n) (disc_names a)) = Some (DStruct s) ->
  decf OP tm (S (S k')) t buf = dec OP tm (S (S k')) cls buf.
Proof.
  intros [Hpar Habs Hft Hhdr Hdisc Hnames] Hlk Hh Henv Hcov Hpick.
  rewrite decf_S, Hpar, (dec_header_allfs_ext (Rk k') a (struct_fields_nc a) (struct_fields_nc s) buf Hhdr), Hh. cbn [bind].
  unfold disc_names in Hnames, Hpick. destruct (find_attr (s_attrs a) "discriminator") as [da|]; [|contradiction].
  assert (Hact : map (fun n => eget e1 n) (names_of da) = map (fun n => vget self n) (names_of da)).
  { apply map_ext_in. intros n Hn. destruct (Hnames n Hn) as (Hns & f & Hf & Hfn & Hk).
    pose proof (Henv f (Hcov f Hf ltac:(now rewrite Hfn))) as He. unfold env_entry in He.
    destruct Hk as [(i & Hk)|(t' & Hk)]; rewrite Hk, Hfn in He; exact He. }
  rewrite Hact, Hpick. symmetry. now apply dec_struct_type.
Qed.

(* the codecs of integer aliases, as the union lemmas of StructProofs.v need them *)
Lemma alias_enc_Rk k t nm i cm z : lookup tm t = Some (DAlias nm (LInt i) cm) ->
  enc_t (Rk (S k)) t (VInt z) = py_to_bytes (Z.to_nat (it_size i)) (negb (it_unsigned i)) z.
Proof. intros H. cbn [Rk enc_t enc]. now rewrite H. Qed.

Lemma alias_dec_Rk k t nm i cm z b rest : lookup tm t = Some (DAlias nm (LInt i) cm) -> it_unsigned i = true -> 0 < it_size i ->
  py_to_bytes (Z.to_nat (it_size i)) false z = Ok b ->
  dec_t (Rk (S k)) t (b ++ rest) = Ok (VInt z) /\ size_t (Rk (S k)) t (VInt z) = Ok (it_size i).
Proof.
  intros H Hu Hpos Hpy. cbn [Rk dec_t size_t dec size]. rewrite H, Hu. cbn [negb]. split; [|reflexivity].
  destruct (py_int_roundtrip _ _ _ _ rest Hpy) as [Hx Hlen]. rewrite Hx.
  assert (Hr : int_in_range (Z.to_nat (it_size i)) false z = true) by (unfold py_to_bytes in Hpy; destruct (int_in_range _ _ _); [reflexivity|discriminate]).
  unfold OP. cbn [base_value_bad ops_now]. replace (it_size i) with (Z.of_nat (Z.to_nat (it_size i))) at 1 by lia.
  rewrite base_value_bad_spec by lia. now rewrite Hr.
Qed.

(* what the decoder collected is the value's member list *)
Lemma collect_ok R s cls vs (adm_t : string -> value -> Prop) e (covered : list field) :
  NoDup (map f_name (struct_fields_nc s)) ->
  map fst vs = map f_name (settable_fields s) ->
  (forall f, In f (settable_fields s) -> In f covered) ->
  (forall f, In f (settable_fields s) -> member_typed tm (struct_fields_nc s) adm_t (VStruct cls vs) f) ->
  env_ok OP tm R (struct_fields_nc s) covered e (VStruct cls vs) ->
  collect s e = vs.
Proof.
  intros Hnd Hvs Hcov Hty Henv. unfold collect.
  transitivity (map (fun n0 => (n0, match find (fun p => String.eqb (fst p) n0) vs with Some p => snd p | None => VNull end)) (map fst vs));
    [|apply assoc_rebuild; rewrite Hvs; apply settable_names_nodup; exact Hnd].
  rewrite Hvs, map_map. apply map_ext_in. intros f Hf. f_equal.
  pose proof (Hty f Hf) as Htf.
  pose proof (Henv f (Hcov f Hf)) as He.
  destruct (settable_env_entry OP tm R (struct_fields_nc s) adm_t (VStruct cls vs) f (proj2 (settable_filter s f Hf)) Htf) as [Hee [v Hv]].
  rewrite Hee in He. rewrite eget_as_find in He. rewrite vget_as_find in He, Hv.
  destruct (find (fun p => String.eqb (fst p) (f_name f)) e) as [p|], (find (fun p => String.eqb (fst p) (f_name f)) vs) as [q|]; cbn in He, Hv; congruence.
Qed.

Section OneLevel.
Variable n : nat.
Variable k' : nat.
Hypothesis Hsub : forall t' v' b' rest', admf n t' v' -> enc_t (Rk k') t' v' = Ok b' ->
  dec_any tm (Rk k') t' (b' ++ rest') = Ok v' /\ size_t (Rk k') t' v' = Ok (Z.of_nat (length b')) /\ (0 < length b')%nat.
Hypothesis Hpos : forall t' v' sz, admf n t' v' -> size_t (Rk k') t' v' = Ok sz -> 0 < sz.

Hypothesis Hk1 : exists k'', k' = S k''.

Lemma alias_enc' : forall t nm i cm z, lookup tm t = Some (DAlias nm (LInt i) cm) ->
  enc_t (Rk k') t (VInt z) = py_to_bytes (Z.to_nat (it_size i)) (negb (it_unsigned i)) z.
Proof. destruct Hk1 as [k'' ->]. intros. eapply alias_enc_Rk; eassumption. Qed.
Lemma alias_dec' : forall t nm i cm z b rest, lookup tm t = Some (DAlias nm (LInt i) cm) -> it_unsigned i = true -> 0 < it_size i ->
  py_to_bytes (Z.to_nat (it_size i)) false z = Ok b ->
  dec_t (Rk k') t (b ++ rest) = Ok (VInt z) /\ size_t (Rk k') t (VInt z) = Ok (it_size i).
Proof. destruct Hk1 as [k'' ->]. intros. eapply alias_dec_Rk; eassumption. Qed.

Notation loop_rt' := (fun sx allfs => fields_rt OP tm (Rk k') sx allfs size_bad_now order_same_now get_bytes_bad_now size_bad_v_now rv_is_last_now rv_overrun_now align_now (admf n) Hsub Hpos alias_enc' alias_dec').
Notation size_ok' := (fun sx allfs => size_fields_ok OP tm (Rk k') sx allfs align_now (admf n) Hsub Hpos).
Notation size_nonneg' := (fun allfs => size_fields_nonneg OP tm (Rk k') allfs align_now (admf n) Hpos).

Lemma struct_rt_flat cls vs s b rest :
  lookup_struct tm cls = Some s -> s_name s = cls -> flat_struct s -> map fst vs = map f_name (settable_fields s) ->
  (forall f, In f (struct_fields_nc s) -> member_typed tm (struct_fields_nc s) (admf n) (VStruct cls vs) f) ->
  enc OP tm (S (S k')) cls (VStruct cls vs) = Ok b ->
  dec OP tm (S (S k')) cls (b ++ rest) = Ok (VStruct cls vs) /\ size OP tm (S (S k')) cls (VStruct cls vs) = Ok (Z.of_nat (length b)).
Proof.
  intros Hls Hname Hflat Hvs Hty Henc. destruct Hflat as [Hlk Hnb Hns Hconc Hnd Hnosz Hord Hfix Hclosed].
  rewrite enc_struct_value, Hls, enc_struct_S in Henc.
  rewrite (base_none s Hnb), (own_fields_no_base s Hnb) in Henc.
  destruct (size_struct_with OP tm (Rk k') s (VStruct cls vs)) as [total| |] eqn:Hsz; cbn [bind] in Henc; try discriminate.
  set (self := VStruct cls vs) in *. set (allfs := struct_fields_nc s) in *.
  assert (Hnsm : forall f, In f allfs -> not_size_member s f) by (intros f _; unfold not_size_member; now rewrite Hns).
  rewrite (ser_fields_first OP tm (Rk k') s allfs total self allfs Hnsm) in Henc.
  destruct (loop_rt' s allfs allfs [] [] [] self total b rest Hnsm Hord Hnd (fun f Hf => match Hf with end) Hty (or_intror Hclosed) Henc) as (e' & Hloop & Henv & _).
  pose proof (size_ok' s allfs allfs self total b Hty Henc) as Hsize.
  assert (Hcollect : collect s e' = vs).
  { apply (collect_ok (Rk k') s cls vs (admf n) e' allfs Hnd Hvs (settable_sub s) (fun f Hf => Hty f (settable_sub s f Hf))). exact Henv. }
  split.
  - rewrite (dec_struct_type (S k') cls s (b ++ rest)) by (rewrite <- Hname; exact Hlk).
    rewrite (dec_struct_S_no_base k' s (b ++ rest) Hconc (base_none s Hnb)), (own_fields_no_base s Hnb). fold allfs. rewrite Hloop. cbn [bind fst].
    now rewrite Hcollect, Hname.
  - unfold self. rewrite size_struct_value, Hls, size_struct_S, size_struct_with_eq, (base_none s Hnb), (own_fields_no_base s Hnb). exact Hsize.
Qed.

Lemma struct_rt_based cls vs s a f0 i hrest b rest :
  lookup_struct tm cls = Some s -> s_name s = cls -> based_struct s a f0 i hrest -> map fst vs = map f_name (settable_fields s) ->
  (forall f, In f (hrest ++ own_fields tm s) -> member_typed tm (struct_fields_nc s) (admf n) (VStruct cls vs) f) ->
  enc OP tm (S (S k')) cls (VStruct cls vs) = Ok b ->
  dec OP tm (S (S k')) cls (b ++ rest) = Ok (VStruct cls vs) /\ size OP tm (S (S k')) cls (VStruct cls vs) = Ok (Z.of_nat (length b)) /\
  exists e1 ws we, dec_header_with OP tm (Rk k') a (struct_fields_nc s) (b ++ rest) = Ok (e1, ws, we) /\
                   env_ok OP tm (Rk k') (struct_fields_nc s) hrest e1 (VStruct cls vs).
Proof.
  intros Hls Hname Hb Hvs Hty Henc.
  destruct Hb as [Hlk Hbase Hconc Hall Hpar Hnd Hattr_a Hattr_s Hf0n Hf0t Hf0w Hf0u Hf0c Hf0r Hf0s Hord_h Hord_o Hclosed_h].
  rewrite enc_struct_value, Hls, enc_struct_S, Hbase in Henc.
  set (self := VStruct cls vs) in *. set (allfs := struct_fields_nc s) in *. set (own := own_fields tm s) in *.
  set (w := Z.to_nat (it_size i)).
  rewrite Hpar in Henc.
  destruct (size_struct_with OP tm (Rk k') s self) as [total| |] eqn:Hsz; cbn [bind] in Henc; try discriminate.
  (* header: the size member, then the other parent members *)
  rewrite ser_fields_cons in Henc.
  assert (Hser0 : serialize_field OP tm (Rk k') a allfs total self true f0 = py_to_bytes w false total).
  { unfold serialize_field, is_size_first. rewrite Hattr_a, Hf0n, !String.eqb_refl. cbn [andb]. now rewrite Hf0t. }
  rewrite Hser0 in Henc.
  destruct (py_to_bytes w false total) as [szb| |] eqn:Hszb; cbn [bind] in Henc; try discriminate.
  destruct (serialize_fields_go OP tm (Rk k') a allfs total self false hrest) as [hr| |] eqn:Hhr; cbn [bind] in Henc; try discriminate.
  (* names: the size member's name occurs nowhere else *)
  cbn [map] in Hnd. pose proof (NoDup_cons_iff (f_name f0) (map f_name (hrest ++ own_fields tm s))) as Hnd_iff. apply Hnd_iff in Hnd as [Hsize_notin Hnd']. fold own in Hsize_notin, Hnd'.
  assert (Hnsm_h : forall f, In f hrest -> not_size_member a f).
  { intros f Hf. unfold not_size_member. rewrite Hattr_a. apply String.eqb_neq. intros Heq. apply Hsize_notin. rewrite Hf0n, Heq.
    apply in_map, in_or_app. now left. }
  assert (Hnsm_o : forall f, In f own -> not_size_member s f).
  { intros f Hf. unfold not_size_member. rewrite Hattr_s. apply String.eqb_neq. intros Heq. apply Hsize_notin. rewrite Hf0n, Heq.
    apply in_map, in_or_app. now right. }
  rewrite (ser_fields_first OP tm (Rk k') s allfs total self own Hnsm_o) in Henc.
  destruct (serialize_fields_go OP tm (Rk k') s allfs total self false own) as [ob| |] eqn:Hob; cbn [bind] in Henc; try discriminate.
  injection Henc as <-.
  destruct (py_int_roundtrip w false total szb (hr ++ ob ++ rest) Hszb) as [Hx Hlenw].
  (* sizes *)
  pose proof (size_ok' a allfs hrest self total hr (fun f Hf => Hty f (in_or_app _ _ _ (or_introl Hf))) Hhr) as Hsize_h.
  pose proof (size_ok' s allfs own self total ob (fun f Hf => Hty f (in_or_app _ _ _ (or_intror Hf))) Hob) as Hsize_o.
  assert (Htotal : total = Z.of_nat (length ((szb ++ hr) ++ ob))).
  { rewrite size_struct_with_eq, Hbase in Hsz. fold allfs own in Hsz. rewrite Hpar in Hsz. cbn [size_fields] in Hsz.
    rewrite (cond_self_none tm (Rk k') allfs self f0 Hf0c) in Hsz. cbn [bind] in Hsz. unfold member_size in Hsz. rewrite Hf0t in Hsz. cbn [bind] in Hsz.
    rewrite Hsize_h in Hsz. cbn [bind] in Hsz. rewrite Hsize_o in Hsz. cbn [bind] in Hsz. injection Hsz as <-.
    rewrite !app_length, Hlenw. unfold w. lia. }
  (* decode: the parent header with its window, then the own members *)
  assert (Hload0 : load_field OP tm (Rk k') a allfs [] f0 (((szb ++ hr) ++ ob) ++ rest) = Ok (VInt total, hr ++ ob)).
  { unfold load_field. rewrite Hf0t, Hattr_a, Hf0n, String.eqb_refl, Hf0r, Hf0u. cbn [negb]. fold w.
    replace (((szb ++ hr) ++ ob) ++ rest) with (szb ++ hr ++ ob ++ rest) by (now rewrite <- !app_assoc).
    rewrite Hx. f_equal. f_equal.
    replace (szb ++ hr ++ ob ++ rest) with (((szb ++ hr) ++ ob) ++ rest) by (now rewrite <- !app_assoc).
    rewrite Htotal, zfirstn_app, <- !app_assoc. apply skipn_app_exact. exact Hlenw. }
  destruct (loop_rt' a allfs hrest [] ["size"] [("size", VInt total)] self total hr ob Hnsm_h Hord_h
              ltac:(cbn [app]; rewrite map_app in Hnd'; exact (nodup_app_l _ _ Hnd'))
              (fun f Hf => match Hf with end) (fun f Hf => Hty f (in_or_app _ _ _ (or_introl Hf))) (or_intror Hclosed_h) Hhr) as (e1 & Hloop_h & Henv_h & Hkeep_h).
  assert (Hsize_env : eget e1 "size" = Some (VInt total)).
  { rewrite Hkeep_h; [apply eget_cons_eq|]. intros Hin. apply Hsize_notin. rewrite Hf0n, map_app. apply in_or_app. now left. }
  assert (Hheader : dec_header_with OP tm (Rk k') a allfs (((szb ++ hr) ++ ob) ++ rest) = Ok (e1, total - Z.of_nat (length ob), total)).
  { unfold dec_header_with. rewrite Hpar. cbn [deserialize_loop]. rewrite Hf0c. unfold deserialize_field.
    rewrite (cond_local_none tm allfs [] f0 Hf0c). cbn [bind]. rewrite Hload0. cbn [bind fst snd find drain_queue]. rewrite Hf0n, Hloop_h. cbn [bind fst snd existsb].
    rewrite Hf0n, String.eqb_refl. cbn [orb]. now rewrite Hsize_env. }
  cbn [app] in Henv_h.
  destruct (loop_rt' s allfs own hrest [] e1 self total ob [] Hnsm_o Hord_o Hnd' Henv_h (fun f Hf => Hty f (in_or_app _ _ _ (or_intror Hf))) (or_introl eq_refl) Hob) as (e2 & Hloop_o & Henv_o & _).
  assert (Hsettable : forall f, In f (settable_fields s) -> In f (hrest ++ own)).
  { intros f Hf. unfold settable_fields in Hf. fold (struct_fields_nc s) in Hf. fold allfs in Hf.
    assert (Hfl : filter (is_settable allfs) allfs = f0 :: filter (is_settable allfs) (hrest ++ own)).
    { rewrite Hall at 2. cbn [filter]. now rewrite Hf0s. }
    rewrite Hfl in Hf. cbn [drop_first_size] in Hf. rewrite Hf0n, String.eqb_refl in Hf. apply filter_In in Hf. tauto. }
  assert (Hcollect : collect s e2 = vs).
  { apply (collect_ok (Rk k') s cls vs (admf n) e2 (hrest ++ own)).
    - fold allfs. rewrite Hall. cbn [map]. constructor; assumption.
    - exact Hvs.
    - exact Hsettable.
    - intros f Hf. apply Hty, Hsettable, Hf.
    - exact Henv_o. }
  split.
  - rewrite (dec_struct_type (S k') cls s) by (rewrite <- Hname; exact Hlk).
    rewrite (dec_struct_S_base k' s a _ Hconc Hbase). fold allfs own. rewrite Hheader. cbn [bind].
    replace (zskipn (total - Z.of_nat (length ob)) (zfirstn total (((szb ++ hr) ++ ob) ++ rest))) with (ob ++ []).
    2:{ rewrite Htotal at 2. rewrite zfirstn_app, app_nil_r.
        replace (total - Z.of_nat (length ob)) with (Z.of_nat (length (szb ++ hr))) by (rewrite Htotal, !app_length; lia).
        now rewrite zskipn_app. }
    rewrite Hloop_o. cbn [bind fst]. now rewrite Hcollect, Hname.
  - split; [unfold self; rewrite size_struct_value, Hls, size_struct_S; fold self; rewrite Hsz; f_equal; exact Htotal|].
    exists e1, (total - Z.of_nat (length ob)), total. split; [exact Hheader | exact Henv_h].
Qed.

Lemma struct_rt_nosize cls vs s a hfs b rest :
  lookup_struct tm cls = Some s -> s_name s = cls -> based_nosize_struct s a hfs -> map fst vs = map f_name (settable_fields s) ->
  (forall f, In f (struct_fields_nc s) -> member_typed tm (struct_fields_nc s) (admf n) (VStruct cls vs) f) ->
  enc OP tm (S (S k')) cls (VStruct cls vs) = Ok b ->
  dec OP tm (S (S k')) cls (b ++ rest) = Ok (VStruct cls vs) /\ size OP tm (S (S k')) cls (VStruct cls vs) = Ok (Z.of_nat (length b)) /\
  exists e1 ws we, dec_header_with OP tm (Rk k') a (struct_fields_nc s) (b ++ rest) = Ok (e1, ws, we) /\
                   env_ok OP tm (Rk k') (struct_fields_nc s) hfs e1 (VStruct cls vs).
Proof.
  intros Hls Hname Hb Hvs Hty Henc.
  destruct Hb as [Hlk Hbase Hconc Hall Hpar Hnd Hattr_a Hattr_s Hnosz Hord_h Hord_o Hfix Hclosed].
  rewrite enc_struct_value, Hls, enc_struct_S, Hbase in Henc.
  set (self := VStruct cls vs) in *. set (allfs := struct_fields_nc s) in *. set (own := own_fields tm s) in *.
  rewrite Hpar in Henc.
  destruct (size_struct_with OP tm (Rk k') s self) as [total| |] eqn:Hsz; cbn [bind] in Henc; try discriminate.
  assert (Hty_h : forall f, In f hfs -> member_typed tm allfs (admf n) self f) by (intros f Hf; apply Hty; rewrite Hall; apply in_or_app; now left).
  assert (Hty_o : forall f, In f own -> member_typed tm allfs (admf n) self f) by (intros f Hf; apply Hty; rewrite Hall; apply in_or_app; now right).
  assert (Hnsm_h : forall f, In f hfs -> not_size_member a f) by (intros f _; unfold not_size_member; now rewrite Hattr_a).
  assert (Hnsm_o : forall f, In f own -> not_size_member s f) by (intros f _; unfold not_size_member; now rewrite Hattr_s).
  rewrite (ser_fields_first OP tm (Rk k') a allfs total self hfs Hnsm_h) in Henc.
  rewrite (ser_fields_first OP tm (Rk k') s allfs total self own Hnsm_o) in Henc.
  destruct (serialize_fields_go OP tm (Rk k') a allfs total self false hfs) as [hb| |] eqn:Hhb; cbn [bind] in Henc; try discriminate.
  destruct (serialize_fields_go OP tm (Rk k') s allfs total self false own) as [ob| |] eqn:Hob; cbn [bind] in Henc; try discriminate.
  injection Henc as <-.
  pose proof (size_ok' a allfs hfs self total hb Hty_h Hhb) as Hsize_h.
  pose proof (size_ok' s allfs own self total ob Hty_o Hob) as Hsize_o.
  assert (Htotal : total = Z.of_nat (length (hb ++ ob))).
  { rewrite size_struct_with_eq, Hbase in Hsz. fold allfs own in Hsz. rewrite Hpar, Hsize_h in Hsz. cbn [bind] in Hsz. rewrite Hsize_o in Hsz. cbn [bind] in Hsz.
    injection Hsz as <-. rewrite app_length. lia. }
  assert (Hclosed_h : forall f, In f hfs -> ~ fill_member tm allfs f) by (intros f Hf; apply Hclosed; change (In f allfs); rewrite Hall; apply in_or_app; now left).
  assert (Hclosed_o : forall f, In f own -> ~ fill_member tm allfs f) by (intros f Hf; apply Hclosed; change (In f allfs); rewrite Hall; apply in_or_app; now right).
  destruct (loop_rt' a allfs hfs [] [] [] self total hb (ob ++ rest) Hnsm_h Hord_h
              ltac:(cbn [app]; rewrite map_app in Hnd; exact (nodup_app_l _ _ Hnd))
              (fun f Hf => match Hf with end) Hty_h (or_intror Hclosed_h) Hhb) as (e1 & Hloop_h & Henv_h & _).
  cbn [app] in Henv_h.
  destruct (loop_rt' s allfs own hfs [] e1 self total ob rest Hnsm_o Hord_o Hnd Henv_h Hty_o (or_intror Hclosed_o) Hob) as (e2 & Hloop_o & Henv_o & _).
  assert (Hhas : existsb (fun f => String.eqb (f_name f) "size") hfs = false).
  { destruct (existsb (fun f => String.eqb (f_name f) "size") hfs) eqn:Hex; [|reflexivity]. exfalso.
    apply existsb_exists in Hex as (f & Hf & Heq). apply String.eqb_eq in Heq.
    apply (Hnosz f); [fold allfs; rewrite Hall; apply in_or_app; now left | exact Heq]. }
  assert (Hheader : dec_header_with OP tm (Rk k') a allfs ((hb ++ ob) ++ rest) =
                    Ok (e1, Z.of_nat (length ((hb ++ ob) ++ rest)) - Z.of_nat (length (ob ++ rest)), Z.of_nat (length ((hb ++ ob) ++ rest)))).
  { unfold dec_header_with. rewrite Hpar, <- app_assoc, Hloop_h. cbn [bind fst snd]. now rewrite Hhas. }
  assert (Hnd_all : NoDup (map f_name allfs)) by (rewrite Hall; exact Hnd).
  assert (Hcollect : collect s e2 = vs).
  { apply (collect_ok (Rk k') s cls vs (admf n) e2 (hfs ++ own) Hnd_all Hvs).
    - intros f Hf. apply settable_sub in Hf. change (In f allfs) in Hf. now rewrite Hall in Hf.
    - intros f Hf. apply Hty, settable_sub, Hf.
    - exact Henv_o. }
  split.
  - rewrite (dec_struct_type (S k') cls s) by (rewrite <- Hname; exact Hlk).
    rewrite (dec_struct_S_base k' s a _ Hconc Hbase). fold allfs own. rewrite Hheader. cbn [bind].
    replace (zskipn _ (zfirstn _ ((hb ++ ob) ++ rest))) with (ob ++ rest).
    2:{ unfold zfirstn at 1. rewrite Z.leb_refl. rewrite <- app_assoc.
        replace (Z.of_nat (length (hb ++ ob ++ rest)) - Z.of_nat (length (ob ++ rest))) with (Z.of_nat (length hb)) by (rewrite !app_length; lia).
        now rewrite zskipn_app. }
    rewrite Hloop_o. cbn [bind fst]. now rewrite Hcollect, Hname.
  - split; [unfold self; rewrite size_struct_value, Hls, size_struct_S; fold self; rewrite Hsz; f_equal; exact Htotal|].
    eexists e1, _, _. split; [exact Hheader | exact Henv_h].
Qed.

(* the size of an admissible struct value is positive whenever it is defined *)
Lemma struct_size_pos cls vs s sz :
  lookup_struct tm cls = Some s -> struct_ok s ->
  (forall f, In f (typed_members s) -> member_typed tm (struct_fields_nc s) (admf n) (VStruct cls vs) f) ->
  size OP tm (S (S k')) cls (VStruct cls vs) = Ok sz -> 0 < sz.
Proof.
  intros Hls Hok Hty Hsz. rewrite size_struct_value, Hls, size_struct_S, size_struct_with_eq in Hsz. unfold typed_members in Hty.
  set (self := VStruct cls vs) in *. set (allfs := struct_fields_nc s) in *.
  destruct Hok as [Hflat|[(a & f0 & i & hrest & Hb)|(a & hfs & Hb)]].
  - destruct Hflat as [Hlk Hnb Hns Hconc Hnd Hnosz Hord Hfix Hclosed]. rewrite (base_none s Hnb) in Hsz, Hty. rewrite (own_fields_no_base s Hnb) in Hsz.
    exact (proj2 (size_nonneg' allfs allfs self sz Hty Hsz) Hfix).
  - destruct Hb as [Hlk Hbase Hconc Hall Hpar Hnd Hattr_a Hattr_s Hf0n Hf0t Hf0w Hf0u Hf0c Hf0r Hf0s Hord_h Hord_o Hclosed_h].
    rewrite Hbase in Hsz, Hty. rewrite Hattr_a in Hty. fold allfs in Hall. rewrite Hpar in Hsz.
    assert (Hty' : forall f, In f (hrest ++ own_fields tm s) -> member_typed tm allfs (admf n) self f) by (intros f Hf; apply Hty; rewrite Hall; exact Hf).
    clear Hty. rename Hty' into Hty.
    cbn [size_fields] in Hsz. rewrite (cond_self_none tm (Rk k') allfs self f0 Hf0c) in Hsz. cbn [bind] in Hsz. unfold member_size in Hsz. rewrite Hf0t in Hsz. cbn [bind] in Hsz.
    destruct (size_fields OP tm (Rk k') allfs self hrest) as [x| |] eqn:Hx; cbn [bind] in Hsz; try discriminate.
    destruct (size_fields OP tm (Rk k') allfs self (own_fields tm s)) as [y| |] eqn:Hy; cbn [bind] in Hsz; try discriminate.
    injection Hsz as <-.
    pose proof (proj1 (size_nonneg' allfs hrest self x (fun f Hf => Hty f (in_or_app _ _ _ (or_introl Hf))) Hx)).
    pose proof (proj1 (size_nonneg' allfs (own_fields tm s) self y (fun f Hf => Hty f (in_or_app _ _ _ (or_intror Hf))) Hy)). lia.
  - destruct Hb as [Hlk Hbase Hconc Hall Hpar Hnd Hattr_a Hattr_s Hnosz Hord_h Hord_o Hfix Hclosed].
    rewrite Hbase in Hsz, Hty. rewrite Hattr_a in Hty. fold allfs in Hall. rewrite Hpar in Hsz.
    assert (Hty' : forall f, In f allfs -> member_typed tm allfs (admf n) self f) by (intros f Hf; apply Hty; destruct allfs; exact Hf).
    destruct (size_fields OP tm (Rk k') allfs self hfs) as [x| |] eqn:Hx; cbn [bind] in Hsz; try discriminate.
    destruct (size_fields OP tm (Rk k') allfs self (own_fields tm s)) as [y| |] eqn:Hy; cbn [bind] in Hsz; try discriminate.
    injection Hsz as <-.
    destruct (size_nonneg' allfs hfs self x (fun f Hf => Hty' f ltac:(rewrite Hall; apply in_or_app; now left)) Hx) as [Hx0 Hxp].
    destruct (size_nonneg' allfs (own_fields tm s) self y (fun f Hf => Hty' f ltac:(rewrite Hall; apply in_or_app; now right)) Hy) as [Hy0 Hyp].
    destruct Hfix as (f & Hin & Hp). change (In f allfs) in Hin. rewrite Hall in Hin. apply in_app_or in Hin as [Hin|Hin].
    + specialize (Hxp (ex_intro _ f (conj Hin Hp))). lia.
    + specialize (Hyp (ex_intro _ f (conj Hin Hp))). lia.
Qed.

End OneLevel.

Theorem RT_all : forall n, RT n.
Proof.
  induction n as [|n IH]; intros k Hk t v Hadm.
  - destruct v; try (cbn in Hadm; contradiction); (apply RT_leaf; [lia | exact I | exact Hadm]).
  - destruct v as [z|bs|l|cls vs|]; try (cbn in Hadm; contradiction).
    + apply RT_leaf; [lia | exact I | eapply admf_leaf_any; [exact I | exact Hadm]].
    + apply RT_leaf; [lia | exact I | eapply admf_leaf_any; [exact I | exact Hadm]].
    + cbn [admf] in Hadm. destruct (lookup_struct tm cls) as [s|] eqn:Hls; [|contradiction].
      destruct Hadm as (Hname & Hok & Hvs & Hty & Hstat).
      destruct k as [|[|[|k'']]]; try lia. set (k' := S k'') in *.
      assert (Hk1 : exists k0, k' = S k0) by (now exists k'').
      assert (Hsub : forall t' v' b' rest', admf n t' v' -> enc_t (Rk k') t' v' = Ok b' ->
                 dec_any tm (Rk k') t' (b' ++ rest') = Ok v' /\ size_t (Rk k') t' v' = Ok (Z.of_nat (length b')) /\ (0 < length b')%nat).
      { intros t' v' b' rest' Ha He. cbn [Rk enc_t size_t] in *. exact (proj1 (IH k' ltac:(lia) t' v' Ha) b' rest' He). }
      assert (Hpos : forall t' v' sz, admf n t' v' -> size_t (Rk k') t' v' = Ok sz -> 0 < sz).
      { intros t' v' sz Ha Hs. cbn [Rk size_t] in Hs. exact (proj2 (IH k' ltac:(lia) t' v' Ha) sz Hs). }
      pose proof (struct_size_pos n k' Hpos cls vs s) as Hsp.
      assert (Hnabs : is_abs tm cls = false).
      { unfold is_abs. rewrite Hls. pose proof (struct_ok_concrete s Hok). destruct (s_disp s); try reflexivity; congruence. }
      assert (Hrt : forall b rest, enc OP tm (S (S k')) cls (VStruct cls vs) = Ok b ->
                dec_any tm (Rk (S (S k'))) t (b ++ rest) = Ok (VStruct cls vs) /\ size OP tm (S (S k')) cls (VStruct cls vs) = Ok (Z.of_nat (length b))).
      { intros b rest Henc. destruct Hok as [Hflat|[(a & f0 & i & hrest & Hbased)|(a & hfs & Hbn)]].
        * assert (Hty' : forall f, In f (struct_fields_nc s) -> member_typed tm (struct_fields_nc s) (admf n) (VStruct cls vs) f).
          { intros f Hf. apply Hty. unfold typed_members. now rewrite (base_none s (fs_no_base s Hflat)). }
          destruct (struct_rt_flat n k' Hsub Hpos Hk1 cls vs s b rest Hls Hname Hflat Hvs Hty' Henc) as [Hd Hs]. split; [|exact Hs].
          destruct Hstat as [->|(a & Hfo & _)]; [unfold dec_any; rewrite Hnabs; exact Hd|].
          exfalso. pose proof (fs_no_base s Hflat) as H1. pose proof (fo_ft _ _ _ Hfo) as H2. congruence.
        * assert (Hty' : forall f, In f (hrest ++ own_fields tm s) -> member_typed tm (struct_fields_nc s) (admf n) (VStruct cls vs) f).
          { intros f Hf. apply Hty. unfold typed_members. rewrite (bs_base _ _ _ _ _ Hbased), (bs_attr_a _ _ _ _ _ Hbased), (bs_all _ _ _ _ _ Hbased). exact Hf. }
          destruct (struct_rt_based n k' Hsub Hpos Hk1 cls vs s a f0 i hrest b rest Hls Hname Hbased Hvs Hty' Henc) as (Hd & Hs & e1 & ws & we & Hh & Henv).
          split; [|exact Hs].
          destruct Hstat as [->|(a' & Hfo & Hpick)]; [unfold dec_any; rewrite Hnabs; exact Hd|].
          assert (a' = a).
          { pose proof (bs_base _ _ _ _ _ Hbased) as H1. unfold base_struct in H1. rewrite (fo_ft _ _ _ Hfo), (fo_parent _ _ _ Hfo) in H1. congruence. }
          subst a'. unfold dec_any, is_abs. rewrite (fo_parent _ _ _ Hfo), (fo_abs _ _ _ Hfo). cbn [Rk decf_t].
          rewrite (decf_via_dec k' t a s cls (VStruct cls vs) (b ++ rest) e1 ws we hrest Hfo ltac:(rewrite <- Hname; exact (bs_lookup _ _ _ _ _ Hbased)) Hh Henv); [exact Hd| |exact Hpick].
          intros f Hf Hns. rewrite (bs_parent _ _ _ _ _ Hbased) in Hf. destruct Hf as [<-|Hf]; [|exact Hf].
          exfalso. apply Hns. exact (bs_f0_name _ _ _ _ _ Hbased).
        * assert (Hty' : forall f, In f (struct_fields_nc s) -> member_typed tm (struct_fields_nc s) (admf n) (VStruct cls vs) f).
          { intros f Hf. apply Hty. unfold typed_members. rewrite (bn_base _ _ _ Hbn), (bn_attr_a _ _ _ Hbn). exact Hf. }
          destruct (struct_rt_nosize n k' Hsub Hpos Hk1 cls vs s a hfs b rest Hls Hname Hbn Hvs Hty' Henc) as (Hd & Hs & e1 & ws & we & Hh & Henv).
          split; [|exact Hs].
          destruct Hstat as [->|(a' & Hfo & Hpick)]; [unfold dec_any; rewrite Hnabs; exact Hd|].
          assert (a' = a).
          { pose proof (bn_base _ _ _ Hbn) as H1. unfold base_struct in H1. rewrite (fo_ft _ _ _ Hfo), (fo_parent _ _ _ Hfo) in H1. congruence. }
          subst a'. unfold dec_any, is_abs. rewrite (fo_parent _ _ _ Hfo), (fo_abs _ _ _ Hfo). cbn [Rk decf_t].
          rewrite (decf_via_dec k' t a s cls (VStruct cls vs) (b ++ rest) e1 ws we hfs Hfo ltac:(rewrite <- Hname; exact (bn_lookup _ _ _ Hbn)) Hh Henv); [exact Hd| |exact Hpick].
          intros f Hf _. now rewrite (bn_parent _ _ _ Hbn) in Hf. }
      split.
      * intros b rest Henc. rewrite enc_static_irrel in Henc. rewrite size_static_irrel. destruct (Hrt b rest Henc) as [Hd Hs]. repeat split; [exact Hd | exact Hs|].
        pose proof (Hsp (Z.of_nat (length b)) Hls Hok Hty Hs). lia.
      * intros sz Hs. rewrite size_static_irrel in Hs. exact (Hsp sz Hls Hok Hty Hs).
Qed.

(* corollaries in the two shapes the codecs have *)
Theorem RT_dec : forall n k t v b rest, (2 * n + 1 <= k)%nat -> adm n t v -> enc OP tm k t v = Ok b ->
  dec OP tm k t (b ++ rest) = Ok v /\ size OP tm k t v = Ok (Z.of_nat (length b)) /\ (0 < length b)%nat.
Proof.
  intros n k t v b rest Hk [Hadm Hna] Henc. pose proof (proj1 (RT_all n k Hk t v Hadm) b rest Henc) as H.
  unfold dec_any in H. rewrite Hna in H. exact H.
Qed.

Theorem RT_decf : forall n k t v b rest, (2 * n + 1 <= k)%nat -> admf n t v -> is_abs tm t = true -> enc OP tm k t v = Ok b ->
  decf OP tm k t (b ++ rest) = Ok v /\ size OP tm k t v = Ok (Z.of_nat (length b)) /\ (0 < length b)%nat.
Proof.
  intros n k t v b rest Hk Hadm Ha Henc. pose proof (proj1 (RT_all n k Hk t v Hadm) b rest Henc) as H.
  unfold dec_any in H. rewrite Ha in H. exact H.
Qed.

End Flat.
