(* Re-encoding of decoded values, part 2: what the member loops of deserialize leave in their environment when the buffer consists of
   bytes (entry_good: integers in range of their width, reserved members equal to their constant, byte arrays no longer than their
   size member, the array readers' own runs, whatever is known of decoded named members), member by member (load_good, field_good,
   arm_field_good) and for member lists (loop_good, drain_good, fields_good: ordinary lists or one union block at the front).
   Same structure as StructStable.v, with the buffer's well-formedness threaded through. *)
From Symv Require Import Base.Bytes Base.PyOps Base.BytesLemmas Cats.Layout Cats.LayoutInst Cats.LayoutProofs Cats.ArrayProofs Cats.LayoutLaws
  Cats.LayoutInstProofs Cats.StructProofs Cats.StructStable Cats.StructReencode.
From Coq Require Import Lia ZifyBool Permutation.
Open Scope string_scope.
Open Scope list_scope.
Open Scope Z_scope.

Definition inr (i : intty) (z : Z) : Prop := int_in_range (Z.to_nat (it_size i)) (negb (it_unsigned i)) z = true.
Definition has_key (a : array) : bool := match a_sort_key a with Some _ => true | None => false end.

Ltac conjs := repeat match goal with |- _ /\ _ => split; [assumption|] end; assumption.

Section Good.
Variable tm : list decl.
Variable R : rec_ops.
Variable s : struct.
Variable allfs : list field.
Let OP := ops_now.

(* what is known of a value decoded from bytes by the codecs one level down *)
Variable G_t : string -> value -> Prop.
Hypothesis dec_good : forall t buf v, wf_bytes buf = true -> dec_any tm R t buf = Ok v -> G_t t v.
Hypothesis G_alias : forall t nm i cm v, lookup tm t = Some (DAlias nm (LInt i) cm) -> G_t t v -> exists x, v = VInt x.

Notation load := (load_field OP tm R s allfs).
Notation des_field := (deserialize_field OP tm R s allfs).
Notation des_loop := (deserialize_loop OP tm R s allfs).
Notation classify' := (classify tm allfs).

Definition arr_good (a : array) (l : list value) : Prop :=
  (length l <= array_fuel)%nat /\ forall et, elem_name a = Some et -> Forall (G_t et) l.

Lemma elem_dec_good a et view e : elem_name a = Some et -> wf_bytes view = true -> elem_dec tm R a view = Ok e -> G_t et e.
Proof.
  intros Het Hwf H. unfold elem_dec in H. rewrite Het in H. apply (dec_good et view); [exact Hwf|]. unfold dec_any, is_abs.
  unfold contents_abstract in H. rewrite Het in H. exact H.
Qed.

Definition counted_run (a : array) (x : Z) (l : list value) : Prop :=
  exists view fuel, read_array_go OP tm R a (has_key a) fuel (StopCount x) 0 None view = Ok l.
Definition fill_run (a : array) (l : list value) : Prop :=
  exists view fuel, read_array_go OP tm R a false fuel StopEmpty 0 None view = Ok l.
Definition var_run (a : array) (bound : option Z) (l : list value) : Prop :=
  exists view fuel, read_variable OP tm R a fuel view = Ok l /\ match bound with Some x => Z.of_nat (length view) <= Z.max 0 x | None => True end.

Lemma load_good e f buf v buf1 : wf_bytes buf = true -> load e f buf = Ok (v, buf1) ->
  wf_bytes buf1 = true /\
  match f_type f with
  | FInt i => exists z, v = VInt z /\ (0 < it_size i -> inr i z) /\ (is_reserved f = true -> f_value f = VNum z)
  | FName t => G_t t v
  | FArray a =>
    if is_byte_array a then
      exists b, v = VBytes b /\ forall nm, a_size a = SzName nm -> exists x, eget e nm = Some (VInt x) /\ 0 <= Z.of_nat (length b) <= Z.max 0 x
    else exists l, v = VArr l /\ arr_good a l /\
         match a_size a with
         | SzName nm => exists x, eget e nm = Some (VInt x) /\ if is_variable_size tm a then var_run a (Some x) l else counted_run a x l
         | SzFill => if is_variable_size tm a then var_run a None l else fill_run a l
         | SzNum _ => True
         end
  end.
Proof.
  intros Hwf H. unfold load_field in H. destruct (f_type f) as [i|t|a]; cbv zeta in H.
  - set (w := Z.to_nat (it_size i)) in *. set (x := py_from_bytes w (negb (it_unsigned i)) buf) in *.
    assert (Hr : 0 < it_size i -> inr i x) by (intros Hp; unfold inr; apply from_bytes_in_range; [exact Hwf | lia]).
    assert (Hrest : wf_bytes (if match struct_size_attr s with Some n => String.eqb n (f_name f) | None => false end
                              then skipn w (zfirstn x buf) else skipn w buf) = true).
    { destruct (match struct_size_attr s with Some n => String.eqb n (f_name f) | None => false end); [apply wf_skipn, wf_zfirstn, Hwf | apply wf_skipn, Hwf]. }
    destruct (is_reserved f).
    + destruct (f_value f) as [|n| |]; try discriminate. destruct (x =? n) eqn:Hx; [|discriminate]. injection H as <- <-.
      split; [exact Hrest|]. exists x. split; [reflexivity|]. split; [exact Hr|]. intros _. f_equal. lia.
    + injection H as <- <-. split; [exact Hrest|]. exists x. split; [reflexivity|]. split; [exact Hr | discriminate].
  - match type of H with match ?lbx with _ => _ end = _ => destruct lbx as [lb|] eqn:Hlb; [|discriminate] end.
    assert (Hlbwf : wf_bytes lb = true).
    { destruct (size_fields_of allfs f) as [|sf [|]]; try discriminate.
      - now injection Hlb as <-.
      - destruct (eget e (f_name sf)) as [[n| | | |]|]; try discriminate. injection Hlb as <-. now apply wf_zfirstn. }
    inv_ok H. injection H as <- <-. split; [now apply wf_zskipn|]. apply (dec_good t lb _ Hlbwf). unfold dec_any, is_abs. exact E.
  - destruct (is_byte_array a).
    + inv_ok H. injection H as <- <-. split; [now apply wf_zskipn|].
      unfold get_bytes in E0. change (get_bytes_bad OP a0 (Z.of_nat (length buf))) with (Z.of_nat (length buf) <? a0) in E0.
      inv_ok E0. injection E0 as <-.
      eexists. split; [reflexivity|]. intros nm Hn. rewrite Hn in E. unfold size_local in E.
      destruct (eget e nm) as [[x| | | |]|]; try discriminate. injection E as ->. exists a0. split; [reflexivity|].
      pose proof (zfirstn_length a0 buf). lia.
    + destruct (match a_size a with SzNum n => Ok (Some n) | SzName n => bind (size_local e n) (fun z => Ok (Some z)) | SzFill => Ok None end) as [sz| |] eqn:Hsz;
        cbn [bind] in H; try discriminate.
      match type of H with bind ?rd _ = _ => destruct rd as [l| |] eqn:Hrd; cbn [bind] in H; try discriminate end.
      match type of H with bind ?ad _ = _ => destruct ad as [adv| |] eqn:Had; cbn [bind] in H; try discriminate end.
      injection H as <- <-. split; [now apply wf_zskipn|]. exists l. split; [reflexivity|].
      assert (Hvw : forall o, wf_bytes (match o with Some n => zfirstn n buf | None => buf end) = true) by (intros [n|]; [now apply wf_zfirstn | exact Hwf]).
      assert (Hgood : arr_good a l).
      { destruct (is_variable_size tm a).
        - destruct (read_var_good tm R a (fun e0 => forall et, elem_name a = Some et -> G_t et e0)
                      (fun view e0 Hv He et Het => elem_dec_good a et view e0 Het Hv He) _ _ _ (Hvw sz) Hrd) as [Hall Hlen].
          split; [exact Hlen|]. intros et Het. rewrite Forall_forall in Hall |- *. intros e0 He0. exact (Hall e0 He0 et Het).
        - assert (Hx : exists ua rule, read_array_go OP tm R a ua array_fuel rule 0 None buf = Ok l) by (destruct sz; eauto).
          destruct Hx as (ua & rule & Hx).
          destruct (read_go_good tm R a (fun e0 => forall et, elem_name a = Some et -> G_t et e0)
                      (fun view e0 Hv He et Het => elem_dec_good a et view e0 Het Hv He) _ _ _ _ _ _ _ Hwf Hx) as [Hall Hlen].
          split; [exact Hlen|]. intros et Het. rewrite Forall_forall in Hall |- *. intros e0 He0. exact (Hall e0 He0 et Het). }
      split; [exact Hgood|].
      destruct (a_size a) as [n|nm|].
      * exact I.
      * unfold size_local in Hsz. destruct (eget e nm) as [[x| | | |]|]; try discriminate. cbn [bind] in Hsz. injection Hsz as <-.
        exists x. split; [reflexivity|]. destruct (is_variable_size tm a).
        -- exists (zfirstn x buf), array_fuel. split; [exact Hrd | exact (proj1 (zfirstn_length x buf))].
        -- exists buf, array_fuel. exact Hrd.
      * injection Hsz as <-. destruct (is_variable_size tm a); [exists buf, array_fuel; now split | exists buf, array_fuel; exact Hrd].
Qed.

Definition entry_good (k : mkind) (e : env) (v : value) : Prop :=
  match k with
  | MkInt i | MkCount i _ | MkCountCond i _ _ | MkSizeof i _ _ | MkComputed i _ _ _ | MkByteSize i _ => exists z, v = VInt z /\ (0 < it_size i -> inr i z)
  | MkReserved i n => v = VInt n /\ (0 < it_size i -> inr i n)
  | MkNamed t | MkNamedSized t _ => G_t t v
  | MkBytes nm => exists b x, v = VBytes b /\ eget e nm = Some (VInt x) /\ 0 <= Z.of_nat (length b) <= Z.max 0 x
  | MkArray a nm => exists l x, v = VArr l /\ arr_good a l /\ eget e nm = Some (VInt x) /\ counted_run a x l
  | MkVarSized a nm => exists l x, v = VArr l /\ arr_good a l /\ eget e nm = Some (VInt x) /\ var_run a (Some x) l
  | MkFillPlain a => exists l, v = VArr l /\ arr_good a l /\ fill_run a l
  | MkFillVar a => exists l, v = VArr l /\ arr_good a l /\ var_run a None l
  | MkCondNamed t _ => v = VNull \/ G_t t v
  | MkCondBytes nm y => (v = VNull /\ eget e nm = Some (VInt y)) \/
                        (exists b x, v = VBytes b /\ eget e nm = Some (VInt x) /\ 0 <= Z.of_nat (length b) <= Z.max 0 x)
  | MkArm t ln y _ _ => exists z, eget e ln = Some (VInt z) /\ ((y = z /\ (exists x, v = VInt x) /\ G_t t v) \/ (y <> z /\ v = VNull))
  end.

Lemma field_good e f buf x k : wf_bytes buf = true -> classify' f = Some k -> is_armk k = false -> des_field e f buf = Ok x ->
  exists v, fst x = (f_name f, v) :: e /\ entry_good k e v /\ wf_bytes (snd x) = true.
Proof.
  intros Hwf Hk Hna H. pose proof (kind_ftype_ok tm allfs f k Hk) as Hft. pose proof (classify_cond tm allfs f k Hk) as Hc.
  pose proof (classify_facts tm allfs f k Hk) as F.
  unfold deserialize_field in H.
  assert (Hplain : f_cond f = None -> exists v b1, load e f buf = Ok (v, b1) /\ fst x = (f_name f, v) :: e /\ snd x = b1).
  { intros Hc'. rewrite (cond_local_none tm allfs e f Hc') in H. cbn [bind] in H. inv_ok H. destruct a as [v b1]. injection H as <-. now exists v, b1. }
  destruct k; cbn [is_armk] in Hna; try discriminate; cbn [kind_ftype entry_good kind_facts] in *;
    try (destruct (Hplain Hc) as (v & b1 & Hl & Hx & Hb1); exists v; rewrite Hb1; apply (load_good e f buf v b1 Hwf) in Hl; destruct Hl as [Hwf1 Hl];
         split; [exact Hx|]; split; [|exact Hwf1]).
  - rewrite Hft in Hl. destruct Hl as (z & Hz & Hr & _). eauto.
  - rewrite Hft in Hl. destruct Hl as (z & Hz & Hr & Hres). destruct F as (_ & _ & _ & Hisr & _ & _ & Hv).
    specialize (Hres Hisr). rewrite Hv in Hres. injection Hres as ->. now split.
  - rewrite Hft in Hl. destruct Hl as (z & Hz & Hr & _). eauto.
  - rewrite Hft in Hl. destruct Hl as (z & Hz & Hr & _). eauto.
  - rewrite Hft in Hl. exact Hl.
  - destruct Hft as (a & Hft & Hba & Has). rewrite Hft, Hba in Hl. destruct Hl as (b & -> & Hn). destruct (Hn n Has) as (x0 & Hx0 & Hlen). eauto.
  - destruct Hft as [Hft Hba]. rewrite Hft, Hba in Hl. destruct Hl as (l & -> & Hg & Hrun).
    destruct F as (_ & _ & _ & Has & _ & Hvs & _). rewrite Has, Hvs in Hrun. destruct Hrun as (x0 & Hx0 & Hrun). exists l, x0. split; [reflexivity|]. conjs.
  - rewrite Hft in Hl. destruct Hl as (z & Hz & Hr & _). eauto.
  - rewrite Hft in Hl. exact Hl.
  - rewrite Hft in Hl. destruct Hl as (z & Hz & Hr & _). eauto.
  - (* MkCondNamed *)
    inv_ok H.
    + match goal with Hl : load _ _ _ = Ok ?p |- _ => destruct p as [v b1]; apply (load_good e f buf v b1 Hwf) in Hl; destruct Hl as [Hwf1 Hl]; rewrite Hft in Hl end.
      injection H as <-. exists v. split; [reflexivity|]. split; [now right | exact Hwf1].
    + injection H as <-. exists VNull. split; [reflexivity|]. split; [now left | exact Hwf].
  - (* MkCondBytes *)
    destruct F as (_ & c & cf & a & j & Hfc & Hl & Hcv & Hop & Hcf & Hcft & Hfta & Has & Hba).
    destruct (cond_local tm allfs e f) as [cb| |] eqn:Hcl; cbn [bind] in H; try discriminate.
    unfold cond_local in Hcl. rewrite Hfc, Hl, Hcf in Hcl. unfold cond_kind in Hcl. rewrite Hcft in Hcl. unfold cond_yoda in Hcl. rewrite Hcv in Hcl.
    destruct (eget e n) as [[o| | | |]|] eqn:Ho; try discriminate.
    unfold cond_eval in Hcl. rewrite Hop in Hcl. cbn [String.eqb Ascii.eqb Bool.eqb] in Hcl. injection Hcl as <-.
    destruct (negb (y =? o)) eqn:Hne.
    + inv_ok H. match goal with Hl : load _ _ _ = Ok ?p |- _ => destruct p as [v b1]; apply (load_good e f buf v b1 Hwf) in Hl; destruct Hl as [Hwf1 Hl]; rewrite Hfta, Hba in Hl; destruct Hl as (b & -> & Hlen) end.
      injection H as <-. eexists. split; [reflexivity|]. split; [|exact Hwf1]. right. destruct (Hlen n Has) as (x' & Hx' & Hl'). rewrite Ho in Hx'. injection Hx' as <-. exists b, o. split; [reflexivity|]. split; [first [exact Ho | reflexivity] | exact Hl'].
    + injection H as <-. exists VNull. split; [reflexivity|]. split; [|exact Hwf]. left. split; [reflexivity|]. first [rewrite Ho|idtac]. f_equal. f_equal. lia.
  - rewrite Hft in Hl. destruct Hl as (z & Hz & Hr & _). eauto.
  - destruct Hft as [Hft Hba]. rewrite Hft, Hba in Hl. destruct Hl as (l & -> & Hg & Hrun).
    destruct F as (_ & _ & _ & Has & _ & Hvs & _). rewrite Has, Hvs in Hrun. destruct Hrun as (x0 & Hx0 & Hrun). exists l, x0. split; [reflexivity|]. conjs.
  - destruct Hft as [Hft Hba]. rewrite Hft, Hba in Hl. destruct Hl as (l & -> & Hg & Hrun).
    destruct F as (_ & _ & _ & Has & _ & Hvs & _). rewrite Has, Hvs in Hrun. exists l. split; [reflexivity|]. conjs.
  - destruct Hft as [Hft Hba]. rewrite Hft, Hba in Hl. destruct Hl as (l & -> & Hg & Hrun).
    destruct F as (_ & _ & _ & Has & _ & Hvs & _). rewrite Has, Hvs in Hrun. exists l. split; [reflexivity|]. conjs.
Qed.

(* ---- the environment invariant ---- *)
Definition env_good (cov : list field) (e : env) : Prop :=
  forall f, In f cov -> exists k v, classify' f = Some k /\ eget e (f_name f) = Some v /\ entry_good k e v.

Lemma entry_good_ext k e e' v : (forall n w, eget e n = Some w -> eget e' n = Some w) -> entry_good k e v -> entry_good k e' v.
Proof.
  intros Hext H. destruct k; cbn [entry_good] in *; try exact H.
  - destruct H as (b & x & Hv & Hx & Hl). exists b, x. split; [exact Hv|]. split; [now apply Hext | exact Hl].
  - destruct H as (l & x & Hv & Hg & Hx & Hr). exists l, x. split; [exact Hv|]. split; [exact Hg|]. split; [now apply Hext | exact Hr].
  - destruct H as [[Hv Hx]|(b & x & Hv & Hx & Hl)]; [left; split; [exact Hv | now apply Hext] | right; exists b, x; split; [exact Hv|]; split; [now apply Hext | exact Hl]].
  - destruct H as (l & x & Hv & Hg & Hx & Hr). exists l, x. split; [exact Hv|]. split; [exact Hg|]. split; [now apply Hext | exact Hr].
  - destruct H as (z & Hz & H). exists z. split; [now apply Hext | exact H].
Qed.

Lemma env_good_ext cov e e' : (forall n w, eget e n = Some w -> eget e' n = Some w) -> env_good cov e -> env_good cov e'.
Proof.
  intros Hext H f Hf. destruct (H f Hf) as (k & v & Hk & Hv & He). exists k, v. split; [exact Hk|]. split; [now apply Hext | now apply (entry_good_ext k e e')].
Qed.

Lemma env_good_sub cov cov' e : (forall f, In f cov' -> In f cov) -> env_good cov e -> env_good cov' e.
Proof. intros Hs H f Hf. exact (H f (Hs f Hf)). Qed.

(* ---- ordinary member lists (continuation form, queue untouched) ---- *)
Lemma loop_good : forall fs seen proc queued temps e buf post r cov,
  ordered tm allfs seen proc fs -> (forall f, In f fs -> classify' f <> None) -> queue_quiet queued fs ->
  fresh_names fs e -> env_good cov e ->
  des_loop (fs ++ post) proc queued temps e buf = Ok r -> wf_bytes buf = true ->
  exists e1 buf1, des_loop post (rev (map f_name fs) ++ proc) queued temps e1 buf1 = Ok r /\ env_good (cov ++ fs) e1 /\ names_ext e1 e fs /\ wf_bytes buf1 = true.
Proof.
  induction fs as [|f fs IH]; intros seen proc queued temps e buf post r cov Hord Hcl Hq [Hnd Hfr] Henv H Hwf.
  - exists e, buf. cbn [app map rev] in *. rewrite app_nil_r. split; [exact H|]. split; [exact Henv|]. split; [|exact Hwf].
    split; [intros n; split; [now right | intros [[]|Hn]; exact Hn] | auto].
  - inversion Hord as [|? ? ? ? Hdeps Hlast Hrest]; subst.
    destruct (classify' f) as [k|] eqn:Hk; [|exfalso; now apply (Hcl f (or_introl eq_refl))].
    cbn [app] in H. rewrite (des_loop_step OP tm R s allfs f (fs ++ post) proc queued temps e buf (no_wait' tm allfs seen proc f k Hk Hdeps) (Hq f (or_introl eq_refl))) in H.
    destruct (des_field e f buf) as [x| |] eqn:Hx; cbn [bind] in H; try discriminate.
    destruct (field_good e f buf x k Hwf Hk (deps_not_arm tm allfs seen proc f k Hk Hdeps) Hx) as (v & Hxe & Hent & Hwf1).
    rewrite Hxe in H.
    cbn [map] in Hnd. inversion Hnd as [|? ? Hfresh Hnd']; subst.
    pose proof (Hfr f (or_introl eq_refl)) as Hfresh_e.
    assert (Hfr2 : fresh_names fs ((f_name f, v) :: e)).
    { split; [exact Hnd'|]. intros g Hg. cbn [map fst]. intros [Heq|Hin]; [apply Hfresh; rewrite Heq; now apply in_map | exact (Hfr g (or_intror Hg) Hin)]. }
    assert (Henv2 : env_good (cov ++ [f]) ((f_name f, v) :: e)).
    { intros g Hg. apply in_app_or in Hg as [Hg|[<-|[]]].
      - exact (env_good_ext cov e _ (eget_cons_fresh e (f_name f) v Hfresh_e) Henv g Hg).
      - exists k, v. split; [exact Hk|]. split; [apply eget_cons_eq|]. exact (entry_good_ext k e _ v (eget_cons_fresh e (f_name f) v Hfresh_e) Hent). }
    destruct (IH (seen ++ [f]) (f_name f :: proc) queued temps ((f_name f, v) :: e) (snd x) post r (cov ++ [f]) Hrest
                (fun g Hg => Hcl g (or_intror Hg)) (fun g Hg => Hq g (or_intror Hg)) Hfr2 Henv2 H Hwf1) as (e1 & buf1 & Hloop & Henv1 & [Hdom Hkeep] & Hwfe).
    exists e1, buf1. split; [cbn [map rev]; rewrite <- app_assoc; exact Hloop|]. split; [rewrite <- app_assoc in Henv1; exact Henv1|]. split; [|exact Hwfe]. split.
    + intros n. rewrite Hdom. cbn [map fst]. cbn [In]. tauto.
    + intros n w Hn. apply Hkeep. now apply eget_cons_fresh.
Qed.

(* ---- union arms, read from the temporary buffer once the link member is known ---- *)
Lemma arm_field_good e a tb x t ln y i ys : wf_bytes tb = true -> classify' a = Some (MkArm t ln y i ys) -> des_field e a tb = Ok x ->
  exists v, fst x = (f_name a, v) :: e /\ entry_good (MkArm t ln y i ys) e v /\ wf_bytes (snd x) = true.
Proof.
  intros Hwf Hk H. pose proof (classify_facts tm allfs a _ Hk) as F. cbn [kind_facts] in F. destruct F as [F _]. apply arm_info_facts in F.
  destruct F as (Hft & _ & _ & Hsf & _ & _ & (nm0 & cm & Hlk) & c & cf & et & vs & bw & nm & Hc & Hl & Hop & Hcv & Hcf & Hcft & Hck & Hec).
  unfold deserialize_field in H.
  destruct (cond_local tm allfs e a) as [cb| |] eqn:Hcl; cbn [bind] in H; try discriminate.
  unfold cond_local in Hcl. rewrite Hc, Hl, Hcf, Hck in Hcl. unfold cond_yoda in Hcl. rewrite Hcv, Hec in Hcl.
  destruct (eget e ln) as [[o| | | |]|] eqn:Ho; try discriminate.
  unfold cond_eval in Hcl. rewrite Hop in Hcl. cbn [String.eqb Ascii.eqb Bool.eqb] in Hcl. injection Hcl as <-.
  cbn [entry_good]. destruct (y =? o) eqn:Hyo.
  - inv_ok H. match goal with Hld : load _ _ _ = Ok ?p |- _ => destruct p as [v b1]; apply (load_good e a tb v b1 Hwf) in Hld; destruct Hld as [Hwf1 Hld]; rewrite Hft in Hld; rename Hld into Hadm end.
    injection H as <-. exists v. split; [reflexivity|]. split; [|exact Hwf1]. exists o. split; [exact Ho|]. left. split; [lia|]. split; [|exact Hadm].
    exact (G_alias t nm0 i cm v Hlk Hadm).
  - injection H as <-. exists VNull. split; [reflexivity|]. split; [|exact Hwf]. exists o. split; [exact Ho|]. right. split; [lia | reflexivity].
Qed.

Lemma drain_good ln : forall arms e tb e2 cov,
  (forall a, In a arms -> exists w, is_arm tm allfs ln w a) -> fresh_names arms e -> env_good cov e -> wf_bytes tb = true ->
  drain_queue OP tm R s allfs e arms tb = Ok e2 -> env_good (cov ++ arms) e2 /\ names_ext e2 e arms.
Proof.
  induction arms as [|a arms IH]; intros e tb e2 cov Harms [Hnd Hfr] Henv Hwf H.
  - cbn in H. injection H as <-. rewrite app_nil_r. split; [exact Henv|]. split; [intros n; split; [now right | intros [[]|Hn]; exact Hn] | auto].
  - cbn [drain_queue] in H. destruct (des_field e a tb) as [x| |] eqn:Hx; cbn [bind] in H; try discriminate.
    destruct (Harms a (or_introl eq_refl)) as (w & t & y & i & ys & Hk & _).
    destruct (arm_field_good e a tb x t ln y i ys Hwf Hk Hx) as (v & Hxe & Hent & Hwf1). rewrite Hxe in H.
    cbn [map] in Hnd. inversion Hnd as [|? ? Hfresh Hnd']; subst.
    pose proof (Hfr a (or_introl eq_refl)) as Hfresh_e.
    assert (Hfr2 : fresh_names arms ((f_name a, v) :: e)).
    { split; [exact Hnd'|]. intros g Hg. cbn [map fst]. intros [Heq|Hin]; [apply Hfresh; rewrite Heq; now apply in_map | exact (Hfr g (or_intror Hg) Hin)]. }
    assert (Henv2 : env_good (cov ++ [a]) ((f_name a, v) :: e)).
    { intros g Hg. apply in_app_or in Hg as [Hg|[<-|[]]].
      - exact (env_good_ext cov e _ (eget_cons_fresh e (f_name a) v Hfresh_e) Henv g Hg).
      - eexists _, v. split; [exact Hk|]. split; [apply eget_cons_eq|]. exact (entry_good_ext _ e _ v (eget_cons_fresh e (f_name a) v Hfresh_e) Hent). }
    destruct (IH ((f_name a, v) :: e) (snd x) e2 (cov ++ [a]) (fun g Hg => Harms g (or_intror Hg)) Hfr2 Henv2 Hwf1 H) as (Henv1 & [Hdom Hkeep]).
    split; [rewrite <- app_assoc in Henv1; exact Henv1|]. split.
    + intros n. rewrite Hdom. cbn [map fst]. cbn [In]. tauto.
    + intros n w0 Hn. apply Hkeep. now apply eget_cons_fresh.
Qed.

(* member lists: ordinary ones, or one union block at the front *)
Theorem fields_good fs seen proc e buf r cov :
  lordered tm allfs seen proc fs -> (forall f, In f fs -> classify' f <> None) -> fresh_names fs e -> env_good cov e ->
  wf_bytes buf = true -> des_loop fs proc [] [] e buf = Ok r -> env_good (cov ++ fs) (fst r) /\ names_ext (fst r) e fs.
Proof.
  intros Hlo Hcl Hfr Henv Hwf H. destruct Hlo as [Hord|arms mid lk post -> U].
  - rewrite <- (app_nil_r fs) in H.
    destruct (loop_good fs seen proc [] [] e buf [] r cov Hord Hcl (fun f _ => eq_refl) Hfr Henv H Hwf) as (e1 & buf1 & Hloop & Henv1 & Hext & _).
    cbn [deserialize_loop] in Hloop. injection Hloop as <-. now split.
  - destruct U as [Hne (w & Hw) _ _ Hfresh Hmid _ (et & Hlk) Hpost]. set (ln := f_name lk) in *.
    destruct arms as [|a1 arms']; [contradiction|].
    destruct (Hw a1 (or_introl eq_refl)) as (t1 & y1 & i1 & ys1 & Hk1 & _).
    pose proof (classify_facts tm allfs a1 _ Hk1) as F. cbn [kind_facts] in F. destruct F as [F _]. apply arm_info_facts in F.
    destruct F as (Hft1 & _ & _ & _ & _ & _ & _ & c & cf & et1 & vs & bw & nm & Hc1 & Hl1 & _).
    assert (Hnp : existsb (String.eqb ln) proc = false).
    { destruct (existsb (String.eqb ln) proc) eqn:Hex; [|reflexivity]. exfalso. apply Hfresh.
      apply existsb_exists in Hex as (x0 & Hx & He). apply String.eqb_eq in He. now subst. }
    (* 1. the first arm: dummy read; the other arms join the queue *)
    cbn [app deserialize_loop] in H. rewrite Hc1, Hl1, Hnp in H. cbn [find] in H. rewrite Hft1 in H.
    destruct (dec_t R t1 buf) as [tv| |] eqn:Htv; cbn [bind] in H; try discriminate.
    destruct (size_t R t1 tv) as [tsz| |] eqn:Htsz; cbn [bind] in H; try discriminate. cbn [app] in H.
    rewrite (arms_queue OP tm R s allfs ln w proc _ e _ Hfresh arms' [a1] _ (fun a Ha => Hw a (or_intror Ha))) in H.
    destruct Hfr as [Hnd Hfr].
    (* names *)
    assert (Hin_arms : forall a, In a (a1 :: arms') -> In a ((a1 :: arms') ++ mid ++ lk :: post)) by (intros; apply in_or_app; now left).
    assert (Hin_mid : forall a, In a mid -> In a ((a1 :: arms') ++ mid ++ lk :: post)) by (intros; apply in_or_app; right; apply in_or_app; now left).
    assert (Hin_lk : In lk ((a1 :: arms') ++ mid ++ lk :: post)) by (apply in_or_app; right; apply in_or_app; right; now left).
    assert (Hin_post : forall a, In a post -> In a ((a1 :: arms') ++ mid ++ lk :: post)) by (intros; apply in_or_app; right; apply in_or_app; right; now right).
    assert (Hnd_r : NoDup (map f_name (mid ++ lk :: post))) by (rewrite map_app in Hnd; now apply nodup_app_r in Hnd).
    assert (Hln_mid : forall f, In f mid -> f_name f <> ln).
    { intros f Hf. apply (nodup_names_neq mid post lk f Hnd_r). apply in_or_app. now left. }
    assert (Hln_post : forall f, In f post -> f_name f <> ln).
    { intros f Hf. apply (nodup_names_neq mid post lk f Hnd_r). apply in_or_app. now right. }
    assert (Hquiet : forall fs', (forall f, In f fs' -> f_name f <> ln) -> queue_quiet [(ln, [a1] ++ arms')] fs').
    { intros fs' Hn f Hf. cbn [find fst]. replace (String.eqb ln (f_name f)) with false; [reflexivity|]. symmetry. apply String.eqb_neq. intros Heq. now apply (Hn f Hf). }
    (* 2. the members before the link member *)
    assert (Hfr_mid : fresh_names mid e).
    { split; [rewrite map_app in Hnd_r; now apply nodup_app_l in Hnd_r | intros f Hf; apply Hfr, Hin_mid, Hf]. }
    destruct (loop_good mid seen proc _ _ e _ (lk :: post) r cov Hmid (fun f Hf => Hcl f (Hin_mid f Hf)) (Hquiet mid Hln_mid) Hfr_mid Henv H (wf_zskipn tsz buf Hwf))
      as (e1 & buf1 & H1 & Henv1 & Hext1 & Hwf1).
    (* 3. the link member, then the queued arms *)
    pose proof (classify_facts tm allfs lk _ Hlk) as Flk. cbn [kind_facts] in Flk. destruct Flk as (Hc_lk & _).
    cbn [deserialize_loop] in H1. rewrite Hc_lk in H1.
    destruct (des_field e1 lk buf1) as [x| |] eqn:Hx; cbn [bind] in H1; try discriminate.
    destruct (field_good e1 lk buf1 x _ Hwf1 Hlk eq_refl Hx) as (vl & Hxe & Hentl & Hwfx). rewrite Hxe in H1.
    cbn [find fst] in H1. fold ln in H1. rewrite String.eqb_refl in H1. cbn [snd] in H1.
    match type of H1 with bind ?d _ = _ => destruct d as [e2| |] eqn:Hdr; cbn [bind] in H1; try discriminate end.
    assert (Hfresh_lk : ~ In ln (map fst e1)).
    { intros Hin. apply (proj1 Hext1) in Hin as [Hin|Hin].
      - apply in_map_iff in Hin as (g & Hgn & Hg). exact (Hln_mid g Hg Hgn).
      - exact (Hfr lk Hin_lk Hin). }
    assert (Henv_l : env_good ((cov ++ mid) ++ [lk]) ((ln, vl) :: e1)).
    { intros g Hg. apply in_app_or in Hg as [Hg|[<-|[]]].
      - exact (env_good_ext _ e1 _ (eget_cons_fresh e1 ln vl Hfresh_lk) Henv1 g Hg).
      - eexists _, vl. split; [exact Hlk|]. split; [apply eget_cons_eq|]. exact (entry_good_ext _ e1 _ vl (eget_cons_fresh e1 ln vl Hfresh_lk) Hentl). }
    assert (Hext_l : names_ext ((ln, vl) :: e1) e (mid ++ [lk])).
    { apply (names_ext_trans _ e1 e mid [lk] Hext1). split; [intros n; cbn [map fst In]; fold ln; tauto | intros n w' Hn; now apply eget_cons_fresh]. }
    assert (Hnd_a : NoDup (map f_name (a1 :: arms'))) by (rewrite map_app in Hnd; now apply nodup_app_l in Hnd).
    assert (Hfr_arms : fresh_names (a1 :: arms') ((ln, vl) :: e1)).
    { split; [exact Hnd_a|]. intros aa Ha Hin. apply (proj1 Hext_l) in Hin as [Hin|Hin]; [|exact (Hfr aa (Hin_arms aa Ha) Hin)].
      apply in_map_iff in Hin as (g & Hgn & Hg).
      assert (Hg' : In g (mid ++ lk :: post)) by (apply in_app_or in Hg as [Hg|[<-|[]]]; apply in_or_app; [now left | right; now left]).
      rewrite map_app in Hnd. clear - Hnd Hgn Hg' Ha. induction (a1 :: arms') as [|b l IH]; [contradiction|].
      cbn [map app] in Hnd. inversion Hnd as [|? ? Hn Hd]; subst. destruct Ha as [->|Ha]; [|now apply IH].
      apply Hn. apply in_or_app. right. rewrite <- Hgn. now apply in_map. }
    destruct (drain_good ln (a1 :: arms') _ _ e2 _ (fun a Ha => ex_intro _ w (Hw a Ha)) Hfr_arms Henv_l (wf_zfirstn tsz buf Hwf) Hdr) as (Henv2 & Hext2).
    (* 4. the members after the block *)
    assert (Hext_2 : names_ext e2 e ((mid ++ [lk]) ++ a1 :: arms')) by (exact (names_ext_trans _ _ e _ _ Hext_l Hext2)).
    assert (Hfr_post : fresh_names post e2).
    { split; [rewrite map_app in Hnd_r; apply nodup_app_r in Hnd_r; cbn [map] in Hnd_r; now inversion Hnd_r|].
      intros g Hg Hin. apply (proj1 Hext_2) in Hin as [Hin|Hin]; [|exact (Hfr g (Hin_post g Hg) Hin)].
      apply in_map_iff in Hin as (g' & Hgn & Hg'). apply in_app_or in Hg' as [Hg'|Hg'].
      - assert (Hne' : f_name g <> f_name g').
        { apply in_app_or in Hg' as [Hg'|[<-|[]]]; [|exact (Hln_post g Hg)].
          clear - Hnd_r Hg Hg'. rewrite map_app in Hnd_r. intros Heq. induction mid as [|b l IH]; [contradiction|].
          cbn [map app] in Hnd_r. inversion Hnd_r as [|? ? Hn Hd]; subst. destruct Hg' as [->|Hg']; [|now apply IH].
          apply Hn. apply in_or_app. right. rewrite <- Heq. cbn [map]. right. now apply in_map. }
        congruence.
      - rewrite map_app in Hnd. clear - Hnd Hgn Hg Hg'. induction (a1 :: arms') as [|b l IH]; [contradiction|].
        cbn [map app] in Hnd. inversion Hnd as [|? ? Hn Hd]; subst. destruct Hg' as [->|Hg']; [|now apply IH].
        apply Hn. apply in_or_app. right. rewrite Hgn, map_app. apply in_or_app. right. cbn [map]. right. now apply in_map. }
    rewrite <- (app_nil_r post) in H1.
    destruct (loop_good post _ _ _ _ e2 _ [] r _ Hpost (fun f Hf => Hcl f (Hin_post f Hf)) (Hquiet post Hln_post) Hfr_post Henv2 H1 Hwfx)
      as (e3 & buf3 & H3 & Henv3 & Hext3 & _).
    cbn [deserialize_loop] in H3. injection H3 as <-. cbn [fst]. split.
    + eapply env_good_sub; [|exact Henv3]. intros f Hf. rewrite <- !app_assoc.
      apply in_app_or in Hf as [Hf|Hf]; [apply in_or_app; now left|]. apply in_or_app. right.
      apply in_app_or in Hf as [Hf|Hf]; [apply in_or_app; right; apply in_or_app; right; apply in_or_app; now left|].
      apply in_app_or in Hf as [Hf|[<-|Hf]]; [apply in_or_app; now left | apply in_or_app; right; apply in_or_app; left; now left|].
      apply in_or_app; right; apply in_or_app; right; apply in_or_app; now right.
    + apply (names_ext_perm e3 e (((mid ++ [lk]) ++ a1 :: arms') ++ post)); [|exact (names_ext_trans _ _ e _ _ Hext_2 Hext3)].
      intros f. rewrite !in_app_iff. cbn [In]. tauto.
Qed.

End Good.
