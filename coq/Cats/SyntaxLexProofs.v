(* Proofs about Cats/Syntax.v, part 1: scanning, tokens, and the parsers of single lines. *)
From Coq Require Import ZArith List Bool String Ascii Lia ZifyBool.
From Symv Require Import Base.Bytes Cats.Ast Cats.Syntax.
From Symv Require Base.PyOps.
Import ListNotations.
Open Scope list_scope.
Open Scope Z_scope.

(* ------------------------------------------------------------------------------------------------------------------ *)
(* strings and code points *)

Lemma to_str_of_string s : to_str (of_string s) = s.
Proof.
  induction s as [|c s IH]; [reflexivity|].
  cbn [of_string to_str fold_right]. fold (to_str (of_string s)). rewrite IH. f_equal.
  unfold of_ascii. rewrite N2Z.id. apply ascii_N_embedding.
Qed.

Lemma of_string_inj a b : of_string a = of_string b -> a = b.
Proof. intro H. rewrite <- (to_str_of_string a), <- (to_str_of_string b), H. reflexivity. Qed.

Lemma list_eqb_refl a : list_eqb a a = true.
Proof. induction a; cbn; [reflexivity|]. rewrite Z.eqb_refl, IHa. reflexivity. Qed.

Lemma list_eqb_eq a b : list_eqb a b = true -> a = b.
Proof.
  revert b. induction a as [|x a IH]; intros [|y b] H; cbn in H; try discriminate; [reflexivity|].
  apply andb_true_iff in H as [H1 H2]. apply Z.eqb_eq in H1. subst. f_equal. auto.
Qed.

Lemma list_eqb_neq a b : list_eqb a b = false -> a <> b.
Proof. intros H E. subst. rewrite list_eqb_refl in H. discriminate. Qed.

Lemma mem_In w ws : mem w ws = true -> In w ws.
Proof.
  unfold mem. intro H. apply existsb_exists in H as [x [Hin Hx]]. apply list_eqb_eq in Hx. subst. exact Hin.
Qed.

Lemma In_mem w ws : In w ws -> mem w ws = true.
Proof. intro H. unfold mem. apply existsb_exists. exists w. split; [exact H|apply list_eqb_refl]. Qed.

(* ------------------------------------------------------------------------------------------------------------------ *)
(* raw scanning *)

(* the text `r` does not continue a token whose characters satisfy p *)
Definition stops (p : Z -> bool) (r : list Z) : bool := match r with [] => true | c :: _ => negb (p c) end.

Lemma skip_ws_stop r : stops is_ws r = true -> skip_ws r = r.
Proof. destruct r as [|c r]; [reflexivity|]. cbn. intro H. apply negb_true_iff in H. rewrite H. reflexivity. Qed.

Lemma skip_ws_sp r : skip_ws (32 :: r) = skip_ws r.
Proof. reflexivity. Qed.

Lemma span_app p a r : forallb p a = true -> stops p r = true -> span p (a ++ r) = (a, r).
Proof.
  induction a as [|c a IH]; cbn; intros Ha Hr.
  - destruct r as [|d r]; [reflexivity|]. cbn in Hr. apply negb_true_iff in Hr. cbn. rewrite Hr. reflexivity.
  - apply andb_true_iff in Ha as [Hc Ha]. rewrite Hc, (IH Ha Hr). reflexivity.
Qed.

Lemma strip_prefix_app k r : strip_prefix k (k ++ r) = Some r.
Proof. induction k; cbn; [reflexivity|]. rewrite Z.eqb_refl. exact IHk. Qed.

Lemma strip_prefix_head k s c d : head_is c k = true -> head_is d s = true -> c <> d -> strip_prefix k s = None.
Proof.
  destruct k as [|a k]; cbn; [discriminate|]. destruct s as [|b s]; cbn; [discriminate|].
  intros Ha Hb Hn. apply Z.eqb_eq in Ha, Hb. subst. destruct (a =? b) eqn:E; [apply Z.eqb_eq in E; contradiction|reflexivity].
Qed.

Lemma strip_prefix_nil_r k : k <> [] -> strip_prefix k [] = None.
Proof. destruct k; [contradiction|reflexivity]. Qed.

Lemma cf_strip a b r : cf a b = true -> strip_prefix a (b ++ r) = None.
Proof.
  unfold cf, is_prefix. revert b. induction a as [|x a IH]; intros b H.
  - cbn in H. discriminate.
  - destruct b as [|y b].
    + cbn in H. discriminate.
    + cbn [strip_prefix app] in *. destruct (x =? y) eqn:E.
      * apply IH. rewrite (Z.eqb_sym y x), E in H. exact H.
      * reflexivity.
Qed.

Lemma cf_sym a b : cf a b = cf b a.
Proof. unfold cf. apply andb_comm. Qed.

Lemma first_prefix_none ks s : (forall k, In k ks -> strip_prefix k s = None) -> first_prefix ks s = None.
Proof.
  induction ks as [|k ks IH]; cbn; intro H; [reflexivity|].
  rewrite (H k (or_introl eq_refl)). apply IH. intros k' Hk. apply H. right. exact Hk.
Qed.

Lemma first_prefix_cf ks w r : forallb (cf w) ks = true -> first_prefix ks (w ++ r) = None.
Proof.
  intro H. apply first_prefix_none. intros k Hk. apply cf_strip. rewrite cf_sym.
  rewrite forallb_forall in H. apply H. exact Hk.
Qed.

Lemma first_prefix_in ks k r : pw_cf ks = true -> In k ks -> first_prefix ks (k ++ r) = Some (k, r).
Proof.
  induction ks as [|k0 ks IH]; cbn; intros Hpw Hin; [contradiction|].
  apply andb_true_iff in Hpw as [H0 Hpw].
  destruct Hin as [->|Hin].
  - rewrite strip_prefix_app. reflexivity.
  - rewrite cf_strip; [apply IH; assumption|]. rewrite forallb_forall in H0. apply H0. exact Hin.
Qed.

Lemma pw_cf_app_l a b : pw_cf (a ++ b) = true -> pw_cf a = true.
Proof.
  induction a as [|x a IH]; cbn; intro H; [reflexivity|].
  apply andb_true_iff in H as [H1 H2]. rewrite forallb_app in H1. apply andb_true_iff in H1 as [H1 _]. rewrite H1. cbn. auto.
Qed.

Lemma pw_cf_app_r a b : pw_cf (a ++ b) = true -> pw_cf b = true.
Proof. induction a as [|x a IH]; cbn; intro H; [exact H|]. apply andb_true_iff in H as [_ H]. auto. Qed.

Lemma pw_cf_cross a b x y : pw_cf (a ++ b) = true -> In x a -> In y b -> cf x y = true.
Proof.
  induction a as [|z a IH]; cbn; intros H Hx Hy; [contradiction|].
  apply andb_true_iff in H as [H1 H2]. destruct Hx as [->|Hx].
  - rewrite forallb_forall in H1. apply H1. apply in_or_app. right. exact Hy.
  - apply IH; assumption.
Qed.

Lemma pw_cf_in ks x y : pw_cf ks = true -> In x ks -> In y ks -> x = y \/ cf x y = true.
Proof.
  induction ks as [|z ks IH]; cbn; intros H Hx Hy; [contradiction|].
  apply andb_true_iff in H as [H1 H2]. rewrite forallb_forall in H1.
  destruct Hx as [->|Hx], Hy as [->|Hy]; auto.
  right. rewrite cf_sym. auto.
Qed.

(* ------------------------------------------------------------------------------------------------------------------ *)
(* name classes *)

Lemma lex_class_none first second rest n s c :
  head_is c s = true -> first c = false -> lex_class first second rest n s = None.
Proof. destruct s as [|d s]; cbn; [discriminate|]. intros H Hc. apply Z.eqb_eq in H. subst. rewrite Hc. reflexivity. Qed.

Lemma lex_class_ok1 first rest n name r :
  wf_name first None rest n name = true -> stops rest r = true ->
  lex_class first None rest n (of_string name ++ r) = Some (of_string name, r).
Proof.
  unfold wf_name. destruct (of_string name) as [|c b]; [discriminate|]. intros H Hr.
  apply andb_true_iff in H as [Hc H]. apply andb_true_iff in H as [Hb Hn].
  cbn. rewrite Hc, (span_app _ _ _ Hb Hr), Hn. reflexivity.
Qed.

Lemma lex_class_ok2 first second rest n name r :
  wf_name first (Some second) rest n name = true -> stops rest r = true ->
  lex_class first (Some second) rest n (of_string name ++ r) = Some (of_string name, r).
Proof.
  unfold wf_name. destruct (of_string name) as [|c [|d b]]; try discriminate.
  { intro H. apply andb_true_iff in H as [_ H]. discriminate. }
  intros H Hr.
  apply andb_true_iff in H as [Hc H]. apply andb_true_iff in H as [H Hn]. apply andb_true_iff in H as [Hd Hb].
  cbn. rewrite Hc, Hd, (span_app _ _ _ Hb Hr), Hn. reflexivity.
Qed.

Lemma wf_name_head first second rest n name :
  wf_name first second rest n name = true -> exists c b, of_string name = c :: b /\ first c = true.
Proof.
  unfold wf_name. destruct (of_string name) as [|c b]; [discriminate|]. intro H. exists c, b. split; [reflexivity|].
  apply andb_true_iff in H as [H _]. exact H.
Qed.

(* character class facts used to decide `stops` and head tests on literal characters *)
Lemma lower_not_upper c : is_lower c = true -> is_upper c = false.
Proof. unfold is_lower, is_upper. lia. Qed.
Lemma upper_not_lower c : is_upper c = true -> is_lower c = false.
Proof. unfold is_lower, is_upper. lia. Qed.
Lemma lower_not_ws c : is_lower c = true -> is_ws c = false.
Proof. unfold is_lower, is_ws. lia. Qed.
Lemma upper_not_ws c : is_upper c = true -> is_ws c = false.
Proof. unfold is_upper, is_ws. lia. Qed.
Lemma lower_not_digit c : is_lower c = true -> is_digit c = false.
Proof. unfold is_lower, is_digit. lia. Qed.
Lemma upper_not_digit c : is_upper c = true -> is_digit c = false.
Proof. unfold is_upper, is_digit. lia. Qed.
Lemma digit_not_lower c : is_digit c = true -> is_lower c = false.
Proof. unfold is_lower, is_digit. lia. Qed.
Lemma digit_not_ws c : is_digit c = true -> is_ws c = false.
Proof. unfold is_ws, is_digit. lia. Qed.

(* ------------------------------------------------------------------------------------------------------------------ *)
(* numerals *)

Section Digits.
Variables (base : Z) (dig val : Z -> Z) (p : Z -> bool).
Hypothesis Hbase : 2 <= base.
Hypothesis Hval : forall d, 0 <= d < base -> val (dig d) = d.
Hypothesis Hp : forall d, 0 <= d < base -> p (dig d) = true.

Lemma num_value_snoc a x : num_value base val (a ++ [x]) = num_value base val a * base + val x.
Proof. unfold num_value. rewrite fold_left_app. reflexivity. Qed.

Lemma digits_fuel_ok fuel n :
  0 <= n < 2 ^ Z.of_nat fuel -> (0 < fuel)%nat ->
  num_value base val (digits_fuel base dig fuel n) = n /\ forallb p (digits_fuel base dig fuel n) = true
  /\ digits_fuel base dig fuel n <> [].
Proof.
  revert n. induction fuel as [|f IH]; intros n Hn Hf; [lia|].
  cbn [digits_fuel]. destruct (n <? base) eqn:E.
  - apply Z.ltb_lt in E. unfold num_value. cbn. rewrite Hval, Hp by lia. repeat split; try lia; discriminate.
  - apply Z.ltb_ge in E.
    assert (Hf' : (0 < f)%nat).
    { destruct f; [|lia]. cbn in Hn. lia. }
    assert (Hq : 0 <= n / base < 2 ^ Z.of_nat f).
    { split; [apply Z.div_pos; lia|].
      rewrite Nat2Z.inj_succ, Z.pow_succ_r in Hn by lia.
      apply Z.div_lt_upper_bound; [lia|]. nia. }
    destruct (IH _ Hq Hf') as [Hv [Hall Hne]].
    rewrite num_value_snoc, Hv, Hval by (apply Z.mod_pos_bound; lia).
    rewrite forallb_app, Hall. cbn. rewrite Hp by (apply Z.mod_pos_bound; lia).
    repeat split.
    + rewrite (Z.div_mod n base) at 3 by lia. lia.
    + intro H. apply app_eq_nil in H as [_ H]. discriminate.
Qed.

Lemma digits_ok n : 0 <= n ->
  num_value base val (digits base dig n) = n /\ forallb p (digits base dig n) = true /\ digits base dig n <> [].
Proof.
  intro Hn. unfold digits. apply digits_fuel_ok; [|lia].
  split; [lia|]. rewrite Nat2Z.inj_succ, Z2Nat.id by apply Z.log2_nonneg.
  destruct (Z.eq_dec n 0) as [->|Hz]; [cbn; lia|]. apply Z.log2_spec. lia.
Qed.
End Digits.

Lemma r_dec_ok n : 0 <= n -> dec_value (r_dec n) = n /\ forallb is_digit (r_dec n) = true /\ r_dec n <> [].
Proof.
  intro Hn. unfold dec_value, r_dec.
  apply (digits_ok 10 dec_char (fun c => c - 48) is_digit); try lia; intros d Hd; unfold dec_char, is_digit; lia.
Qed.

(* ------------------------------------------------------------------------------------------------------------------ *)
(* everything below is generic in the regenerated sets: T is any instance that satisfies the side conditions *)

Ltac ok_proj H :=
  let H' := fresh in
  pose proof H as H'; unfold terms_ok in H';
  repeat (let X := fresh in apply andb_true_iff in H' as [H' X]); try assumption.

Section Proofs.
Variable T : terms.
Hypothesis Hok : terms_ok T = true.

Definition all_kws : list (list Z) :=
  [kw_import T; kw_using T; kw_enum T; kw_struct T; kw_make_const T; kw_make_reserved T; kw_sizeof T; kw_inline_field T;
   kw_inline_member T; kw_array T; kw_if T; kw_binary_fixed T; negation T; int_kw T]
  ++ enum_attr_zero T ++ struct_attr_names T ++ field_attr_names T ++ alignment_option T ++ transform_names T ++ struct_modifiers T.

Lemma ok_kws : forallb kw_ok all_kws = true. Proof. ok_proj Hok. Qed.
Lemma ok_ops : forallb op_ok (cond_ops T) = true. Proof. ok_proj Hok. Qed.
Lemma ok_fill : ph_ok (fill_placeholder T) = true. Proof. ok_proj Hok. Qed.
Lemma ok_value : ph_ok (value_placeholder T) = true. Proof. ok_proj Hok. Qed.
Lemma ok_widths : forallb width_ok (int_widths T) = true. Proof. ok_proj Hok. Qed.
Lemma ok_cf_top : pw_cf ([kw_import T; kw_using T; kw_enum T; kw_struct T] ++ struct_modifiers T) = true. Proof. ok_proj Hok. Qed.
Lemma ok_cf_field : pw_cf ([kw_make_reserved T; kw_sizeof T; kw_inline_field T; kw_array T] ++ int_heads T) = true. Proof. ok_proj Hok. Qed.
Lemma ok_cf_alias : pw_cf (kw_binary_fixed T :: int_heads T) = true. Proof. ok_proj Hok. Qed.
Lemma ok_cf_tattrs : pw_cf (enum_attr_zero T ++ struct_attr_names T) = true. Proof. ok_proj Hok. Qed.
Lemma ok_cf_fattrs : pw_cf (field_attr_names T) = true. Proof. ok_proj Hok. Qed.
Lemma ok_cf_widths : pw_cf (int_widths T) = true. Proof. ok_proj Hok. Qed.
Lemma ok_cf_ops : pw_cf (cond_ops T) = true. Proof. ok_proj Hok. Qed.
Lemma ok_cf_align : pw_cf (negation T :: alignment_option T) = true. Proof. ok_proj Hok. Qed.
Lemma ok_cf_transforms : pw_cf (transform_names T) = true. Proof. ok_proj Hok. Qed.
Lemma ok_mods : forallb (fun m => list_eqb m code_abstract || list_eqb m code_inline) (struct_modifiers T) = true. Proof. ok_proj Hok. Qed.
Lemma ok_mod_abstract : mem code_abstract (struct_modifiers T) = true. Proof. ok_proj Hok. Qed.
Lemma ok_mod_inline : mem code_inline (struct_modifiers T) = true. Proof. ok_proj Hok. Qed.
Lemma ok_inline_len : (prop_rep_min T <=? pred (length (kw_inline_member T)))%nat = true. Proof. ok_proj Hok. Qed.
Lemma ok_hex_prefix : hex_prefix T = [48; 120]. Proof. apply list_eqb_eq. ok_proj Hok. Qed.
Lemma ok_hex_lo : hex_lo T = 65. Proof. apply Z.eqb_eq. ok_proj Hok. Qed.
Lemma ok_hex_hi : hex_hi T = 70. Proof. apply Z.eqb_eq. ok_proj Hok. Qed.
Lemma ok_uprefix : int_unsigned_prefix T = [fsi_unsigned_char T]. Proof. apply list_eqb_eq. ok_proj Hok. Qed.
Lemma ok_uchar : head_is (fsi_unsigned_char T) (int_kw T) = false. Proof. apply negb_true_iff. ok_proj Hok. Qed.
Lemma ok_uchar_lower : is_lower (fsi_unsigned_char T) = true. Proof. ok_proj Hok. Qed.
Lemma ok_fsi_ops : match fsi_unsigned_op T, fsi_skip_op T, fsi_div_op T with PyOps.Eq, PyOps.Add, PyOps.FloorDiv => true | _, _, _ => false end = true.
Proof. ok_proj Hok. Qed.
Lemma ok_fsi_index : fsi_unsigned_index T = 0. Proof. apply Z.eqb_eq. ok_proj Hok. Qed.
Lemma ok_fsi_skip : fsi_skip T = len (int_kw T). Proof. apply Z.eqb_eq. ok_proj Hok. Qed.
Lemma ok_fsi_su : fsi_skip_unsigned T = 1. Proof. apply Z.eqb_eq. ok_proj Hok. Qed.
Lemma ok_fsi_ss : fsi_skip_signed T = 0. Proof. apply Z.eqb_eq. ok_proj Hok. Qed.
Lemma ok_fsi_div : fsi_div T = 8. Proof. apply Z.eqb_eq. ok_proj Hok. Qed.
Lemma ok_cinit : comment_init T = []. Proof. apply list_eqb_eq. ok_proj Hok. Qed.
Lemma ok_csplit : comment_split T = [10]. Proof. apply list_eqb_eq. ok_proj Hok. Qed.
Lemma ok_cblank : comment_blank T = [10]. Proof. apply list_eqb_eq. ok_proj Hok. Qed.
Lemma ok_strip_hash : in_set (comment_strip T) 35 = true. Proof. ok_proj Hok. Qed.
Lemma ok_strip_sp : in_set (comment_strip T) 32 = true. Proof. ok_proj Hok. Qed.
Lemma ok_strip_tab : in_set (comment_strip T) 9 = true. Proof. ok_proj Hok. Qed.
Lemma ok_strip_lf : in_set (comment_strip T) 10 = false. Proof. apply negb_true_iff. ok_proj Hok. Qed.
Lemma ok_tab : 0 < tab_len T. Proof. apply Z.ltb_lt. ok_proj Hok. Qed.


(* --- texts with a known first character *)
Lemma head_is_app c a r : head_is c a = true -> head_is c (a ++ r) = true.
Proof. destruct a; cbn; [discriminate|auto]. Qed.

Lemma skip_ws_head c s : head_is c s = true -> is_ws c = false -> skip_ws s = s.
Proof. destruct s as [|d s]; cbn; [discriminate|]. intros H Hc. apply Z.eqb_eq in H. subst. rewrite Hc. reflexivity. Qed.

Lemma strip1_head a c s : head_is c s = true -> a <> c -> strip_prefix [a] s = None.
Proof. intros H Hn. eapply strip_prefix_head; [cbn; apply Z.eqb_refl|exact H|exact Hn]. Qed.

Lemma raw_dec_none c s : head_is c s = true -> is_digit c = false -> raw_dec s = None.
Proof. destruct s as [|d s]; cbn; [discriminate|]. intros H Hc. apply Z.eqb_eq in H. subst. unfold raw_dec. cbn. rewrite Hc. reflexivity. Qed.

Lemma raw_number_none c s : head_is c s = true -> is_digit c = false -> raw_number T s = None.
Proof.
  intros H Hc. unfold raw_number. rewrite ok_hex_prefix.
  rewrite (strip_prefix_head [48; 120] s 48 c); [eapply raw_dec_none; eassumption|reflexivity|exact H|].
  intro E. subst. discriminate.
Qed.

Lemma kw_shape k : kw_ok k = true -> exists c r, k = c :: r /\ is_lower c = true /\ forallb prop_rest r = true.
Proof. destruct k as [|c r]; cbn; [discriminate|]. intro H. apply andb_true_iff in H as [H1 H2]. eauto. Qed.

Lemma kw_head k r : kw_ok k = true -> exists c, head_is c (k ++ r) = true /\ is_lower c = true.
Proof. intro H. destruct (kw_shape k H) as [c [r' [-> [Hc _]]]]. exists c. cbn. rewrite Z.eqb_refl. auto. Qed.

Lemma kw_in k : In k all_kws -> kw_ok k = true.
Proof. intro H. pose proof ok_kws as Hall. rewrite forallb_forall in Hall. apply Hall. exact H. Qed.

Ltac in_kws := unfold all_kws, struct_attr_names, field_attr_names; repeat rewrite in_app_iff; cbn [In]; tauto.

Lemma kwok_import : kw_ok (kw_import T) = true. Proof. apply kw_in. in_kws. Qed.
Lemma kwok_using : kw_ok (kw_using T) = true. Proof. apply kw_in. in_kws. Qed.
Lemma kwok_enum : kw_ok (kw_enum T) = true. Proof. apply kw_in. in_kws. Qed.
Lemma kwok_struct : kw_ok (kw_struct T) = true. Proof. apply kw_in. in_kws. Qed.
Lemma kwok_make_const : kw_ok (kw_make_const T) = true. Proof. apply kw_in. in_kws. Qed.
Lemma kwok_make_reserved : kw_ok (kw_make_reserved T) = true. Proof. apply kw_in. in_kws. Qed.
Lemma kwok_sizeof : kw_ok (kw_sizeof T) = true. Proof. apply kw_in. in_kws. Qed.
Lemma kwok_inline_field : kw_ok (kw_inline_field T) = true. Proof. apply kw_in. in_kws. Qed.
Lemma kwok_inline_member : kw_ok (kw_inline_member T) = true. Proof. apply kw_in. in_kws. Qed.
Lemma kwok_array : kw_ok (kw_array T) = true. Proof. apply kw_in. in_kws. Qed.
Lemma kwok_if : kw_ok (kw_if T) = true. Proof. apply kw_in. in_kws. Qed.
Lemma kwok_binary_fixed : kw_ok (kw_binary_fixed T) = true. Proof. apply kw_in. in_kws. Qed.
Lemma kwok_negation : kw_ok (negation T) = true. Proof. apply kw_in. in_kws. Qed.
Lemma kwok_int : kw_ok (int_kw T) = true. Proof. apply kw_in. in_kws. Qed.
Lemma kwok_modifier m : In m (struct_modifiers T) -> kw_ok m = true. Proof. intro H. apply kw_in. in_kws. Qed.
Lemma kwok_option m : In m (alignment_option T) -> kw_ok m = true. Proof. intro H. apply kw_in. in_kws. Qed.
Lemma kwok_transform m : In m (transform_names T) -> kw_ok m = true. Proof. intro H. apply kw_in. in_kws. Qed.

(* heads of the things `render` prints *)
Lemma prop_head n r : wf_prop T n = true -> exists c, head_is c (of_string n ++ r) = true /\ is_lower c = true.
Proof. intro H. destruct (wf_name_head _ _ _ _ _ H) as [c [b [E Hc]]]. rewrite E. exists c. cbn. rewrite Z.eqb_refl. auto. Qed.
Lemma const_head n r : wf_const T n = true -> exists c, head_is c (of_string n ++ r) = true /\ is_upper c = true.
Proof. intro H. destruct (wf_name_head _ _ _ _ _ H) as [c [b [E Hc]]]. rewrite E. exists c. cbn. rewrite Z.eqb_refl. auto. Qed.
Lemma type_head n r : wf_type T n = true -> exists c, head_is c (of_string n ++ r) = true /\ is_upper c = true.
Proof. intro H. destruct (wf_name_head _ _ _ _ _ H) as [c [b [E Hc]]]. rewrite E. exists c. cbn. rewrite Z.eqb_refl. auto. Qed.
Lemma ph_head k r : ph_ok k = true -> head_is 95 (k ++ r) = true.
Proof. destruct k as [|c k]; cbn [ph_ok app head_is]; [discriminate|]. intro H. apply andb_true_iff in H as [H _]. rewrite Z.eqb_sym. exact H. Qed.
Lemma dec_head n r : 0 <= n -> exists c, head_is c (r_dec n ++ r) = true /\ is_digit c = true.
Proof.
  intro Hn. destruct (r_dec_ok n Hn) as [_ [Hall Hne]]. destruct (r_dec n) as [|c l]; [contradiction|].
  cbn in Hall. apply andb_true_iff in Hall as [Hc _]. exists c. cbn. rewrite Z.eqb_refl. auto.
Qed.

(* --- tokens *)
Lemma tok_sp {A} (f : list Z -> option (A * list Z)) s : tok f (32 :: s) = tok f s.
Proof. reflexivity. Qed.
Lemma expect_sp k s : expect k (32 :: s) = expect k s.
Proof. reflexivity. Qed.

Lemma tok_at {A} (f : list Z -> option (A * list Z)) s c a r :
  head_is c s = true -> is_ws c = false -> f s = Some (a, r) -> tok f s = LOk a r.
Proof. intros H Hc Hf. unfold tok. rewrite (skip_ws_head c s H Hc), Hf. reflexivity. Qed.

Lemma tok_prop_ok n r : wf_prop T n = true -> stops prop_rest r = true -> tok (raw_prop T) (of_string n ++ r) = LOk (of_string n) r.
Proof.
  intros H Hr. destruct (prop_head n r H) as [c [Hh Hc]].
  eapply tok_at; [exact Hh|apply lower_not_ws; exact Hc|]. apply lex_class_ok1; assumption.
Qed.
Lemma tok_const_ok n r : wf_const T n = true -> stops const_rest r = true -> tok (raw_const T) (of_string n ++ r) = LOk (of_string n) r.
Proof.
  intros H Hr. destruct (const_head n r H) as [c [Hh Hc]].
  eapply tok_at; [exact Hh|apply upper_not_ws; exact Hc|]. apply lex_class_ok1; assumption.
Qed.
Lemma tok_type_ok n r : wf_type T n = true -> stops type_rest r = true -> tok (raw_type T) (of_string n ++ r) = LOk (of_string n) r.
Proof.
  intros H Hr. destruct (type_head n r H) as [c [Hh Hc]].
  eapply tok_at; [exact Hh|apply upper_not_ws; exact Hc|]. apply lex_class_ok2; assumption.
Qed.

Lemma expect_kw k r : kw_ok k = true -> expect k (k ++ r) = LOk tt r.
Proof.
  intro H. destruct (kw_head k r H) as [c [Hh Hc]]. unfold expect.
  rewrite (skip_ws_head c _ Hh (lower_not_ws c Hc)), strip_prefix_app. reflexivity.
Qed.

(* --- numerals *)
Definition stops_num (r : list Z) : bool := match r with [] => true | c :: _ => negb (is_digit c || is_upper c || is_lower c) end.

Lemma hex_char_ok d : 0 <= d < 16 -> hex_val T (hex_char T d) = d /\ hex_digit_ok T (hex_char T d) = true.
Proof.
  intro Hd. unfold hex_val, hex_char, hex_digit_ok. rewrite ok_hex_lo, ok_hex_hi.
  destruct (d <? 10) eqn:E.
  - assert (Hg : is_digit (48 + d) = true) by (unfold is_digit; lia). rewrite Hg. split; [lia|reflexivity].
  - assert (Hg : is_digit (65 + (d - 10)) = false) by (unfold is_digit; lia). rewrite Hg. split; lia.
Qed.

Lemma raw_number_ok st n r : 0 <= n -> stops_num r = true -> raw_number T (r_num T st n ++ r) = Some (n, r).
Proof.
  intros Hn Hr. unfold r_num, raw_number. rewrite ok_hex_prefix.
  assert (Hd : stops is_digit r = true).
  { destruct r as [|c r]; [reflexivity|]. cbn in *. rewrite !negb_orb in Hr. apply andb_true_iff in Hr as [Hr _].
    apply andb_true_iff in Hr as [Hr _]. exact Hr. }
  destruct (st_hex st n).
  - assert (Hh : stops (hex_digit_ok T) r = true).
    { destruct r as [|c r]; [reflexivity|]. cbn in *. unfold hex_digit_ok. rewrite ok_hex_lo, ok_hex_hi.
      unfold is_digit, is_upper, is_lower in *. lia. }
    destruct (digits_ok 16 (hex_char T) (hex_val T) (hex_digit_ok T)) with (n := n) as [Hv [Hall Hne]]; try lia;
      try (intros d Hd'; apply hex_char_ok; exact Hd').
    rewrite <- app_assoc. cbn [app strip_prefix]. rewrite !Z.eqb_refl.
    rewrite (span_app _ _ _ Hall Hh). destruct (digits 16 (hex_char T) n); [contradiction|]. rewrite Hv. reflexivity.
  - destruct (r_dec_ok n Hn) as [Hv [Hall Hne]].
    assert (Hdec : raw_dec (r_dec n ++ r) = Some (n, r)).
    { unfold raw_dec. rewrite (span_app _ _ _ Hall Hd). destruct (r_dec n); [contradiction|]. rewrite Hv. reflexivity. }
    destruct (strip_prefix [48; 120] (r_dec n ++ r)) as [r'|] eqn:E; [|exact Hdec].
    (* the decimal text is "0" followed by `x`: impossible, r does not start with a letter *)
    destruct (r_dec n) as [|c [|d l]] eqn:El; [contradiction| |].
    + cbn [strip_prefix app] in E. destruct (48 =? c); [|discriminate]. destruct r as [|x r]; [discriminate|].
      destruct (120 =? x) eqn:Ex; [|discriminate]. apply Z.eqb_eq in Ex. subst x.
      unfold stops_num, is_digit, is_upper, is_lower in Hr. lia.
    + cbn [strip_prefix app] in E. destruct (48 =? c); [|discriminate]. destruct (120 =? d) eqn:Ex; [|discriminate].
      apply Z.eqb_eq in Ex. subst d. cbn [forallb] in Hall. unfold is_digit in Hall. lia.
Qed.

Lemma tok_number_ok st n r : 0 <= n -> stops_num r = true -> tok (raw_number T) (r_num T st n ++ r) = LOk n r.
Proof.
  intros Hn Hr. unfold tok.
  assert (Hs : skip_ws (r_num T st n ++ r) = r_num T st n ++ r).
  { unfold r_num. destruct (st_hex st n).
    - rewrite ok_hex_prefix. reflexivity.
    - destruct (dec_head n r Hn) as [c [Hh Hc]]. eapply skip_ws_head; [exact Hh|apply digit_not_ws; exact Hc]. }
  rewrite Hs, raw_number_ok by assumption. reflexivity.
Qed.

(* --- FIXED_SIZE_INTEGER *)
Lemma skipn_len_app {A} (a b : list A) : skipn (length a) (a ++ b) = b.
Proof. induction a; cbn; auto. Qed.

Lemma raw_intty_ok i r : wf_intty T i = true -> raw_intty T (r_int T i ++ r) = Some (i, r).
Proof.
  destruct i as [u sz sr]. unfold wf_intty. cbn [it_sizeref it_size it_unsigned]. destruct sr; [discriminate|].
  intro H. apply andb_true_iff in H as [Hsz Hw]. apply Z.leb_le in Hsz. apply mem_In in Hw.
  destruct (r_dec_ok (8 * sz)) as [Hv _]; [lia|].
  pose proof ok_fsi_ops as Hops. pose proof ok_uchar as Huc. pose proof kwok_int as Hk.
  destruct (kw_shape _ Hk) as [k0 [kr [Ek _]]].
  unfold raw_intty, r_int. cbn [it_unsigned it_size]. rewrite ok_uprefix.
  assert (Hsize : forall pre start, skipn (Z.to_nat start) (pre ++ int_kw T ++ r_dec (8 * sz)) = r_dec (8 * sz) ->
    PyOps.ev2 (fsi_div_op T) (dec_value (skipn (Z.to_nat start) (pre ++ int_kw T ++ r_dec (8 * sz)))) (fsi_div T) = sz).
  { intros pre start E. rewrite E, Hv, ok_fsi_div. destruct (fsi_unsigned_op T), (fsi_skip_op T), (fsi_div_op T); try discriminate.
    cbn [PyOps.ev2]. rewrite Z.mul_comm. apply Z.div_mul. lia. }
  destruct u.
  - rewrite <- !app_assoc. cbn [app].
    change (fsi_unsigned_char T :: int_kw T ++ r_dec (8 * sz) ++ r) with ((fsi_unsigned_char T :: int_kw T) ++ r_dec (8 * sz) ++ r).
    rewrite strip_prefix_app. rewrite (first_prefix_in _ _ _ ok_cf_widths Hw).
    f_equal. f_equal. unfold fsi_of_text. rewrite ok_fsi_index. cbn [Z.to_nat nth app].
    assert (Hu : PyOps.cmp (fsi_unsigned_op T) (fsi_unsigned_char T) (fsi_unsigned_char T) = true).
    { destruct (fsi_unsigned_op T); try (destruct (fsi_skip_op T); discriminate). cbn [PyOps.cmp]. apply Z.eqb_refl. }
    rewrite Hu. f_equal. apply (Hsize [fsi_unsigned_char T]).
    rewrite ok_fsi_skip, ok_fsi_su. destruct (fsi_unsigned_op T), (fsi_skip_op T); try discriminate. cbn [PyOps.ev2].
    unfold len. replace (Z.to_nat (Z.of_nat (length (int_kw T)) + 1)) with (S (length (int_kw T))) by lia.
    cbn [app skipn]. apply skipn_len_app.
  - rewrite <- !app_assoc. cbn [app].
    assert (Hno : strip_prefix (fsi_unsigned_char T :: int_kw T) (int_kw T ++ r_dec (8 * sz) ++ r) = None).
    { rewrite Ek in *. cbn [head_is] in Huc. cbn [strip_prefix app]. rewrite Huc. reflexivity. }
    rewrite Hno, strip_prefix_app. rewrite (first_prefix_in _ _ _ ok_cf_widths Hw).
    f_equal. f_equal. unfold fsi_of_text. rewrite ok_fsi_index. cbn [Z.to_nat app].
    assert (Hu : PyOps.cmp (fsi_unsigned_op T) (fsi_unsigned_char T) (nth 0 (int_kw T ++ r_dec (8 * sz)) (-1)) = false).
    { destruct (fsi_unsigned_op T); try (destruct (fsi_skip_op T); discriminate). rewrite Ek in *. cbn [PyOps.cmp nth app head_is] in *. exact Huc. }
    rewrite Hu. f_equal. apply (Hsize []).
    rewrite ok_fsi_skip, ok_fsi_ss. destruct (fsi_unsigned_op T), (fsi_skip_op T); try discriminate. cbn [PyOps.ev2 app].
    unfold len. rewrite Z.add_0_r, Nat2Z.id. apply skipn_len_app.
Qed.

Lemma int_head i r : wf_intty T i = true -> exists c, head_is c (r_int T i ++ r) = true /\ is_lower c = true.
Proof.
  intros _. unfold r_int. rewrite ok_uprefix. pose proof ok_kws as Hall.
  destruct (it_unsigned i).
  - exists (fsi_unsigned_char T). cbn [app head_is]. rewrite Z.eqb_refl. split; [reflexivity|apply ok_uchar_lower].
  - cbn [app]. destruct (kw_head (int_kw T) (r_dec (8 * it_size i) ++ r) kwok_int) as [c [Hh Hc]]. exists c. rewrite <- app_assoc. auto.
Qed.

Lemma dec_or_hex_head st n r : 0 <= n -> exists c, head_is c (r_num T st n ++ r) = true /\ is_digit c = true.
Proof.
  intro Hn. unfold r_num. destruct (st_hex st n).
  - rewrite ok_hex_prefix. exists 48. split; reflexivity.
  - apply dec_head. exact Hn.
Qed.

(* --- sub-parsers *)
Lemma expect_lit c r : is_ws c = false -> expect [c] (c :: r) = LOk tt r.
Proof. intro H. unfold expect. cbn [skip_ws]. rewrite H. cbn [strip_prefix]. rewrite Z.eqb_refl. reflexivity. Qed.

Lemma raw_intty_none c s : head_is c s = true -> is_lower c = false -> raw_intty T s = None.
Proof.
  intros H Hc. unfold raw_intty. rewrite ok_uprefix. cbn [app].
  rewrite (strip_prefix_head (fsi_unsigned_char T :: int_kw T) s (fsi_unsigned_char T) c); [|cbn [head_is]; apply Z.eqb_refl|exact H|].
  2:{ intro E. subst. rewrite ok_uchar_lower in Hc. discriminate. }
  destruct (kw_shape _ kwok_int) as [k0 [kr [Ek [Hk0 _]]]]. rewrite Ek.
  rewrite (strip_prefix_head (k0 :: kr) s k0 c); [reflexivity|cbn [head_is]; apply Z.eqb_refl|exact H|].
  intro E. subst. rewrite Hk0 in Hc. discriminate.
Qed.

Lemma skip_ws_int i r : wf_intty T i = true -> skip_ws (r_int T i ++ r) = r_int T i ++ r.
Proof. intro H. destruct (int_head i r H) as [c [Hh Hc]]. eapply skip_ws_head; [exact Hh|apply lower_not_ws; exact Hc]. Qed.
Lemma skip_ws_type n r : wf_type T n = true -> skip_ws (of_string n ++ r) = of_string n ++ r.
Proof. intro H. destruct (type_head n r H) as [c [Hh Hc]]. eapply skip_ws_head; [exact Hh|apply upper_not_ws; exact Hc]. Qed.
Lemma skip_ws_const n r : wf_const T n = true -> skip_ws (of_string n ++ r) = of_string n ++ r.
Proof. intro H. destruct (const_head n r H) as [c [Hh Hc]]. eapply skip_ws_head; [exact Hh|apply upper_not_ws; exact Hc]. Qed.
Lemma skip_ws_prop n r : wf_prop T n = true -> skip_ws (of_string n ++ r) = of_string n ++ r.
Proof. intro H. destruct (prop_head n r H) as [c [Hh Hc]]. eapply skip_ws_head; [exact Hh|apply lower_not_ws; exact Hc]. Qed.
Lemma skip_ws_kw k r : kw_ok k = true -> skip_ws (k ++ r) = k ++ r.
Proof. intro H. destruct (kw_head k r H) as [c [Hh Hc]]. eapply skip_ws_head; [exact Hh|apply lower_not_ws; exact Hc]. Qed.
Lemma skip_ws_num st n r : 0 <= n -> skip_ws (r_num T st n ++ r) = r_num T st n ++ r.
Proof.
  intro Hn. unfold r_num. destruct (st_hex st n).
  - rewrite ok_hex_prefix. reflexivity.
  - destruct (dec_head n r Hn) as [c [Hh Hc]]. eapply skip_ws_head; [exact Hh|apply digit_not_ws; exact Hc].
Qed.

Lemma raw_intty_type n r : wf_type T n = true -> raw_intty T (of_string n ++ r) = None.
Proof. intro H. destruct (type_head n r H) as [c [Hh Hc]]. eapply raw_intty_none; [exact Hh|apply upper_not_lower; exact Hc]. Qed.

Lemma p_const_pair_ok st ty v r :
  wf_const_pair T ty v = true ->
  p_int_or_enum_const T (r_ftype T st ty ++ [44; 32] ++ r_fvalue T st v ++ 41 :: r) = LOk (ty, v) (41 :: r).
Proof.
  unfold wf_const_pair, p_int_or_enum_const. destruct ty as [i|t|a]; destruct v as [|n|c|cc]; try discriminate; intro H;
    apply andb_true_iff in H as [H1 H2]; cbn [r_ftype r_fvalue app].
  - apply Z.leb_le in H2. rewrite skip_ws_int, raw_intty_ok by exact H1.
    rewrite expect_lit by reflexivity. cbn [lbind]. rewrite tok_sp, tok_number_ok by (try exact H2; reflexivity). reflexivity.
  - rewrite skip_ws_type, raw_intty_type by exact H1.
    rewrite tok_type_ok by (try exact H1; reflexivity). cbn [lbind]. rewrite expect_lit by reflexivity. cbn [lbind].
    rewrite tok_sp, tok_const_ok by (try exact H2; reflexivity). cbn [lbind]. rewrite !to_str_of_string. reflexivity.
Qed.

Lemma mk_array_eta a : wf_array T a = true -> mk_array (a_elem a) (a_size a) = a.
Proof.
  unfold wf_array. destruct a as [e s sk bc al lp]. cbn. intro H. apply andb_true_iff in H as [_ H].
  destruct sk, al, lp; try discriminate. apply negb_true_iff in H. subst. reflexivity.
Qed.

Definition array_args (st : style) (a : array) : list Z :=
  [40] ++ (match a_elem a with ElInt i => r_int T i | ElName n => of_string n end) ++ [44; 32]
  ++ (match a_size a with SzNum n => r_num T st n | SzName n => of_string n | SzFill => fill_placeholder T end) ++ [41].

Lemma r_array_eq st a : r_array T st a = kw_array T ++ array_args st a.
Proof. reflexivity. Qed.

Lemma raw_prop_none c s : head_is c s = true -> is_lower c = false -> raw_prop T s = None.
Proof. intros. eapply lex_class_none; eassumption. Qed.

Lemma p_array_ok st a r : wf_array T a = true -> p_array T (array_args st a ++ r) = LOk a r.
Proof.
  intro H. pose proof (mk_array_eta a H) as Heta. unfold wf_array in H. apply andb_true_iff in H as [H _].
  apply andb_true_iff in H as [He Hs]. unfold p_array, array_args. rewrite <- !app_assoc. cbn [app].
  rewrite expect_lit by reflexivity. cbn [lbind].
  assert (Hsz : forall e,
    (let* (_, r0) := expect [44] (44 :: 32 :: match a_size a with SzNum n => r_num T st n | SzName n => of_string n | SzFill => fill_placeholder T end ++ 41 :: r) in
     let* (sz, r0) := (let r1 := skip_ws r0 in
        match raw_prop T r1 with
        | Some (n, r') => LOk (SzName (to_str n)) r'
        | None => match raw_number T r1 with
                  | Some (n, r') => LOk (SzNum n) r'
                  | None => match strip_prefix (fill_placeholder T) r1 with Some r' => LOk SzFill r' | None => LErr r1 end
                  end
        end) in
     let* (_, r0) := expect [41] r0 in LOk (mk_array e sz) r0) = LOk (mk_array e (a_size a)) r).
  { intro e. rewrite expect_lit by reflexivity. cbn [lbind skip_ws]. replace (is_ws 32) with true by reflexivity.
    destruct (a_size a) as [n|n|].
    - apply Z.leb_le in Hs. rewrite skip_ws_num by exact Hs.
      destruct (dec_or_hex_head st n (41 :: r) Hs) as [c [Hh Hc]].
      rewrite (raw_prop_none c _ Hh (digit_not_lower c Hc)), raw_number_ok by (try exact Hs; reflexivity).
      cbn [lbind]. rewrite expect_lit by reflexivity. reflexivity.
    - rewrite skip_ws_prop by exact Hs. unfold raw_prop. rewrite lex_class_ok1 by (try exact Hs; reflexivity).
      cbn [lbind]. rewrite expect_lit by reflexivity. cbn [lbind]. rewrite to_str_of_string. reflexivity.
    - pose proof (ph_head (fill_placeholder T) (41 :: r) ok_fill) as Hh.
      rewrite (skip_ws_head 95 _ Hh) by reflexivity.
      rewrite (raw_prop_none 95 _ Hh) by reflexivity. rewrite (raw_number_none 95 _ Hh) by reflexivity.
      rewrite strip_prefix_app. cbn [lbind]. rewrite expect_lit by reflexivity. reflexivity. }
  destruct (a_elem a) as [i|n].
  - rewrite skip_ws_int, raw_intty_ok by exact He. cbn [lbind]. rewrite Hsz, Heta. reflexivity.
  - rewrite skip_ws_type, raw_intty_type by exact He. rewrite tok_type_ok by (try exact He; reflexivity). cbn [lbind].
    rewrite to_str_of_string, Hsz, Heta. reflexivity.
Qed.

(* --- conditions and plain field types *)
Lemma kw_nonempty k : kw_ok k = true -> k <> [].
Proof. intro H. destruct (kw_shape k H) as [c [r [-> _]]]. discriminate. Qed.

Lemma p_cond_none : p_cond_opt T [] = LOk VNone [].
Proof. unfold p_cond_opt. cbn [skip_ws]. rewrite strip_prefix_nil_r by (apply kw_nonempty, kwok_if). reflexivity. Qed.

Lemma op_head o r : In o (cond_ops T) -> exists c, head_is c (o ++ r) = true /\ is_lower c = true.
Proof.
  intro H. pose proof ok_ops as Hall. rewrite forallb_forall in Hall. specialize (Hall o H).
  destruct o as [|c o]; [discriminate|]. cbn [op_ok] in Hall. apply andb_true_iff in Hall as [Hc _].
  exists c. cbn [app head_is]. rewrite Z.eqb_refl. auto.
Qed.

Lemma p_cond_some st c : wf_cond T c = true -> p_cond_opt T (32 :: r_fvalue T st (VCond c)) = LOk (VCond c) [].
Proof.
  unfold wf_cond. intro H. apply andb_true_iff in H as [H Hl]. apply andb_true_iff in H as [Hv Ho]. apply mem_In in Ho.
  unfold p_cond_opt. cbn [r_fvalue skip_ws]. replace (is_ws 32) with true by reflexivity.
  rewrite skip_ws_kw, strip_prefix_app by apply kwok_if. cbn [app].
  assert (Hrest : forall cv,
    (let* (op, r) := tok (first_prefix (cond_ops T)) (32 :: of_string (c_op c) ++ 32 :: of_string (c_link c)) in
     let* (l, r) := tok (raw_prop T) r in
     LOk (VCond {| c_value := cv; c_op := to_str op; c_link := to_str l |}) r)
    = LOk (VCond {| c_value := cv; c_op := c_op c; c_link := c_link c |}) []).
  { intro cv. rewrite tok_sp. destruct (op_head (of_string (c_op c)) (32 :: of_string (c_link c)) Ho) as [x [Hh Hx]].
    rewrite (tok_at _ _ x (of_string (c_op c)) (32 :: of_string (c_link c)) Hh (lower_not_ws x Hx))
      by (apply first_prefix_in; [apply ok_cf_ops|exact Ho]).
    cbn [lbind app]. rewrite tok_sp. rewrite <- (app_nil_r (of_string (c_link c))).
    rewrite tok_prop_ok by (try exact Hl; reflexivity). cbn [lbind]. rewrite !to_str_of_string. reflexivity. }
  destruct c as [cv op l]. cbn [c_value c_op c_link] in *. destruct cv as [n|n].
  - apply Z.leb_le in Hv. rewrite skip_ws_sp, skip_ws_num, raw_number_ok by (try exact Hv; reflexivity). cbn [lbind]. apply Hrest.
  - rewrite skip_ws_sp, skip_ws_const by exact Hv. destruct (const_head n (32 :: of_string op ++ 32 :: of_string l) Hv) as [x [Hh Hx]].
    rewrite (raw_number_none x _ Hh (upper_not_digit x Hx)).
    rewrite tok_sp, tok_const_ok by (try exact Hv; reflexivity). cbn [lbind]. rewrite to_str_of_string. apply Hrest.
Qed.

Definition wf_plain_type (ty : ftype) : bool :=
  match ty with FInt i => wf_intty T i | FName t => wf_type T t | FArray a => wf_array T a end.
Definition wf_plain_value (v : fvalue) : bool := match v with VNone => true | VCond c => wf_cond T c | _ => false end.
Definition value_suffix (st : style) (v : fvalue) : list Z := match v with VNone => [] | _ => [32] ++ r_fvalue T st v end.

Lemma cf_field_kw k t : In k [kw_make_reserved T; kw_sizeof T; kw_inline_field T; kw_array T] -> In t (int_heads T) -> cf k t = true.
Proof. intros Hk Ht. exact (pw_cf_cross _ _ k t ok_cf_field Hk Ht). Qed.

Lemma int_text_split i r : exists h, In h (int_heads T) /\ exists r', r_int T i ++ r = h ++ r'.
Proof.
  unfold r_int, int_heads. destruct (it_unsigned i).
  - exists (int_unsigned_prefix T ++ int_kw T). split; [left; reflexivity|]. eexists. rewrite <- !app_assoc. reflexivity.
  - exists (int_kw T). split; [right; left; reflexivity|]. eexists. cbn [app]. rewrite <- !app_assoc. reflexivity.
Qed.

Lemma strip_kw_int k i r : In k [kw_make_reserved T; kw_sizeof T; kw_inline_field T; kw_array T] -> strip_prefix k (r_int T i ++ r) = None.
Proof.
  intro Hk. destruct (int_text_split i r) as [h [Hh [r' E]]]. rewrite E. apply cf_strip. apply cf_field_kw; assumption.
Qed.

Lemma raw_intty_kw k r : In k [kw_make_reserved T; kw_sizeof T; kw_inline_field T; kw_array T] -> raw_intty T (k ++ r) = None.
Proof.
  intro Hk. unfold raw_intty.
  rewrite (cf_strip (int_unsigned_prefix T ++ int_kw T) k r) by (rewrite cf_sym; apply cf_field_kw; [exact Hk|left; reflexivity]).
  rewrite (cf_strip (int_kw T) k r) by (rewrite cf_sym; apply cf_field_kw; [exact Hk|right; left; reflexivity]).
  reflexivity.
Qed.

Lemma p_field_tail_ok st ty v :
  wf_plain_type ty = true -> wf_plain_value v = true ->
  p_field_tail T (32 :: r_ftype T st ty ++ value_suffix st v) = LOk (ty, v) [].
Proof.
  intros Hty Hv. unfold p_field_tail. cbn [skip_ws]. replace (is_ws 32) with true by reflexivity.
  assert (Hcond : forall ty' : ftype, (let* (v0, r) := p_cond_opt T (value_suffix st v) in finish (ty', v0) r) = LOk (ty', v) []).
  { intro ty'. destruct v as [|n|n|c]; try discriminate; unfold value_suffix.
    - rewrite p_cond_none. reflexivity.
    - cbn [app]. rewrite p_cond_some by exact Hv. reflexivity. }
  destruct ty as [i|t|a]; cbn [r_ftype wf_plain_type] in *.
  - rewrite skip_ws_int by exact Hty. destruct (int_head i (value_suffix st v) Hty) as [c [Hh Hc]].
    unfold raw_type. rewrite (lex_class_none _ _ _ _ _ c Hh (lower_not_upper c Hc)).
    rewrite raw_intty_ok by exact Hty. cbn [lbind]. apply Hcond.
  - rewrite skip_ws_type by exact Hty. unfold raw_type. rewrite lex_class_ok2; [|exact Hty|].
    2:{ destruct v as [|n|n|c]; try discriminate; reflexivity. }
    cbn [lbind]. rewrite to_str_of_string. apply Hcond.
  - rewrite r_array_eq, <- app_assoc. rewrite skip_ws_kw by apply kwok_array.
    destruct (kw_head (kw_array T) (array_args st a ++ value_suffix st v) kwok_array) as [c [Hh Hc]].
    unfold raw_type. rewrite (lex_class_none _ _ _ _ _ c Hh (lower_not_upper c Hc)).
    rewrite raw_intty_kw by (cbn [In]; tauto). rewrite strip_prefix_app, p_array_ok by exact Hty. cbn [lbind]. apply Hcond.
Qed.

Definition stops_pair (r : list Z) : bool := match r with [] => true | c :: _ => (c =? 44) || (c =? 41) end.

(* --- attributes *)
Definition names_of (tables : list (actx * akind * list (list Z))) : list (list Z) := flat_map (fun t => snd t) tables.

Lemma find_attr_ok tables c k names n r :
  pw_cf (names_of tables) = true -> In (c, k, names) tables -> In n names -> find_attr tables (n ++ r) = Some (c, k, n, r).
Proof.
  induction tables as [|[[c0 k0] names0] rest IH]; intros Hpw Hin Hn; [contradiction|].
  cbn [names_of flat_map snd] in Hpw. cbn [find_attr].
  destruct Hin as [E|Hin].
  - inversion E; subst. rewrite (first_prefix_in _ _ _ (pw_cf_app_l _ _ Hpw) Hn). reflexivity.
  - rewrite first_prefix_cf.
    + apply IH; [exact (pw_cf_app_r _ _ Hpw)|exact Hin|exact Hn].
    + apply forallb_forall. intros x Hx. rewrite cf_sym. apply (pw_cf_cross _ _ x n Hpw Hx).
      unfold names_of. apply in_flat_map. exists (c, k, names). split; [exact Hin|exact Hn].
Qed.

Lemma names_top : names_of (attr_tables T None) = enum_attr_zero T ++ struct_attr_names T.
Proof. unfold names_of, attr_tables, struct_attr_names. cbn [flat_map app snd]. rewrite !app_nil_r. reflexivity. Qed.
Lemma names_enum : names_of (attr_tables T (Some CEnum)) = enum_attr_zero T.
Proof. unfold names_of, attr_tables. cbn [flat_map app snd]. rewrite !app_nil_r. reflexivity. Qed.
Lemma names_struct : names_of (attr_tables T (Some CStruct)) = struct_attr_names T.
Proof. unfold names_of, attr_tables, struct_attr_names. cbn [flat_map app snd]. rewrite !app_nil_r. reflexivity. Qed.
Lemma names_field : names_of (attr_tables T (Some CField)) = field_attr_names T.
Proof. unfold names_of, attr_tables, field_attr_names. cbn [flat_map app snd]. rewrite !app_nil_r. reflexivity. Qed.

Lemma pw_names ctx : pw_cf (names_of (attr_tables T ctx)) = true.
Proof.
  destruct ctx as [[| |]|].
  - rewrite names_enum. exact (pw_cf_app_l _ _ ok_cf_tattrs).
  - rewrite names_struct. exact (pw_cf_app_r _ _ ok_cf_tattrs).
  - rewrite names_field. exact ok_cf_fattrs.
  - rewrite names_top. exact ok_cf_tattrs.
Qed.

(* the context in which an attribute of context c may appear: pending attributes of the same kind, or none at top level *)
Definition ctx_ok (pending : option actx) (c : actx) : bool :=
  match pending, c with
  | None, CEnum | None, CStruct => true
  | Some p, c => actx_eqb p c
  | None, CField => false
  end.

Lemma attr_kind_in c name k :
  attr_kind T c name = Some k -> exists names, In (c, k, names) (attr_tables T (Some c)) /\ In name names.
Proof.
  unfold attr_kind. destruct (find _ _) as [[[c0 k0] names]|] eqn:E; [|discriminate].
  intro H. inversion H; subst. apply find_some in E as [Hin Hm]. cbn [snd] in Hm. apply mem_In in Hm.
  exists names. split; [|exact Hm].
  assert (c0 = c).
  { destruct c; cbn [attr_tables In] in Hin; repeat (destruct Hin as [Hin|Hin]; [inversion Hin; reflexivity|]); contradiction. }
  subst. exact Hin.
Qed.

Lemma tables_incl pending c entry : ctx_ok pending c = true -> In entry (attr_tables T (Some c)) -> In entry (attr_tables T pending).
Proof.
  destruct pending as [p|].
  - cbn [ctx_ok]. intro H. destruct p, c; try discriminate; auto.
  - destruct c; cbn [ctx_ok]; try discriminate; intros _ H; unfold attr_tables in *; apply in_or_app; [left|right]; exact H.
Qed.

Lemma attr_name_kw c name k : attr_kind T c name = Some k -> kw_ok name = true.
Proof.
  intro H. destruct (attr_kind_in c name k H) as [names [Hin Hn]]. apply kw_in.
  destruct c; cbn [attr_tables In] in Hin; repeat (destruct Hin as [Hin|Hin]; [inversion Hin; subst; in_kws|]); contradiction.
Qed.

Definition attr_args (st : style) (ctx : actx) (a : attribute) : list Z :=
  match at_values a with
  | [] => []
  | vals =>
    [40] ++ (match attr_kind T ctx (of_string (at_name a)), vals with
             | Some AkAlignment, [n; neg; opt] =>
               r_avalue T st n ++ match opt with
                                  | AvNone => []
                                  | _ => [44; 32] ++ (match neg with AvNone => [] | _ => r_avalue T st neg ++ [32] end) ++ r_avalue T st opt
                                  end
             | Some AkTransform, _ => join [44; 32] (r_pairs T st vals)
             | _, _ => join [44; 32] (map (r_avalue T st) vals)
             end) ++ [41]
  end.
Lemma r_attr_eq st ctx a : r_attr T st ctx a = [64] ++ of_string (at_name a) ++ attr_args st ctx a.
Proof. reflexivity. Qed.

Definition rest_text (st : style) (vs : list avalue) : list Z := flat_map (fun v => 44 :: 32 :: r_avalue T st v) vs.

Lemma join_cons2 sep (x y : list Z) r : join sep (x :: y :: r) = x ++ sep ++ join sep (y :: r).
Proof. reflexivity. Qed.

Lemma join_rest st v vs : join [44; 32] (map (r_avalue T st) (v :: vs)) = r_avalue T st v ++ rest_text st vs.
Proof.
  revert v. induction vs as [|w vs IH]; intro v.
  - cbn [map join rest_text flat_map]. rewrite app_nil_r. reflexivity.
  - change (map (r_avalue T st) (v :: w :: vs)) with (r_avalue T st v :: r_avalue T st w :: map (r_avalue T st) vs).
    rewrite join_cons2. change (r_avalue T st w :: map (r_avalue T st) vs) with (map (r_avalue T st) (w :: vs)).
    rewrite IH. reflexivity.
Qed.

Lemma rest_text_stops st vs r : stops prop_rest (rest_text st vs ++ 41 :: r) = true.
Proof. destruct vs; reflexivity. Qed.

Lemma props_rest_ok st vs : forall fuel r,
  forallb (wf_prop_value T) vs = true -> (length vs < fuel)%nat ->
  p_props_rest T fuel (rest_text st vs ++ 41 :: r) = LOk vs (41 :: r).
Proof.
  induction vs as [|v vs IH]; intros fuel r Hwf Hf; (destruct fuel as [|f]; [cbn in Hf; lia|]).
  - reflexivity.
  - cbn [forallb] in Hwf. apply andb_true_iff in Hwf as [Hv Hvs]. destruct v as [n|p|]; try discriminate. cbn [wf_prop_value] in Hv.
    cbn [rest_text flat_map r_avalue p_props_rest app]. fold (rest_text st vs).
    replace (strip_prefix [44] (skip_ws (44 :: 32 :: (of_string p ++ rest_text st vs) ++ 41 :: r)))
      with (Some (32 :: (of_string p ++ rest_text st vs) ++ 41 :: r)) by reflexivity.
    rewrite <- app_assoc, tok_sp, tok_prop_ok by (try exact Hv; apply rest_text_stops). cbn [lbind].
    rewrite IH by (try exact Hvs; cbn in Hf; lia). cbn [lbind]. rewrite to_str_of_string. reflexivity.
Qed.

Lemma rest_text_len0 st vs : (length vs <= length (rest_text st vs))%nat.
Proof.
  induction vs as [|v vs IH]; [cbn; lia|].
  change (rest_text st (v :: vs)) with (44 :: 32 :: r_avalue T st v ++ rest_text st vs).
  cbn [length]. rewrite app_length. lia.
Qed.
Lemma rest_text_len st vs (r : list Z) : (length vs < length (rest_text st vs ++ 41%Z :: r))%nat.
Proof. rewrite app_length. cbn [length]. pose proof (rest_text_len0 st vs). lia. Qed.

(* pairs of comparer *)
Definition pair_text (st : style) (p : string) (t : avalue) : list Z :=
  of_string p ++ match t with AvNone => [] | _ => [33] ++ r_avalue T st t end.

Lemma p_pairs_sp fuel s : p_pairs T fuel (32 :: s) = p_pairs T fuel s.
Proof. destruct fuel; reflexivity. Qed.

Lemma transform_step {B} st p t r (K : list Z -> avalue -> list Z -> lres B) :
  wf_prop T p = true -> wf_transform T t = true -> stops_pair r = true ->
  (let* (v, r0) := tok (raw_prop T) (pair_text st p t ++ r) in
   let* (t0, r1) := (match strip_prefix [33] (skip_ws r0) with
                     | Some r' => let* (t0, r'') := tok (first_prefix (transform_names T)) r' in LOk (AvStr (to_str t0)) r''
                     | None => LOk AvNone r0
                     end) in
   K v t0 r1) = K (of_string p) t r.
Proof.
  intros Hp Ht Hr. unfold pair_text. destruct t as [n|tn|]; try discriminate.
  - cbn [wf_transform] in Ht. apply mem_In in Ht. cbn [r_avalue app]. rewrite <- app_assoc. cbn [app].
    rewrite tok_prop_ok by (try exact Hp; reflexivity). cbn [lbind].
    replace (strip_prefix [33] (skip_ws (33 :: of_string tn ++ r))) with (Some (of_string tn ++ r)) by reflexivity.
    destruct (kw_head (of_string tn) r (kwok_transform _ Ht)) as [c [Hh Hc]].
    rewrite (tok_at _ _ c (of_string tn) r Hh (lower_not_ws c Hc)) by (apply first_prefix_in; [apply ok_cf_transforms|exact Ht]).
    cbn [lbind]. rewrite to_str_of_string. reflexivity.
  - rewrite app_nil_r. rewrite tok_prop_ok; [|exact Hp|].
    2:{ destruct r as [|c r]; [reflexivity|]. unfold stops_pair in Hr. cbn [stops]. destruct (c =? 44) eqn:E1.
        - apply Z.eqb_eq in E1. subst. reflexivity.
        - destruct (c =? 41) eqn:E2; [|discriminate]. apply Z.eqb_eq in E2. subst. reflexivity. }
    cbn [lbind].
    assert (Hno : strip_prefix [33] (skip_ws r) = None).
    { destruct r as [|c r]; [reflexivity|]. unfold stops_pair in Hr. destruct (c =? 44) eqn:E1.
      - apply Z.eqb_eq in E1. subst. reflexivity.
      - destruct (c =? 41) eqn:E2; [|discriminate]. apply Z.eqb_eq in E2. subst. reflexivity. }
    rewrite Hno. reflexivity.
Qed.

Lemma r_pairs_one st p t : r_pairs T st [AvStr p; t] = [pair_text st p t].
Proof. reflexivity. Qed.
Lemma r_pairs_more st p t r : r_pairs T st (AvStr p :: t :: r) = pair_text st p t :: r_pairs T st r.
Proof. reflexivity. Qed.

Lemma wf_pairs_inv vals :
  wf_pairs T vals = true ->
  exists p t r, vals = AvStr p :: t :: r /\ wf_prop T p = true /\ wf_transform T t = true /\ (r = [] \/ wf_pairs T r = true).
Proof.
  destruct vals as [|[n|p|] [|t r]]; cbn [wf_pairs]; try discriminate.
  destruct r as [|x r].
  - intro H. apply andb_true_iff in H as [H1 H2]. exists p, t, []. auto.
  - intro H. apply andb_true_iff in H as [H H3]. apply andb_true_iff in H as [H1 H2]. exists p, t, (x :: r). auto.
Qed.

Lemma r_pairs_nonempty st vals : wf_pairs T vals = true -> r_pairs T st vals <> [].
Proof. intro H. destruct (wf_pairs_inv vals H) as [p [t [r [-> _]]]]. rewrite r_pairs_more. discriminate. Qed.

Lemma pairs_ok st : forall fuel vals r,
  wf_pairs T vals = true -> (length vals <= 2 * fuel)%nat ->
  p_pairs T fuel (join [44; 32] (r_pairs T st vals) ++ 41 :: r) = LOk vals (41 :: r).
Proof.
  induction fuel as [|f IH]; intros vals r Hwf Hlen.
  - destruct (wf_pairs_inv vals Hwf) as [p [t [r' [-> _]]]]. cbn in Hlen. lia.
  - destruct (wf_pairs_inv vals Hwf) as [p [t [r' [-> [Hp [Ht Hr']]]]]]. rewrite r_pairs_more.
    cbn [p_pairs]. destruct Hr' as [->|Hr'].
    + cbn [r_pairs join]. rewrite (transform_step st p t (41 :: r)) by (try assumption; reflexivity).
      replace (strip_prefix [44] (skip_ws (41 :: r))) with (@None (list Z)) by reflexivity.
      rewrite to_str_of_string. reflexivity.
    + pose proof (r_pairs_nonempty st r' Hr') as Hne. destruct (r_pairs T st r') as [|y ys] eqn:Ey; [contradiction|].
      rewrite join_cons2, <- !app_assoc. cbn [app]. rewrite (transform_step st p t) by (try assumption; reflexivity).
      replace (strip_prefix [44] (skip_ws (44 :: 32 :: join [44; 32] (y :: ys) ++ 41 :: r)))
        with (Some (32 :: join [44; 32] (y :: ys) ++ 41 :: r)) by reflexivity.
      rewrite p_pairs_sp, <- Ey, IH by (try exact Hr'; cbn [length] in Hlen; lia). cbn [lbind].
      rewrite to_str_of_string. reflexivity.
Qed.

Lemma pairs_text_len st vals (r : list Z) :
  wf_pairs T vals = true -> (length vals <= 2 * length (join [44%Z; 32%Z] (r_pairs T st vals) ++ 41%Z :: r))%nat.
Proof.
  assert (Hgen : forall n vals, (length vals <= n)%nat -> wf_pairs T vals = true ->
            (length vals <= 2 * length (join [44%Z; 32%Z] (r_pairs T st vals)))%nat).
  { induction n as [|n IH]; intros vs Hn Hwf; destruct (wf_pairs_inv vs Hwf) as [p [t [r' [-> [Hp [_ Hr']]]]]].
    - cbn in Hn. lia.
    - rewrite r_pairs_more. destruct (prop_head p [] Hp) as [c [Hh _]]. rewrite app_nil_r in Hh.
      assert (Hpl : (1 <= length (pair_text st p t))%nat).
      { unfold pair_text. rewrite app_length. destruct (of_string p); [discriminate|]. cbn [length]. lia. }
      destruct Hr' as [->|Hr'].
      + cbn [r_pairs join length]. lia.
      + pose proof (r_pairs_nonempty st r' Hr') as Hne. specialize (IH r').
        destruct (r_pairs T st r') as [|y ys] eqn:Ey; [contradiction|].
        rewrite join_cons2, !app_length. cbn [length] in *. specialize (IH ltac:(lia) Hr'). lia. }
  intro Hwf. rewrite app_length. specialize (Hgen (length vals) vals (le_n _) Hwf). lia.
Qed.

Lemma strip44_close r : strip_prefix [44] (skip_ws (41 :: r)) = None.
Proof. reflexivity. Qed.
Lemma strip44_comma r : strip_prefix [44] (skip_ws (44 :: r)) = Some r.
Proof. reflexivity. Qed.
Lemma finish_nil {A} (a : A) : finish a [] = LOk a [].
Proof. reflexivity. Qed.

Lemma option_head o r : In o (alignment_option T) -> exists c, head_is c (o ++ r) = true /\ is_lower c = true.
Proof. intro H. apply kw_head. apply kwok_option. exact H. Qed.

Lemma p_attr_args_ok st ctx a k :
  attr_kind T ctx (of_string (at_name a)) = Some k -> wf_attr T ctx a = true ->
  p_attr_args T k (attr_args st ctx a) = LOk (at_values a) [].
Proof.
  intros Hk Hwf. unfold wf_attr in Hwf. unfold attr_args. rewrite Hk in *. destruct a as [name vals]. cbn [at_values at_name] in *.
  destruct k.
  - (* zero *) destruct vals; [reflexivity|discriminate].
  - (* alignment *)
    destruct vals as [|v1 vals]; [discriminate|]. destruct v1 as [n|?|]; try discriminate.
    destruct vals as [|neg vals]; [discriminate|]. destruct vals as [|opt vals]; [destruct neg; discriminate|].
    destruct vals as [|x vals]; [|destruct neg, opt; discriminate].
    unfold p_attr_args. cbn [app r_avalue].
    destruct opt as [?|o|].
    + destruct neg as [|?|]; discriminate.
    + (* with option *)
      assert (Hn : 0 <= n /\ In (of_string o) (alignment_option T) /\
                   match neg with AvNone => True | AvStr g => of_string g = negation T | AvNum _ => False end).
      { destruct neg as [?|g|]; apply andb_true_iff in Hwf as [Hwf H3]; try discriminate; apply andb_true_iff in Hwf as [H1 H2];
          apply Z.leb_le in H1; apply mem_In in H2; repeat split; auto. apply list_eqb_eq. exact H3. }
      destruct Hn as [Hn [Ho Hneg]].
      rewrite expect_lit by reflexivity. cbn [lbind]. rewrite <- !app_assoc. cbn [app].
      rewrite tok_number_ok by (try exact Hn; reflexivity). cbn [lbind]. rewrite strip44_comma, skip_ws_sp.
      destruct (option_head (of_string o) [41] Ho) as [c [Hh Hc]].
      assert (Hopt : forall g, (let* (o0, r2) := tok (first_prefix (alignment_option T)) (of_string o ++ [41]) in
                                LOk [AvNum n; g; AvStr (to_str o0)] r2) = LOk [AvNum n; g; AvStr o] [41]).
      { intro g. rewrite (tok_at _ _ c (of_string o) [41] Hh (lower_not_ws c Hc))
          by (apply first_prefix_in; [exact (pw_cf_app_r [negation T] _ ok_cf_align)|exact Ho]).
        cbn [lbind]. rewrite to_str_of_string. reflexivity. }
      destruct neg as [?|g|]; [contradiction| |].
      * cbn [r_avalue app]. rewrite Hneg, <- !app_assoc. cbn [app]. rewrite skip_ws_kw by apply kwok_negation.
        rewrite strip_prefix_app. rewrite tok_sp, Hopt. cbn [lbind]. rewrite expect_lit by reflexivity. cbn [lbind].
        rewrite <- Hneg, to_str_of_string. reflexivity.
      * cbn [app r_avalue]. rewrite (skip_ws_head c _ Hh (lower_not_ws c Hc)).
        rewrite cf_strip.
        2:{ pose proof ok_cf_align as Hpw. cbn [pw_cf] in Hpw. apply andb_true_iff in Hpw as [Hpw _].
            rewrite forallb_forall in Hpw. apply Hpw. exact Ho. }
        rewrite Hopt. cbn [lbind]. rewrite expect_lit by reflexivity. reflexivity.
    + (* bare *)
      destruct neg as [?|?|]; try discriminate. apply Z.leb_le in Hwf.
      rewrite expect_lit by reflexivity. cbn [lbind]. rewrite app_nil_r.
      rewrite tok_number_ok by (try exact Hwf; reflexivity). cbn [lbind]. rewrite strip44_close.
      cbn [lbind]. rewrite expect_lit by reflexivity. reflexivity.
  - (* single *)
    destruct vals as [|[?|p|] [|? ?]]; try discriminate.
    unfold p_attr_args. cbn [map join r_avalue app]. rewrite expect_lit by reflexivity. cbn [lbind].
    rewrite tok_prop_ok by (try exact Hwf; reflexivity). cbn [lbind]. rewrite expect_lit by reflexivity. cbn [lbind].
    rewrite to_str_of_string. reflexivity.
  - (* sizeref *)
    destruct vals as [|[?|p|] [|[n|?|] [|? ?]]]; try discriminate.
    + unfold p_attr_args. cbn [map join r_avalue app]. rewrite expect_lit by reflexivity. cbn [lbind].
      rewrite tok_prop_ok by (try exact Hwf; reflexivity). cbn [lbind]. rewrite strip44_close.
      cbn [lbind]. rewrite expect_lit by reflexivity. cbn [lbind]. rewrite to_str_of_string. reflexivity.
    + apply andb_true_iff in Hwf as [Hp Hn]. apply Z.leb_le in Hn.
      unfold p_attr_args. cbn [map]. rewrite join_cons2. cbn [join r_avalue]. rewrite <- !app_assoc. cbn [app].
      rewrite expect_lit by reflexivity. cbn [lbind].
      rewrite tok_prop_ok by (try exact Hp; reflexivity). cbn [lbind]. rewrite strip44_comma.
      rewrite tok_sp, tok_number_ok by (try exact Hn; reflexivity). cbn [lbind]. rewrite expect_lit by reflexivity. cbn [lbind].
      rewrite to_str_of_string. reflexivity.
  - (* two *)
    destruct vals as [|[?|p|] [|[?|c|] [|? ?]]]; try discriminate.
    apply andb_true_iff in Hwf as [Hp Hc].
    unfold p_attr_args. cbn [map]. rewrite join_cons2. cbn [join r_avalue]. rewrite <- !app_assoc. cbn [app].
    rewrite expect_lit by reflexivity. cbn [lbind].
    rewrite tok_prop_ok by (try exact Hp; reflexivity). cbn [lbind]. rewrite expect_lit by reflexivity. cbn [lbind].
    rewrite tok_sp, tok_const_ok by (try exact Hc; reflexivity). cbn [lbind]. rewrite expect_lit by reflexivity. cbn [lbind].
    rewrite !to_str_of_string. reflexivity.
  - (* multi *)
    destruct vals as [|v vs]; [discriminate|]. cbn [forallb] in Hwf. apply andb_true_iff in Hwf as [Hv Hvs].
    destruct v as [?|p|]; try discriminate. cbn [wf_prop_value] in Hv.
    unfold p_attr_args. rewrite join_rest. cbn [r_avalue]. rewrite <- !app_assoc. cbn [app].
    rewrite expect_lit by reflexivity. cbn [lbind].
    rewrite tok_prop_ok by (try exact Hp; try exact Hv; apply (rest_text_stops st vs [])). cbn [lbind].
    rewrite props_rest_ok by (try exact Hvs; pose proof (rest_text_len st vs []); lia). cbn [lbind].
    rewrite expect_lit by reflexivity. cbn [lbind]. rewrite to_str_of_string. reflexivity.
  - (* transform *)
    assert (Hne : vals <> []) by (destruct vals; [discriminate|discriminate]).
    destruct vals as [|v vs]; [contradiction|].
    unfold p_attr_args. rewrite <- ?app_assoc. cbn [app].
    rewrite expect_lit by reflexivity. cbn [lbind].
    rewrite pairs_ok by (try exact Hwf; pose proof (pairs_text_len st (v :: vs) [] Hwf); lia). cbn [lbind].
    rewrite expect_lit by reflexivity. reflexivity.
Qed.

Lemma p_attr_ok st pending ctx a :
  ctx_ok pending ctx = true -> wf_attr T ctx a = true ->
  p_attr T pending (of_string (at_name a) ++ attr_args st ctx a) = LOk (ctx, a) [].
Proof.
  intros Hctx Hwf. destruct (attr_kind T ctx (of_string (at_name a))) as [k|] eqn:Hk.
  2:{ unfold wf_attr in Hwf. rewrite Hk in Hwf. discriminate. }
  destruct (attr_kind_in _ _ _ Hk) as [names [Hin Hn]].
  unfold p_attr. rewrite skip_ws_kw by (eapply attr_name_kw; exact Hk).
  rewrite (find_attr_ok _ ctx k names) by (try apply pw_names; try exact Hn; eapply tables_incl; eassumption).
  rewrite (p_attr_args_ok st ctx a k Hk Hwf). cbn [lbind]. rewrite to_str_of_string. destruct a. reflexivity.
Qed.

(* --- top-level lines *)
Definition top_words : list (list Z) := [kw_import T; kw_using T; kw_enum T; kw_struct T] ++ struct_modifiers T.

Lemma cf_import_x x : In x ([kw_using T; kw_enum T; kw_struct T] ++ struct_modifiers T) -> cf (kw_import T) x = true.
Proof. intro H. pose proof ok_cf_top as Hpw. cbn [pw_cf app] in Hpw. apply andb_true_iff in Hpw as [Hf _]. rewrite forallb_forall in Hf. auto. Qed.
Lemma cf_using_x x : In x ([kw_enum T; kw_struct T] ++ struct_modifiers T) -> cf (kw_using T) x = true.
Proof.
  intro H. pose proof ok_cf_top as Hpw. cbn [pw_cf app] in Hpw. apply andb_true_iff in Hpw as [_ Hpw].
  apply andb_true_iff in Hpw as [Hf _]. rewrite forallb_forall in Hf. auto.
Qed.
Lemma cf_enum_x x : In x ([kw_struct T] ++ struct_modifiers T) -> cf (kw_enum T) x = true.
Proof.
  intro H. pose proof ok_cf_top as Hpw. cbn [pw_cf app] in Hpw. apply andb_true_iff in Hpw as [_ Hpw].
  apply andb_true_iff in Hpw as [_ Hpw]. apply andb_true_iff in Hpw as [Hf _]. rewrite forallb_forall in Hf. auto.
Qed.
Lemma cf_struct_mods : forallb (cf (kw_struct T)) (struct_modifiers T) = true.
Proof.
  pose proof ok_cf_top as Hpw. cbn [pw_cf app] in Hpw. apply andb_true_iff in Hpw as [_ Hpw].
  apply andb_true_iff in Hpw as [_ Hpw]. apply andb_true_iff in Hpw as [_ Hpw]. apply andb_true_iff in Hpw as [Hf _]. exact Hf.
Qed.
Lemma pw_mods : pw_cf (struct_modifiers T) = true.
Proof. exact (pw_cf_app_r [kw_import T; kw_using T; kw_enum T; kw_struct T] _ ok_cf_top). Qed.

Lemma strip_at_lower c s : head_is c s = true -> is_lower c = true -> strip_prefix [64] s = None.
Proof. intros H Hc. eapply strip1_head; [exact H|]. intro E. subst. discriminate. Qed.
Lemma strip_at_upper c s : head_is c s = true -> is_upper c = true -> strip_prefix [64] s = None.
Proof. intros H Hc. eapply strip1_head; [exact H|]. intro E. subst. discriminate. Qed.

Lemma scan_string_ok l : forallb (fun c => negb ((c =? 34) || (c =? 92) || (c =? 10))) l = true ->
  forall acc, scan_string (l ++ [34]) true acc = Some (rev acc ++ l, []).
Proof.
  induction l as [|x l IH]; intros Hp acc.
  - cbn [app scan_string]. replace (34 =? 34) with true by reflexivity. cbn [andb]. rewrite app_nil_r. reflexivity.
  - cbn [forallb] in Hp. apply andb_true_iff in Hp as [Hx Hl]. cbn [app scan_string].
    assert (x <> 34 /\ x <> 92 /\ x <> 10) as [H1 [H2 H3]] by lia.
    apply Z.eqb_neq in H1, H2, H3. rewrite H1, H2, H3. cbn [andb]. rewrite (IH Hl). cbn [rev]. rewrite <- app_assoc. reflexivity.
Qed.
Lemma raw_string_ok p : wf_path p = true -> raw_string (34 :: of_string p ++ [34]) = Some (of_string p, []).
Proof.
  intro Hp. unfold raw_string. replace (34 =? 34) with true by reflexivity. rewrite scan_string_ok; [reflexivity|].
  unfold wf_path in Hp. rewrite forallb_forall in *. intros x Hx. specialize (Hp x Hx). lia.
Qed.

Section Lines.
Hypothesis Hmerged : comment_merged T = false.

Lemma top_attr_ok st pa ac ctx a :
  ctx_ok pa ctx = true -> wf_attr T ctx a = true -> parse_top_line T pa ac (r_attr T st ctx a) = LOk (TAttr ctx a) [].
Proof.
  intros Hctx Hwf. unfold parse_top_line. rewrite Hmerged. cbn [andb]. rewrite r_attr_eq. cbn [app skip_ws].
  replace (is_ws 64) with false by reflexivity. cbn [strip_prefix]. replace (64 =? 64) with true by reflexivity.
  rewrite (p_attr_ok st pa ctx a Hctx Hwf). reflexivity.
Qed.

Lemma top_import_ok ac p : wf_path p = true ->
  parse_top_line T None ac (kw_import T ++ [32; 34] ++ of_string p ++ [34]) = LOk (TImport p) [].
Proof.
  intro Hp. unfold parse_top_line. rewrite Hmerged. cbn [andb].
  destruct (kw_head (kw_import T) ([32; 34] ++ of_string p ++ [34]) kwok_import) as [c [Hh Hc]].
  rewrite skip_ws_kw by apply kwok_import. rewrite (strip_at_lower c _ Hh Hc), strip_prefix_app.
  cbn [app]. rewrite tok_sp.
  pose proof (raw_string_ok p Hp) as Hs.
  unfold tok. cbn [skip_ws]. replace (is_ws 34) with false by reflexivity. rewrite Hs. cbn [lbind].
  rewrite finish_nil, to_str_of_string. reflexivity.
Qed.

Lemma top_alias_ok st ac n l :
  wf_type T n = true -> match l with LInt i => wf_intty T i | LBuffer k => wf_num k end = true ->
  parse_top_line T None ac (kw_using T ++ [32] ++ of_string n ++ [32; 61; 32] ++ r_linked T st l) = LOk (TAlias n l) [].
Proof.
  intros Hn Hl. unfold parse_top_line. rewrite Hmerged. cbn [andb].
  destruct (kw_head (kw_using T) ([32] ++ of_string n ++ [32; 61; 32] ++ r_linked T st l) kwok_using) as [c [Hh Hc]].
  rewrite skip_ws_kw by apply kwok_using. rewrite (strip_at_lower c _ Hh Hc).
  rewrite (cf_strip (kw_import T) (kw_using T)) by (apply cf_import_x; cbn; tauto).
  rewrite strip_prefix_app. cbn [app]. rewrite tok_sp, tok_type_ok by (try exact Hn; reflexivity). cbn [lbind].
  rewrite expect_sp, expect_lit by reflexivity. cbn [lbind]. rewrite skip_ws_sp.
  destruct l as [i|k]; cbn [r_linked].
  - rewrite <- (app_nil_r (r_int T i)). rewrite skip_ws_int, raw_intty_ok by exact Hl. rewrite finish_nil, to_str_of_string. reflexivity.
  - apply Z.leb_le in Hl. rewrite skip_ws_kw by apply kwok_binary_fixed.
    assert (Hno : raw_intty T (kw_binary_fixed T ++ [40] ++ r_num T st k ++ [41]) = None).
    { unfold raw_intty. pose proof ok_cf_alias as Hpw. cbn [pw_cf int_heads forallb] in Hpw.
      apply andb_true_iff in Hpw as [Hf _]. apply andb_true_iff in Hf as [H1 Hf]. apply andb_true_iff in Hf as [H2 _].
      rewrite (cf_strip _ _ _ ltac:(rewrite cf_sym; exact H1)), (cf_strip _ _ _ ltac:(rewrite cf_sym; exact H2)). reflexivity. }
    rewrite Hno, expect_sp, expect_kw by apply kwok_binary_fixed.
    cbn [lbind app]. rewrite expect_lit by reflexivity. cbn [lbind].
    rewrite tok_number_ok by (try exact Hl; reflexivity). cbn [lbind]. rewrite expect_lit by reflexivity. cbn [lbind].
    rewrite finish_nil, to_str_of_string. reflexivity.
Qed.

Definition pa_enum_ok (pa : option actx) : bool := match pa with None | Some CEnum => true | _ => false end.
Definition pa_struct_ok (pa : option actx) : bool := match pa with None | Some CStruct => true | _ => false end.

Lemma top_enum_ok ac pa n b :
  pa_enum_ok pa = true -> wf_type T n = true -> wf_intty T b = true ->
  parse_top_line T pa ac (kw_enum T ++ [32] ++ of_string n ++ [32; 58; 32] ++ r_int T b) = LOk (TEnumHdr n b) [].
Proof.
  intros Hpa Hn Hb. unfold parse_top_line. rewrite Hmerged. cbn [andb].
  destruct (kw_head (kw_enum T) ([32] ++ of_string n ++ [32; 58; 32] ++ r_int T b) kwok_enum) as [c [Hh Hc]].
  rewrite skip_ws_kw by apply kwok_enum. rewrite (strip_at_lower c _ Hh Hc).
  assert (Hi : strip_prefix (kw_import T) (kw_enum T ++ [32] ++ of_string n ++ [32; 58; 32] ++ r_int T b) = None)
    by (apply cf_strip, cf_import_x; cbn; tauto).
  assert (Hu : strip_prefix (kw_using T) (kw_enum T ++ [32] ++ of_string n ++ [32; 58; 32] ++ r_int T b) = None)
    by (apply cf_strip, cf_using_x; cbn; tauto).
  assert (Hrest : (let* (n0, r) := tok (raw_type T) ([32] ++ of_string n ++ [32; 58; 32] ++ r_int T b) in
                   let* (_, r) := expect [58] r in let* (b0, r) := tok (raw_intty T) r in finish (TEnumHdr (to_str n0) b0) r)
                  = LOk (TEnumHdr n b) []).
  { cbn [app]. rewrite tok_sp, tok_type_ok by (try exact Hn; reflexivity). cbn [lbind].
    rewrite expect_sp, expect_lit by reflexivity. cbn [lbind]. rewrite tok_sp. unfold tok.
    rewrite <- (app_nil_r (r_int T b)). rewrite skip_ws_int, raw_intty_ok by exact Hb. cbn [lbind]. rewrite finish_nil, to_str_of_string. reflexivity. }
  destruct pa as [[| |]|]; try discriminate; cbn [orb]; rewrite ?Hi, ?Hu, strip_prefix_app; exact Hrest.
Qed.

Lemma modifier_head d r : exists c, head_is c (modifier_text d ++ kw_struct T ++ r) = true /\ is_lower c = true.
Proof.
  destruct d; cbn [modifier_text app].
  - apply kw_head. apply kwok_struct.
  - exists 97. split; reflexivity.
  - exists 105. split; reflexivity.
Qed.

Lemma In_abstract : In code_abstract (struct_modifiers T). Proof. apply mem_In, ok_mod_abstract. Qed.
Lemma In_inline : In code_inline (struct_modifiers T). Proof. apply mem_In, ok_mod_inline. Qed.

Lemma modifier_split d r : exists w r', In w (kw_struct T :: struct_modifiers T) /\ modifier_text d ++ kw_struct T ++ r = w ++ r'.
Proof.
  destruct d; cbn [modifier_text].
  - exists (kw_struct T), r. split; [left; reflexivity|reflexivity].
  - exists code_abstract. eexists. split; [right; apply In_abstract|]. rewrite <- app_assoc. reflexivity.
  - exists code_inline. eexists. split; [right; apply In_inline|]. rewrite <- app_assoc. reflexivity.
Qed.

Lemma top_struct_ok ac pa d n :
  pa_struct_ok pa = true -> wf_type T n = true ->
  parse_top_line T pa ac (modifier_text d ++ kw_struct T ++ [32] ++ of_string n) = LOk (TStructHdr d n) [].
Proof.
  intros Hpa Hn. unfold parse_top_line. rewrite Hmerged. cbn [andb].
  destruct (modifier_head d ([32] ++ of_string n)) as [c [Hh Hc]].
  rewrite (skip_ws_head c _ Hh (lower_not_ws c Hc)). rewrite (strip_at_lower c _ Hh Hc).
  destruct (modifier_split d ([32] ++ of_string n)) as [w [r' [Hw E]]].
  assert (Hi : strip_prefix (kw_import T) (modifier_text d ++ kw_struct T ++ [32] ++ of_string n) = None).
  { rewrite E. apply cf_strip, cf_import_x. destruct Hw as [<-|Hw]; [cbn; tauto|]. apply in_or_app. right. exact Hw. }
  assert (Hu : strip_prefix (kw_using T) (modifier_text d ++ kw_struct T ++ [32] ++ of_string n) = None).
  { rewrite E. apply cf_strip, cf_using_x. destruct Hw as [<-|Hw]; [cbn; tauto|]. apply in_or_app. right. exact Hw. }
  assert (He : strip_prefix (kw_enum T) (modifier_text d ++ kw_struct T ++ [32] ++ of_string n) = None).
  { rewrite E. apply cf_strip, cf_enum_x. destruct Hw as [<-|Hw]; [cbn; tauto|]. apply in_or_app. right. exact Hw. }
  assert (Hrest : forall d0, (let* (_, r) := expect (kw_struct T) (kw_struct T ++ [32] ++ of_string n) in
                   let* (n0, r) := tok (raw_type T) r in finish (TStructHdr d0 (to_str n0)) r) = LOk (TStructHdr d0 n) []).
  { intro d0. rewrite expect_kw by apply kwok_struct. cbn [lbind app]. rewrite tok_sp.
    rewrite <- (app_nil_r (of_string n)). rewrite tok_type_ok by (try exact Hn; reflexivity). cbn [lbind].
    rewrite finish_nil, to_str_of_string. reflexivity. }
  assert (Hmod : (let (d0, s1) := match first_prefix (struct_modifiers T) (modifier_text d ++ kw_struct T ++ [32] ++ of_string n) with
                                  | Some (m, r) => (sdisp_of m, r)
                                  | None => (SdNone, modifier_text d ++ kw_struct T ++ [32] ++ of_string n)
                                  end in
                  let* (_, r) := expect (kw_struct T) s1 in let* (n0, r) := tok (raw_type T) r in finish (TStructHdr d0 (to_str n0)) r)
                 = LOk (TStructHdr d n) []).
  { destruct d; cbn [modifier_text app].
    - rewrite first_prefix_cf by apply cf_struct_mods. apply Hrest.
    - rewrite <- app_assoc. rewrite (first_prefix_in _ _ _ pw_mods In_abstract). cbn [app]. rewrite expect_sp.
      replace (sdisp_of code_abstract) with SdAbstract by reflexivity. apply Hrest.
    - rewrite <- app_assoc. rewrite (first_prefix_in _ _ _ pw_mods In_inline). cbn [app]. rewrite expect_sp.
      replace (sdisp_of code_inline) with SdInline by reflexivity. apply Hrest. }
  destruct pa as [[| |]|]; try discriminate; cbn [orb]; rewrite ?Hi, ?Hu, ?He; exact Hmod.
Qed.

(* --- enum value lines *)
Lemma enum_line_ok st n v : wf_const T n = true -> 0 <= v ->
  parse_enum_line T (of_string n ++ [32; 61; 32] ++ r_num T st v) = LOk (n, v) [].
Proof.
  intros Hn Hv. unfold parse_enum_line. rewrite tok_const_ok by (try exact Hn; reflexivity). cbn [lbind app].
  rewrite expect_sp, expect_lit by reflexivity. cbn [lbind]. rewrite tok_sp. rewrite <- (app_nil_r (r_num T st v)).
  rewrite tok_number_ok by (try exact Hv; reflexivity). cbn [lbind]. rewrite finish_nil, to_str_of_string. reflexivity.
Qed.

(* --- member lines *)
Lemma cf_mr_x x : In x ([kw_sizeof T; kw_inline_field T; kw_array T] ++ int_heads T) -> cf (kw_make_reserved T) x = true.
Proof. intro H. pose proof ok_cf_field as Hpw. cbn [pw_cf app] in Hpw. apply andb_true_iff in Hpw as [Hf _]. rewrite forallb_forall in Hf. auto. Qed.
Lemma cf_sz_x x : In x ([kw_inline_field T; kw_array T] ++ int_heads T) -> cf (kw_sizeof T) x = true.
Proof.
  intro H. pose proof ok_cf_field as Hpw. cbn [pw_cf app] in Hpw. apply andb_true_iff in Hpw as [_ Hpw].
  apply andb_true_iff in Hpw as [Hf _]. rewrite forallb_forall in Hf. auto.
Qed.
Lemma cf_if_x x : In x ([kw_array T] ++ int_heads T) -> cf (kw_inline_field T) x = true.
Proof.
  intro H. pose proof ok_cf_field as Hpw. cbn [pw_cf app] in Hpw. apply andb_true_iff in Hpw as [_ Hpw].
  apply andb_true_iff in Hpw as [_ Hpw]. apply andb_true_iff in Hpw as [Hf _]. rewrite forallb_forall in Hf. auto.
Qed.

Lemma member_attr_ok st pa ac a : wf_attr T CField a = true -> parse_member_line T pa ac (r_attr T st CField a) = LOk (MAttr a) [].
Proof.
  intro Hwf. unfold parse_member_line. rewrite Hmerged. cbn [andb]. rewrite r_attr_eq. cbn [app skip_ws].
  replace (is_ws 64) with false by reflexivity. cbn [strip_prefix]. replace (64 =? 64) with true by reflexivity.
  rewrite (p_attr_ok st (Some CField) CField a eq_refl Hwf). reflexivity.
Qed.

Lemma member_value_ok st pa ac ty v :
  wf_plain_type ty = true -> wf_plain_value v = true ->
  parse_member_line T pa ac (value_placeholder T ++ [32; 61; 32] ++ r_ftype T st ty ++ value_suffix st v)
  = LOk (MField (to_str (value_placeholder T)) ty v DispNone) [].
Proof.
  intros Hty Hv. unfold parse_member_line. rewrite Hmerged. cbn [andb].
  pose proof (ph_head (value_placeholder T) ([32; 61; 32] ++ r_ftype T st ty ++ value_suffix st v) ok_value) as Hh.
  rewrite (skip_ws_head 95 _ Hh) by reflexivity. rewrite (strip1_head 64 95 _ Hh) by discriminate.
  rewrite strip_prefix_app. cbn [app]. rewrite expect_sp, expect_lit by reflexivity. cbn [lbind].
  rewrite (p_field_tail_ok st ty v Hty Hv). reflexivity.
Qed.

Lemma strip_kw_type k n r : kw_ok k = true -> wf_type T n = true -> strip_prefix k (of_string n ++ r) = None.
Proof.
  intros Hk Hn. destruct (kw_shape k Hk) as [c [kr [-> [Hc _]]]]. destruct (type_head n r Hn) as [d [Hh Hd]].
  eapply strip_prefix_head; [cbn [head_is]; apply Z.eqb_refl|exact Hh|]. intro E. subst. rewrite (lower_not_upper d Hc) in Hd. discriminate.
Qed.

Lemma plain_not_special st ty r k :
  In k [kw_make_reserved T; kw_sizeof T; kw_inline_field T] -> wf_plain_type ty = true -> strip_prefix k (r_ftype T st ty ++ r) = None.
Proof.
  intros Hk Hty. destruct ty as [i|t|a]; cbn [r_ftype wf_plain_type] in *.
  - apply strip_kw_int. cbn [In] in *. tauto.
  - apply strip_kw_type; [|exact Hty]. cbn [In] in Hk. destruct Hk as [<-|[<-|[<-|[]]]]; [apply kwok_make_reserved|apply kwok_sizeof|apply kwok_inline_field].
  - rewrite r_array_eq, <- app_assoc. apply cf_strip. cbn [In] in Hk. destruct Hk as [<-|[<-|[<-|[]]]].
    + apply cf_mr_x. cbn; tauto.
    + apply cf_sz_x. cbn; tauto.
    + apply cf_if_x. cbn; tauto.
Qed.

Lemma member_head_prop n r : wf_prop T n = true ->
  skip_ws (of_string n ++ r) = of_string n ++ r /\ strip_prefix [64] (of_string n ++ r) = None
  /\ strip_prefix (value_placeholder T) (of_string n ++ r) = None.
Proof.
  intro Hn. destruct (prop_head n r Hn) as [c [Hh Hc]]. repeat split.
  - apply skip_ws_prop. exact Hn.
  - exact (strip_at_lower c _ Hh Hc).
  - pose proof (ph_head (value_placeholder T) [] ok_value) as Hv. rewrite app_nil_r in Hv.
    eapply strip_prefix_head; [exact Hv|exact Hh|]. intro E. subst. discriminate.
Qed.

Lemma member_plain_ok st pa ac n ty v :
  wf_prop T n = true -> (pa = true \/ not_inline_word T n = true) -> wf_plain_type ty = true -> wf_plain_value v = true ->
  parse_member_line T pa ac (of_string n ++ [32; 61; 32] ++ r_ftype T st ty ++ value_suffix st v) = LOk (MField n ty v DispNone) [].
Proof.
  intros Hn Hpa Hty Hv. unfold parse_member_line. rewrite Hmerged. cbn [andb].
  destruct (member_head_prop n ([32; 61; 32] ++ r_ftype T st ty ++ value_suffix st v) Hn) as [H1 [H2 H3]].
  rewrite H1, H2, H3. unfold raw_prop. rewrite lex_class_ok1 by (try exact Hn; reflexivity).
  assert (Hnot : negb pa && list_eqb (of_string n) (kw_inline_member T) = false).
  { destruct Hpa as [->|Hw]; [reflexivity|]. unfold not_inline_word in Hw. apply negb_true_iff in Hw. rewrite Hw. apply andb_false_r. }
  rewrite Hnot. cbn [app]. rewrite expect_sp, expect_lit by reflexivity. cbn [lbind].
  rewrite (p_field_tail_ok st ty v Hty Hv). cbn [lbind fst snd]. rewrite to_str_of_string.
  destruct pa; [reflexivity|]. cbn [skip_ws]. replace (is_ws 32) with true by reflexivity.
  assert (Hs : skip_ws (r_ftype T st ty ++ value_suffix st v) = r_ftype T st ty ++ value_suffix st v).
  { destruct ty as [i|t|a]; cbn [r_ftype wf_plain_type] in *.
    - apply skip_ws_int. exact Hty.
    - apply skip_ws_type. exact Hty.
    - rewrite r_array_eq, <- app_assoc. apply skip_ws_kw. apply kwok_array. }
  rewrite Hs. rewrite !plain_not_special by (try exact Hty; cbn [In]; tauto). reflexivity.
Qed.

Lemma member_special_head ac n r : wf_prop T n = true -> not_inline_word T n = true ->
  (parse_member_line T false ac (of_string n ++ [32; 61; 32] ++ r)) =
  (let r0 := skip_ws (32 :: r) in
   match strip_prefix (kw_make_reserved T) r0 with
   | Some r1 => let* (_, r1) := expect [40] r1 in let* (tv, r1) := p_int_or_enum_const T r1 in let* (_, r1) := expect [41] r1 in
                finish (MField n (fst tv) (snd tv) DispReserved) r1
   | None =>
   match strip_prefix (kw_sizeof T) r0 with
   | Some r1 => let* (_, r1) := expect [40] r1 in let* (i, r1) := tok (raw_intty T) r1 in let* (_, r1) := expect [44] r1 in
                let* (v, r1) := tok (raw_prop T) r1 in let* (_, r1) := expect [41] r1 in
                finish (MField n (FInt i) (VName (to_str v)) DispSizeof) r1
   | None =>
   match strip_prefix (kw_inline_field T) r0 with
   | Some r1 => let* (t, r1) := tok (raw_type T) r1 in finish (MField n (FName (to_str t)) VNone DispInline) r1
   | None => let* (tv, r1) := p_field_tail T (32 :: r) in LOk (MField n (fst tv) (snd tv) DispNone) r1
   end end end).
Proof.
  intros Hn Hw. unfold parse_member_line. rewrite Hmerged. cbn [andb].
  destruct (member_head_prop n ([32; 61; 32] ++ r) Hn) as [H1 [H2 H3]].
  rewrite H1, H2, H3. unfold raw_prop. rewrite lex_class_ok1 by (try exact Hn; reflexivity).
  unfold not_inline_word in Hw. apply negb_true_iff in Hw. rewrite Hw. cbn [negb andb app].
  rewrite expect_sp, expect_lit by reflexivity. cbn [lbind]. rewrite to_str_of_string. reflexivity.
Qed.

Lemma member_reserved_ok st ac n ty v :
  wf_prop T n = true -> not_inline_word T n = true -> wf_const_pair T ty v = true ->
  parse_member_line T false ac (of_string n ++ [32; 61; 32] ++ kw_make_reserved T ++ [40] ++ r_ftype T st ty ++ [44; 32] ++ r_fvalue T st v ++ [41])
  = LOk (MField n ty v DispReserved) [].
Proof.
  intros Hn Hw Hp. rewrite member_special_head by assumption. cbn zeta. rewrite skip_ws_sp.
  rewrite skip_ws_kw by apply kwok_make_reserved. rewrite strip_prefix_app. cbn [app].
  rewrite expect_lit by reflexivity. cbn [lbind].
  change (r_ftype T st ty ++ 44 :: 32 :: r_fvalue T st v ++ [41]) with (r_ftype T st ty ++ [44; 32] ++ r_fvalue T st v ++ 41 :: []).
  rewrite p_const_pair_ok by exact Hp. cbn [lbind]. rewrite expect_lit by reflexivity. reflexivity.
Qed.

Lemma member_sizeof_ok ac n i p :
  wf_prop T n = true -> not_inline_word T n = true -> wf_intty T i = true -> wf_prop T p = true ->
  parse_member_line T false ac (of_string n ++ [32; 61; 32] ++ kw_sizeof T ++ [40] ++ r_int T i ++ [44; 32] ++ of_string p ++ [41])
  = LOk (MField n (FInt i) (VName p) DispSizeof) [].
Proof.
  intros Hn Hw Hi Hp. rewrite member_special_head by assumption. cbn zeta. rewrite skip_ws_sp.
  rewrite skip_ws_kw by apply kwok_sizeof.
  rewrite (cf_strip (kw_make_reserved T) (kw_sizeof T)) by (apply cf_mr_x; cbn; tauto).
  rewrite strip_prefix_app. cbn [app]. rewrite expect_lit by reflexivity. cbn [lbind].
  unfold tok at 1. rewrite skip_ws_int, raw_intty_ok by exact Hi. cbn [lbind].
  rewrite expect_lit by reflexivity. cbn [lbind]. rewrite tok_sp, tok_prop_ok by (try exact Hp; reflexivity). cbn [lbind].
  rewrite expect_lit by reflexivity. cbn [lbind]. rewrite finish_nil, to_str_of_string. reflexivity.
Qed.

Lemma member_inline_named_ok ac n t :
  wf_prop T n = true -> not_inline_word T n = true -> wf_type T t = true ->
  parse_member_line T false ac (of_string n ++ [32; 61; 32] ++ kw_inline_field T ++ [32] ++ of_string t)
  = LOk (MField n (FName t) VNone DispInline) [].
Proof.
  intros Hn Hw Ht. rewrite member_special_head by assumption. cbn zeta. rewrite skip_ws_sp.
  rewrite skip_ws_kw by apply kwok_inline_field.
  rewrite (cf_strip (kw_make_reserved T) (kw_inline_field T)) by (apply cf_mr_x; cbn; tauto).
  rewrite (cf_strip (kw_sizeof T) (kw_inline_field T)) by (apply cf_sz_x; cbn; tauto).
  rewrite strip_prefix_app. cbn [app]. rewrite tok_sp. rewrite <- (app_nil_r (of_string t)).
  rewrite tok_type_ok by (try exact Ht; reflexivity). cbn [lbind]. rewrite finish_nil, to_str_of_string. reflexivity.
Qed.

Lemma member_const_ok st ac n ty v :
  wf_const T n = true -> wf_const_pair T ty v = true ->
  parse_member_line T false ac (of_string n ++ [32; 61; 32] ++ kw_make_const T ++ [40] ++ r_ftype T st ty ++ [44; 32] ++ r_fvalue T st v ++ [41])
  = LOk (MField n ty v DispConst) [].
Proof.
  intros Hn Hp. unfold parse_member_line. rewrite Hmerged. cbn [andb].
  set (rest := [32; 61; 32] ++ kw_make_const T ++ [40] ++ r_ftype T st ty ++ [44; 32] ++ r_fvalue T st v ++ [41]).
  destruct (const_head n rest Hn) as [c [Hh Hc]].
  rewrite skip_ws_const by exact Hn. rewrite (strip_at_upper c _ Hh Hc).
  pose proof (ph_head (value_placeholder T) [] ok_value) as Hv. rewrite app_nil_r in Hv.
  rewrite (strip_prefix_head (value_placeholder T) _ 95 c Hv Hh) by (intro E; subst; discriminate).
  rewrite (raw_prop_none c _ Hh (upper_not_lower c Hc)). cbn [negb].
  unfold raw_const. subst rest. rewrite lex_class_ok1 by (try exact Hn; reflexivity). cbn [app].
  rewrite expect_sp, expect_lit by reflexivity. cbn [lbind]. rewrite expect_sp, expect_kw by apply kwok_make_const. cbn [lbind].
  rewrite expect_lit by reflexivity. cbn [lbind].
  change (r_ftype T st ty ++ 44 :: 32 :: r_fvalue T st v ++ [41]) with (r_ftype T st ty ++ [44; 32] ++ r_fvalue T st v ++ 41 :: []).
  rewrite p_const_pair_ok by exact Hp. cbn [lbind]. rewrite expect_lit by reflexivity. cbn [lbind].
  rewrite finish_nil, to_str_of_string. reflexivity.
Qed.

Lemma member_inline_ok ac t : wf_type T t = true ->
  parse_member_line T false ac (kw_inline_member T ++ [32] ++ of_string t) = LOk (MInline t) [].
Proof.
  intro Ht. unfold parse_member_line. rewrite Hmerged. cbn [andb].
  destruct (kw_head (kw_inline_member T) ([32] ++ of_string t) kwok_inline_member) as [c [Hh Hc]].
  rewrite skip_ws_kw by apply kwok_inline_member. rewrite (strip_at_lower c _ Hh Hc).
  pose proof (ph_head (value_placeholder T) [] ok_value) as Hv. rewrite app_nil_r in Hv.
  rewrite (strip_prefix_head (value_placeholder T) _ 95 c Hv Hh) by (intro E; subst; discriminate).
  assert (Hlex : raw_prop T (kw_inline_member T ++ [32] ++ of_string t) = Some (kw_inline_member T, [32] ++ of_string t)).
  { destruct (kw_shape _ kwok_inline_member) as [x [xr [E [Hx Hxr]]]]. pose proof ok_inline_len as Hlen. rewrite E in *.
    unfold raw_prop, lex_class. cbn [app]. rewrite Hx. rewrite (span_app prop_rest xr (32 :: of_string t) Hxr) by reflexivity.
    cbn [length pred] in Hlen. rewrite Hlen. reflexivity. }
  rewrite Hlex, list_eqb_refl. cbn [negb andb app]. rewrite tok_sp. rewrite <- (app_nil_r (of_string t)).
  rewrite tok_type_ok by (try exact Ht; reflexivity). cbn [lbind]. rewrite finish_nil, to_str_of_string. reflexivity.
Qed.

(* --- every well-formed member, as one lemma *)
Definition memline_of (f : field) : memline :=
  match f with Field n ty v d _ _ => MField n ty v d | InlinePlaceholder t _ => MInline t end.
Definition has_attrs (f : field) : bool := match field_attrs f with Some _ => true | None => false end.

Lemma field_line_ok st ac f : wf_field T f = true -> parse_member_line T (has_attrs f) ac (r_field T st f) = LOk (memline_of f) [].
Proof.
  destruct f as [n ty v d attrs c|t c]; cbn [wf_field has_attrs field_attrs r_field memline_of].
  2:{ intro H. apply andb_true_iff in H as [Ht _]. apply member_inline_ok. exact Ht. }
  intro H. apply andb_true_iff in H as [_ H]. destruct d.
  - (* plain *)
    apply andb_true_iff in H as [H Hattrs]. apply andb_true_iff in H as [H Hv]. apply andb_true_iff in H as [Hname Hty].
    fold (wf_plain_type ty) in Hty. fold (wf_plain_value v) in Hv.
    change (match v with VNone => [] | _ => [32] ++ r_fvalue T st v end) with (value_suffix st v).
    apply orb_true_iff in Hname as [Hvp|Hname].
    + apply list_eqb_eq in Hvp. rewrite Hvp. rewrite member_value_ok by assumption.
      rewrite <- Hvp, to_str_of_string. reflexivity.
    + apply andb_true_iff in Hname as [Hn Hw]. apply member_plain_ok; try assumption.
      apply orb_true_iff in Hw as [Hw|Hw]; [right; exact Hw|left]. destruct attrs; [reflexivity|discriminate].
  - (* const *)
    apply andb_true_iff in H as [H Ha]. apply andb_true_iff in H as [Hn Hp]. destruct attrs; [discriminate|].
    apply member_const_ok; assumption.
  - (* reserved *)
    apply andb_true_iff in H as [H Ha]. apply andb_true_iff in H as [H Hp]. apply andb_true_iff in H as [Hn Hw].
    destruct attrs; [discriminate|]. apply member_reserved_ok; assumption.
  - (* sizeof *)
    apply andb_true_iff in H as [H Htv]. apply andb_true_iff in H as [H Ha]. apply andb_true_iff in H as [Hn Hw].
    destruct attrs; [discriminate|]. destruct ty as [i| |]; try discriminate. destruct v as [| |p|]; try discriminate.
    apply andb_true_iff in Htv as [Hi Hp]. cbn [r_ftype r_fvalue]. apply member_sizeof_ok; assumption.
  - (* named inline *)
    apply andb_true_iff in H as [H Htv]. apply andb_true_iff in H as [H Ha]. apply andb_true_iff in H as [Hn Hw].
    destruct attrs; [discriminate|]. destruct ty as [|t|]; try discriminate. destruct v; try discriminate.
    cbn [r_ftype]. apply member_inline_named_ok; assumption.
Qed.
End Lines.
End Proofs.
