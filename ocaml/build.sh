#!/bin/sh
# Dispatcher called by `run.py setup`: runs every /verif/ocaml/<driver>/build.sh
set -e
here=$(cd "$(dirname "$0")" && pwd)
for script in "$here"/*/build.sh; do
  [ -f "$script" ] || continue
  sh "$script"
done
