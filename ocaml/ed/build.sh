#!/bin/sh
# Extracts Sym/EdZ.v (the .vo files of /verif/coq must be built) and links the driver against zarith: /verif/ocaml/bin/ed
set -e
here=$(cd "$(dirname "$0")" && pwd)
coq=${VERIF_COQ:-$here/../../coq}
out=${VERIF_OCAML_BIN:-$here/../bin}
build=${VERIF_OCAML_BUILD:-$here/../_build}/ed
mkdir -p "$build" "$out"
cp "$here/extract.v" "$here/main.ml" "$build/"
cd "$build"
timeout 600 coqc -Q "$coq" Symv extract.v > extract.log 2>&1 || { cat extract.log; exit 1; }
timeout 600 ocamlfind ocamlopt -w -a -O2 -package zarith -linkpkg edz.mli edz.ml main.ml -o "$out/ed" 2> compile.log \
  || timeout 600 ocamlfind ocamlopt -w -a -package zarith -linkpkg edz.mli edz.ml main.ml -o "$out/ed"
echo "built $out/ed"
