(* Driver of the extracted model: one request per line on stdin, one result line on stdout.
     pub <net> <secret>                      -> public key (hex)
     sign <net> <secret> <msg>               -> signature (hex)
     verify <net> <pub> <msg> <sig>          -> T | F | reject | crash:<kind>
     shared <net> <secret> <pub>             -> shared key (hex) | reject:<reason>
     shareddep nem <secret> <pub> <salt>     -> deprecated NEM shared key (hex) | reject:<reason>
     hash <name> <msg>                       -> digest (hex)
     payload sym <seed> <tx> | payload nem <tx>
     cosign <secret> <hash> <0|1>            -> serialized (detached) cosignature
     voting <rootsecret> <start> <end> <child private keys>
     symdecode <probe 0|1> <deprecated 0|1> <secret> <pub> <encoded>
     nemdecode <stage 0|1|2> <secret> <pub> <type> <encoded>
     symencode <deprecated 0|1> <secret> <pub> <iv> <msg> <ct> <tag>
     symdeleg <ephemeral secret> <node pub> <iv> <remote> <vrf> <ct> <tag>
     nemencode <secret> <pub> <iv> <msg> <ct> <tag> | nemencodedep <secret> <pub> <salt> <iv> <msg> <ct>
   <net> is sym or nem; byte strings are hex ("-" stands for the empty string); integers are decimal. *)
open Edz

let explode s = List.init (String.length s) (String.get s)
let implode l = String.of_seq (List.to_seq l)
let b s = if s = "-" then [] else of_hex (explode s)
let hex l = implode (to_hex l)
let z s = Big_int_Z.big_int_of_string s
let flag s = s = "1"

let answer words =
  match words with
  | ["pub"; "sym"; k] -> hex (sym_public_key (b k))
  | ["pub"; "nem"; k] -> hex (nem_public_key (b k))
  | ["sign"; "sym"; k; m] -> hex (sym_sign (b k) (b m))
  | ["sign"; "nem"; k; m] -> hex (nem_sign (b k) (b m))
  | ["verify"; "sym"; p; m; s] -> implode (render_verdict (sym_verify (b p) (b m) (b s)))
  | ["verify"; "nem"; p; m; s] -> implode (render_verdict (nem_verify (b p) (b m) (b s)))
  | ["shared"; "sym"; k; p] -> implode (render_shared (sym_shared_key (b k) (b p)))
  | ["shared"; "nem"; k; p] -> implode (render_shared (nem_shared_key (b k) (b p)))
  | ["shareddep"; "nem"; k; p; s] -> implode (render_shared (nem_shared_key_deprecated (b k) (b p) (b s)))
  | ["hash"; "sha512"; m] -> hex (sha512 (b m))
  | ["hash"; "sha256"; m] -> hex (sha256 (b m))
  | ["hash"; "keccak512"; m] -> hex (keccak_512 (b m))
  | ["hash"; "keccak256"; m] -> hex (keccak_256 (b m))
  | ["hash"; "sha3_256"; m] -> hex (sha3_256 (b m))
  | ["payload"; "sym"; seed; tx] -> implode (run_sym_payload (b seed) (b tx))
  | ["payload"; "nem"; tx] -> implode (run_nem_payload (b tx))
  | ["cosign"; k; h; d] -> implode (run_cosign (b k) (b h) (flag d))
  | ["voting"; k; s; e; c] -> implode (run_voting (b k) (z s) (z e) (b c))
  | ["symdecode"; probe; dep; k; p; e] -> implode (run_sym_try_decode (flag probe) (flag dep) (b k) (b p) (b e))
  | ["nemdecode"; stage; k; p; t; e] -> implode (run_nem_try_decode (z stage) (b k) (b p) (z t) (b e))
  | ["symencode"; dep; k; p; iv; m; ct; tag] -> implode (run_sym_encode (flag dep) (b k) (b p) (b iv) (b m) (b ct) (b tag))
  | ["symdeleg"; k; p; iv; r; v; ct; tag] -> implode (run_sym_encode_delegation (b k) (b p) (b iv) (b r) (b v) (b ct) (b tag))
  | ["nemencode"; k; p; iv; m; ct; tag] -> implode (run_nem_encode (b k) (b p) (b iv) (b m) (b ct) (b tag))
  | ["nemencodedep"; k; p; s; iv; m; ct] -> implode (run_nem_encode_deprecated (b k) (b p) (b s) (b iv) (b m) (b ct))
  | _ -> "error:bad-request"

let () =
  try
    while true do
      let line = input_line stdin in
      print_endline (try answer (List.filter (fun w -> w <> "") (String.split_on_char ' ' (String.trim line)))
                     with Stack_overflow -> "error:stack-overflow" | Failure f -> "error:" ^ f)
    done
  with End_of_file -> ()
