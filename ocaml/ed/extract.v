(* Extraction of the executable Ed25519 model (Sym/EdZ.v) for the volume runs of C07 / C14.
   Z, positive and N become zarith-backed Big_int_Z.big_int (ExtrOcamlZBigInt); bool, option, list, prod, unit, sumbool
   become the OCaml types (ExtrOcamlBasic); string / ascii become char list / char (ExtrOcamlString).  nat stays Peano.
   Every directive these three library files contain is listed verbatim in the evidence files (trusted base). *)
Require Import ExtrOcamlBasic ExtrOcamlZBigInt ExtrOcamlString.
From Symv Require Import Sym.EdZ Sym.EdRun Sym.Keccak Sym.Sha2 Sym.Hmac.
Extraction Language OCaml.
(* Bitwise operations and powers are not covered by ExtrOcamlZBigInt (they would run bit by bit through the emulated
   positive matching: 13 ms per Keccak permutation).  These five additional directives are part of the trusted base; every run
   re-evaluates a few hashes, keys and shared keys with vm_compute inside Coq and compares them with the extracted binary. *)
Extract Constant Z.land => "Big_int_Z.and_big_int".
Extract Constant Z.lor => "Big_int_Z.or_big_int".
Extract Constant Z.lxor => "Big_int_Z.xor_big_int".
Extract Constant Z.testbit => "Big_int_Z.(fun a n -> sign_big_int n >= 0 &&
  sign_big_int (and_big_int (shift_right_big_int a (int_of_big_int n)) unit_big_int) <> 0)".
Extract Constant Z.pow => "Big_int_Z.(fun x y -> if sign_big_int y < 0 then zero_big_int else power_big_int_positive_big_int x y)".
Extraction "edz.ml"
  to_hex of_hex
  sym_public_key sym_sign sym_verify sym_shared_key
  nem_public_key nem_sign nem_verify nem_shared_key nem_shared_key_deprecated
  render_verdict render_shared
  run_sym_payload run_nem_payload run_cosign run_voting run_sym_try_decode run_nem_try_decode
  run_sym_encode run_sym_encode_delegation run_nem_encode run_nem_encode_deprecated
  sha512 sha256 keccak_512 keccak_256 sha3_256 sha3_512 hkdf_sha256.
