"""catparser.ast objects -> (a) Gallina terms of coq/Cats/Ast.v, (b) the canonical text of coq/Cats/AstRender.v.

Used by the C05 / C06 / C18 / Layout checks. Only reads public attributes of the objects."""


def _coq_str(text):
	if text is None:
		raise ValueError('None is not a string')
	text = str(text)
	if all(32 <= ord(c) <= 126 for c in text):
		return '"' + text.replace('"', '""') + '"'
	return '(bs [' + '; '.join(str(b) for b in text.encode('utf8')) + ']%Z)'


def _coq_opt(value, render):
	return 'None' if value is None else f'(Some {render(value)})'


def _coq_z(value):
	return f'({int(value)})%Z'


def _coq_bool(value):
	return 'true' if value else 'false'


def _coq_list(items, render):
	return '[' + '; '.join(render(item) for item in items) + ']'


def _tok(value):
	return value.value if hasattr(value, 'value') and hasattr(value, 'type') else value


def _kind(obj):
	return type(obj).__name__


# --- (a) Gallina terms

def coq_intty(obj):
	sizeref = obj.sizeref
	sizeref_text = 'None' if not sizeref else f'(Some ({_coq_str(sizeref.property_name)}, {_coq_opt(sizeref.delta, _coq_z)}))'
	return f'{{| it_unsigned := {_coq_bool(obj.is_unsigned)}; it_size := {_coq_z(obj.size)}; it_sizeref := {sizeref_text} |}}'


def coq_array(obj):
	elem = obj.element_type
	elem_text = f'(ElInt {coq_intty(elem)})' if _kind(elem) == 'FixedSizeInteger' else f'(ElName {_coq_str(_tok(elem))})'
	if obj.is_expandable:
		size_text = 'SzFill'
	elif isinstance(obj.size, str):
		size_text = f'(SzName {_coq_str(obj.size)})'
	else:
		size_text = f'(SzNum {_coq_z(obj.size)})'
	return '{| a_elem := %s; a_size := %s; a_sort_key := %s; a_byte_constrained := %s; a_alignment := %s; a_last_padded := %s |}' % (
		elem_text, size_text, _coq_opt(obj.sort_key, _coq_str), _coq_bool(obj.is_byte_constrained),
		_coq_opt(obj.alignment, _coq_z), _coq_opt(obj.is_last_element_padded, _coq_bool))


def coq_cvalue(value):
	return f'(CvName {_coq_str(value)})' if isinstance(value, str) else f'(CvNum {_coq_z(value)})'


def coq_ftype(obj):
	kind = _kind(obj)
	if kind == 'FixedSizeInteger':
		return f'(FInt {coq_intty(obj)})'
	if kind == 'Array':
		return f'(FArray {coq_array(obj)})'
	return f'(FName {_coq_str(_tok(obj))})'


def coq_fvalue(value):
	if value is None:
		return 'VNone'
	if _kind(value) == 'Conditional':
		return '(VCond {| c_value := %s; c_op := %s; c_link := %s |})' % (
			coq_cvalue(value.value), _coq_str(value.operation), _coq_str(value.linked_field_name))
	if isinstance(value, str):
		return f'(VName {_coq_str(value)})'
	return f'(VNum {_coq_z(value)})'


def coq_avalue(value):
	if value is None:
		return 'AvNone'
	if isinstance(value, str):
		return f'(AvStr {_coq_str(value)})'
	return f'(AvNum {_coq_z(value)})'


def coq_attr(obj):
	return f'{{| at_name := {_coq_str(obj.name)}; at_values := {_coq_list(obj.values, coq_avalue)} |}}'


def coq_attrs(attrs):
	return 'None' if attrs is None else f'(Some {_coq_list(attrs, coq_attr)})'


def coq_comment(obj):
	comment = getattr(obj, 'comment', None)
	return 'None' if not comment else f'(Some {_coq_str(comment.parsed)})'


_DISP = {None: 'DispNone', 'const': 'DispConst', 'reserved': 'DispReserved', 'sizeof': 'DispSizeof', 'inline': 'DispInline'}
_SDISP = {None: 'SdNone', 'abstract': 'SdAbstract', 'inline': 'SdInline'}


def coq_field(obj):
	if _kind(obj) == 'StructInlinePlaceholder':
		return f'(InlinePlaceholder {_coq_str(obj.inlined_typename)} {coq_comment(obj)})'
	return f'(Field {_coq_str(obj.name)} {coq_ftype(obj.field_type)} {coq_fvalue(obj.value)} {_DISP[obj.disposition]} ' \
		f'{coq_attrs(obj.attributes)} {coq_comment(obj)})'


def coq_decl(obj):
	kind = _kind(obj)
	if kind == 'Alias':
		linked = obj.linked_type
		linked_text = f'(LInt {coq_intty(linked)})' if _kind(linked) == 'FixedSizeInteger' else f'(LBuffer {_coq_z(linked.size)})'
		return f'(DAlias {_coq_str(obj.name)} {linked_text} {coq_comment(obj)})'
	if kind == 'Enum':
		values = _coq_list(obj.values, lambda v: '{| ev_name := %s; ev_value := %s; ev_comment := %s |}' % (
			_coq_str(v.name), _coq_z(v.value), coq_comment(v)))
		return f'(DEnum {_coq_str(obj.name)} {coq_intty(obj.base)} {values} {coq_attrs(obj.attributes)} {coq_comment(obj)})'
	if kind == 'Struct':
		return '(DStruct {| s_name := %s; s_disp := %s; s_fields := %s; s_factory_type := %s; s_attrs := %s; s_comment := %s; ' \
			's_requires_unaligned := %s |})' % (
				_coq_str(obj.name), _SDISP[obj.disposition], _coq_list(obj.fields, coq_field), _coq_opt(obj.factory_type, _coq_str),
				coq_attrs(obj.attributes), coq_comment(obj), _coq_bool(obj.requires_unaligned))
	raise ValueError(kind)


def coq_decls(models):
	return '[' + ';\n '.join(coq_decl(model) for model in models) + ']'


# --- (b) canonical text (must mirror coq/Cats/AstRender.v exactly)

def _escape(text):
	out = []
	for byte in str(text).encode('utf8'):
		if 32 <= byte <= 126 and byte not in (34, 92):
			out.append(chr(byte))
		else:
			out.append(f'\\x{byte:02x}')
	return ''.join(out)


def _q(text):
	return "'" + _escape(text) + "'"


def _ropt(value, render):
	return '~' if value is None else render(value)


def _rbool(value):
	return 'T' if value else 'F'


def _rlist(items, render):
	return '[' + ' '.join(render(item) for item in items) + ']'


def r_intty(obj):
	sizeref = obj.sizeref
	sizeref_text = '~' if not sizeref else f'({_q(sizeref.property_name)} {_ropt(sizeref.delta, str)})'
	return f'(int {_rbool(obj.is_unsigned)} {obj.size} {sizeref_text})'


def r_array(obj):
	elem = obj.element_type
	elem_text = r_intty(elem) if _kind(elem) == 'FixedSizeInteger' else _q(_tok(elem))
	size_text = 'fill' if obj.is_expandable else (_q(obj.size) if isinstance(obj.size, str) else str(obj.size))
	return f'(array {elem_text} {size_text} {_ropt(obj.sort_key, _q)} {_rbool(obj.is_byte_constrained)} ' \
		f'{_ropt(obj.alignment, str)} {_ropt(obj.is_last_element_padded, _rbool)})'


def r_ftype(obj):
	kind = _kind(obj)
	if kind == 'FixedSizeInteger':
		return r_intty(obj)
	if kind == 'Array':
		return r_array(obj)
	return _q(_tok(obj))


def r_fvalue(value):
	if value is None:
		return '~'
	if _kind(value) == 'Conditional':
		cvalue = _q(value.value) if isinstance(value.value, str) else str(value.value)
		return f'(if {cvalue} {_q(value.operation)} {_q(value.linked_field_name)})'
	return _q(value) if isinstance(value, str) else str(value)


def r_attr(obj):
	return f'(@{obj.name} {_rlist(obj.values, lambda v: "~" if v is None else (_q(v) if isinstance(v, str) else str(v)))})'


def r_attrs(attrs):
	return '~' if attrs is None else _rlist(attrs, r_attr)


def r_comment(obj):
	comment = getattr(obj, 'comment', None)
	return '~' if not comment else _q(comment.parsed)


def r_field(obj):
	if _kind(obj) == 'StructInlinePlaceholder':
		return f'(inline {_q(obj.inlined_typename)} {r_comment(obj)})'
	disposition = obj.disposition or '~'
	return f'(field {_q(obj.name)} {r_ftype(obj.field_type)} {r_fvalue(obj.value)} {disposition} {r_attrs(obj.attributes)} {r_comment(obj)})'


def r_decl(obj):
	kind = _kind(obj)
	if kind == 'Alias':
		linked = obj.linked_type
		linked_text = r_intty(linked) if _kind(linked) == 'FixedSizeInteger' else f'(buffer {linked.size})'
		return f'(alias {_q(obj.name)} {linked_text} {r_comment(obj)})'
	if kind == 'Enum':
		values = _rlist(obj.values, lambda v: f'({_q(v.name)} {v.value} {r_comment(v)})')
		return f'(enum {_q(obj.name)} {r_intty(obj.base)} {values} {r_attrs(obj.attributes)} {r_comment(obj)})'
	if kind == 'Struct':
		return f'(struct {_q(obj.name)} {obj.disposition or "~"} {_rlist(obj.fields, r_field)} {_ropt(obj.factory_type, _q)} ' \
			f'{r_attrs(obj.attributes)} {r_comment(obj)} {_rbool(obj.requires_unaligned)})'
	raise ValueError(kind)


def r_decls(models):
	return '\n'.join(r_decl(model) for model in models)


def parse_files(root, include):
	"""Raw type descriptors (ast objects, before post-processing) of a schema tree through the repo's multi-file parser."""
	import contextlib
	import io
	from catparser.__main__ import LarkMultiFileParser
	parser = LarkMultiFileParser()
	parser.set_include_path(str(include))
	with contextlib.redirect_stdout(io.StringIO()):
		return parser.parse(str(root))
