#!/bin/sh
# commits everything except proof files another session is editing (listed in .inprogress, one pathspec per line)
cd /verif
excludes=""
if [ -f .inprogress ]; then
  while read -r spec; do [ -n "$spec" ] && excludes="$excludes :!$spec"; done < .inprogress
fi
# shellcheck disable=SC2086
git add -A -- . $excludes
git commit -q -m "$1" && git log --oneline | head -n 1
