"""Harness shim for `ripemd.ripemd160`: delegates to OpenSSL via hashlib (works in both interpreters of this sandbox)."""
import hashlib


def new(data=b''):
	return hashlib.new('ripemd160', data)
