"""Harness shim for the `sha3` (pysha3) module: original-padding Keccak (0x01), pure Python.
Only keccak_256 / keccak_512 are provided because that is all the SDK uses."""
_RC = [0x0000000000000001, 0x0000000000008082, 0x800000000000808A, 0x8000000080008000, 0x000000000000808B, 0x0000000080000001,
	0x8000000080008081, 0x8000000000008009, 0x000000000000008A, 0x0000000000000088, 0x0000000080008009, 0x000000008000000A,
	0x000000008000808B, 0x800000000000008B, 0x8000000000008089, 0x8000000000008003, 0x8000000000008002, 0x8000000000000080,
	0x000000000000800A, 0x800000008000000A, 0x8000000080008081, 0x8000000000008080, 0x0000000080000001, 0x8000000080008008]
_ROT = [[0, 36, 3, 41, 18], [1, 44, 10, 45, 2], [62, 6, 43, 15, 61], [28, 55, 25, 21, 56], [27, 20, 39, 8, 14]]
_M = (1 << 64) - 1


def _rol(x, n):
	n %= 64
	return ((x << n) | (x >> (64 - n))) & _M if n else x


def keccak_f(a):
	for rc in _RC:
		c = [a[x][0] ^ a[x][1] ^ a[x][2] ^ a[x][3] ^ a[x][4] for x in range(5)]
		d = [c[(x - 1) % 5] ^ _rol(c[(x + 1) % 5], 1) for x in range(5)]
		a = [[a[x][y] ^ d[x] for y in range(5)] for x in range(5)]
		b = [[0] * 5 for _ in range(5)]
		for x in range(5):
			for y in range(5):
				b[y][(2 * x + 3 * y) % 5] = _rol(a[x][y], _ROT[x][y])
		a = [[b[x][y] ^ ((~b[(x + 1) % 5][y]) & b[(x + 2) % 5][y]) for y in range(5)] for x in range(5)]
		a[0][0] ^= rc
	return a


def _sponge(rate, data, pad, outlen):
	data = bytes(data)
	p = bytearray(data)
	p.append(pad)
	while len(p) % rate:
		p.append(0)
	p[-1] |= 0x80
	a = [[0] * 5 for _ in range(5)]
	for off in range(0, len(p), rate):
		blk = p[off:off + rate]
		for i in range(rate // 8):
			a[i % 5][i // 5] ^= int.from_bytes(blk[8 * i:8 * i + 8], 'little')
		a = keccak_f(a)
	out = b''
	while len(out) < outlen:
		for i in range(rate // 8):
			out += a[i % 5][i // 5].to_bytes(8, 'little')
		if len(out) < outlen:
			a = keccak_f(a)
	return out[:outlen]


class _Keccak:
	def __init__(self, bits, data=b''):
		self._bits = bits
		self._buf = bytearray(data)
		self.digest_size = bits // 8
		self.name = f'keccak_{bits}'

	def update(self, data):
		self._buf += bytes(data)

	def digest(self):
		return _sponge(200 - 2 * self._bits // 8, self._buf, 0x01, self._bits // 8)

	def hexdigest(self):
		return self.digest().hex()

	def copy(self):
		return _Keccak(self._bits, bytes(self._buf))


def keccak_256(data=b''):
	return _Keccak(256, data)


def keccak_512(data=b''):
	return _Keccak(512, data)


def _selftest():
	import hashlib
	for n in (0, 1, 135, 136, 137, 300):
		m = bytes(range(256))[:n] if n <= 256 else bytes(n)
		assert _sponge(136, m, 0x06, 32) == hashlib.sha3_256(m).digest()
		assert _sponge(72, m, 0x06, 64) == hashlib.sha3_512(m).digest()
	assert keccak_256(b'').hexdigest() == 'c5d2460186f7233c927e7db2dcc703c0e500b653ca82273b7bfad8045d85a470'
	assert keccak_512(b'').hexdigest()[:16] == '0eab42de4c3ceb92'


if __name__ == '__main__':
	_selftest()
	print('sha3 shim ok')
