"""Harness shim for `mnemonic.Mnemonic`: only to_seed (BIP39 PBKDF2) is provided."""
import hashlib
import unicodedata


class Mnemonic:
	def __init__(self, language='english'):
		self.language = language

	@staticmethod
	def to_seed(mnemonic, passphrase=''):
		mnemonic = unicodedata.normalize('NFKD', mnemonic)
		passphrase = unicodedata.normalize('NFKD', passphrase)
		return hashlib.pbkdf2_hmac('sha512', mnemonic.encode('utf8'), ('mnemonic' + passphrase).encode('utf8'), 2048)[:64]
