"""Harness shim for colorama: no colours."""


class _Empty:
	def __getattr__(self, name):
		return ''


Fore = _Empty()
Back = _Empty()
Style = _Empty()


def init(*args, **kwargs):
	pass
