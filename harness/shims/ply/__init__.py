"""Harness shim for PLY (only ply.lex, as far as linters/cpp/cppLexer.py needs it)."""
__version__ = '3.11-shim'
