"""Harness shim for ply.lex, following PLY 3.11's documented behaviour for the subset cppLexer.py uses:
module-level lex()/input()/token(); rules collected from the caller's globals; function rules first, in order of
definition line, then string rules by decreasing regex length (stable); master regex compiled with re.VERBOSE;
t_ignore characters skipped; a function rule returning None discards the token; t_error is called on an illegal
character and a LexError is raised if it does not advance the position."""
import re
import sys


class LexError(Exception):
	def __init__(self, message, text):
		super().__init__(message)
		self.args = (message,)
		self.text = text


class LexToken:
	def __str__(self):
		return f'LexToken({self.type},{self.value!r},{self.lineno},{self.lexpos})'

	def __repr__(self):
		return str(self)


class Lexer:
	def __init__(self):
		self.lexre = None
		self.lexindexfunc = []
		self.lexdata = None
		self.lexpos = 0
		self.lexlen = 0
		self.lexignore = ''
		self.lexerrorf = None
		self.lextokens_all = set()
		self.lineno = 1
		self.lexmatch = None

	def input(self, data):
		self.lexdata = data
		self.lexpos = 0
		self.lexlen = len(data)

	def skip(self, count):
		self.lexpos += count

	def token(self):
		lexpos = self.lexpos
		lexlen = self.lexlen
		lexignore = self.lexignore
		lexdata = self.lexdata
		while lexpos < lexlen:
			if lexdata[lexpos] in lexignore:
				lexpos += 1
				continue
			match = self.lexre.match(lexdata, lexpos)
			if match:
				tok = LexToken()
				tok.value = match.group()
				tok.lineno = self.lineno
				tok.lexpos = lexpos
				func, tok.type = self.lexindexfunc[match.lastindex]
				if not func:
					if tok.type:
						self.lexpos = match.end()
						return tok
					lexpos = match.end()
					continue
				lexpos = match.end()
				tok.lexer = self
				self.lexmatch = match
				self.lexpos = lexpos
				newtok = func(tok)
				if not newtok:
					lexpos = self.lexpos
					lexignore = self.lexignore
					continue
				if newtok.type not in self.lextokens_all:
					raise LexError(f"Rule '{func.__name__}' returned an unknown token type '{newtok.type}'", lexdata[lexpos:])
				return newtok
			if self.lexerrorf:
				tok = LexToken()
				tok.value = self.lexdata[lexpos:]
				tok.lineno = self.lineno
				tok.type = 'error'
				tok.lexer = self
				tok.lexpos = lexpos
				self.lexpos = lexpos
				newtok = self.lexerrorf(tok)
				if lexpos == self.lexpos:
					raise LexError(f"Scanning error. Illegal character '{lexdata[lexpos]}'", lexdata[lexpos:])
				lexpos = self.lexpos
				if not newtok:
					continue
				return newtok
			self.lexpos = lexpos
			raise LexError(f"Illegal character '{lexdata[lexpos]}' at index {lexpos}", lexdata[lexpos:])
		self.lexpos = lexpos + 1
		if self.lexdata is None:
			raise RuntimeError('No input string given with input()')
		return None

	def __iter__(self):
		return self

	def __next__(self):
		tok = self.token()
		if tok is None:
			raise StopIteration
		return tok


token = None  # pylint: disable=invalid-name
input = None  # pylint: disable=invalid-name,redefined-builtin
lexer = None  # pylint: disable=invalid-name


def lex(module=None, **_kwargs):  # pylint: disable=too-many-locals
	global token, input, lexer  # pylint: disable=global-statement,invalid-name
	if module is not None:
		ldict = {name: getattr(module, name) for name in dir(module)}
	else:
		ldict = dict(sys._getframe(1).f_globals)  # pylint: disable=protected-access
	tokens = ldict.get('tokens')
	if not tokens:
		raise SyntaxError('No token list is defined')
	funcs = []
	strings = []
	for name, value in ldict.items():
		if not name.startswith('t_') or name in ('t_ignore', 't_error', 't_eof'):
			continue
		tokname = name[2:]
		if callable(value):
			funcs.append((name, value, tokname))
		elif isinstance(value, str):
			if tokname not in tokens and 'ignore_' not in tokname:
				raise SyntaxError(f"Rule '{name}' defined for an unspecified token {tokname}")
			strings.append((name, value, tokname))
	funcs.sort(key=lambda item: item[1].__code__.co_firstlineno)
	strings.sort(key=lambda item: len(item[1]), reverse=True)
	parts = []
	index = [None]
	for name, func, tokname in funcs:
		regex = func.__doc__
		if not regex:
			raise SyntaxError(f"No regular expression defined for rule '{name}'")
		parts.append((name, regex, func, tokname))
	for name, regex, tokname in strings:
		parts.append((name, regex, None, None if 'ignore_' in tokname else tokname))
	master = '|'.join(f'(?P<{name}>{regex})' for name, regex, _, _ in parts)
	compiled = re.compile(master, re.VERBOSE)
	index = [None] * (max(compiled.groupindex.values()) + 1)
	for name, _, func, tokname in parts:
		index[compiled.groupindex[name]] = (func, tokname)
	lexobj = Lexer()
	lexobj.lexre = compiled
	lexobj.lexindexfunc = index
	lexobj.lexignore = ldict.get('t_ignore', '')
	lexobj.lexerrorf = ldict.get('t_error')
	lexobj.lextokens_all = set(tokens)
	token = lexobj.token
	input = lexobj.input
	lexer = lexobj
	return lexobj
