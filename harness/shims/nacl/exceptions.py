"""The exception classes PyNaCl's bindings raise (same names and base classes as nacl.exceptions)."""
import builtins


class CryptoError(Exception):
	"""Base exception for all nacl related errors."""


class BadSignatureError(CryptoError):
	pass


class RuntimeError(builtins.RuntimeError, CryptoError):  # pylint: disable=redefined-builtin
	pass


class AssertionError(builtins.AssertionError, CryptoError):  # pylint: disable=redefined-builtin
	pass


class TypeError(builtins.TypeError, CryptoError):  # pylint: disable=redefined-builtin
	pass


class ValueError(builtins.ValueError, CryptoError):  # pylint: disable=redefined-builtin
	pass


class UnavailableError(RuntimeError):
	pass
