"""Pure-Python stand-in for the eight `nacl.bindings` functions symbolchain/nem/KeyPair.py calls (PyNaCl/libsodium is absent
from the sandbox).  Big-int Ed25519 in extended coordinates following libsodium's documented semantics:

* crypto_core_ed25519_is_valid_point(p): canonical encoding (y < 2^255-19), on the curve, not of small order, in the main subgroup
* crypto_core_ed25519_scalar_reduce(s): 64 bytes little endian, reduced mod L, 32 bytes out
* crypto_core_ed25519_scalar_add / _scalar_mul(x, y): 32-byte scalars, result mod L
* crypto_core_ed25519_add / _sub(p, q): both operands must decode to points on the curve, else an error
* crypto_scalarmult_ed25519_base(n): clamps n (n[0] &= 248, n[31] &= 127, n[31] |= 64), multiplies the base point
* crypto_scalarmult_ed25519_base_noclamp(n): clears only bit 255 of n; error if the result is the neutral element
* crypto_scalarmult_ed25519_noclamp(n, p): p must be canonical, not of small order, on the curve, in the main subgroup; clears only
  bit 255 of n; error if the result is the neutral element

Errors are raised the way PyNaCl raises them (`nacl.exceptions.RuntimeError` for a non-zero libsodium status,
`nacl.exceptions.TypeError/ValueError` for wrong argument types/lengths).  Running this file self-tests the arithmetic against
`cryptography`'s Ed25519 (RFC 8032 public keys and signatures through the same functions instantiated with SHA-512).
Not constant time; test use only."""
from . import exceptions as exc

crypto_core_ed25519_BYTES = 32
crypto_core_ed25519_SCALARBYTES = 32
crypto_core_ed25519_NONREDUCEDSCALARBYTES = 64
crypto_scalarmult_ed25519_BYTES = 32
crypto_scalarmult_ed25519_SCALARBYTES = 32

_P = 2 ** 255 - 19
_L = 2 ** 252 + 27742317777372353535851937790883648493
_D = -121665 * pow(121666, _P - 2, _P) % _P
_I = pow(2, (_P - 1) // 4, _P)
_IDENT = (0, 1, 1, 0)


def _add(p, q):
	x1, y1, z1, t1 = p
	x2, y2, z2, t2 = q
	a = (y1 - x1) * (y2 - x2) % _P
	b = (y1 + x1) * (y2 + x2) % _P
	c = t1 * 2 * _D * t2 % _P
	d = z1 * 2 * z2 % _P
	e, f, g, h = b - a, d - c, d + c, b + a
	return (e * f % _P, g * h % _P, f * g % _P, e * h % _P)


def _double(p):
	x1, y1, z1, _ = p
	a = x1 * x1 % _P
	b = y1 * y1 % _P
	c = 2 * z1 * z1 % _P
	e = ((x1 + y1) * (x1 + y1) - a - b) % _P
	g = b - a
	f = g - c
	h = -a - b
	return (e * f % _P, g * h % _P, f * g % _P, e * h % _P)


def _neg(p):
	x, y, z, t = p
	return (-x % _P, y, z, -t % _P)


def _mul(n, p):
	result = _IDENT
	for bit in bin(n)[2:] if n else '':
		result = _double(result)
		if bit == '1':
			result = _add(result, p)
	return result


def _is_ident(p):
	x, y, z, _ = p
	return x % _P == 0 and (y - z) % _P == 0


def _encode(p):
	x, y, z, _ = p
	zi = pow(z, _P - 2, _P)
	x, y = x * zi % _P, y * zi % _P
	return (y | ((x & 1) << 255)).to_bytes(32, 'little')


def _decode(data):
	"""Point on the curve for a 32-byte encoding (y is reduced mod p, as ge25519_frombytes does), or None."""
	value = int.from_bytes(data, 'little')
	sign = value >> 255
	y = (value & ((1 << 255) - 1)) % _P
	u = (y * y - 1) % _P
	v = (_D * y * y + 1) % _P
	xx = u * pow(v, _P - 2, _P) % _P
	x = pow(xx, (_P + 3) // 8, _P)
	if (x * x - xx) % _P != 0:
		x = x * _I % _P
	if (x * x - xx) % _P != 0:
		return None
	if (x & 1) != sign:
		x = -x % _P
	return (x, y, 1, x * y % _P)


_BASE = _decode((4 * pow(5, _P - 2, _P) % _P).to_bytes(32, 'little'))


def _check_bytes(value, size, name):
	if not isinstance(value, bytes) or len(value) != size:
		raise exc.TypeError(f'{name} must be a {size} bytes long bytes sequence')


def _is_canonical(data):
	return (int.from_bytes(data, 'little') & ((1 << 255) - 1)) < _P


def _has_small_order(point):
	return _is_ident(_mul(8, point))


def crypto_core_ed25519_is_valid_point(p):
	_check_bytes(p, 32, 'Point')
	if not _is_canonical(p):
		return False
	point = _decode(p)
	if point is None or _has_small_order(point):
		return False
	return _is_ident(_mul(_L, point))


def crypto_core_ed25519_scalar_reduce(s):
	if not isinstance(s, bytes) or len(s) != 64:
		raise exc.TypeError('Integer s must be a bytes object of length 64')
	return (int.from_bytes(s, 'little') % _L).to_bytes(32, 'little')


def _scalars(p, q):
	for value in (p, q):
		if not isinstance(value, bytes) or len(value) != 32:
			raise exc.TypeError('Each integer must be a bytes object of length 32')
	return int.from_bytes(p, 'little'), int.from_bytes(q, 'little')


def crypto_core_ed25519_scalar_add(p, q):
	x, y = _scalars(p, q)
	return ((x + y) % _L).to_bytes(32, 'little')


def crypto_core_ed25519_scalar_mul(p, q):
	x, y = _scalars(p, q)
	return ((x * y) % _L).to_bytes(32, 'little')


def _points(p, q):
	for value in (p, q):
		if not isinstance(value, bytes) or len(value) != 32:
			raise exc.TypeError('Each point must be a bytes object of length 32')
	first, second = _decode(p), _decode(q)
	if first is None or second is None:
		raise exc.RuntimeError('Unexpected library error')
	return first, second


def crypto_core_ed25519_add(p, q):
	first, second = _points(p, q)
	return _encode(_add(first, second))


def crypto_core_ed25519_sub(p, q):
	first, second = _points(p, q)
	return _encode(_add(first, _neg(second)))


def _scalar_arg(n):
	if not isinstance(n, bytes) or len(n) != 32:
		raise exc.TypeError('Input must be a 32 bytes long bytes sequence')
	return int.from_bytes(n, 'little')


def _finish(point, scalar):
	if _is_ident(point) or scalar == 0:
		raise exc.RuntimeError('Unexpected library error')
	return _encode(point)


def crypto_scalarmult_ed25519_base(n):
	scalar = _scalar_arg(n)
	scalar &= ~7
	scalar &= (1 << 255) - 1
	scalar |= 1 << 254
	return _finish(_mul(scalar, _BASE), scalar)


def crypto_scalarmult_ed25519_base_noclamp(n):
	scalar = _scalar_arg(n) & ((1 << 255) - 1)
	return _finish(_mul(scalar, _BASE), scalar)


def crypto_scalarmult_ed25519_noclamp(n, p):
	scalar = _scalar_arg(n) & ((1 << 255) - 1)
	if not isinstance(p, bytes) or len(p) != 32:
		raise exc.TypeError('Input must be a 32 bytes long bytes sequence')
	point = _decode(p) if _is_canonical(p) else None
	if point is None or _has_small_order(point) or not _is_ident(_mul(_L, point)):
		raise exc.RuntimeError('Unexpected library error')
	return _finish(_mul(scalar, point), scalar)


def _self_test():
	import hashlib
	import random

	from cryptography.hazmat.primitives import serialization
	from cryptography.hazmat.primitives.asymmetric import ed25519

	def sha512_int(*parts):
		return crypto_core_ed25519_scalar_reduce(hashlib.sha512(b''.join(parts)).digest())

	rng = random.Random(8032)
	assert _encode(_BASE).hex() == '58' + '66' * 31
	assert _is_ident(_mul(_L, _BASE)) and not _is_ident(_mul(_L - 1, _BASE))
	assert not crypto_core_ed25519_is_valid_point(bytes([1]) + bytes(31))            # neutral element: small order
	assert not crypto_core_ed25519_is_valid_point((_P + 1).to_bytes(32, 'little'))   # non canonical
	assert not crypto_core_ed25519_is_valid_point(bytes([2]) + bytes(31))            # y = 2 is not on the curve
	for _ in range(20):
		seed = bytes(rng.randrange(256) for _ in range(32))
		message = bytes(rng.randrange(256) for _ in range(rng.randrange(0, 200)))
		reference = ed25519.Ed25519PrivateKey.from_private_bytes(seed)
		reference_public = reference.public_key().public_bytes(serialization.Encoding.Raw, serialization.PublicFormat.Raw)
		digest = hashlib.sha512(seed).digest()
		public = crypto_scalarmult_ed25519_base(digest[:32])
		assert public == reference_public, 'public key'
		assert crypto_core_ed25519_is_valid_point(public)
		clamped = bytearray(digest[:32])
		clamped[0] &= 0xF8
		clamped[31] &= 0x7F
		clamped[31] |= 0x40
		nonce = sha512_int(digest[32:], message)
		big_r = crypto_scalarmult_ed25519_base_noclamp(nonce)
		challenge = sha512_int(big_r, public, message)
		big_s = crypto_core_ed25519_scalar_add(nonce, crypto_core_ed25519_scalar_mul(bytes(clamped), challenge))
		assert big_r + big_s == reference.sign(message), 'signature'
		check = crypto_core_ed25519_sub(crypto_scalarmult_ed25519_base_noclamp(big_s), crypto_scalarmult_ed25519_noclamp(challenge, public))
		assert check == big_r, 'verification equation'
		assert crypto_core_ed25519_add(check, crypto_scalarmult_ed25519_noclamp(challenge, public)) \
			== crypto_scalarmult_ed25519_base_noclamp(big_s)
		# a point of order 8L (valid point plus a point of order 8) is on the curve but not in the main subgroup
		torsion = _decode(bytes.fromhex('26e8958fc2b227b045c3f489f2ef98f0d5dfac05d3c63339b13802886d53fc05'))
		assert torsion is not None and _is_ident(_mul(8, torsion)) and not _is_ident(_mul(4, torsion))
		mixed = _encode(_add(_decode(public), torsion))
		assert not crypto_core_ed25519_is_valid_point(mixed)
	print('nacl.bindings shim self-test ok')


if __name__ == '__main__':
	_self_test()
