"""Placeholder for nacl.bindings (absent from the sandbox): lets symbolchain.nem.KeyPair import; none of these is ever called by
checks that do not sign on NEM.  To be replaced by a real implementation."""


def _missing(name):
	def function(*_args, **_kwargs):
		raise NotImplementedError(f'nacl.bindings.{name} is not available in this sandbox')
	function.__name__ = name
	return function


for _name in (
	'crypto_core_ed25519_is_valid_point', 'crypto_core_ed25519_scalar_add', 'crypto_core_ed25519_scalar_mul',
	'crypto_core_ed25519_scalar_reduce', 'crypto_core_ed25519_sub', 'crypto_scalarmult_ed25519_base',
	'crypto_scalarmult_ed25519_base_noclamp', 'crypto_scalarmult_ed25519_noclamp'):
	globals()[_name] = _missing(_name)
