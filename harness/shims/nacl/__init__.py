"""Harness stand-in for PyNaCl (absent from the sandbox): only `nacl.bindings` (the Ed25519 scalar/point functions used by
symbolchain.nem.KeyPair) and `nacl.exceptions` exist.  See bindings.py."""
__version__ = '0.0-verif-shim'
