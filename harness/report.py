"""Generates the as-built tables of DESIGN.md (section 8) from what the machinery itself wrote:
evidence/*.json, seeded/*/meta.json, known_findings.json, MANIFEST.json.

    /usr/bin/python3 -m harness.report            # prints markdown
    /usr/bin/python3 -m harness.report --splice   # replaces the text between the GENERATED markers in DESIGN.md
"""
import glob
import json
import os
import re
import sys

ROOT = os.path.dirname(os.path.dirname(os.path.abspath(__file__)))
BEGIN = '<!-- GENERATED:BEGIN (harness/report.py) -->'
END = '<!-- GENERATED:END -->'


def load(path):
	with open(path, encoding='utf8') as infile:
		return json.load(infile)


def assumptions_summary(text):
	if not text:
		return '?'
	lines = [line.strip() for line in text.splitlines() if line.strip()]
	closed = sum(1 for line in lines if line.startswith('Closed under the global context'))
	axioms = sorted({line.split(':')[0].strip() for line in lines if re.match(r'^[A-Za-z_][\w.\']*\s*:', line) and not line.startswith(('Warning', 'File'))})
	if axioms:
		return f'{closed} closed; axioms: ' + ', '.join(axioms)
	return f'{closed} closed, no axioms'


def evidence_table():
	rows = ['| id | level | obligations | theorems (Props/<id>.v) | Print Assumptions | cases (distinct non-trivial) | wall s |', '|---|---|---|---|---|---|---|']
	for path in sorted(glob.glob(os.path.join(ROOT, 'evidence', 'C*.json'))):
		evidence = load(path)
		coverage = evidence['coverage']
		theorems = coverage.get('theorems', [])
		shown = ', '.join(f'`{name}`' for name in theorems[:12]) + (f' … (+{len(theorems) - 12})' if len(theorems) > 12 else '')
		rows.append('| {} | {} | {}/{} | {} | {} | {} ({}) | {} |'.format(
			evidence['property_id'], evidence['level'], coverage.get('discharged', '-'), coverage.get('obligations', '-'), shown,
			assumptions_summary(coverage.get('print_assumptions', '')), coverage.get('evaluations', '-'), coverage.get('distinct_nontrivial', '-'),
			int(evidence['wall_s'])))
	return '\n'.join(rows)


def seeded_table():
	rows = ['| seeded change | breaks | what it does | demo fails with patch | 168 tests | checks run -> exit (concrete replay) | detected by |', '|---|---|---|---|---|---|---|']
	for path in sorted(glob.glob(os.path.join(ROOT, 'seeded', 'C*', 'meta.json'))):
		meta = load(path)
		notes_path = os.path.join(os.path.dirname(path), 'notes.md')
		what = ''
		if os.path.exists(notes_path):
			with open(notes_path, encoding='utf8') as infile:
				for line in infile:
					line = line.strip()
					if line and not line.startswith('#'):
						what = line[:160]
						break
		ran = '; '.join('{} -> {}{}'.format(run['check'], run['exit'], ' (replay)' if run.get('concrete_replay') else '') for run in meta.get('ran', []))
		rows.append('| {} | {} | {} | {} | {} | {} | {} |'.format(
			meta['name'], meta.get('breaks_property', meta.get('property')), what.replace('|', '/'),
			'yes' if meta.get('demo_with_patch', {}).get('exit') not in (0, None) else 'NO',
			meta.get('pinned_tests_with_patch', '?'), ran, ', '.join(meta.get('detected_by', [])) or '**none**'))
	return '\n'.join(rows)


def findings_table():
	rows = ['| property | status | commit | signature | what |', '|---|---|---|---|---|']
	for finding in load(os.path.join(ROOT, 'known_findings.json'))['findings']:
		what = re.sub(r'^fixed: property=\S+ \S+ ', '', finding['what'])
		rows.append('| {} | {} | {} | `{}` | {} |'.format(
			finding['property'], finding['status'], finding.get('commit', ''), finding['signature'], what.replace('|', '/')))
	return '\n'.join(rows)


def manifest_table():
	manifest = load(os.path.join(ROOT, 'MANIFEST.json'))
	rows = ['| id | level | technique | quick | thorough |', '|---|---|---|---|---|']
	for check in manifest['checks']:
		rows.append('| {} | {} | {} | `{}` | `{}` |'.format(
			check['property_id'], check['level_claimed']['category'], (check.get('technique') or '').replace('|', '/'),
			check['quick_cmd'], check['thorough_cmd']))
	unclaimed = manifest.get('not_applicable', [])
	tail = '\n\nNot claimed: ' + ('; '.join('{} ({})'.format(entry.get('property_id', entry.get('id')), entry.get('reason', '')) for entry in unclaimed) if unclaimed else 'none')
	return '\n'.join(rows) + tail


def render():
	return '\n\n'.join([
		BEGIN,
		'### 8.A Claimed checks (from MANIFEST.json)', manifest_table(),
		'### 8.B What the last run of each check covered (from evidence/*.json)', evidence_table(),
		'### 8.C Findings (from known_findings.json)', findings_table(),
		'### 8.D Seeded property-breaking changes and which checks catch them (from seeded/*/meta.json)', seeded_table(),
		END])


def main():
	text = render()
	if '--splice' in sys.argv:
		path = os.path.join(ROOT, 'DESIGN.md')
		with open(path, encoding='utf8') as infile:
			design = infile.read()
		if BEGIN in design:
			design = design[:design.index(BEGIN)] + text + design[design.index(END) + len(END):]
		else:
			design = design.rstrip('\n') + '\n\n' + text + '\n'
		with open(path, 'w', encoding='utf8') as outfile:
			outfile.write(design)
	else:
		print(text)


if __name__ == '__main__':
	main()
