"""Runs checks against a behaviour-preserving rewrite of /repo (a patch), in a scratch worktree, and classifies what they say.

usage: /usr/bin/python3 -m harness.harmless <dir with patch.diff> --id C08 [--checks C08,C13] [--out results.jsonl]

Classes: 'quiet' (exit 0, no VIOLATION line), 'tie-only' (every VIOLATION line ends with no-failing-input-found: the tie to the
source no longer checks and no failing input was found - allowed by the brief for a harmless rewrite, the price of hashing
anchors), 'false-alarm' (a VIOLATION line with a concrete replay on code whose behaviour is unchanged: a defect of the check)."""
import argparse
import json
import os
import shutil
import subprocess
import sys
import time
from pathlib import Path

VERIF = Path(__file__).resolve().parent.parent
REPO = Path('/repo')


def sh(cmd, cwd=None, env=None, timeout=5400):
	proc = subprocess.run(cmd, cwd=cwd, env=env, stdout=subprocess.PIPE, stderr=subprocess.STDOUT, text=True, timeout=timeout, check=False)
	return proc.returncode, proc.stdout


def evaluate(source, checks, tier='quick'):
	source = Path(source).resolve()
	name = source.name
	worktree = Path(f'/var/tmp/harmrun-{name}')
	work = Path(f'/var/tmp/harmrun-{name}-work')
	for path in (worktree, work):
		if path.exists():
			sh(['git', '-C', str(REPO), 'worktree', 'remove', '--force', str(path)])
			shutil.rmtree(path, ignore_errors=True)
	result = {'name': name, 'checks': {}}
	status, out = sh(['git', '-C', str(REPO), 'worktree', 'add', '--detach', str(worktree), 'HEAD'])
	if status != 0:
		raise RuntimeError(out)
	try:
		status, out = sh(['git', 'apply', '--whitespace=nowarn', str(source / 'patch.diff')], cwd=worktree)
		result['patch_applies'] = status == 0
		if status != 0:
			result['patch_error'] = out[-500:]
			return result
		env = dict(os.environ)
		env['VERIF_REPO'] = str(worktree)
		env['VERIF_WORK'] = str(work)
		env.setdefault('VERIF_COQ_FROM_HEAD', '1')
		for check in checks:
			start = time.time()
			status, out = sh(['/usr/bin/python3', str(VERIF / 'run.py'), 'check', check, '--tier', tier], env=env, cwd=str(VERIF))
			violations = [line for line in out.split('\n') if line.startswith('VIOLATION')]
			if status == 0 and not violations:
				verdict = 'quiet'
			elif violations and all(line.rstrip().endswith('no-failing-input-found') for line in violations):
				verdict = 'tie-only'
			else:
				verdict = 'false-alarm'
			detail = {'exit': status, 'verdict': verdict, 'seconds': round(time.time() - start), 'violations': violations[:6],
				'summary': [line for line in out.split('\n') if ' obligations ' in line][-1:]}
			if verdict != 'quiet':
				evidence = work / 'evidence' / f'{check}.json'
				if evidence.exists():
					try:
						data = json.loads(evidence.read_text())
						detail['broken'] = data.get('result', {}).get('broken') or data.get('broken')
					except ValueError:
						pass
				detail['tail'] = out[-1500:]
			result['checks'][check] = detail
		return result
	finally:
		sh(['git', '-C', str(REPO), 'worktree', 'remove', '--force', str(worktree)])
		shutil.rmtree(worktree, ignore_errors=True)
		shutil.rmtree(work, ignore_errors=True)
		sh(['git', '-C', str(REPO), 'worktree', 'prune'])


def main():
	parser = argparse.ArgumentParser()
	parser.add_argument('source')
	parser.add_argument('--id', required=True)
	parser.add_argument('--checks')
	parser.add_argument('--tier', default='quick')
	parser.add_argument('--out')
	args = parser.parse_args()
	checks = args.checks.split(',') if args.checks else [args.id]
	result = evaluate(args.source, checks, args.tier)
	line = json.dumps(result)
	print(line)
	if args.out:
		with open(args.out, 'a', encoding='utf8') as handle:
			handle.write(line + '\n')


if __name__ == '__main__':
	main()
