"""C01: model codecs round-trip every admissible value and report its exact size."""
import hashlib
import re
import signal
import sys
import time

from .. import codec, common
from ..common import blit, coq_eval

MANIFEST = {
	'text': 'Theorems (Props/C01.v) over the layout interpreter Cats/Layout.v, an independent Gallina interpreter of the expanded CATS schema '
		'instantiated with operators regenerated from ArrayHelpers.py/BaseValue.py and with both shipped schemas regenerated from the .cats '
		'files: little-endian integer round trips for every width and signedness, align_up specification, array write/read round trip with '
		'the strict-order check, size = encoded length and decode(encode v ++ rest) = v for a decidable fragment of ANY schema that contains '
		'every concrete struct of both shipped schemas (80/84 Symbol, 33/35 NEM; conditionals, sizeof/sizeref, fill and aligned arrays, '
		'out-of-order unions, parents with and without @size window), and the same for factory decoding (decf_enc_partial); `_partial` '
		'because the fragment is given by deciders, not by wf_schema. The interpreter is tied to the 14 000 generated codec lines by running both on schema-directed values of EVERY class of both '
		'modules (enumerated by reflection) and on mutated encodings (serialize, size, deserialize, factory deserialize, re-encode). Bytes direction (Cats/StructStable*.v, StructReencode*.v): whatever deserialize / the factory return is an admissible value; a value decoded from bytes whose sub-objects are below 2^32 bytes re-encodes, and the re-encoded bytes decode to the same value and re-encode to themselves (the bound is necessary: known finding with a 4 GiB NEM transfer, replayed by the thorough tier).',
	'design_ref': 'DESIGN.md section 4, C01 and section 3.3',
	'technique': 'Coq proof over a schema interpreter (regenerated schema + operators) + vm_compute differential against the generated Python codecs',
}

PRELUDE = 'From Symv Require Import Cats.LayoutRender.\n'


class Timeout(Exception):
	pass


def _alarm(_signum, _frame):
	raise Timeout()


def limited(callable_, seconds=2):
	signal.signal(signal.SIGALRM, _alarm)
	signal.setitimer(signal.ITIMER_REAL, seconds)
	try:
		return codec.outcome(callable_)
	except Timeout:
		return ('crash', 'Timeout')
	finally:
		signal.setitimer(signal.ITIMER_REAL, 0)


def fmt(result, render):
	if result[0] == 'ok':
		return 'ok:' + render(result[1])
	return 'reject' if result[0] == 'reject' else 'crash:' + result[1]


def coarse(text):
	"""Three-way outcome comparison: the kind of a crash is informational."""
	return '|'.join('crash' if part.startswith('crash:') else part for part in text.split('|'))


def impl_ser(obj):
	return fmt(limited(lambda: bytes(obj.serialize())), lambda b: b.hex()) + '|' + fmt(limited(lambda: obj.size), str)


def impl_des(net, name, data):
	cls = getattr(net.module, name)

	def run():
		decoded = cls.deserialize(data)
		tree = codec.from_object(net, name, decoded)
		return decoded, tree
	first = limited(run)
	if first[0] != 'ok':
		return fmt(first, str), None
	decoded, tree = first[1]
	text = 'ok:' + codec.render(tree) + '|' + fmt(limited(lambda: decoded.size), str) + '|' + fmt(limited(lambda: bytes(decoded.serialize())), lambda b: b.hex())
	return text, (decoded, tree)


def impl_fac(net, factory_name, data):
	factory = getattr(net.module, factory_name + 'Factory')

	def run():
		decoded = factory.deserialize(data)
		return type(decoded).__name__, codec.from_object(net, factory_name, decoded)
	result = limited(run)
	if result[0] != 'ok':
		return fmt(result, str), None
	return 'ok:' + codec.render(result[1][1]), result[1]


def mutate(rng, data):
	data = bytearray(data)
	choice = rng.randrange(7)
	if choice <= 2 and data:
		position = rng.randrange(len(data)) if rng.randrange(3) else rng.randrange(min(len(data), 12))
		if choice == 0:
			data[position] ^= 1 << rng.randrange(8)
			return bytes(data), 'bitflip'
		data[position] = rng.choice([0, 1, 0x7F, 0x80, 0xFF, rng.randrange(256)])
		return bytes(data), 'byteset'
	if choice == 3 and data:
		return bytes(data[:rng.randrange(len(data))]), 'truncate'
	if choice == 4:
		return bytes(data) + bytes(rng.randrange(256) for _ in range(rng.choice([1, 2, 7, 8]))), 'extend'
	if choice == 5 and len(data) >= 4:
		position = rng.randrange(len(data) - 3)
		data[position:position + 4] = rng.choice([b'\xff\xff\xff\xff', b'\x00\x00\x00\x00', (len(data) + rng.randrange(-9, 9)).to_bytes(4, 'little', signed=True)])
		return bytes(data), 'word'
	return bytes(data[1:]) if data else b'\x00', 'shift'


def structured_mutants(net, model, tree, data):
	"""Element-aware mutants of a valid encoding: for every typed-array member of the value, locate the element blocks in the bytes and
	duplicate / swap / rotate them (duplicate and out-of-order keys, wrong element counts are what byte-level mutation almost never hits)."""
	mutants = []
	if codec.kind(model) != 'Struct':
		return mutants
	members = dict(tree[2])
	for field in codec.settable_fields(model):
		if not codec.is_array(field) or codec.is_byte_array(field):
			continue
		elements = members.get(field.name) or []
		if len(elements) < 2:
			continue
		try:
			blocks = [bytes(codec.to_object(net, field.field_type.element_type, e).serialize()) for e in elements]
		except Exception:  # pylint: disable=broad-except
			continue
		if len(set(len(b) for b in blocks)) != 1 or field.field_type.alignment:
			continue
		joined = b''.join(blocks)
		position = data.find(joined)
		if position < 0:
			continue

		def rebuilt(new_blocks, position=position, joined=joined):
			return data[:position] + b''.join(new_blocks) + data[position + len(joined):]
		mutants.append((rebuilt([blocks[0]] + [blocks[0]] + blocks[2:]), f'dup-element:{field.name}'))
		mutants.append((rebuilt([blocks[1], blocks[0]] + blocks[2:]), f'swap-elements:{field.name}'))
		mutants.append((rebuilt(blocks[1:] + blocks[:1]), f'rotate-elements:{field.name}'))
		mutants.append((rebuilt(blocks[:-1] + [blocks[-2]]), f'dup-last:{field.name}'))
	return mutants


def signature(kind, name, payload):
	return f'{kind}:{name}:' + hashlib.sha256(repr(payload).encode('utf8')).hexdigest()[:12]


def grow_in_place_problem(check, net, generator, name, model):
	for field in codec.settable_fields(model):
		if not codec.is_array(field) or codec.is_byte_array(field) or field.is_conditional or field.field_type.sort_key:
			continue
		if isinstance(field.field_type.size, int) and not field.field_type.is_expandable:
			continue
		tree = generator.struct(model, 0)
		try:
			obj = codec.to_object(net, name, tree)
			extra_tree = generator.named(field.field_type.element_type, 1)
			extra = codec.to_object(net, field.field_type.element_type, extra_tree)
		except codec.Inadmissible:
			continue
		first = limited(lambda o=obj: (o.size, bytes(o.serialize())))
		if first[0] != 'ok':
			continue
		check.case(f'{net.name}:grow-in-place', (name, field.name, codec.render(tree)))
		getattr(obj, '_' + codec.fix_name(field.name)).append(extra)
		second = limited(lambda o=obj: (o.size, bytes(o.serialize())))
		expected = ('S', tree[1], [(member, value + [extra_tree] if member == field.name else value) for member, value in tree[2]])
		shown = codec.render(expected)
		if second[0] != 'ok':
			return shown, f'after size / serialize and then appending an element to {field.name} in place, size / serialize fail: {second[1:]}'
		size_after, data_after = second[1]
		if size_after != len(data_after):
			return shown, f'after size / serialize and then appending an element to {field.name} in place, size reports {size_after} ' \
				f'but {len(data_after)} bytes are encoded'
		_, decoded = impl_des(net, name, data_after)
		if decoded is None or decoded[1] != expected:
			return shown, f'after size / serialize and then appending an element to {field.name} in place, the new encoding does not ' \
				'decode to the current value'
	return None


def default_object_problem(net, name, model, parent):
	cls = getattr(net.module, name)
	outcome_ = limited(cls)
	if outcome_[0] != 'ok':
		return f'the class cannot be default-constructed: {outcome_[1:]}'
	obj = outcome_[1]
	constants = {field.name: field for field in model.fields if field.is_const}
	for initializer in model.initializers:
		const_field = constants.get(initializer.value)
		if const_field is None or not hasattr(obj, codec.fix_name(initializer.target_property_name)):
			continue
		expected = const_field.value
		if isinstance(expected, str):
			enum_model = net.by_name.get(const_field.field_type) if isinstance(const_field.field_type, str) else None
			expected = next((v.value for v in enum_model.values if v.name == expected), None) if enum_model is not None else None
		actual = getattr(obj, codec.fix_name(initializer.target_property_name))
		actual = getattr(actual, 'value', actual)
		if expected is not None and actual != expected:
			return f'a default-constructed object has {initializer.target_property_name} = {actual}, the schema initialises it with ' \
				f'{initializer.value} = {expected}'
	holds_abstract = any(
		isinstance(field.field_type, str) and codec.kind(net.by_name.get(field.field_type)) == 'Struct' and net.by_name[field.field_type].is_abstract
		for field in codec.settable_fields(model))
	# (a member of abstract type defaults to an instance of the abstract base, which encodes but is not a value of the family)
	if parent and not holds_abstract:
		encoded = limited(lambda: bytes(obj.serialize()))
		if encoded[0] == 'ok':
			fac_text, fac = impl_fac(net, parent, encoded[1])
			if fac is None or fac[0] != name:
				return f'the encoding of a default-constructed object is decoded by {parent}Factory as {fac_text[:80]}'
	return None


def pairing_values(net, generator, model, tier):
	"""For every array member whose element type is an abstract family: each concrete child once FOLLOWED by another element (so that
	where its encoding ends matters) and once last."""
	base = None
	for field in codec.settable_fields(model):
		if not codec.is_array(field) or codec.is_byte_array(field) or not isinstance(field.field_type.element_type, str):
			continue
		element = net.by_name.get(field.field_type.element_type)
		if element is None or codec.kind(element) != 'Struct' or not element.is_abstract or field.is_conditional:
			continue
		children = net.children.get(element.name, [])
		if isinstance(field.field_type.size, int) and not field.field_type.is_expandable and field.field_type.size != 2:
			continue
		for child in children:
			if base is None:
				base = generator.struct(model, 0)
			first = generator.struct(child, 1)
			follower = generator.struct(generator.rng.choice(children), 1)
			# quick: the child in the non-last position only (ordinary values already end arrays with every kind of child over time)
			for pair in ([[first, follower]] if tier == 'quick' else [[first, follower], [follower, first]]):
				if field.field_type.sort_key:
					continue
				yield ('S', base[1], [(name, pair if name == field.name else value) for name, value in base[2]])


SHARING_PATTERNS_QUICK = ['aba', 'aa']
SHARING_PATTERNS_THOROUGH = SHARING_PATTERNS_QUICK + ['aab', 'baa', 'abab', 'aaa']


def shareable_arrays(model):
	"""Array members that may hold the same element more than once: elements of a named type, no sort key (equal keys are inadmissible there)."""
	found = []
	for field in codec.settable_fields(model):
		if not codec.is_array(field) or codec.is_byte_array(field) or not isinstance(field.field_type.element_type, str):
			continue
		if field.field_type.sort_key or field.is_conditional:
			continue
		if isinstance(field.field_type.size, int) and not field.field_type.is_expandable:
			continue
		found.append(field)
	return found


def share_elements(obj, member, pattern):
	"""Makes the positions of obj.<member> that carry the same letter of `pattern` hold ONE element object (the value is unchanged)."""
	elements = getattr(obj, '_' + codec.fix_name(member))
	first = {}
	for position, letter in enumerate(pattern):
		elements[position] = first.setdefault(letter, elements[position])
	return obj


def shared_element_values(generator, model, tier):
	"""Values that list an equal element several times, built the way a program that reuses a transaction / cosignature / address object
	builds them: the SAME element object at the repeated positions (earlier and last, adjacent, first and second).  Where the schema
	declares element alignment the repeated element has a size that is not a multiple of it, so that its padding matters."""
	for field in shareable_arrays(model):
		array_type = field.field_type
		base = None
		for pattern in SHARING_PATTERNS_QUICK if tier == 'quick' else SHARING_PATTERNS_THOROUGH:
			if array_type.alignment:
				drawn = {'a': generator.element_of_residue(array_type.element_type, array_type.alignment, False),
					'b': generator.element_of_residue(array_type.element_type, array_type.alignment, generator.rng.randrange(2) == 0)}
			else:
				drawn = {letter: generator.named(array_type.element_type, 1) for letter in 'ab'}
			if any(element is None for element in drawn.values()):
				continue
			if base is None:
				generator.extreme = 'min'
				base = generator.struct(model, 0)
				generator.extreme = None
			elements = [drawn[letter] for letter in pattern]
			yield ('S', base[1], [(name, elements if name == field.name else value) for name, value in base[2]]), {'member': field.name, 'pattern': pattern}


def value_record(tree, shared):
	"""What a replay needs to rebuild the object: the value tree and, for values built with shared element objects, which positions share."""
	record = {'tree': codec.tree_to_json(tree)}
	if shared:
		record['shared_element_objects'] = shared
	return record


def how_built(shared):
	return f' (built with ONE element object at the positions of {shared["member"]} that carry the same letter of "{shared["pattern"]}")' if shared else ''


def value_problems(net, name, tree, shared, parent):
	"""P on one admissible value, on the implementation alone: it is built, encodes, reports the encoded length as its size, decodes back to
	itself, and the family factory agrees with the concrete class.  Yields (op, text)."""
	try:
		obj = codec.to_object(net, name, tree)
		if shared:
			share_elements(obj, shared['member'], shared['pattern'])
	except codec.Inadmissible as ex:
		yield 'construct', f'a schema-admissible value is refused when the object is built ({str(ex)[:120]})'
		return
	encoded, size_text = impl_ser(obj).split('|')
	if not encoded.startswith('ok:'):
		yield 'serialize', f'schema-admissible value does not serialize ({encoded})'
		return
	data = bytes.fromhex(encoded[3:])
	if size_text != f'ok:{len(data)}':
		yield 'size', f'size reports {size_text} but {len(data)} bytes are encoded'
	model = net.by_name[name]
	if codec.kind(model) == 'Struct' and model.is_abstract:
		return
	des_text, decoded = impl_des(net, name, data)
	if decoded is None or decoded[1] != tree:
		yield 'roundtrip', f'decode(encode v) differs from v ({des_text[:120]})'
	if parent and decoded is not None:
		fac_text, fac = impl_fac(net, parent, data)
		if fac is None or fac[0] != name or fac[1] != decoded[1]:
			yield 'factory', f'{parent}Factory decodes {name} bytes as {fac_text[:100]}'


def run_network(check, net, per_class, per_class_mutants):
	rng = check.rng
	generator = codec.Generator(net, rng, long_arrays=(check.tier == 'thorough'))
	codecs, factories = codec.all_class_names(net)
	missing = [name for name in codecs if name not in net.by_name]
	if missing:
		check.fail(f'class-without-schema:{net.name}:{missing[0]}', f'classes of {net.module.__name__} with no schema declaration: {missing}', {'classes': missing})
	exprs, expected, meta = [], [], []
	parent_of = {child.name: parent for parent, children in net.children.items() for child in children}
	for name in codecs:
		if name in missing:
			continue
		model = net.by_name[name]
		is_abstract = codec.kind(model) == 'Struct' and model.is_abstract
		encodings = []
		structured_sources = []
		def class_values():
			for index in range(per_class + 3):
				# the first values of every class: all variable-length members empty (twice: both arms of the alternating conditionals), then longest
				generator.extreme = {0: 'min', 1: 'min', 2: 'max'}.get(index)
				value = generator.struct(model, 0) if is_abstract else generator.named(name)
				generator.extreme = None
				yield value, None
			if not is_abstract and codec.kind(model) == 'Struct':
				for value in pairing_values(net, generator, model, check.tier):
					yield value, None
				yield from shared_element_values(generator, model, check.tier)

		for tree, shared in class_values():
			try:
				obj = codec.to_object(net, name, tree)
				if shared:
					share_elements(obj, shared['member'], shared['pattern'])
			except codec.Inadmissible as ex:
				# the generator only produces values the schema admits (integers within their width, declared enum members, flag subsets)
				check.case(f'{net.name}:ser:refused-at-construction', (name, codec.render(tree)))
				check.fail(signature('admissible-value-refused', name, codec.render(tree)),
					f'{net.name}.{name}: a schema-admissible value is refused when the object is built ({str(ex)[:120]})',
					{'network': net.name, 'class': name, 'value': codec.render(tree), 'op': 'construct', **value_record(tree, shared)})
				continue
			ser = impl_ser(obj)
			exprs.append(f'case_ser {net.coq_schema} "{name}" {codec.coq_value(tree)}')
			expected.append(ser)
			meta.append(('ser', name, tree))
			check.case(f'{net.name}:ser:{"shared-element-objects" if shared else codec.kind(model)}', (name, codec.render(tree), str(shared)))
			encoded, size_text = ser.split('|')
			if not encoded.startswith('ok:'):
				check.fail(signature('admissible-value-not-encodable', name, codec.render(tree) + how_built(shared)),
					f'{net.name}.{name}: schema-admissible value does not serialize ({encoded})' + how_built(shared),
					{'network': net.name, 'class': name, 'value': codec.render(tree), 'op': 'serialize', **value_record(tree, shared)})
				continue
			data = bytes.fromhex(encoded[3:])
			encodings.append(data)
			if len(structured_sources) < 3 and not is_abstract:
				structured_sources.append((tree, data))
			# P: size == len(bytes)
			if size_text != f'ok:{len(data)}':
				check.fail(signature('size-mismatch', name, codec.render(tree) + how_built(shared)),
					f'{net.name}.{name}: size reports {size_text} but {len(data)} bytes are encoded' + how_built(shared),
					{'network': net.name, 'class': name, 'value': codec.render(tree), 'bytes': data.hex(), 'op': 'size', **value_record(tree, shared)})
			if is_abstract:
				continue
			# P: decode(encode v) == v
			des_text, decoded = impl_des(net, name, data)
			exprs.append(f'case_des {net.coq_schema} "{name}" {blit(data)}')
			expected.append(des_text)
			meta.append(('des', name, data.hex()))
			check.case(f'{net.name}:des', (name, data.hex()))
			if decoded is None or decoded[1] != tree:
				check.fail(signature('roundtrip', name, data.hex()),
					f'{net.name}.{name}: decode(encode v) differs from v ({des_text[:120]})' + how_built(shared),
					{'network': net.name, 'class': name, 'value': codec.render(tree), 'bytes': data.hex(), 'op': 'roundtrip', **value_record(tree, shared)})
			# P: the family factory returns the same concrete type and value
			if name in parent_of and decoded is not None:
				fac_text, fac = impl_fac(net, parent_of[name], data)
				exprs.append(f'case_fac {net.coq_schema} "{parent_of[name]}" {blit(data)}')
				expected.append(fac_text)
				meta.append(('fac', parent_of[name], data.hex()))
				check.case(f'{net.name}:fac', (name, data.hex()))
				if fac is None or fac[0] != name or fac[1] != decoded[1]:
					check.fail(signature('factory', name, data.hex()),
						f'{net.name}.{parent_of[name]}Factory decodes {name} bytes as {fac_text[:100]}',
						{'network': net.name, 'class': name, 'factory': parent_of[name], 'bytes': data.hex(), 'op': 'factory', **value_record(tree, shared)})
		# P: a default-constructed object already carries the constants its schema names with @initializes (what create_by_name and the
		# descriptor factories rely on), and the family factory recognises its encoding
		if not is_abstract and codec.kind(model) == 'Struct' and model.initializers:
			problem = default_object_problem(net, name, model, parent_of.get(name))
			check.case(f'{net.name}:default-object', name)
			if problem:
				check.fail(signature('default-object', name, problem), f'{net.name}.{name}: {problem}',
					{'network': net.name, 'class': name, 'op': 'default-object'})
		# P: use the object (size, serialize), grow one of its arrays IN PLACE, use it again: size and bytes describe the current value
		if not is_abstract and codec.kind(model) == 'Struct':
			problem = grow_in_place_problem(check, net, generator, name, model)
			if problem:
				check.fail(signature('stale-after-in-place-growth', name, problem[0]), f'{net.name}.{name}: {problem[1]}',
					{'network': net.name, 'class': name, 'value': problem[0], 'op': 'size / serialize, append in place, size / serialize'})
		if is_abstract or not encodings:
			continue
		mutant_stream = [mutate(rng, rng.choice(encodings)) for _ in range(per_class_mutants)]
		for tree_, data_ in structured_sources:
			mutant_stream += structured_mutants(net, model, tree_, data_)
		for data, how in mutant_stream:
			started = time.time()
			des_text, decoded = impl_des(net, name, data)
			if len(des_text) > 200000 or time.time() - started > 0.75:
				# resource rule: a mutated count that makes the codec build tens of thousands of elements out of a few bytes (reads past
				# the end yield zeros) is evaluated on the implementation only; the model would need gigabytes to print the same tree
				check.case(f'{net.name}:mutant:exhausting', (name, data.hex()), False)
				check.extra['exhausting_mutants_skipped_on_model'] = check.extra.get('exhausting_mutants_skipped_on_model', 0) + 1
				continue
			exprs.append(f'case_des {net.coq_schema} "{name}" {blit(data)}')
			expected.append(des_text)
			meta.append(('des', name, data.hex()))
			check.case(f'{net.name}:mutant:{how.split(":")[0]}:{des_text.split(":")[0].split("|")[0]}', (name, data.hex()))
			if decoded is not None:
				# P: decode-encode-decode stability for any byte string that decodes at all
				parts = des_text.split('|')
				if not parts[-1].startswith('ok:'):
					check.fail(signature('decoded-not-encodable', name, data.hex()),
						f'{net.name}.{name}: bytes decode but the decoded value does not re-encode ({parts[-1]})',
						{'network': net.name, 'class': name, 'bytes': data.hex(), 'op': 'decode-encode'})
				else:
					again = bytes.fromhex(parts[-1][3:])
					second_text, second = impl_des(net, name, again)
					if second is None or second[1] != decoded[1] or not second_text.endswith('|ok:' + again.hex()):
						check.fail(signature('decode-encode-decode', name, data.hex()),
							f'{net.name}.{name}: decode-encode-decode is not stable',
							{'network': net.name, 'class': name, 'bytes': data.hex(), 'op': 'decode-encode-decode'})
	models = coq_eval(PRELUDE + net.coq_import, exprs, f'c01{net.name}', shard=50, timeout=240)
	exhausted = 0
	for expr, impl_text, model_text, info in zip(exprs, expected, models, meta):
		if 'OutOfFuel' in model_text or 'Timeout' in impl_text:
			exhausted += 1
			continue
		if coarse(impl_text) != coarse(model_text):
			check.disagree(f'Layout-vs-{net.module.__name__}', {'op': info[0], 'class': info[1], 'input': info[2] if isinstance(info[2], str) else codec.render(info[2])},
				impl_text[:600], model_text[:600])
	check.extra[f'{net.name}_classes'] = len(codecs)
	check.extra[f'{net.name}_factories'] = factories
	check.extra[f'{net.name}_exhausted_cases'] = exhausted
	check.extra[f'{net.name}_value_distribution'] = dict(sorted(generator.stats.items())[:80])
	for expr, impl_text in list(zip(exprs, expected))[::max(1, len(exprs) // 3)][:3]:
		check.sample({'model_case': expr[:300], 'implementation': impl_text[:300]})


def run(check, unrecognised):
	check.trusted += [
		'translator harness/gens/c01.py: ArrayOps (operators/constants of ArrayHelpers, BaseValue, ByteArray) and SchemaSc/SchemaNc '
		'(the expanded schemas as /repo\'s own parser + post-processor yield them, printed by harness/astdump.py)',
		'harness/codec.py (schema-directed value generator, object <-> tree conversion)',
		'modelled, not verified: the generated codec classes themselves (tied by correspondence), CPython int/bytes/memoryview/enum semantics']
	check.assume += ['values are trees of ints/bytes/lists/structs; wrongly-typed Python objects assigned to members are outside the quantifier']
	check.extra['rule'] = 'for every class of sc and nc (by reflection): schema-directed admissible values (boundary ints, enum members, flag subsets, ' \
		'array lengths 0-3 (17 in thorough), both arms of conditionals, nested aggregates/multisig; every array of named elements also with ' \
		'ONE element object listed at several positions (earlier and last, adjacent), of a size off the declared alignment) ' \
		'-> serialize/size/deserialize/factory; ' \
		'then random single-bit/byte/word mutations, truncations, extensions of valid encodings -> deserialize + re-encode; ' \
		'distinct = distinct (class, value or bytes); all non-trivial'
	if unrecognised.get('ArrayOps'):
		check.notes.append(f'anchors not recognised, pinned operators used: {unrecognised["ArrayOps"]}')
	check.prove('C01.v')
	codec.setup_paths()
	per_class, mutants = (2, 8) if check.tier == 'quick' else (60, 150)
	for name in ('symbol', 'nem'):
		try:
			net = codec.load_net(name)
		except Exception as ex:  # pylint: disable=broad-except
			check.fail(f'module-import:{name}', f'codec module or schema of {name} cannot be loaded: {type(ex).__name__}: {ex}', {'network': name})
			continue
		run_network(check, net, per_class, mutants)
	if check.tier == 'thorough':
		huge_value_case(check)


HUGE_SCRIPT = common.VERIF / 'harness' / 'replay_scripts' / 'c01_reencode_4gib_nem.py'


def huge_value_case(check):
	"""P at the one place where the shipped schemas can overflow a size member: all computed size members are 4 bytes wide, so a value of
	2^32 bytes decodes and cannot be encoded again (Props/C01.v: decoded_reencodes_partial carries the bound as `small tm 2^32 v`).
	Run in a subprocess (about 10 GB) and only when the machine has the memory for it."""
	try:
		available = next(int(line.split()[1]) for line in open('/proc/meminfo', encoding='ascii') if line.startswith('MemAvailable:')) // 1024
	except (OSError, StopIteration, ValueError):
		available = 0
	if available < 24000:
		check.extra['huge_value_case'] = f'skipped: {available} MB available, 24000 wanted'
		return
	env = common.impl_env()
	status, out = common.run([sys.executable, str(HUGE_SCRIPT)], 900, env=env)
	result = re.search(r'RESULT decoded=(\w+) reencoded=(\w+) error=(\S+)', out or '')
	control = re.search(r'CONTROL reencoded=(\w+) stable=(\w+)', out or '')
	check.extra['huge_value_case'] = (out or '')[-300:] if status == 0 else f'status {status}: {(out or "")[-300:]}'
	if status != 0 or not result or not control:
		check.notes.append('huge value case did not complete (resources); not counted')
		return
	check.case('nem:huge-value', ('TransferTransactionV1', 2**32 - 8))
	check.case('nem:huge-value', ('TransferTransactionV1', 2**32 - 9))
	replay_data = {'network': 'nem', 'class': 'TransferTransactionV1', 'op': 'huge-value', 'script': str(HUGE_SCRIPT),
		'how': 'python <script> with /repo/sdk/python importable (about 10 GB of memory)'}
	if result.group(1) == 'True' and result.group(2) != 'True':
		check.fail('decoded-not-encodable:TransferTransactionV1:message-of-2^32-minus-8-bytes',
			f'nem.TransferTransactionV1: a buffer of bytes with a message of 2^32 - 8 bytes decodes, the decoded value does not re-encode ({result.group(3)} '
			'at message_envelope_size)', replay_data)
	if control.group(1) != 'True' or control.group(2) != 'True':
		check.fail('decode-encode-decode:TransferTransactionV1:message-of-2^32-minus-9-bytes',
			'nem.TransferTransactionV1: with one message byte fewer the value must re-encode and be stable', dict(replay_data, control=control.group(0)))


def replay(data):
	"""Re-runs the recorded input on the implementation of the current tree.  Replays that carry the value tree (and how its element objects
	are shared) are re-evaluated with the property oracle; byte-string replays with decode-encode-decode."""
	codec.setup_paths()
	info = data['replay']
	print('replay data:', {k: str(v)[:300] for k, v in info.items()})
	if 'network' not in info or 'class' not in info:
		return 1
	net = codec.load_net(info['network'])
	name = info['class']
	if 'tree' in info:
		parent_of = {child.name: parent for parent, children in net.children.items() for child in children}
		problems = list(value_problems(net, name, codec.tree_from_json(info['tree']), info.get('shared_element_objects'), parent_of.get(name)))
		for op, text in problems:
			print(f'property: VIOLATED ({op}) {net.name}.{name}: {text}' + how_built(info.get('shared_element_objects')))
		if not problems:
			print('property: holds (the value is built, encodes to `size` bytes, decodes back to itself, the factory agrees)')
		return 1 if problems else 0
	if 'bytes' in info and info.get('op') in ('decode-encode', 'decode-encode-decode'):
		text, decoded = impl_des(net, name, bytes.fromhex(info['bytes']))
		print('deserialize:', text[:1000])
		if decoded is None:
			print('property: holds (the bytes do not decode)')
			return 0
		parts = text.split('|')
		stable = parts[-1].startswith('ok:')
		if stable:
			again = bytes.fromhex(parts[-1][3:])
			second_text, second = impl_des(net, name, again)
			stable = second is not None and second[1] == decoded[1] and second_text.endswith('|ok:' + again.hex())
		print('property:', 'holds' if stable else 'VIOLATED (decode-encode-decode is not stable)')
		return 0 if stable else 1
	if 'bytes' in info:
		text, _ = impl_des(net, name, bytes.fromhex(info['bytes']))
		print('deserialize:', text[:1000])
	print('replay of', info.get('op'), 'for', name, '- see fields of this file')
	return 1
