"""C11: ill-formed CATS text is rejected, never silently accepted.

The corruption catalogue, the document generator and the parser model are shared with C04 (harness/checks/c04.py)."""
import hashlib
import shutil
import sys

from .. import common
from ..common import REPO, coq_eval
from . import c04

MANIFEST = {
	'text': 'Qed theorems over the parser model of Cats/Syntax.v: an error in any logical line is never dropped (parse_error_propagates), '
		'parse is total so no prefix or remainder of a rejected text is returned (no_prefix_success), and for a catalogue of single-point '
		'corruption operators every corrupted rendering of a well-formed descriptor list is rejected with the line of the corruption '
		'(unsupported width, wrong case class, unknown attribute, missing final line end, member outside a declaration, struct without '
		'members); 24 operators x sites of all shipped schemas and of random documents are run against lark (must raise UnexpectedInput '
		'with the model\'s line) and the CLI is run on import trees with one corrupted file (exit status != 0, no output file). State-aware rejection at every kind of site (member, member attribute, enum value, declaration attribute, keyword line) with exact line and column, most catalogue operators at all their sites, missing final line end for every document (Cats/SyntaxRejectBodyProofs.v, SyntaxRejectEofProofs.v).',
	'design_ref': 'DESIGN.md section 4, C11',
	'technique': 'Coq proof over regenerated model + vm_compute correspondence with the lark-based parser + CLI runs',
}

VALID_TREE = {
	'root.cats': 'import "middle.cats"\nimport "shapes/extra.cats"\n\n# top level user\nstruct Root\n\tbody = Middle\n\textra = Extra\n',
	'middle.cats': 'import "leaf.cats"\n\n# refers to the leaf types\n@is_aligned\nstruct Middle\n\tamount = Amount\n\tcolor = Color\n\tcount = uint8\n\t'
		'@sort_key(weight)\n\titems = array(Item, count)\n',
	'leaf.cats': 'using Amount = uint64\nusing Key = binary_fixed(32)\n\n# colors\nenum Color : uint8\n\tRED = 0x01\n\tBLUE = 2\n\n'
		'struct Item\n\tweight = uint16\n\tkey = Key\n',
	'shapes/extra.cats': 'import "leaf.cats"\n\nstruct Extra\n\tTAG = make_const(uint8, 7)\n\tsize = uint32\n\tpadding = make_reserved(uint32, 0)\n\t'
		'flag = uint8 if RED equals color\n\tcolor = Color\n',
}


# trees whose import paths can be confused with one another by a careless "already processed" test: names equal up to letter case,
# the same base name in two directories, a name that is a prefix of another, the same file imported twice
CONFUSABLE_TREES = {
	'case-only': {
		'root.cats': 'import "common/types.cats"\nimport "common/Types.cats"\n\nstruct Root\n\tamount = Amount\n\tweight = Weight\n',
		'common/types.cats': 'using Amount = uint64\n',
		'common/Types.cats': 'using Weight = uint16\n',
	},
	'case-only-directory': {
		'root.cats': 'import "middle.cats"\n\nstruct Root\n\tamount = Amount\n\tweight = Weight\n',
		'middle.cats': 'import "common/types.cats"\nimport "Common/types.cats"\n\nusing Key = binary_fixed(32)\n',
		'common/types.cats': 'using Amount = uint64\n',
		'Common/types.cats': 'using Weight = uint16\n',
	},
	'same-base-name': {
		'root.cats': 'import "alpha/types.cats"\nimport "beta/types.cats"\n\nstruct Root\n\tamount = Amount\n\tweight = Weight\n',
		'alpha/types.cats': 'using Amount = uint64\n',
		'beta/types.cats': 'using Weight = uint16\n',
	},
	'prefix-name': {
		'root.cats': 'import "type.cats"\nimport "types.cats"\nimport "types.cats.cats"\n\nstruct Root\n\tamount = Amount\n\tweight = Weight\n\tkey = Key\n',
		'type.cats': 'using Amount = uint64\n',
		'types.cats': 'using Weight = uint16\n',
		'types.cats.cats': 'using Key = binary_fixed(32)\n',
	},
	'single-import-files': {
		'root.cats': 'import "forward.cats"\n',
		'forward.cats': 'import "types.cats"\n',
		'types.cats': 'using Amount = uint64\n\nstruct Holder\n\tamount = Amount\n',
	},
	'imported-twice': {
		'root.cats': 'import "left.cats"\nimport "right.cats"\n\nstruct Root\n\tleft = Left\n\tright = Right\n',
		'left.cats': 'import "leaf.cats"\n\nstruct Left\n\tamount = Amount\n',
		'right.cats': 'import "leaf.cats"\n\nstruct Right\n\tamount = Amount\n',
		'leaf.cats': 'using Amount = uint64\n',
	},
}


def cli_run(files, scratch, tag):
	"""Runs `python -m catparser` on a schema tree; returns (exit status, output exists, tail of the output)."""
	root = scratch / tag
	if root.exists():
		shutil.rmtree(root)
	for name, text in files.items():
		path = root / 'schemas' / name
		path.parent.mkdir(parents=True, exist_ok=True)
		path.write_text(text, encoding='utf8')
	out = root / 'out.yaml'
	status, output = common.run(
		[sys.executable, '-m', 'catparser', '--schema', str(root / 'schemas' / 'root.cats'), '--include', str(root / 'schemas'),
			'--output', str(out), '--quiet'], 120, cwd=root, env=common.impl_env())
	exists = out.exists()
	shutil.rmtree(root)
	return status, exists, output[-400:]


def cli_rerun(first_files, second_files, scratch, tag):
	"""Runs the command line on a well-formed tree, then changes files IN the same directory and runs it again with the same output
	path (what a build does after an edit); returns (first status, second status, tail of the second output)."""
	import os
	import time
	root = scratch / tag
	if root.exists():
		shutil.rmtree(root)
	out = root / 'out.yaml'
	command = [sys.executable, '-m', 'catparser', '--schema', str(root / 'schemas' / 'root.cats'), '--include', str(root / 'schemas'),
		'--output', str(out), '--quiet']
	for name, text in first_files.items():
		path = root / 'schemas' / name
		path.parent.mkdir(parents=True, exist_ok=True)
		path.write_text(text, encoding='utf8')
		os.utime(path, (time.time() - 3600, time.time() - 3600))     # the sources are older than the first output
	first_status, _ = common.run(command, 120, cwd=root, env=common.impl_env())
	for name, text in second_files.items():
		if first_files.get(name) != text:
			(root / 'schemas' / name).write_text(text, encoding='utf8')
	second_status, output = common.run(command, 120, cwd=root, env=common.impl_env())
	shutil.rmtree(root)
	return first_status, second_status, output[-400:]


def run(check, unrecognised):
	rng = check.rng
	check.trusted += [
		'grammar reader harness/gens/c04.py and the anchors of SyntaxOps (see C04)',
		'lark 1.3.1 is not modelled (see C04); the CLI control flow (LarkMultiFileParser, exit codes) is modelled by C17, here it is only run']
	check.assume += ['columns are compared for ASCII documents and for errors that are not raised at the end of the text']
	check.extra['rule'] = f'catalogue of {len(c04.OPERATORS) + 1} single-point corruption operators (incl. a digit of a numeral replaced by a decimal digit of another script) x applicable sites of all shipped .cats files and of seeded random ' \
		'documents (quick: all shipped files and 40 random documents, 1 site per operator per document; thorough: up to 12 sites per operator per shipped file, 300 random documents x 3 sites per operator); CLI runs on a 4-file import tree with one corrupted file'
	for module in ('GrammarTerminals', 'SyntaxOps'):
		if unrecognised.get(module):
			check.notes.append(f'anchors not recognised, pinned values used for them: {unrecognised[module]}')
			check.broken.append(f'shape:{module}')
	check.prove('C11.v')

	quick = check.tier == 'quick'
	sources = [(str(path.relative_to(REPO)), path.read_text(encoding='utf8')) for path in c04.shipped_files()]
	for index in range(40 if quick else 300):
		ds, style = c04.rand_doc(rng), c04.rand_style(rng)
		sources.append((f'random-{index}', c04.render(style, ds)))
	cases = []
	for name, text in sources:
		if c04.impl_parse(text)[0] != 'ok':
			continue  # only well-formed documents are corrupted (documents the shipped parser rejects are C04's findings)
		per_operator = 1 if quick else (12 if not name.startswith('random') else 3)
		for operator, site, bad_text in c04.corruptions(text, rng, per_operator):
			cases.append({'source': name, 'operator': operator, 'site': site, 'text': bad_text})
	impls = [c04.impl_parse(case['text']) for case in cases]
	outs = coq_eval(c04.PRELUDE, [c04.model_parse_expr(case['text']) for case in cases], 'c11', shard=60)
	for case, impl, out in zip(cases, impls, outs):
		check.case(case['operator'] + (':shipped' if not case['source'].startswith('random') else ':random'),
			hashlib.sha256(case['text'].encode('utf8')).hexdigest())
		difference = c04.compare_parse(case['text'], impl, out)
		if difference:
			check.disagree('Syntax.parse-vs-create_cats_lark_parser (corrupted)', case, str(impl[:2])[:300], difference[:600])
		problem = None
		if impl[0] == 'ok':
			problem = f'a document corrupted by `{case["operator"]}` at line {case["site"] + 1} is accepted: {str(impl[1])[:300]}'
		elif impl[0] == 'crash':
			problem = f'a document corrupted by `{case["operator"]}` makes the parser raise {impl[1]} instead of a parse error with a position'
		elif impl[3] == 'dedent' or impl[1] is None:
			problem = f'a document corrupted by `{case["operator"]}` is rejected without a position ({impl[3]})'
		if problem:
			check.fail(f'{case["operator"]}:{"accepted" if impl[0] == "ok" else "no-position"}', problem,
				{'case': case, 'how': 'run.py replay <this file>: parses the text with create_cats_lark_parser()'})
	for case, impl in list(zip(cases, impls))[::max(1, len(cases) // 5)]:
		check.sample({'operator': case['operator'], 'source': case['source'], 'line': case['site'] + 1, 'observed': str(impl[:5])})

	# the command line: an error in any file reached through imports gives a non-zero exit status and no output file
	scratch = common.scratch_dir('c11')
	try:
		status, exists, tail = cli_run(VALID_TREE, scratch, 'control')
		check.case('cli:control', 'control')
		if status != 0 or not exists:
			check.notes.append(f'CLI control run on the uncorrupted tree: exit {status}, output {"present" if exists else "absent"}: {tail[-200:]}')
			check.broken.append('cli-control-run')
		for number in range(8 if quick else 60):
			name = rng.choice(sorted(VALID_TREE))
			options = list(c04.corruptions(VALID_TREE[name], rng, 1))
			operator, site, bad_text = rng.choice(options)
			files = dict(VALID_TREE)
			files[name] = bad_text
			status, exists, tail = cli_run(files, scratch, f'run{number}')
			check.case(f'cli:{name}:{operator}', f'{name}:{operator}:{site}')
			if status == 0 or status is None or exists:
				check.fail(f'cli:{operator}:{"exit-0" if status == 0 else "output-written" if exists else "timeout"}',
					f'python -m catparser on a tree whose file {name} is corrupted by `{operator}` at line {site + 1}: exit status {status}, '
					f'output file {"written" if exists else "absent"}',
					{'case': {'cli': True, 'files': files, 'file': name, 'operator': operator, 'site': site},
						'how': 'run.py replay <this file>: writes the tree to a scratch directory and runs python -m catparser'})
		# the operators that act on the END of a file, on the root and on every imported file (a reader that tidies the text before
		# parsing it would repair exactly these)
		for name in sorted(VALID_TREE):
			text = VALID_TREE[name]
			endings = [(c04.FINAL_EOL, text.rstrip('\r\n')), ('deleted-final-line-end-keeping-trailing-blanks', text.rstrip('\r\n') + ' \t'),
				('unterminated-extra-statement', text + 'using Zzq = uint8')]
			for operator, bad_text in endings:
				files = dict(VALID_TREE)
				files[name] = bad_text
				status, exists, tail = cli_run(files, scratch, 'ending')
				check.case(f'cli:{name}:{operator}', f'{name}:{operator}')
				if status == 0 or status is None or exists:
					check.fail(f'cli:{operator}:{"exit-0" if status == 0 else "output-written" if exists else "timeout"}',
						f'python -m catparser on a tree whose file {name} is changed by `{operator}`: exit status {status}, '
						f'output file {"written" if exists else "absent"}',
						{'case': {'cli': True, 'files': files, 'file': name, 'operator': operator, 'site': len(text.split(chr(10))) - 1},
							'how': 'run.py replay <this file>: writes the tree to a scratch directory and runs python -m catparser'})
		# a second run in the same directory after one imported file has been corrupted (stale outputs, time stamps, caches)
		for name in sorted(VALID_TREE):
			options = list(c04.corruptions(VALID_TREE[name], rng, 1))
			if not options:
				continue
			operator, site, bad_text = rng.choice(options)
			files = dict(VALID_TREE)
			files[name] = bad_text
			first_status, second_status, tail = cli_rerun(VALID_TREE, files, scratch, 'rerun')
			check.case(f'cli:rerun:{name}:{operator}', f'{name}:{operator}:{site}')
			if first_status != 0:
				check.notes.append(f'CLI rerun scenario: the first run on the uncorrupted tree exits {first_status}')
				check.broken.append('cli-control-run')
			elif second_status == 0 or second_status is None:
				check.fail(f'cli:rerun:{operator}:exit-0',
					f'python -m catparser run again in the same directory after {name} was corrupted by `{operator}` at line {site + 1}: '
					f'exit status {second_status} (the first run, on the well-formed tree, had written the output file)',
					{'case': {'cli': True, 'rerun': True, 'first': VALID_TREE, 'files': files, 'file': name, 'operator': operator, 'site': site}})
		# every file of every confusable tree, corrupted in turn (the others intact)
		for tree_name, tree in CONFUSABLE_TREES.items():
			status, exists, tail = cli_run(tree, scratch, f'control-{tree_name}')
			check.case('cli:control', tree_name)
			if status != 0 or not exists:
				check.fail(f'cli:control:{tree_name}', f'python -m catparser refuses the well-formed tree `{tree_name}`: exit {status}: {tail[-200:]}',
					{'case': {'cli': True, 'files': tree, 'file': None, 'operator': None, 'site': None, 'expect': 'accepted'}})
				continue
			for name in sorted(tree):
				options = list(c04.corruptions(tree[name], rng, 1))
				if not options:
					continue
				operator, site, bad_text = options[0] if quick else rng.choice(options)
				files = dict(tree)
				files[name] = bad_text
				status, exists, tail = cli_run(files, scratch, f'confusable-{tree_name}')
				check.case(f'cli:{tree_name}:{name}:{operator}', f'{tree_name}:{name}:{operator}:{site}')
				if status == 0 or status is None or exists:
					check.fail(f'cli:{operator}:{"exit-0" if status == 0 else "output-written" if exists else "timeout"}',
						f'python -m catparser on the tree `{tree_name}` whose file {name} is corrupted by `{operator}` at line {site + 1}: '
						f'exit status {status}, output file {"written" if exists else "absent"}',
						{'case': {'cli': True, 'files': files, 'file': name, 'operator': operator, 'site': site},
							'how': 'run.py replay <this file>: writes the tree to a scratch directory and runs python -m catparser'})
	finally:
		shutil.rmtree(scratch, ignore_errors=True)


def replay(data):
	case = data['replay']['case']
	if case.get('rerun'):
		scratch = common.scratch_dir('c11-replay')
		try:
			first_status, second_status, tail = cli_rerun(case['first'], case['files'], scratch, 'replay')
		finally:
			shutil.rmtree(scratch, ignore_errors=True)
		print(f'first run exit status {first_status}, second run (after the corruption) exit status {second_status}')
		print(tail)
		bad = second_status == 0
		print('property:', 'fails' if bad else 'holds')
		return 1 if bad else 0
	if case.get('cli'):
		scratch = common.scratch_dir('c11-replay')
		try:
			status, exists, tail = cli_run(case['files'], scratch, 'replay')
		finally:
			shutil.rmtree(scratch, ignore_errors=True)
		print(f'exit status {status}, output file {"written" if exists else "absent"}')
		print(tail)
		if case.get('expect') == 'accepted':
			bad = status != 0 or not exists
			print('property:', 'fails (a well-formed tree is refused)' if bad else 'holds')
			return 1 if bad else 0
		bad = status == 0 or exists
		print('property:', 'fails' if bad else 'holds')
		return 1 if bad else 0
	impl = c04.impl_parse(case['text'])
	print('observed:', str(impl[:5])[:600])
	bad = impl[0] != 'err' or impl[1] is None
	print('property:', 'fails (the corrupted document is not rejected with a position)' if bad else 'holds')
	return 1 if bad else 0
