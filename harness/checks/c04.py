"""C04: parser descriptors state exactly what a CATS document declares (and C11's shared machinery).

Contents: random well-formed CATS documents as descriptor ground truth `ds`; the Python mirror of the Coq printer `render`
(coq/Cats/Syntax.v); canonical text of `ds` (format of harness/astdump.py); Coq terms of `ds` and of styles; `repo_print`
(how a user prints parsed declarations back with the repo's own __str__ methods); the C11 corruption catalogue; the check."""
import hashlib
import re

from .. import astdump
from ..common import REPO, coq_eval

KEYWORDISH_PROPS = [
	'array', 'sizeof', 'make_const', 'make_reserved', 'if', 'in', 'not', 'equals', 'using', 'struct', 'enum', 'import', 'abstract',
	'uint8', 'int16', 'uint64', 'binary_fixed', 'size', 'alignment', 'sort_key', 'pad_last', 'is_bitwise', 'is_aligned', 'sizeref',
	'discriminator', 'comparer', 'initializes', 'ripemd_keccak_256', 'is_byte_constrained', 'is_size_implicit', 'inline_', 'inlinex',
	'not_in', 'int', 'uint', 'u8', 'x0', 'a_', 'zz', 'in_', 'if_', 'no', 'ox']
KEYWORDISH_TYPES = ['Inline', 'Array', 'Struct', 'Uint8', 'If', 'In', 'Not', 'Enum', 'Using', 'Import', 'Abstract', 'Sizeof', 'Ab', 'Zz9', 'Xy', 'Int8', 'Fill']
KEYWORDISH_CONSTS = ['IF', 'IN', 'NOT', 'UINT8', 'A_', 'A0', 'X__', 'ARRAY', 'FILL__', 'VALUE', 'Z9_Z']
COND_OPS = ['equals', 'not equals', 'in', 'not in']
INT_TYPES = [(True, 1), (True, 2), (True, 4), (True, 8), (False, 1), (False, 2), (False, 4), (False, 8)]
LOWER = 'abcdefghijklmnopqrstuvwxyz'
UPPER = 'ABCDEFGHIJKLMNOPQRSTUVWXYZ'
DIGITS = '0123456789'


def rand_prop(rng, allow_inline=True):
	if rng.randrange(3) == 0:
		return rng.choice(KEYWORDISH_PROPS)
	if allow_inline and rng.randrange(40) == 0:
		return 'inline'
	return rng.choice(LOWER) + ''.join(rng.choice(LOWER + DIGITS + '_') for _ in range(rng.choice([1, 1, 2, 3, 5, 9])))


def rand_type(rng):
	if rng.randrange(3) == 0:
		return rng.choice(KEYWORDISH_TYPES)
	return rng.choice(UPPER) + rng.choice(LOWER) + ''.join(rng.choice(LOWER + UPPER + DIGITS) for _ in range(rng.choice([0, 0, 1, 2, 4, 8])))


def rand_const(rng):
	if rng.randrange(3) == 0:
		return rng.choice(KEYWORDISH_CONSTS)
	return rng.choice(UPPER) + ''.join(rng.choice(UPPER + DIGITS + '_') for _ in range(rng.choice([1, 1, 2, 3, 6])))


def rand_num(rng):
	return rng.choice([0, 1, 7, 8, 9, 10, 15, 16, 255, 256, 0xABCDEF, 2**32 - 1, 2**64 - 1, 2**64, rng.randrange(1000), rng.randrange(2**40), 10**30 + 7])


COMMENT_WORDS = ['hash', 'of', 'the', 'payload', '#', 'x#y', 'size:', '(bytes)', 'a\tb', '"quoted"', "it's", '\\n', 'café', '中', '@is_aligned', 'inline', '=', 'a  b']


# characters that str.splitlines() / many editors take for a line boundary but the DSL does not (a line ends at LF or CRLF only): inside a
# comment line they are ordinary documentation text (VT, FF, FS, GS, RS, NEL, LINE / PARAGRAPH SEPARATOR, a CR that is not followed by LF)
LINE_BOUNDARY_LOOKALIKES = ['\x0b', '\x0c', '\x1c', '\x1d', '\x1e', '\x85', '\u2028', '\u2029', '\r']


def rand_boundary_word(rng):
	"""a word that contains one line boundary look-alike: alone, glued to the end / start of text, or between two pieces of text"""
	char = rng.choice(LINE_BOUNDARY_LOOKALIKES)
	shape = rng.randrange(4)
	if char == '\r':
		return 'car' + char + 'riage'   # at the edge of a line a CR is part of a CRLF line end (or stripped as white space)
	return [char, 'page' + char, char + 'next', 'height' + char + 'of'][shape]


def rand_comment_segment(rng):
	words = [rng.choice(COMMENT_WORDS) for _ in range(rng.randrange(1, 6))]
	if rng.randrange(5) == 0:
		words.insert(rng.randrange(len(words) + 1), rand_boundary_word(rng))
	text = ' '.join(words)
	text = text.strip('# \t\r')
	return text or 'doc'


def rand_comment(rng, p=3):
	"""None or a comment text in the image of Comment.__init__ (segments separated by LF; a segment may be empty)"""
	if rng.randrange(p):
		return None
	shape = rng.randrange(10)
	if shape < 6:
		return rand_comment_segment(rng)
	if shape == 6:
		return '\n'
	n = rng.randrange(2, 5)
	segs = [rand_comment_segment(rng) if rng.randrange(4) else '' for _ in range(n)]
	text = '\n'.join(segs)
	return text if text else '\n'


def rand_int(rng):
	return ('int',) + rng.choice(INT_TYPES)


def rand_field_attrs(rng):
	if rng.randrange(3):
		return None
	attrs = []
	for _ in range(rng.randrange(1, 4)):
		kind = rng.randrange(6)
		if kind == 0:
			attrs.append(('is_byte_constrained', []))
		elif kind == 1:
			attrs.append(('alignment', [rand_num(rng), None, None]))
		elif kind == 2:
			attrs.append(('alignment', [rand_num(rng), rng.choice([None, 'not']), 'pad_last']))
		elif kind == 3:
			attrs.append(('sort_key', [rand_prop(rng)]))
		elif kind == 4:
			attrs.append(('sizeref', [rand_prop(rng)]))
		else:
			attrs.append(('sizeref', [rand_prop(rng), rand_num(rng)]))
	return attrs


def rand_struct_attrs(rng):
	if rng.randrange(2):
		return None
	attrs = []
	for _ in range(rng.randrange(1, 4)):
		kind = rng.randrange(6)
		if kind == 0:
			attrs.append((rng.choice(['is_aligned', 'is_size_implicit']), []))
		elif kind == 1:
			attrs.append(('size', [rand_prop(rng)]))
		elif kind == 2:
			attrs.append(('initializes', [rand_prop(rng), rand_const(rng)]))
		elif kind == 3:
			attrs.append(('discriminator', [rand_prop(rng) for _ in range(rng.randrange(1, 4))]))
		else:
			values = []
			for _ in range(rng.randrange(1, 4)):
				values += [rand_prop(rng), rng.choice([None, 'ripemd_keccak_256'])]
			attrs.append(('comparer', values))
	return attrs


def rand_field(rng):
	comment = rand_comment(rng)
	form = rng.randrange(12)
	if form == 0:
		return {'k': 'inline', 'type': rand_type(rng), 'comment': comment}
	field = {'k': 'field', 'name': rand_prop(rng, False), 'value': None, 'disp': None, 'attrs': None, 'comment': comment}
	if form == 1:
		field.update(name=rand_const(rng), disp='const')
		if rng.randrange(2):
			field.update(ty=rand_int(rng), value=('num', rand_num(rng)))
		else:
			field.update(ty=('name', rand_type(rng)), value=('name', rand_const(rng)))
	elif form == 2:
		field.update(disp='reserved')
		if rng.randrange(2):
			field.update(ty=rand_int(rng), value=('num', rand_num(rng)))
		else:
			field.update(ty=('name', rand_type(rng)), value=('name', rand_const(rng)))
	elif form == 3:
		field.update(disp='sizeof', ty=rand_int(rng), value=('name', rand_prop(rng)))
	elif form == 4:
		field.update(disp='inline', ty=('name', rand_type(rng)))
	else:
		if rng.randrange(8) == 0:
			field['name'] = '__value__'
		field['attrs'] = rand_field_attrs(rng)
		if field['attrs'] is not None and rng.randrange(10) == 0:
			field['name'] = 'inline'   # after attributes `inline` is an ordinary member name
		shape = rng.randrange(6)
		if shape == 0:
			field['ty'] = rand_int(rng)
		elif shape == 1:
			field['ty'] = ('name', rand_type(rng))
		else:
			elem = rand_int(rng) if rng.randrange(2) else ('name', rand_type(rng))
			size = [('num', rand_num(rng)), ('name', rand_prop(rng)), ('fill',)][shape % 3]
			field['ty'] = ('array', elem, size)
		if rng.randrange(3) == 0:
			cvalue = ('num', rand_num(rng)) if rng.randrange(2) else ('name', rand_const(rng))
			field['value'] = ('cond', cvalue, rng.choice(COND_OPS), rand_prop(rng))
	return field


def rand_decl(rng):
	kind = rng.randrange(5)
	comment = rand_comment(rng, 2)
	if kind == 0:
		linked = rand_int(rng) if rng.randrange(2) else ('buffer', rand_num(rng))
		return {'k': 'alias', 'name': rand_type(rng), 'linked': linked, 'comment': comment}
	if kind == 1:
		values = [{'name': rand_const(rng), 'value': rand_num(rng), 'comment': rand_comment(rng)} for _ in range(rng.choice([0, 1, 2, 3, 6]))]
		attrs = [('is_bitwise', [])] * rng.choice([0, 0, 1, 2]) or None
		return {'k': 'enum', 'name': rand_type(rng), 'base': rand_int(rng), 'values': values, 'attrs': attrs, 'comment': comment}
	fields = [rand_field(rng) for _ in range(rng.choice([1, 1, 2, 3, 5, 9]))]
	return {'k': 'struct', 'name': rand_type(rng), 'disp': rng.choice([None, None, 'abstract', 'inline']), 'fields': fields,
		'attrs': rand_struct_attrs(rng), 'comment': comment}


IMPORT_CHARS = LOWER + UPPER + DIGITS + '/._- #'


def rand_doc(rng):
	items = []
	for _ in range(rng.choice([1, 1, 2, 3, 4, 6])):
		roll = rng.randrange(10)
		if roll == 0:
			items.append(('import', ''.join(rng.choice(IMPORT_CHARS) for _ in range(rng.randrange(0, 12)))))
		elif roll == 1:
			items.append(('comment', rand_comment(rng, 1)))
		else:
			decl = rand_decl(rng)
			if items and items[-1][0] == 'comment' and decl['comment'] is None:
				# a free comment directly before an uncommented declaration is not expressible: the comment would attach
				decl['comment'] = rand_comment(rng, 1)
			items.append(('decl', decl))
	return items


QUIRK_WORDS = ('using', 'struct', 'enum', 'import')


def hits_comment_quirk(items):
	"""a commented struct member whose first word starts with a struct modifier or is a top-level keyword (shipped grammar rejects it)"""
	for kind, payload in items:
		if kind == 'decl' and payload['k'] == 'struct':
			for field in payload['fields']:
				if field['comment'] is None:
					continue
				first = 'inline' if field['k'] == 'inline' else field['name']
				if field['k'] == 'field' and field.get('attrs'):
					continue
				if first.startswith(('inline', 'abstract')) or first in QUIRK_WORDS:
					return True
	return False


HEX_RULES = ['never', 'always', 'even', 'ge10']


def rand_style(rng):
	return {
		'crlf': rng.randrange(3) == 0,
		'indent': rng.choice(['\t', '\t', '    ', '    ', '  ', ' \t', '\t\t', ' ']),
		'hex': rng.choice(HEX_RULES),
		'blank_top': rng.choice([0, 1, 1, 2]),
		'blank_member': rng.choice([0, 0, 1])
	}


DEFAULT_STYLE = {'crlf': False, 'indent': '\t', 'hex': 'never', 'blank_top': 1, 'blank_member': 0}


# ---------------------------------------------------------------------------------------------------------------------
# render (mirror of Cats/Syntax.v `render`)

def use_hex(style, n):
	rule = style['hex']
	return rule == 'always' or (rule == 'even' and n % 2 == 0) or (rule == 'ge10' and n >= 10)


def num(style, n):
	return ('0x%X' % n) if use_hex(style, n) else str(n)


def comment_lines(comment):
	if comment is None:
		return []
	segs = comment.split('\n')
	lines = []
	for i, seg in enumerate(segs):
		if i:
			lines.append('#')
		if seg:
			lines.append('# ' + seg)
	return lines


def r_int(ty):
	return ('u' if ty[1] else '') + 'int' + str(8 * ty[2])


def r_type(style, ty):
	if ty[0] == 'int':
		return r_int(ty)
	if ty[0] == 'name':
		return ty[1]
	if ty[0] == 'buffer':
		return f'binary_fixed({num(style, ty[1])})'
	elem, size = ty[1], ty[2]
	size_text = '__FILL__' if size[0] == 'fill' else (size[1] if size[0] == 'name' else num(style, size[1]))
	return f'array({r_type(style, elem)}, {size_text})'


def r_value(style, v):
	return num(style, v[1]) if v[0] == 'num' else v[1]


def attr_line(style, attr):
	name, values = attr
	if not values:
		return '@' + name
	if name == 'alignment':
		text = num(style, values[0])
		if values[2] is not None:
			text += ', ' + ('not ' if values[1] is not None else '') + values[2]
	elif name == 'comparer':
		parts = []
		for i in range(0, len(values), 2):
			parts.append(values[i] + ('' if values[i + 1] is None else '!' + values[i + 1]))
		text = ', '.join(parts)
	else:
		text = ', '.join(num(style, v) if isinstance(v, int) else v for v in values)
	return f'@{name}({text})'


def field_line(style, field):
	if field['k'] == 'inline':
		return 'inline ' + field['type']
	name, disp = field['name'], field['disp']
	if disp == 'const':
		return f'{name} = make_const({r_type(style, field["ty"])}, {r_value(style, field["value"])})'
	if disp == 'reserved':
		return f'{name} = make_reserved({r_type(style, field["ty"])}, {r_value(style, field["value"])})'
	if disp == 'sizeof':
		return f'{name} = sizeof({r_type(style, field["ty"])}, {field["value"][1]})'
	if disp == 'inline':
		return f'{name} = inline {field["ty"][1]}'
	text = f'{name} = {r_type(style, field["ty"])}'
	if field['value'] is not None:
		_, cvalue, op, link = field['value']
		text += f' if {r_value(style, cvalue)} {op} {link}'
	return text


def phys_lines(style, items):
	"""physical lines (without line ends) + tags: (text, tag) with tag naming what the line is (used by the corruption catalogue)"""
	out = []
	ind = style['indent']

	def blanks(n):
		out.extend(('', ('blank',)) for _ in range(n))

	for index, (kind, payload) in enumerate(items):
		if kind == 'import':
			out.append((f'import "{payload}"', ('import', index)))
		elif kind == 'comment':
			out.extend((line, ('free-comment', index)) for line in comment_lines(payload))
			blanks(1)
		else:
			decl = payload
			out.extend((line, ('comment', index)) for line in comment_lines(decl['comment']))
			if decl['k'] == 'alias':
				out.append((f'using {decl["name"]} = {r_type(style, decl["linked"])}', ('alias', index)))
			elif decl['k'] == 'enum':
				out.extend((attr_line(style, attr), ('enum-attr', index, j)) for j, attr in enumerate(decl['attrs'] or []))
				out.append((f'enum {decl["name"]} : {r_int(decl["base"])}', ('enum-header', index)))
				for j, value in enumerate(decl['values']):
					out.extend((ind + line, ('value-comment', index, j)) for line in comment_lines(value['comment']))
					out.append((f'{ind}{value["name"]} = {num(style, value["value"])}', ('enum-value', index, j)))
					blanks(style['blank_member'])
			else:
				out.extend((attr_line(style, attr), ('struct-attr', index, j)) for j, attr in enumerate(decl['attrs'] or []))
				out.append(((decl['disp'] + ' ' if decl['disp'] else '') + f'struct {decl["name"]}', ('struct-header', index)))
				for j, field in enumerate(decl['fields']):
					out.extend((ind + line, ('member-comment', index, j)) for line in comment_lines(field['comment']))
					for k, attr in enumerate((field.get('attrs') or []) if field['k'] == 'field' else []):
						out.append((ind + attr_line(style, attr), ('field-attr', index, j, k)))
					out.append((ind + field_line(style, field), ('member', index, j)))
					blanks(style['blank_member'])
		blanks(style['blank_top'])
	return out


def eol(style):
	return '\r\n' if style['crlf'] else '\n'


def render(style, items):
	return ''.join(line + eol(style) for line, _ in phys_lines(style, items))


# ---------------------------------------------------------------------------------------------------------------------
# canonical text of the ground truth (what the parser must return), same format as astdump.r_decl

def _escape(text):
	out = []
	for byte in str(text).encode('utf8'):
		out.append(chr(byte) if 32 <= byte <= 126 and byte not in (34, 92) else f'\\x{byte:02x}')
	return ''.join(out)


def q(text):
	return "'" + _escape(text) + "'"


def ropt(value, render_value=q):
	return '~' if value is None else render_value(value)


def c_ty(ty):
	if ty[0] == 'int':
		return f'(int {"T" if ty[1] else "F"} {ty[2]} ~)'
	if ty[0] == 'name':
		return q(ty[1])
	if ty[0] == 'buffer':
		return f'(buffer {ty[1]})'
	size = ty[2]
	size_text = 'fill' if size[0] == 'fill' else (q(size[1]) if size[0] == 'name' else str(size[1]))
	return f'(array {c_ty(ty[1])} {size_text} ~ F ~ ~)'


def c_value(value):
	if value is None:
		return '~'
	if value[0] == 'num':
		return str(value[1])
	if value[0] == 'name':
		return q(value[1])
	return f'(if {c_value(value[1])} {q(value[2])} {q(value[3])})'


def c_attrs(attrs):
	if attrs is None:
		return '~'
	return '[' + ' '.join('(@%s [%s])' % (name, ' '.join('~' if v is None else (q(v) if isinstance(v, str) else str(v)) for v in values))
		for name, values in attrs) + ']'


def c_field(field):
	if field['k'] == 'inline':
		return f'(inline {q(field["type"])} {ropt(field["comment"])})'
	return f'(field {q(field["name"])} {c_ty(field["ty"])} {c_value(field["value"])} {field["disp"] or "~"} {c_attrs(field["attrs"])} {ropt(field["comment"])})'


def c_decl(decl):
	if decl['k'] == 'alias':
		return f'(alias {q(decl["name"])} {c_ty(decl["linked"])} {ropt(decl["comment"])})'
	if decl['k'] == 'enum':
		values = ' '.join(f'({q(v["name"])} {v["value"]} {ropt(v["comment"])})' for v in decl['values'])
		return f'(enum {q(decl["name"])} {c_ty(decl["base"])} [{values}] {c_attrs(decl["attrs"])} {ropt(decl["comment"])})'
	fields = ' '.join(c_field(f) for f in decl['fields'])
	return f'(struct {q(decl["name"])} {decl["disp"] or "~"} [{fields}] ~ {c_attrs(decl["attrs"])} {ropt(decl["comment"])} F)'


def c_item(item):
	kind, payload = item
	if kind == 'decl':
		return c_decl(payload)
	return f'({kind} {q(payload)})'


def c_items(items):
	return [c_item(item) for item in items]


# ---------------------------------------------------------------------------------------------------------------------
# Coq terms (coq/Cats/Ast.v, coq/Cats/Syntax.v)

def z(value):
	return f'({value})%Z'


def cstr(text):
	if all(32 <= ord(c) <= 126 and c != '"' for c in text):
		return f'"{text}"%string'
	return '(to_str [' + '; '.join(str(b) for b in text.encode('utf8')) + ']%Z)'


def copt(value, render_value):
	return 'None' if value is None else f'(Some {render_value(value)})'


def clist(items, render_value):
	return '[' + '; '.join(render_value(item) for item in items) + ']'


def q_int(ty):
	return f'{{| it_unsigned := {"true" if ty[1] else "false"}; it_size := {z(ty[2])}; it_sizeref := None |}}'


def q_ftype(ty):
	if ty[0] == 'int':
		return f'(FInt {q_int(ty)})'
	if ty[0] == 'name':
		return f'(FName {cstr(ty[1])})'
	elem, size = ty[1], ty[2]
	elem_text = f'(ElInt {q_int(elem)})' if elem[0] == 'int' else f'(ElName {cstr(elem[1])})'
	size_text = 'SzFill' if size[0] == 'fill' else (f'(SzName {cstr(size[1])})' if size[0] == 'name' else f'(SzNum {z(size[1])})')
	return f'(FArray (mk_array {elem_text} {size_text}))'


def q_fvalue(value):
	if value is None:
		return 'VNone'
	if value[0] == 'num':
		return f'(VNum {z(value[1])})'
	if value[0] == 'name':
		return f'(VName {cstr(value[1])})'
	cvalue = f'(CvNum {z(value[1][1])})' if value[1][0] == 'num' else f'(CvName {cstr(value[1][1])})'
	return f'(VCond {{| c_value := {cvalue}; c_op := {cstr(value[2])}; c_link := {cstr(value[3])} |}})'


def q_avalue(value):
	if value is None:
		return 'AvNone'
	return f'(AvStr {cstr(value)})' if isinstance(value, str) else f'(AvNum {z(value)})'


def q_attrs(attrs):
	return copt(attrs, lambda l: clist(l, lambda a: f'{{| at_name := {cstr(a[0])}; at_values := {clist(a[1], q_avalue)} |}}'))


DISP = {None: 'DispNone', 'const': 'DispConst', 'reserved': 'DispReserved', 'sizeof': 'DispSizeof', 'inline': 'DispInline'}
SDISP = {None: 'SdNone', 'abstract': 'SdAbstract', 'inline': 'SdInline'}


def q_field(field):
	if field['k'] == 'inline':
		return f'(InlinePlaceholder {cstr(field["type"])} {copt(field["comment"], cstr)})'
	return f'(Field {cstr(field["name"])} {q_ftype(field["ty"])} {q_fvalue(field["value"])} {DISP[field["disp"]]} ' \
		f'{q_attrs(field["attrs"])} {copt(field["comment"], cstr)})'


def q_decl(decl):
	if decl['k'] == 'alias':
		linked = decl['linked']
		linked_text = f'(LInt {q_int(linked)})' if linked[0] == 'int' else f'(LBuffer {z(linked[1])})'
		return f'(DAlias {cstr(decl["name"])} {linked_text} {copt(decl["comment"], cstr)})'
	if decl['k'] == 'enum':
		values = clist(decl['values'], lambda v: f'{{| ev_name := {cstr(v["name"])}; ev_value := {z(v["value"])}; ev_comment := {copt(v["comment"], cstr)} |}}')
		return f'(DEnum {cstr(decl["name"])} {q_int(decl["base"])} {values} {q_attrs(decl["attrs"])} {copt(decl["comment"], cstr)})'
	return '(DStruct {| s_name := %s; s_disp := %s; s_fields := %s; s_factory_type := None; s_attrs := %s; s_comment := %s; ' \
		's_requires_unaligned := false |})' % (
			cstr(decl['name']), SDISP[decl['disp']], clist(decl['fields'], q_field), q_attrs(decl['attrs']), copt(decl['comment'], cstr))


def q_item(item):
	kind, payload = item
	if kind == 'decl':
		return f'(IDecl {q_decl(payload)})'
	return f'({"IImport" if kind == "import" else "IComment"} {cstr(payload)})'


def q_items(items):
	return clist(items, q_item)


HEX_FUN = {'never': '(fun _ => false)', 'always': '(fun _ => true)', 'even': '(fun n => Z.even n)', 'ge10': '(fun n => 10 <=? n)%Z'}


def q_style(style):
	return '{| st_crlf := %s; st_indent := [%s]%%Z; st_hex := %s; st_blank_top := %d%%nat; st_blank_member := %d%%nat |}' % (
		'true' if style['crlf'] else 'false', '; '.join(str(ord(c)) for c in style['indent']), HEX_FUN[style['hex']],
		style['blank_top'], style['blank_member'])


# ---------------------------------------------------------------------------------------------------------------------
# implementation side

MANIFEST = {
	'text': 'Qed theorems over a character-level model of the CATS parser (lexer with terminal sets regenerated from catbuffer.lark, '
		'lark Indenter, contextual recursive-descent line parsers, line automaton): parse (render style ds) = Ok ds for every '
		'lexically well-formed descriptor list and every style (LF/CRLF, any blank/tab indentation, decimal/hex numerals, blank lines), '
		'one descriptor per declaration in source order, and print-back through the repo\'s own __str__ methods; the model is tied to '
		'/repo by regenerated terminals / constants and by differential runs against create_cats_lark_parser() on all shipped schemas, '
		'random documents and the C11 corrupted stream.',
	'design_ref': 'DESIGN.md section 4, C04',
	'technique': 'Coq proof over regenerated model + vm_compute correspondence with the lark-based parser + Python print-back oracle',
}

_PARSER = None


def lark_parser():
	global _PARSER  # pylint: disable=global-statement
	if _PARSER is None:
		from catparser.CatsLarkParser import create_cats_lark_parser
		_PARSER = create_cats_lark_parser()
	return _PARSER


def parse_items(text):
	"""The three result shapes of parser.parse: one Statement / Tree / Comment, or a `start` tree of them."""
	import lark
	result = lark_parser().parse(text)
	return result.children if isinstance(result, lark.Tree) and result.data == 'start' else [result]


def canonical_items(items):
	import lark
	out = []
	for item in items:
		if isinstance(item, lark.Tree):
			out.append(f'(import {q(str(item.children[0]))})' if item.data == 'import' else f'(tree {item.data})')
		elif type(item).__name__ == 'Comment':
			out.append(f'(comment {q(item.parsed)})')
		else:
			out.append(astdump.r_decl(item))
	return out


def impl_parse(text):
	"""('ok', canonical lines, objects) | ('err', line, column, kind, token type)"""
	import lark
	from lark.indenter import DedentError
	try:
		items = parse_items(text)
	except lark.exceptions.UnexpectedInput as ex:
		token = getattr(ex, 'token', None)
		return ('err', ex.line, ex.column, 'token', token.type if token is not None else None)
	except DedentError:
		return ('err', None, None, 'dedent', None)
	except Exception as ex:  # pylint: disable=broad-except
		return ('crash', type(ex).__name__, str(ex)[:200])
	return ('ok', canonical_items(items), items)


def applied_attributes_problem(text):
	"""P (attribute values are exactly those written): parse the text afresh, let AstPostProcessor.apply_attributes move the attribute
	values onto the member types, and compare the `sizeref` of every integer-typed member / alias with what is written above THAT member."""
	from catparser.AstPostProcessor import AstPostProcessor
	statements = [item for item in parse_items(text) if type(item).__name__ in ('Alias', 'Enum', 'Struct')]
	try:
		AstPostProcessor(statements).apply_attributes()
	except Exception:  # pylint: disable=broad-except
		return None   # documents whose attributes cannot be applied are the subject of C05 / C06
	for statement in statements:
		kind = type(statement).__name__
		if kind == 'Alias' and type(statement.linked_type).__name__ == 'FixedSizeInteger' and statement.linked_type.sizeref:
			return f'alias {statement.name}: its integer type carries sizeref {statement.linked_type.sizeref} although an alias has no attributes'
		if kind != 'Struct':
			continue
		for field in statement.fields:
			if type(getattr(field, 'field_type', None)).__name__ != 'FixedSizeInteger':
				continue
			written = [attribute.values for attribute in (field.attributes or []) if attribute.name == 'sizeref']
			actual = field.field_type.sizeref
			if not written and actual:
				return f'{statement.name}.{field.name}: no @sizeref is written above this member, yet its type carries sizeref {tuple(actual)}'
			# (the other direction - a written @sizeref that did not arrive - depends on how the post-processor treats documents that are
			# syntactically fine but semantically odd, e.g. two declarations of one name, and belongs to C05 / C06)
	return None


def repo_print(items):
	"""Prints parsed statements back as CATS text with the repo's own __str__ methods.

	There is no whole-document printer in the repo.  Layout: per declaration its comment as `# ` lines (a bare `#` line per line
	break of Comment.parsed), the header str(decl) WITHOUT the trailing `  # n field(s)` / `  # n value(s)` summary (that summary
	stands for the body and is not CATS), then every member: its comment, then str(member) (attribute lines + the member line), each
	line indented by one tab; one blank line after every statement; imports as `import "<path>"`; free comments are not statements
	and are not printed."""
	import lark
	out = []
	for item in items:
		if isinstance(item, lark.Tree):
			out += [f'import "{item.children[0]}"', '']
			continue
		kind = type(item).__name__
		if kind == 'Comment':
			continue
		out += comment_lines(item.comment.parsed if item.comment else None)
		text = str(item)
		if kind in ('Struct', 'Enum'):
			text = text.rsplit('  # ', 1)[0]
		out += text.split('\n')
		for member in (item.fields if kind == 'Struct' else item.values if kind == 'Enum' else []):
			out += ['\t' + line for line in comment_lines(member.comment.parsed if member.comment else None)]
			out += ['\t' + line for line in str(member).split('\n')]
		out.append('')
	return ''.join(line + '\n' for line in out)


def descriptors(items):
	import lark
	out = []
	for item in items:
		if isinstance(item, lark.Tree):
			out.append({'import': str(item.children[0])})
		elif type(item).__name__ != 'Comment':
			out.append(item.to_legacy_descriptor())
	return out


def _all_attributes(items):
	"""every Attribute object of the parsed statements (declaration level and member level)"""
	out = []
	for item in items:
		kind = type(item).__name__
		if kind not in ('Struct', 'Enum'):
			continue
		out += list(getattr(item, 'attributes', None) or [])
		for member in (item.fields if kind == 'Struct' else []):
			out += list(getattr(member, 'attributes', None) or [])
	return out


def _names_property_not(attribute):
	"""the attribute has an argument that is a PROPERTY literally named `not` (in @alignment `not` can only be the negation operator)"""
	return attribute.name != 'alignment' and 'not' in attribute.values


def raw_attribute_values(items):
	"""[(owner, attribute name, values)] in document order: the values exactly as the parser recorded them (None = absent optional token)"""
	out = []
	for item in items:
		kind = type(item).__name__
		if kind not in ('Struct', 'Enum'):
			continue
		out += [(item.name, attribute.name, list(attribute.values)) for attribute in (getattr(item, 'attributes', None) or [])]
		for member in (item.fields if kind == 'Struct' else []):
			out += [(f'{item.name}.{getattr(member, "name", "inline")}', attribute.name, list(attribute.values))
				for attribute in (getattr(member, 'attributes', None) or [])]
	return out


def printback_problem(items):
	"""Oracle P (print-back): None when repo_print(items) parses to the same descriptors - the legacy descriptors, the raw attribute
	values (name and value list of every attribute, which the legacy descriptors of unprocessed declarations do not show) and the
	attached documentation -, else (signature, description)."""
	if not [item for item in items if type(item).__name__ != 'Comment']:
		return None  # nothing to print
	back = repo_print(items)
	again = impl_parse(back)
	not_named = [str(attribute) for attribute in _all_attributes(items) if _names_property_not(attribute)]
	if again[0] != 'ok':
		lines = back.split('\n')
		line = lines[again[1] - 1] if again[0] == 'err' and again[1] and again[1] <= len(lines) else ''
		if re.search(r'@\w+\(.*\bNone\b', line):
			return ('attribute-str-prints-none-placeholders',
				f'printing the parsed declarations back gives the line {line.strip()!r} (lark\'s None placeholders printed by Attribute.__str__); it does not parse')
		if line.strip() in not_named:
			return ('attribute-str-takes-property-named-not-for-negation',
				f'printing the parsed declarations back gives the line {line.strip()!r} (an attribute argument that is the property name `not` is printed as a qualifier); it does not parse')
		return ('printback-does-not-parse:' + hashlib.sha256(line.encode('utf8')).hexdigest()[:10], f'print-back line {line.strip()!r} does not parse: {again[1:]}')
	if descriptors(items) != descriptors(again[2]):
		before, after = descriptors(items), descriptors(again[2])
		diff = next(((b, a) for b, a in zip(before, after) if b != a), (None, None))
		text = repr(diff)
		if "'not'" in text and not_named:
			return ('attribute-str-takes-property-named-not-for-negation',
				f'print-back changes the descriptors (an attribute argument named `not` is lost): {text[:300]}')
		return ('printback-changes-descriptors:' + hashlib.sha256(text.encode('utf8')).hexdigest()[:10], f'print-back changes the descriptors: {text[:300]}')
	before, after = raw_attribute_values(items), raw_attribute_values(again[2])
	if before != after:
		diff = next(((b, a) for b, a in zip(before, after) if b != a), (before[len(after):][:1], after[len(before):][:1]))
		if not_named and diff[0] and diff[1] and 'not' in diff[0][2]:
			return ('attribute-str-takes-property-named-not-for-negation',
				f'print-back changes the attribute values (an attribute argument named `not` is lost): {diff}')
		return ('printback-changes-attribute-values:' + hashlib.sha256(repr(diff).encode('utf8')).hexdigest()[:10],
			f'print-back changes the values of an attribute: written / parsed {diff[0]}, after printing the declarations back and parsing again {diff[1]}')
	before, after = canonical_items([i for i in items if type(i).__name__ != 'Comment']), canonical_items(again[2])
	if before != after:
		diff = next(((b, a) for b, a in zip(before, after) if b != a), (before[len(after):][:1], after[len(before):][:1]))
		return ('printback-changes-declarations:' + hashlib.sha256(repr(diff).encode('utf8')).hexdigest()[:10],
			f'print-back changes what the parser records (documentation / member properties): {str(diff[0])[:300]} -> {str(diff[1])[:300]}')
	return None


# ---------------------------------------------------------------------------------------------------------------------
# model side

PRELUDE = '''From Symv Require Import Base.Bytes Cats.Ast Cats.AstRender Cats.Syntax.
Open Scope string_scope.
Definition nl : string := String (ascii_of_N 10) "".
Definition show_item (i : item) : string :=
  match i with IDecl d => r_decl d | IImport p => "(import " ++ q p ++ ")" | IComment c => "(comment " ++ q c ++ ")" end.
Definition show_kind (k : ekind) : string := match k with EToken => "token" | EDedent => "dedent" | EEnd => "end" | EFuel => "fuel" end.
Definition show (r : result (list item)) : string :=
  match r with
  | Ok l => "ok" ++ nl ++ String.concat nl (map show_item l)
  | Error e => "err " ++ Z_to_string (e_line e) ++ " " ++ Z_to_string (e_col e) ++ " " ++ show_kind (e_kind e)
  end.
Definition showb (b : bool) : string := if b then "T" else "F".
'''


def codes(text):
	"""Coq term (list of bytes) of a text: a string literal where the text has only tab / CR / LF / printable / UTF-8 bytes
	(Coq keeps them verbatim; a quote is doubled), else the list of numbers."""
	if all(ord(c) in (9, 10, 13) or ord(c) >= 32 for c in text) and '\x7f' not in text:
		return '(of_string "' + text.replace('"', '""') + '")'
	return '[' + '; '.join(str(b) for b in text.encode('utf8')) + ']%Z'


def model_parse_expr(text):
	return f'show (parse {codes(text)})'


def compare_parse(text, impl, model, strict_col=True):
	"""None when implementation and model agree on `text`, else a description."""
	if impl[0] == 'crash':
		return f'implementation crashed: {impl[1:]}'
	if impl[0] == 'ok':
		shown = 'ok\n' + '\n'.join(impl[1])
		return None if model == shown else f'descriptors differ: implementation {shown[:400]!r} model {model[:400]!r}'
	if not model.startswith('err '):
		return f'implementation rejects {impl[1:]}, model accepts'
	_, line, col, kind = model.split(' ')
	if impl[3] == 'dedent' or kind == 'dedent':
		return None if impl[3] == kind else f'implementation {impl[1:]} model {model}'
	if str(impl[1]) != line:
		return f'error line: implementation {impl[1:]} model {model}'
	claimed = strict_col and kind != 'end' and impl[4] != '$END' and text.endswith('\n') and all(ord(c) < 128 for c in text)
	if claimed and str(impl[2]) != col:
		return f'error column: implementation {impl[1:]} model {model}'
	return None


# ---------------------------------------------------------------------------------------------------------------------
# C11: the corruption catalogue -- single-point edits of a document, each of which leaves the language.
# An operator is (name, sites(lines) -> [site], apply(lines, site) -> lines); lines are the physical lines without line ends.

STMT = re.compile(r'^([ \t]*)([^#\s].*)$')
WIDTH_LINE = re.compile(r'^(?:using [A-Za-z0-9]+ = |enum [A-Za-z0-9]+ : |(?:[a-z][a-z0-9_]*|__value__) = )u?int(?:8|16|32|64)$')
TYPE_DECL = re.compile(r'^(using |enum |(?:inline |abstract )?struct )([A-Z][A-Za-z0-9]*)')
MEMBER_NAME = re.compile(r'^([a-z][a-z0-9_]+)( = .*)$')
CONST_NAME = re.compile(r'^([A-Z][A-Z0-9_]+)( = make_const\(.*| = (?:0x[0-9A-F]+|[0-9]+))$')
KEYWORD_LINE = re.compile(r'^(using|enum|struct|import|inline|abstract)\b')
FUNCTION_CALL = re.compile(r'\b(make_const|make_reserved|sizeof|array|binary_fixed)\(')
ATTR_LINE = re.compile(r'^@([a-z_]+)(?:\((.*)\))?$')
CONDITION = re.compile(r'^(.* if \S+ )(not equals|not in|equals|in)( [a-z][a-z0-9_]*)$')
MULTI_ATTRS = ('discriminator', 'comparer')


def stmt(line):
	match = STMT.match(line)
	return (match.group(1), match.group(2)) if match else None


def _sites(predicate):
	def find(lines):
		out = []
		for k, line in enumerate(lines):
			parts = stmt(line)
			if parts and predicate(parts[0], parts[1]):
				out.append(k)
		return out
	return find


def _edit(function):
	def apply(lines, site):
		indent, content = stmt(lines[site])
		return lines[:site] + [indent + function(indent, content)] + lines[site + 1:]
	return apply


def _body_end(lines, site):
	end = site + 1
	while end < len(lines) and (not lines[end].strip(' \t') or lines[end][0] in ' \t'):
		end += 1
	return end


def _is_import(content):
	return content.startswith('import')


OPERATORS = []


def operator(name, sites, apply):
	OPERATORS.append((name, sites, apply))


for _width in ('24', '7', '128', '12', '17', '33', '65', '9', '15', '08', '0', '1', '63', '016'):
	operator(f'width-{_width}', _sites(lambda i, c: bool(WIDTH_LINE.match(c))),
		_edit(lambda i, c, w=_width: re.sub(r'[0-9]+$', w, c)))
operator('type-name-lower-case', _sites(lambda i, c: not i and bool(TYPE_DECL.match(c))),
	_edit(lambda i, c: TYPE_DECL.sub(lambda m: m.group(1) + m.group(2)[0].lower() + m.group(2)[1:], c, count=1)))
operator('type-name-all-caps', _sites(lambda i, c: not i and bool(TYPE_DECL.match(c))),
	_edit(lambda i, c: TYPE_DECL.sub(lambda m: m.group(1) + m.group(2).upper(), c, count=1)))
operator('member-name-capitalised', _sites(lambda i, c: bool(i) and bool(MEMBER_NAME.match(c))),
	_edit(lambda i, c: c[0].upper() + c[1:]))
operator('const-name-lower-case', _sites(lambda i, c: bool(i) and bool(CONST_NAME.match(c))),
	_edit(lambda i, c: CONST_NAME.sub(lambda m: m.group(1).lower() + m.group(2), c)))
operator('member-name-too-short', _sites(lambda i, c: bool(i) and bool(MEMBER_NAME.match(c))),
	_edit(lambda i, c: MEMBER_NAME.sub(lambda m: m.group(1)[0] + m.group(2), c)))
operator('type-name-too-short', _sites(lambda i, c: not i and bool(TYPE_DECL.match(c))),
	_edit(lambda i, c: TYPE_DECL.sub(lambda m: m.group(1) + m.group(2)[0], c, count=1)))
# characters outside every name class (ASCII neighbours of the letter ranges included), from the third character on
for _label, _char in (('underscore', '_'), ('caret', '^'), ('bracket', '['), ('backslash', '\\'), ('backtick', '`'), ('at-sign', '@'),
		('brace', '{'), ('hyphen', '-'), ('dot', '.')):
	operator(f'type-name-with-{_label}', _sites(lambda i, c: not i and bool(TYPE_DECL.match(c)) and len(TYPE_DECL.match(c).group(2)) >= 2),
		_edit(lambda i, c, ch=_char: TYPE_DECL.sub(lambda m: m.group(1) + m.group(2) + ch + 'x', c, count=1)))
for _label, _char in (('capital', 'X'), ('caret', '^'), ('bracket', '['), ('backtick', '`'), ('at-sign', '@'), ('brace', '{'), ('hyphen', '-'), ('dot', '.')):
	operator(f'member-name-with-{_label}', _sites(lambda i, c: bool(i) and bool(MEMBER_NAME.match(c))),
		_edit(lambda i, c, ch=_char: MEMBER_NAME.sub(lambda m: m.group(1) + ch + 'x' + m.group(2), c)))
for _label, _char in (('lower-case', 'x'), ('caret', '^'), ('backtick', '`'), ('hyphen', '-')):
	operator(f'const-name-with-{_label}', _sites(lambda i, c: bool(i) and bool(CONST_NAME.match(c))),
		_edit(lambda i, c, ch=_char: CONST_NAME.sub(lambda m: m.group(1) + ch + 'X' + m.group(2), c)))
operator('unknown-keyword', _sites(lambda i, c: not i and bool(KEYWORD_LINE.match(c))),
	_edit(lambda i, c: KEYWORD_LINE.sub('zzq', c, count=1)))
operator('unknown-function', _sites(lambda i, c: not _is_import(c) and bool(FUNCTION_CALL.search(c))),
	_edit(lambda i, c: FUNCTION_CALL.sub('zzq(', c, count=1)))
operator('unknown-attribute', _sites(lambda i, c: bool(ATTR_LINE.match(c))),
	_edit(lambda i, c: re.sub(r'^@[a-z_]+', '@zzq', c)))
operator('unknown-transform', _sites(lambda i, c: c.startswith('@comparer(') and '!' in c),
	_edit(lambda i, c: re.sub(r'![a-z0-9_]+', '!zzq', c, count=1)))
operator('unknown-condition-operator', _sites(lambda i, c: bool(CONDITION.match(c))),
	_edit(lambda i, c: CONDITION.sub(lambda m: m.group(1) + 'zzq' + m.group(3), c)))
operator('condition-operator-words-run-together', _sites(lambda i, c: bool(re.search(r' if \S+ not (equals|in) ', c))),
	_edit(lambda i, c: re.sub(r'( if \S+ )not (equals|in) ', r'\1not\2 ', c, count=1)))
operator('condition-operator-misspelt', _sites(lambda i, c: bool(CONDITION.match(c))),
	_edit(lambda i, c: CONDITION.sub(lambda m: m.group(1) + {'equals': 'equal', 'not equals': 'not equal', 'in': 'inn', 'not in': 'not inn'}.get(m.group(2), 'zzq') + m.group(3), c)))
operator('deleted-operand', _sites(lambda i, c: not c.startswith('@') and ' = ' in c),
	_edit(lambda i, c: c[:c.index(' = ') + 2]))
operator('deleted-left-parenthesis', _sites(lambda i, c: not _is_import(c) and '(' in c),
	_edit(lambda i, c: c.replace('(', '', 1)))
operator('deleted-right-parenthesis', _sites(lambda i, c: not _is_import(c) and ')' in c),
	_edit(lambda i, c: c[:c.rindex(')')] + c[c.rindex(')') + 1:]))
operator('deleted-comma', _sites(lambda i, c: not _is_import(c) and ',' in c),
	_edit(lambda i, c: c.replace(',', '', 1)))
operator('attribute-with-extra-argument', _sites(lambda i, c: bool(ATTR_LINE.match(c)) and ATTR_LINE.match(c).group(1) not in MULTI_ATTRS),
	_edit(lambda i, c: (c[:-1] + ', zz)') if c.endswith(')') else c + '(zz)'))
operator('attribute-without-arguments', _sites(lambda i, c: bool(ATTR_LINE.match(c)) and ATTR_LINE.match(c).group(2) is not None),
	_edit(lambda i, c: re.sub(r'\(.*\)$', '()', c)))
operator('trailing-text', _sites(lambda i, c: True), _edit(lambda i, c: c + ' zz'))
operator('two-statements-on-one-line',
	lambda lines: [k for k in range(len(lines) - 1) if stmt(lines[k]) and stmt(lines[k + 1])],
	lambda lines, site: lines[:site] + [lines[site] + ' ' + stmt(lines[site + 1])[1]] + lines[site + 2:])
operator('member-outside-declaration',
	lambda lines: [k for k, line in enumerate(lines) if line and line[0] not in ' \t'],
	lambda lines, site: lines[:site] + ['zz = uint8'] + lines[site:])
operator('struct-without-members',
	_sites(lambda i, c: not i and bool(re.match(r'^(?:inline |abstract )?struct ', c))),
	lambda lines, site: lines[:site + 1] + lines[_body_end(lines, site):])
# stray blanks in front of a line (fewer than one indentation unit): a top-level statement that is not at column 0, and a member that is
# deeper than the member before it
for _blanks in (1, 2, 3):
	operator(f'top-level-line-indented-by-{_blanks}-blanks',
		# only after another column-0 statement: after a body the same edit is a partial dedent, which lark refuses with DedentError (no position)
		lambda lines: [k for k, line in enumerate(lines) if line and line[0] not in ' \t#' and k > 0 and lines[k - 1] and lines[k - 1][0] not in ' \t#'],
		lambda lines, site, n=_blanks: lines[:site] + [' ' * n + lines[site]] + lines[site + 1:])
	operator(f'member-over-indented-by-{_blanks}-blanks',
		lambda lines: [k for k in range(1, len(lines)) if lines[k] and lines[k][0] in ' \t' and lines[k - 1] and lines[k - 1][0] in ' \t'
			and len(lines[k]) - len(lines[k].lstrip(' \t')) == len(lines[k - 1]) - len(lines[k - 1].lstrip(' \t'))
			and not lines[k].lstrip(' \t').startswith('#') and not lines[k - 1].lstrip(' \t').startswith('#')],
		lambda lines, site, n=_blanks: lines[:site] + [' ' * n + lines[site]] + lines[site + 1:])
FINAL_EOL = 'deleted-final-line-end'


_DEC_NUMERAL = re.compile(r'(?<![A-Za-z0-9_])([0-9]+)(?![A-Za-z0-9_])')
_HEX_NUMERAL = re.compile(r'(?<![A-Za-z0-9_])0x([0-9A-F]+)(?![A-Za-z0-9_])')


def numeral_digit_positions(content):
	"""positions of the decimal digits that belong to a numeral (DEC_NUMBER, or the part of a HEX_NUMBER behind `0x`) of a statement line:
	buffer size, enum value, array size, sizeref delta, alignment, condition value, make_const / make_reserved value"""
	positions = []
	for match in list(_HEX_NUMERAL.finditer(content)) + list(_DEC_NUMERAL.finditer(content)):
		positions += [k for k in range(match.start(1), match.end(1)) if content[k] in DIGITS]
	return sorted(positions)


# a digit of a numeral replaced by the character of the same numeric value from another script.  All of them are decimal digits to
# Unicode (category Nd; `\d` of a str pattern and int() accept them) but none is a DIGIT of the DSL ("0".."9"), and outside comments and
# import strings no terminal of the grammar contains a character beyond ASCII: the corrupted line cannot be lexed
for _label, _zero, _pick in (('fullwidth', 0xFF10, 'first'), ('arabic-indic', 0x0660, 'last'), ('devanagari', 0x0966, 'middle'), ('bengali', 0x09E6, 'first')):
	def _respell_digit(i, c, zero=_zero, pick=_pick):
		positions = numeral_digit_positions(c)
		k = positions[{'first': 0, 'last': -1, 'middle': len(positions) // 2}[pick]]
		return c[:k] + chr(zero + int(c[k])) + c[k + 1:]
	operator(f'numeral-with-{_label}-digit', _sites(lambda i, c: not _is_import(c) and bool(numeral_digit_positions(c))), _edit(_respell_digit))


def respell_numerals(text, rng):
	"""The same document with some numerals written with leading zeros (decimal `0012`, hex `0x001F`); comment lines are left alone."""
	lines, eol_text, terminated = split_lines(text)
	result = []
	for line in lines:
		if not line.lstrip(' \t').startswith('#') and 'import ' not in line:
			line = _HEX_NUMERAL.sub(lambda m: '0x' + '0' * rng.choice([0, 1, 2]) + m.group(1), line)
			line = _DEC_NUMERAL.sub(lambda m: m.group(1) if m.group(0).startswith('0x') else '0' * rng.choice([0, 1, 1, 3]) + m.group(1), line)
		result.append(line)
	return join_lines(result, eol_text, terminated)


def respell_indent(text, rng):
	"""The same document with the indentation of about half of its indented lines respelt (leading tab <-> four blanks)."""
	lines, eol_text, terminated = split_lines(text)
	result = []
	for line in lines:
		if line[:1] == '\t' and rng.randrange(2):
			line = '    ' + line[1:]
		elif line[:4] == '    ' and rng.randrange(2):
			line = '\t' + line[4:]
		result.append(line)
	return join_lines(result, eol_text, terminated)


def respell_blank_lines(style, items, rng):
	"""The same document with blank lines that are not empty: some of its blank lines carry white space (what an editor leaves behind
	when a member is deleted or auto-indent is on: the indentation of the surrounding body, or one tab / four blanks), and some such
	lines are added behind members and enum values.  Blank lines are insignificant, so the descriptors must not change."""
	def blank():
		return rng.choice([style['indent'], style['indent'], style['indent'], '\t', '    '])

	lines = []
	for line, tag in phys_lines(style, items):
		if tag[0] == 'blank':
			lines.append(blank() if rng.randrange(3) else line)
			continue
		lines.append(line)
		if tag[0] in ('member', 'enum-value') and rng.randrange(4) == 0:
			lines += [blank() for _ in range(rng.choice([1, 1, 2]))]
	return ''.join(line + eol(style) for line in lines)


def split_lines(text):
	"""(physical lines without line ends, line end, text ends with a line end)"""
	eol_text = '\r\n' if '\r\n' in text else '\n'
	lines = text.split(eol_text)
	terminated = lines[-1] == ''
	if terminated:
		lines.pop()
	return lines, eol_text, terminated


def join_lines(lines, eol_text, terminated=True):
	return eol_text.join(lines) + (eol_text if terminated else '')


def corruptions(text, rng=None, per_operator=None):
	"""Yields (operator, site, corrupted text); all sites, or `per_operator` random ones."""
	lines, eol_text, terminated = split_lines(text)
	if not terminated:
		return
	for name, find, apply in OPERATORS:
		sites = find(lines)
		if per_operator is not None and len(sites) > per_operator:
			sites = sorted(rng.sample(sites, per_operator))
		for site in sites:
			yield name, site, join_lines(apply(lines, site), eol_text)
	yield FINAL_EOL, len(lines) - 1, text.rstrip('\r\n')


# ---------------------------------------------------------------------------------------------------------------------
# the check

SCHEMAS = 'catbuffer/schemas'
QUIRK_SIGNATURE = 'commented-member-starting-with-modifier-word-rejected'
CRLF_SIGNATURE = 'crlf-comment-keeps-carriage-return'


def shipped_files():
	return sorted((REPO / SCHEMAS).rglob('*.cats'))


def count_forms(items, style, counter):
	def bump(key):
		counter[key] = counter.get(key, 0) + 1

	def numeral(value):
		bump('numeral:hex' if use_hex(style, value) else 'numeral:dec')

	def attrs(attr_list):
		for name, values in attr_list or []:
			shape = ','.join('none' if v is None else ('num' if isinstance(v, int) else 'name') for v in values)
			bump(f'attribute:{name}({shape})')
			for v in values:
				if isinstance(v, int):
					numeral(v)

	bump('indent:' + repr(style['indent']))
	bump('line-end:' + ('crlf' if style['crlf'] else 'lf'))
	bump(f'blank-lines:top={style["blank_top"]},member={style["blank_member"]}')
	for kind, payload in items:
		if kind != 'decl':
			bump('item:' + kind)
			continue
		bump('item:' + payload['k'] + (':commented' if payload['comment'] else ''))
		if payload['k'] == 'alias' and payload['linked'][0] == 'buffer':
			numeral(payload['linked'][1])
		if payload['k'] == 'enum':
			attrs(payload['attrs'])
			for value in payload['values']:
				bump('enum-value' + (':commented' if value['comment'] else ''))
				numeral(value['value'])
		if payload['k'] == 'struct':
			attrs(payload['attrs'])
			bump('struct-modifier:' + str(payload['disp']))
			for field in payload['fields']:
				if field['k'] == 'inline':
					bump('member:unnamed-inline' + (':commented' if field['comment'] else ''))
					continue
				form = field['disp'] or 'plain'
				if form == 'plain':
					ty = field['ty']
					form += ':' + (ty[0] if ty[0] != 'array' else f'array-{ty[1][0]}-{ty[2][0]}')
					if field['value'] is not None:
						form += ':if-' + field['value'][2].replace(' ', '-') + '-' + field['value'][1][0]
					if field['name'] == '__value__':
						form += ':__value__'
				bump('member:' + form)
				attrs(field['attrs'])


def truth_problem(ds, style, text, impl):
	"""Oracle P (descriptors): one descriptor per declaration, in order, with the written values."""
	expected = c_items(ds)
	if impl[0] == 'ok' and impl[1] == expected:
		return None
	if impl[0] != 'ok':
		if hits_comment_quirk(ds):
			return (QUIRK_SIGNATURE, f'a well-formed document with a commented member that starts with `inline`/`abstract` (or is named like a '
				f'top-level keyword) is rejected: {impl[1:]}')
		return ('well-formed-document-rejected:' + hashlib.sha256(text.encode('utf8')).hexdigest()[:10], f'well-formed document rejected: {impl[1:]}')
	if style['crlf'] and '\\x0d' in ''.join(impl[1]) and '\\x0d' not in ''.join(expected):
		return (CRLF_SIGNATURE, 'comments of a CRLF document keep a carriage return at the end of every comment line '
			'(attached documentation is not what was written)')
	diff = next(((e, a) for e, a in zip(expected, impl[1]) if e != a), (expected[len(impl[1]):][:1], impl[1][len(expected):][:1]))
	return ('descriptors-differ:' + hashlib.sha256(repr(diff).encode('utf8')).hexdigest()[:10],
		f'descriptors are not those written: expected {str(diff[0])[:300]} got {str(diff[1])[:300]}')


def run(check, unrecognised):
	rng = check.rng
	check.trusted += [
		'grammar reader harness/gens/c04.py (fail-closed template of catbuffer.lark; holes = quoted terminals) and harness/gen.py anchors '
		'(Comment.__init__, FixedSizeInteger.__init__, CatbufferIndenter.tab_len; the __str__ family and the transformer callbacks are pinned shapes)',
		'lark 1.3.1 itself (LALR construction, contextual lexer, Indenter) is not modelled: the model is a hand-written parser for the same '
		'language, tied to lark by the differential runs; common.lark terminals (DIGIT, LCASE_LETTER, UCASE_LETTER, ESCAPED_STRING, WS_INLINE)',
		'canonical text renderers harness/astdump.py / coq/Cats/AstRender.v']
	check.assume += ['documents are compared as UTF-8 byte strings (columns are only compared for ASCII documents)',
		'numerals are unbounded in the model (CPython refuses decimal numerals of more than 4300 digits)']
	check.extra['rule'] = 'all shipped .cats files; seeded random descriptor lists rendered by the Python mirror of `render` in random styles ' \
		'(names drawn from the keyword-like pool; comment text with the characters str.splitlines() takes for line ends: VT FF FS GS RS NEL U+2028 ' \
		'U+2029, lone CR); the same documents with numerals / indentation respelt and with blank lines that carry white space; print-back compares ' \
		'legacy descriptors, raw attribute values and documentation; a sample of the C11 corrupted stream; distinct = distinct texts'
	for module in ('GrammarTerminals', 'SyntaxOps'):
		if unrecognised.get(module):
			check.notes.append(f'anchors not recognised, pinned values used for them: {unrecognised[module]}')
			check.broken.append(f'shape:{module}')
	check.prove('C04.v')

	cases = []   # dicts: kind, text, (ds, style)
	for path in shipped_files():
		cases.append({'kind': 'shipped', 'path': str(path.relative_to(REPO)), 'text': path.read_text(encoding='utf8')})
	count = 300 if check.tier == 'quick' else 20000
	forms = {}
	for index in range(count):
		ds, style = rand_doc(rng), rand_style(rng)
		count_forms(ds, style, forms)
		cases.append({'kind': 'random', 'index': index, 'ds': ds, 'style': style, 'text': render(style, ds)})
	check.extra['input_forms'] = dict(sorted(forms.items()))
	# other spellings of the same numerals (DEC_NUMBER is DIGIT+, HEX_NUMBER is 0x(A-F|DIGIT)+: leading zeros are part of the language):
	# the descriptors must not change.  These texts are not renderings of `render`, so they are outside parse_render and covered by D / P only.
	for case in [c for c in cases if c['kind'] == 'random'][:150 if check.tier == 'quick' else 3000]:
		respelt = respell_numerals(case['text'], rng)
		if respelt != case['text']:
			cases.append({'kind': 'respelt', 'index': case['index'], 'ds': case['ds'], 'style': case['style'], 'text': respelt})
	# tab and four blanks are the same indentation (the indenter counts a tab as four columns): documents that mix the two line by line
	for case in [c for c in cases if c['kind'] == 'random' and c['style']['indent'] in ('\t', '    ')][:100 if check.tier == 'quick' else 2000]:
		respelt = respell_indent(case['text'], rng)
		if respelt != case['text']:
			cases.append({'kind': 'respelt', 'index': case['index'], 'ds': case['ds'], 'style': case['style'], 'text': respelt})
	# blank lines that are not empty (they still carry the indentation of the body around them), LF and CRLF alike
	for case in [c for c in cases if c['kind'] == 'random'][:120 if check.tier == 'quick' else 2500]:
		respelt = respell_blank_lines(case['style'], case['ds'], rng)
		if respelt != case['text']:
			cases.append({'kind': 'respelt', 'index': case['index'], 'ds': case['ds'], 'style': case['style'], 'text': respelt})
	corrupt_from = cases[:84:7] + [c for c in cases if c['kind'] == 'random'][:40 if check.tier == 'quick' else 400]
	for case in corrupt_from:
		for name, site, bad_text in corruptions(case['text'], rng, 1):
			cases.append({'kind': 'corrupted', 'operator': name, 'site': site, 'text': bad_text})

	# implementation
	impls = [impl_parse(case['text']) for case in cases]
	backs = []
	for case, impl in zip(cases, impls):
		backs.append(repo_print(impl[2]) if case['kind'] == 'random' and impl[0] == 'ok' and impl[1] == c_items(case['ds']) else None)

	# model
	mirror_budget = 300 if check.tier == 'quick' else 2500
	exprs = []
	slots = []
	for number, (case, back) in enumerate(zip(cases, backs)):
		slots.append(len(exprs))
		exprs.append(model_parse_expr(case['text']))
		if case['kind'] == 'random' and case['index'] < mirror_budget:
			exprs.append(f'showb (list_eqb (render {q_style(case["style"])} {q_items(case["ds"])}) {codes(case["text"])} && wf_doc {q_items(case["ds"])})')
			exprs.append('"-"' if back is None else f'showb (list_eqb (repo_print {q_items(case["ds"])}) {codes(back)})')
	outs = coq_eval(PRELUDE, exprs, 'c04', shard=60)

	for case, impl, back, slot in zip(cases, impls, backs, slots):
		kind = case['kind']
		label = kind if kind != 'corrupted' else 'corrupted:' + case['operator']
		if kind in ('random', 'respelt'):
			label += ':' + ('crlf' if case['style']['crlf'] else 'lf') + ':' + ('reject' if impl[0] != 'ok' else 'ok')
		check.case(label, hashlib.sha256(case['text'].encode('utf8')).hexdigest())
		difference = compare_parse(case['text'], impl, outs[slot])
		if difference:
			check.disagree('Syntax.parse-vs-create_cats_lark_parser', {k: v for k, v in case.items() if k in ('kind', 'path', 'operator', 'site', 'text')},
				str(impl[:2])[:300], difference[:600])
		if kind == 'random' and case['index'] < mirror_budget:
			if outs[slot + 1] != 'T':
				check.disagree('Syntax.render-vs-python-mirror (or wf_doc false on a generated document)', {'text': case['text']}, 'python render', outs[slot + 1])
			if back is not None and outs[slot + 2] != 'T':
				check.disagree('Syntax.repo_print-vs-__str__', {'text': case['text'], 'printed': back}, back[:300], 'model prints another text')
		problem = None
		if kind == 'shipped':
			if impl[0] != 'ok':
				problem = ('shipped-file-rejected:' + case['path'], f'shipped schema {case["path"]} does not parse: {impl[1:]}')
			else:
				problem = printback_problem(impl[2])
		elif kind in ('random', 'respelt'):
			problem = truth_problem(case['ds'], case['style'], case['text'], impl)
			if problem is None:
				leaked = applied_attributes_problem(case['text'])
				if leaked:
					problem = ('attribute-value-on-another-member', leaked)
			if problem is None:
				problem = printback_problem(impl[2])
		if problem:
			check.fail(problem[0], problem[1], {
				'case': {'kind': kind, 'path': case.get('path'), 'text': case['text'], 'expected': c_items(case['ds']) if kind in ('random', 'respelt') else None,
					'crlf': bool(case.get('style', {}).get('crlf'))},
				'how': 'run.py replay <this file>: parses the text with create_cats_lark_parser(), compares with `expected`, prints the declarations back and parses again'})
	for case, impl in list(zip(cases, impls))[::max(1, len(cases) // 6)]:
		check.sample({'kind': case['kind'], 'text': case['text'][:300], 'observed': str(impl[:2])[:300]})


def replay(data):
	case = data['replay']['case']
	impl = impl_parse(case['text'])
	print('parse:', str(impl[:2])[:600] if impl[0] == 'ok' else impl)
	problem = None
	if case.get('expected') is not None:
		if impl[0] != 'ok' or impl[1] != case['expected']:
			observed = impl[1] if impl[0] == 'ok' else impl[1:]
			problem = f'descriptors are not those written: expected {case["expected"]} observed {observed}'
	elif impl[0] != 'ok':
		problem = f'document rejected: {impl[1:]}'
	if problem is None and impl[0] == 'ok':
		found = printback_problem(impl[2])
		problem = found[1] if found else None
	print('property:', problem or 'holds')
	return 1 if problem else 0
