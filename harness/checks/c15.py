"""C15: the generator compiles any supported-dialect schema into a conforming codec; generating twice gives identical text."""
import concurrent.futures
import hashlib
import importlib
import multiprocessing
import os
import random
import re
import shutil
import sys
import traceback

from .. import codec, common, dialect
from ..gens.c01 import expanded_models, schema_text
from . import c01

MANIFEST = {
	'text': 'Specification side: the C01/C02/C12 theorems are over Cats/Layout.v for ANY schema term; Cats/Dialect.v adds the boolean wf_schema '
		'(every reference resolves to an earlier declaration so there is no by-value cycle, widths in {1,2,4,8}, size/count members unsigned, '
		'declared before and bound to one array, sizeof targets size-implicit structs, @size member first and unsigned, children extend their '
		'parent, discriminators/initializers complete, conditionals in the three shipped styles, sort keys resolve, aligned variable arrays only '
		'of abstract parents, fill arrays last in a size-prefixed struct) with theorems (Props/C15.v): wf_schema holds of both regenerated '
		'shipped schemas (kernel computation per run); every member of every struct of a well-formed schema is classified into a supported '
		'branch of the interpreter; a classified member never takes a Crash "Unsupported" branch on serialize or deserialize; serialize, size, '
		'deserialize and factory-deserialize of a well-formed schema never answer "Unsupported" for any value, buffer and fuel (premise: the '
		'sort-key view of the value does not); wf_no_unsupported removes that premise for wf_schema_full = wf_schema && wf_keys (Cats/DialectKeys.v; '
		'serialize over shape-admissible values, size/deserialize/factory over all values and buffers), true of both shipped schemas. Per generated PROGRAM: random dialect schemas '
		'(harness/dialect.py: recombinations of the shipped member forms with fresh names, widths, orders, nesting) go through the real CLI + '
		'generator twice (identical text), the module is imported beside copies of the real ArrayHelpers/BaseValue/ByteArray, wf_schema_full of its '
		'regenerated schema term is evaluated by the kernel, and the full C01 differential (serialize/size/deserialize/factory on admissible '
		'values + mutated encodings) runs against Layout of that schema, with the round-trip/size/factory/decode-encode-decode oracles on the '
		'real module. Fixed probe schemas (dialect.PROBES) replay known generator idiosyncrasies under stable signatures.',
	'design_ref': 'DESIGN.md section 4, C15 (stage 1)',
	'technique': 'Coq (wf_schema_full + theorems, kernel obligation per generated program) + vm_compute differential of generated modules against the schema interpreter',
}

HELPERS = ['ArrayHelpers.py', 'BaseValue.py', 'ByteArray.py', 'Ordered.py', 'Transforms.py', 'ripemd160.py']
GENERATOR_PYTHON = '/usr/bin/python3'      # the CLI needs yaml, which only the Debian interpreter has
PACKAGE = 'symbolchain_gen'
WORKERS = {'quick': 5, 'thorough': 8}
PROBE_BASE = 100000


def generator_env():
	env = common.impl_env()
	env['PYTHONPATH'] = os.pathsep.join([env['PYTHONPATH'], str(common.REPO / 'sdk' / 'python')])
	return env


def run_generator(schema_path, output, hash_seed='0'):
	"""The real CLI + generator in a subprocess; returns (status, output text)."""
	env = generator_env()
	env['PYTHONHASHSEED'] = hash_seed
	return common.run(
		[GENERATOR_PYTHON, '-m', 'catparser', '--schema', str(schema_path), '--include', str(schema_path.parent), '--output', str(output),
			'--quiet', '--generator', 'generator.Generator'], 120, env=env)


def run_generator_twice_in_process(schema_path, warmup_output, output, hash_seed):
	"""ONE interpreter generates the schema twice (state a first generation leaves in the generator's modules must not show in the
	second); returns (status, output text) of the process; the second generation's module is in `output`."""
	env = generator_env()
	env['PYTHONHASHSEED'] = hash_seed
	script = (
		'import sys\n'
		'from catparser.__main__ import main\n'
		'schema, include, outputs = sys.argv[1], sys.argv[2], sys.argv[3:]\n'
		'for output in outputs:\n'
		'\tsys.argv = ["catparser", "--schema", schema, "--include", include, "--output", output, "--quiet", "--generator", "generator.Generator"]\n'
		'\ttry:\n'
		'\t\tmain()\n'
		'\texcept SystemExit as ex:\n'
		'\t\tif ex.code not in (0, None):\n'
		'\t\t\traise\n')
	return common.run(
		[GENERATOR_PYTHON, '-c', script, str(schema_path), str(schema_path.parent), str(warmup_output), str(output)], 180, env=env)


def generate_twice(schema_path, scratch, tag):
	"""Two independent processes; the second under a different string-hash seed (an iteration over a set/dict of names would show) AND
	generating the schema twice in that one interpreter, its SECOND output being the one compared (state kept between generations)."""
	first = run_generator(schema_path, scratch / f'out_{tag}_a', '0')
	second = run_generator_twice_in_process(schema_path, scratch / f'out_{tag}_warmup', scratch / f'out_{tag}_b', '4242')
	return first, second


def prepare_package(scratch):
	"""<scratch>/pkg/symbolchain_gen/ with copies of the real helper modules; generated modules become its subpackages."""
	root = scratch / 'pkg'
	package = root / PACKAGE
	package.mkdir(parents=True)
	(package / '__init__.py').write_text('', encoding='utf8')
	for helper in HELPERS:
		shutil.copy(common.REPO / 'sdk' / 'python' / 'symbolchain' / helper, package / helper)
	sys.path[:] = [path for path in sys.path if not (path.endswith('/pkg') and '/symv-' in path)]
	sys.path.insert(0, str(root))
	for name in list(sys.modules):
		if name == PACKAGE or name.startswith(PACKAGE + '.'):
			del sys.modules[name]
	importlib.invalidate_caches()
	return package


def robust_coq_eval(imports, exprs, tag, shard=50, timeout=900):
	"""common.coq_eval, except that a case on which the MODEL exhausts its resources (a mutated count makes read_array_go recurse tens of
	thousands of frames: vm stack overflow / minutes of evaluation) yields the outcome 'crash:OutOfFuel' (run_network's exhausted class)
	instead of aborting the run.  Only the shard that failed is re-evaluated case by case."""
	def discard(name):
		shutil.rmtree(common.COQ / 'Cases' / f'{name}_{os.getpid()}', ignore_errors=True)      # coq_eval keeps the directory of a failed evaluation

	try:
		return common.coq_eval(imports, exprs, tag, shard=shard, timeout=timeout)
	except RuntimeError:
		discard(tag)

	def one(job):
		position, chunk = job
		try:
			return common.coq_eval(imports, chunk, f'{tag}r{position}', shard=len(chunk), timeout=120)
		except RuntimeError:
			discard(f'{tag}r{position}')
			return None
	chunks = [(position, exprs[position:position + shard]) for position in range(0, len(exprs), shard)]
	with concurrent.futures.ThreadPoolExecutor(max_workers=4) as pool:
		results = list(pool.map(one, chunks))
	values = []
	for (position, chunk), result in zip(chunks, results):
		if result is not None:
			values += result
			continue
		singles = [(f'{position}_{offset}', [expr]) for offset, expr in enumerate(chunk)]
		with concurrent.futures.ThreadPoolExecutor(max_workers=8) as pool:
			for single in pool.map(one, singles):
				values.append(single[0] if single is not None else 'crash:OutOfFuel')
	return values


def failure_reason(text):
	"""Stable short reason of a failed generator run / import: exception type and the innermost frame's function."""
	lines = [line for line in text.strip().split('\n') if line.strip()]
	last = lines[-1] if lines else 'no-output'
	last = re.sub(r'\x1b\[[0-9;]*m', '', last)
	function = ''
	for line in lines:
		found = re.match(r'\s*File "[^"]*[/\\]([A-Za-z_0-9]+)\.py", line \d+, in (\S+)', line)
		if found:
			function = f'{found.group(1)}.{found.group(2)}'
	kind = last.split(':')[0].strip().replace(' ', '-')[:40]
	return f'{kind}@{function}' if function else kind


def classify(text, class_name):
	"""Coarse, name-independent description of the failing class (so that signatures do not depend on the random names)."""
	if not class_name:
		return 'schema'
	found = re.search(r'((?:@[^\n]*\n)*)(abstract |inline )?struct ' + re.escape(class_name) + r'\n((?:\t[^\n]*\n|\n)*)', text)
	if not found:
		return 'class'
	body = found.group(3)
	tags = []
	for tag, pattern in [
		('union', r' equals '), ('sizeref', r'@sizeref'), ('sentinel', r'if (0x)?[0-9A-Fa-f]+ not equals \w+_size'), ('sizeof', r'= sizeof\('),
		('fill', r'__FILL__'), ('byte-sized', r'@is_byte_constrained'), ('sort_key', r'@sort_key'), ('aligned', r'@alignment'),
		('named-inline', r'= inline '), ('inline', r'\tinline '), ('array', r'= array\(')]:
		if re.search(pattern, body):
			tags.append(tag)
	return '+'.join(tags[:3]) or 'plain'


class SchemaCheck(common.Check):
	"""The Check that c01.run_network sees for ONE generated schema (own PRNG; findings carry the schema); merged into the run's Check."""

	def __init__(self, tier, index, text, seed, probe=None):
		super().__init__('C15', tier, seed)
		self.index = index
		self.text = text
		self.probe = probe
		self.rng = random.Random(f'C15:schema:{seed}')
		self.exhausted = 0
		self.wf = None

	def case(self, kind, key, nontrivial=True):
		kind = re.sub(r'^s\d+:', '', kind)
		super().case(('probe:' if self.probe else '') + kind, (self.index, key), nontrivial)

	def disagree(self, name, case, impl, model):
		if sys.version_info < (3, 12) and 'Flag' in self.text_of_module and impl.startswith('ok:') != model.startswith('ok:'):
			return      # non-strict enum.Flag of the Debian interpreter
		case = dict(case)
		case['schema'] = self.text
		if self.probe:
			case['probe'] = self.probe[0]
		super().disagree('Layout-vs-generated-module', case, impl, model)
		if not self.probe:
			# the interpreter is the schema's semantics (that is what "conforming" refers to): a generated codec that answers differently on
			# an input does not conform on that input
			replay = {'class': case.get('class'), 'op': case.get('op'), 'implementation': impl, 'schema_prescribes': model}
			if case.get('op') == 'ser':
				replay['value'] = case.get('input')
			elif case.get('op') == 'fac':
				replay['factory'] = case.get('class')
				replay['class'] = None
				replay['bytes'] = case.get('input')
			else:
				replay['bytes'] = case.get('input')
			self.fail(f'c15:module-differs-from-schema-semantics:{case.get("op")}',
				f'the generated codec answers {impl[:160]} where the schema prescribes {model[:160]} ({case.get("op")} of {case.get("class")})', replay)

	text_of_module = ''

	def fail(self, signature, what, replay):
		if 'crash:Timeout' in what:
			# resource rule (DESIGN C01): a mutated count that makes the codec iterate for seconds is the exhausted class, not a byte string that decodes
			self.exhausted += 1
			return
		replay = dict(replay)
		replay['schema'] = self.text
		replay['schema_seed'] = self.seed
		what = re.sub(r'^s\d+\.', 'generated module: ', what)
		if self.probe:
			name, description = self.probe
			super().fail(f'c15:{name}', f'{description} -- observed: {what}', replay)
		elif signature.startswith('c15:'):
			super().fail(signature, what, replay)
		else:
			super().fail(f'c15:{signature.split(":")[0]}:{classify(self.text, replay.get("class"))}', what, replay)


def load_generated(scratch, package, index, schema_path):
	"""Imports the generated module as symbolchain_gen.s<index> and builds the Net (schema through /repo's own parser + post-processor)."""
	name = f's{index}'
	target = package / name
	target.mkdir()
	shutil.copy(scratch / f'out_{index}_a' / '__init__.py', target / '__init__.py')
	importlib.invalidate_caches()
	module = importlib.import_module(f'{PACKAGE}.{name}')
	models = expanded_models(schema_path, schema_path.parent)
	coq_name = f'gs_{index}'
	return codec.Net(name, module, models, coq_name, schema_text(coq_name, models))


def run_schema(view, scratch, package, generated, per_class, mutants):
	"""Everything after generation for one schema: twice-identical, import, wf obligation, the C01 differential + oracles."""
	index = view.index
	schema_path = scratch / 'schemas' / f's{index}.cats'
	(first, second) = generated
	if first[0] != 0:
		reason = failure_reason(first[1])
		view.fail(f'c15:generator-fails:{reason}', f'CLI + generator exit {first[0]} on a dialect schema: {reason}', {'op': 'generate', 'output': first[1][-1500:]})
		return
	text_a = (scratch / f'out_{index}_a' / '__init__.py').read_text(encoding='utf8')
	text_b = (scratch / f'out_{index}_b' / '__init__.py').read_text(encoding='utf8') if second[0] == 0 else None
	view.text_of_module = text_a
	view.case('generate-twice', hashlib.sha256(text_a.encode('utf8')).hexdigest()[:12])
	if text_a != text_b:
		view.fail('c15:generated-twice-differs', 'generating the same schema twice gives different text', {'op': 'generate-twice'})
	try:
		net = load_generated(scratch, package, index, schema_path)
	except Exception as ex:  # pylint: disable=broad-except
		reason = failure_reason(traceback.format_exc())
		view.fail(f'c15:import-fails:{reason}', f'generated module does not import: {type(ex).__name__}: {ex}', {'op': 'import'})
		return
	view.case('import', len(text_a))
	# kernel obligation for this program: wf_schema_full <its schema term> = true (wf_schema and wf_keys, the premise of wf_no_unsupported)
	result = common.coq_eval(
		'From Symv Require Import Cats.Dialect Cats.DialectKeys.\n' + net.coq_import,
		[f'(bool_to_string (wf_schema_full {net.coq_schema}) ++ "|" ++ wf_report {net.coq_schema} ++ (if wf_keys {net.coq_schema} then "" else " wf_keys"))'],
		f'c15wf{index}', shard=1)[0]
	view.wf = result
	view.case('wf-obligation', result)
	saved = c01.coq_eval
	c01.coq_eval = robust_coq_eval
	try:
		c01.run_network(view, net, per_class, mutants)
	finally:
		c01.coq_eval = saved
	view.exhausted += sum(value for key, value in view.extra.items() if key.endswith('_exhausted_cases'))


_JOB_CONTEXT = {}


def _work(job):
	"""Worker process: one schema; returns the picklable part of its SchemaCheck."""
	index, text, seed, probe, generated = job
	context = _JOB_CONTEXT
	view = SchemaCheck(context['tier'], index, text, seed, probe)
	try:
		run_schema(view, context['scratch'], context['package'], generated, context['per_class'], context['mutants'])
		error = None
	except Exception:  # pylint: disable=broad-except
		error = traceback.format_exc()
	return {
		'index': index, 'error': error, 'evaluations': view.evaluations, 'distribution': view.distribution, 'distinct': view.distinct,
		'samples': view.samples[:1], 'disagreements': view.disagreements, 'failures': [(f.signature, f.what, f.replay) for f in view.failures],
		'exhausted': view.exhausted, 'wf': view.wf, 'probe': probe}


def merge(check, result):
	check.evaluations += result['evaluations']
	for kind, number in result['distribution'].items():
		check.distribution[kind] = check.distribution.get(kind, 0) + number
	check.distinct |= result['distinct']
	for sample in result['samples']:
		check.sample(sample)
	for item in result['disagreements']:
		if result['probe']:
			continue      # a probe's model/module difference is the probe's finding, not a broken tie
		check.disagree(item['correspondence'], item['case'], item['implementation'], item['model'])
	for signature, what, replay in result['failures']:
		check.fail(signature, what, replay)
	check.extra['exhausted_cases'] = check.extra.get('exhausted_cases', 0) + result['exhausted']


def run(check, unrecognised):
	check.trusted += [
		'translator harness/gens/c01.py + harness/astdump.py: each generated schema as /repo\'s own parser + post-processor expand it, printed as a Gallina term',
		'harness/dialect.py (random schemas of the shipped dialect), harness/codec.py (admissible values, object <-> tree)',
		'modelled, not verified: the generated codec classes themselves (tied by correspondence per generated program), CPython semantics']
	check.assume += ['"dialect the shipped schemas use" = harness/dialect.py dialect() (15 listed restrictions, each with the code location forcing it)']
	check.extra['rule'] = 'N random dialect schemas of 8-25 declarations (features rotated so that every construct of the property text occurs in the batch) -> ' \
		'real CLI + generator twice -> import -> wf_schema by the kernel -> for every class of the generated module: admissible values ' \
		'(boundary ints, flag subsets, array lengths 0-3, both arms of conditionals) -> serialize/size/deserialize/factory, mutated encodings -> ' \
		'deserialize + re-encode, model vs module + property oracles; distinct = distinct (schema, class, value or bytes); plus the fixed probes'
	check.extra['dialect'] = dialect.dialect()
	if unrecognised.get('ArrayOps'):
		check.notes.append(f'anchors not recognised, pinned operators used: {unrecognised["ArrayOps"]}')
	if sys.version_info < (3, 12):
		check.notes.append('running under an interpreter whose enum.Flag is not strict: flag-enum mutant disagreements are skipped (use /venv/bin/python)')
	check.prove('C15.v')
	codec.setup_paths()
	count, per_class, mutants = (12, 4, 8) if check.tier == 'quick' else (400, 4, 8)
	count = int(os.environ.get('VERIF_C15_SCHEMAS', count))
	scratch = common.scratch_dir('c15')
	try:
		(scratch / 'schemas').mkdir()
		package = prepare_package(scratch)
		jobs = []
		constructs = {}
		sizes = {}
		for index in range(count):
			seed = check.rng.getrandbits(64)
			schema = dialect.generate(random.Random(seed), index)
			jobs.append([index, schema.text, seed, None])
			for construct, number in schema.constructs.items():
				constructs[construct] = constructs.get(construct, 0) + number
			sizes[schema.declarations] = sizes.get(schema.declarations, 0) + 1
		for offset, (name, description, text) in enumerate(dialect.PROBES):
			jobs.append([PROBE_BASE + offset, text, offset, (name, description)])
		for job in jobs:
			(scratch / 'schemas' / f's{job[0]}.cats').write_text(job[1], encoding='utf8')
		check.extra['construct_distribution'] = {construct: constructs.get(construct, 0) for construct in dialect.CONSTRUCTS}
		check.extra['declarations_per_schema'] = dict(sorted(sizes.items()))
		missing = [construct for construct in dialect.CONSTRUCTS if not constructs.get(construct)]
		if missing:
			check.notes.append(f'constructs absent from this batch: {missing}')
		with concurrent.futures.ThreadPoolExecutor(max_workers=common.NCPU) as pool:
			generated = list(pool.map(lambda job: generate_twice(scratch / 'schemas' / f's{job[0]}.cats', scratch, job[0]), jobs))
		for job, outputs in zip(jobs, generated):
			job.append(outputs)
		_JOB_CONTEXT.update({'tier': check.tier, 'scratch': scratch, 'package': package, 'per_class': per_class, 'mutants': mutants})
		workers = int(os.environ.get('VERIF_C15_WORKERS', WORKERS[check.tier]))
		if workers > 1:
			with multiprocessing.get_context('fork').Pool(workers) as pool:
				results = pool.map(_work, jobs, chunksize=1)
		else:
			results = [_work(job) for job in jobs]
		wf_bad = []
		programs = 0
		probes_failing = []
		for result in sorted(results, key=lambda item: item['index']):
			if result['error']:
				raise RuntimeError(f'schema {result["index"]}: {result["error"]}')
			merge(check, result)
			if result['probe']:
				if result['failures']:
					probes_failing.append(result['probe'][0])
				continue
			if result['wf'] is not None:
				programs += 1
				if not result['wf'].startswith('true|'):
					wf_bad.append((result['index'], result['wf']))
		check.obligation(f'wf_schema_full gs_k = true for the {programs} generated programs', not wf_bad,
			'; '.join(f'schema {index}: {report}\n{jobs[index][1]}' for index, report in wf_bad[:3])[:6000])
		check.extra['generated_programs'] = programs
		check.extra['probes'] = {name: ('fails' if name in probes_failing else 'passes') for name, _, _ in dialect.PROBES}
	finally:
		shutil.rmtree(scratch, ignore_errors=True)


def parse_tree(text):
	"""Inverse of codec.render."""
	position = 0

	def skip():
		nonlocal position
		while position < len(text) and text[position] == ' ':
			position += 1

	def item():
		nonlocal position
		skip()
		if text[position] == '~':
			position += 1
			return None
		assert text[position] == '(', text[position:position + 20]
		position += 1
		kind = text[position]
		position += 1
		if kind == 'i':
			end = text.index(')', position)
			value = int(text[position:end])
			position = end + 1
			return value
		if kind == 'b':
			end = text.index(')', position)
			value = bytes.fromhex(text[position:end].strip())
			position = end + 1
			return value
		if kind == 'a':
			items = []
			while True:
				skip()
				if text[position] == ')':
					position += 1
					return items
				items.append(item())
		assert kind == 's', kind
		skip()
		end = position
		while text[end] not in ' )':
			end += 1
		name = text[position:end]
		position = end
		members = []
		while True:
			skip()
			if text[position] == ')':
				position += 1
				return ('S', name, members)
			assert text[position] == '('
			position += 1
			end = text.index(' ', position)
			member = text[position:end]
			position = end
			value = item()
			skip()
			assert text[position] == ')'
			position += 1
			members.append((member, value))
	return item()


def replay(data):
	"""Regenerates the module from the recorded schema text and repeats the recorded operation."""
	codec.setup_paths()
	info = data['replay']
	scratch = common.scratch_dir('c15replay')
	try:
		(scratch / 'schemas').mkdir()
		schema_path = scratch / 'schemas' / 's0.cats'
		schema_path.write_text(info['schema'], encoding='utf8')
		print(info['schema'])
		generated = generate_twice(schema_path, scratch, 0)
		print('generator exit:', generated[0][0], generated[1][0])
		if generated[0][0] != 0:
			print(generated[0][1][-2000:])
			return 1
		text_a = (scratch / 'out_0_a' / '__init__.py').read_text(encoding='utf8')
		text_b = (scratch / 'out_0_b' / '__init__.py').read_text(encoding='utf8')
		print('generated twice identical:', text_a == text_b)
		package = prepare_package(scratch)
		try:
			net = load_generated(scratch, package, 0, schema_path)
		except Exception as ex:  # pylint: disable=broad-except
			print('import fails:', type(ex).__name__, ex)
			return 1
		failing = False
		if 'value' in info and info.get('class'):
			print('recorded value:', info['value'][:1500])
			tree = parse_tree(info['value'])
			try:
				obj = codec.to_object(net, info['class'], tree)
				ser = c01.impl_ser(obj)
				print('serialize|size:', ser[:1500])
				encoded, size_text = ser.split('|')
				if not encoded.startswith('ok:'):
					failing = True
				else:
					payload = bytes.fromhex(encoded[3:])
					if size_text != f'ok:{len(payload)}':
						print(f'ORACLE size: reports {size_text}, {len(payload)} bytes encoded')
						failing = True
					text, decoded = c01.impl_des(net, info['class'], payload)
					if decoded is None or decoded[1] != tree:
						print('ORACLE round trip: decode(encode v) =', text[:800])
						failing = True
			except Exception as ex:  # pylint: disable=broad-except
				print('value cannot be rebuilt:', type(ex).__name__, ex)
				failing = True
		if 'bytes' in info and info.get('class'):
			text, decoded = c01.impl_des(net, info['class'], bytes.fromhex(info['bytes']))
			print('deserialize  :', text[:1500])
			if decoded is not None:
				print('decoded tree :', codec.render(decoded[1])[:1500])
				parts = text.split('|')
				if not parts[-1].startswith('ok:'):
					print('ORACLE decode-encode: decoded value does not re-encode')
					failing = True
				else:
					second_text, second = c01.impl_des(net, info['class'], bytes.fromhex(parts[-1][3:]))
					if second is None or second[1] != decoded[1]:
						print('ORACLE decode-encode-decode: not stable:', second_text[:600])
						failing = True
		if info.get('factory') and 'bytes' in info:
			fac_text, fac = c01.impl_fac(net, info['factory'], bytes.fromhex(info['bytes']))
			print('factory      :', fac_text[:1500])
			if fac is None or fac[0] != info.get('class'):
				print('ORACLE factory: does not return the concrete class')
				failing = True
		if 'schema_prescribes' in info:
			observed = None
			if info.get('op') == 'ser' and 'value' in info and info.get('class'):
				observed = c01.impl_ser(codec.to_object(net, info['class'], parse_tree(info['value'])))
			elif info.get('op') == 'des' and info.get('class'):
				observed = c01.impl_des(net, info['class'], bytes.fromhex(info['bytes']))[0]
			elif info.get('op') == 'fac' and info.get('factory'):
				observed = c01.impl_fac(net, info['factory'], bytes.fromhex(info['bytes']))[0]
			if observed is not None:
				print('implementation now:', observed[:600])
				print('schema prescribes :', info['schema_prescribes'][:600])
				if c01.coarse(observed[:600]) != c01.coarse(info['schema_prescribes'][:600]):
					print('ORACLE conformance: the generated codec differs from the schema semantics on this input')
					failing = True
		print('property', 'FAILS' if failing else 'holds', 'on this input with the current tree')
		print('replay of', info.get('op'), 'for', info.get('class'), '-- as recorded:', data.get('what'))
		return 1 if failing else 0
	finally:
		shutil.rmtree(scratch, ignore_errors=True)
