"""C15: the generator compiles any supported-dialect schema into a conforming codec; generating twice gives identical text."""
import concurrent.futures
import hashlib
import importlib
import os
import random
import re
import shutil
import subprocess
import sys
from pathlib import Path

from .. import codec, common, dialect
from ..gens.c01 import expanded_models, schema_text
from . import c01

MANIFEST = {
	'text': 'Specification side: the C01/C02/C12 theorems are over Cats/Layout.v for ANY schema term; Cats/Dialect.v adds the boolean wf_schema '
		'(every reference resolves, declared-before-use so no by-value cycle, widths in {1,2,4,8}, size/count members unsigned, declared '
		'before and bound to one array, sizeof targets size-implicit structs, @size member first and unsigned, children extend their parent, '
		'discriminators/initializers complete, conditionals in the three shipped styles, sort keys resolve, aligned variable arrays only of '
		'abstract parents, fill arrays last) with theorems (Props/C15.v): wf_schema holds of both regenerated shipped schemas (kernel '
		'computation per run) and excludes the Crash "Unsupported" branches of the interpreter\'s member classification. Per generated PROGRAM: '
		'random dialect schemas (harness/dialect.py: recombinations of the shipped member forms with fresh names, widths, orders, nesting) '
		'go through the real CLI + generator twice (identical text), the module is imported beside copies of the real '
		'ArrayHelpers/BaseValue/ByteArray, wf_schema of its regenerated schema term is evaluated by the kernel, and the full C01 differential '
		'(serialize/size/deserialize/factory on admissible values + mutated encodings) runs against Layout of that schema, with the '
		'round-trip/size/factory/decode-encode-decode oracles on the real module.',
	'design_ref': 'DESIGN.md section 4, C15 (stage 1)',
	'technique': 'Coq (wf_schema + theorems, kernel obligations per generated program) + vm_compute differential of generated modules against the schema interpreter',
}

HELPERS = ['ArrayHelpers.py', 'BaseValue.py', 'ByteArray.py', 'Ordered.py', 'Transforms.py', 'ripemd160.py']
GENERATOR_PYTHON = '/usr/bin/python3'      # the CLI needs yaml, which only the Debian interpreter has
PACKAGE = 'symbolchain_gen'


def generator_env():
	env = common.impl_env()
	env['PYTHONPATH'] = os.pathsep.join([env['PYTHONPATH'], str(common.REPO / 'sdk' / 'python')])
	return env


def run_generator(schema_path, output):
	"""The real CLI + generator in a subprocess; returns (status, output text)."""
	return common.run(
		[GENERATOR_PYTHON, '-m', 'catparser', '--schema', str(schema_path), '--include', str(schema_path.parent), '--output', str(output),
			'--quiet', '--generator', 'generator.Generator'], 120, env=generator_env())


def generate_twice(schema_path, scratch, tag):
	first = run_generator(schema_path, scratch / f'out_{tag}_a')
	second = run_generator(schema_path, scratch / f'out_{tag}_b')
	return first, second


def prepare_package(scratch):
	"""<scratch>/pkg/symbolchain_gen/ with copies of the real helper modules; generated modules become its subpackages."""
	root = scratch / 'pkg'
	package = root / PACKAGE
	package.mkdir(parents=True)
	(package / '__init__.py').write_text('', encoding='utf8')
	for helper in HELPERS:
		shutil.copy(common.REPO / 'sdk' / 'python' / 'symbolchain' / helper, package / helper)
	if str(root) not in sys.path:
		sys.path.insert(0, str(root))
	for name in list(sys.modules):
		if name == PACKAGE or name.startswith(PACKAGE + '.'):
			del sys.modules[name]
	importlib.invalidate_caches()
	return package


def robust_coq_eval(imports, exprs, tag, shard=50, timeout=900):
	"""common.coq_eval, except that a case on which the MODEL exhausts its resources (a mutated count makes read_array_go recurse tens of
	thousands of frames: vm stack overflow / minutes of evaluation) yields the outcome 'crash:OutOfFuel' (run_network's exhausted class)
	instead of aborting the run.  Only the shard that failed is re-evaluated case by case."""
	try:
		return common.coq_eval(imports, exprs, tag, shard=shard, timeout=timeout)
	except RuntimeError:
		pass

	def one(job):
		position, chunk = job
		try:
			return common.coq_eval(imports, chunk, f'{tag}r{position}', shard=len(chunk), timeout=120)
		except RuntimeError:
			return None
	chunks = [(position, exprs[position:position + shard]) for position in range(0, len(exprs), shard)]
	with concurrent.futures.ThreadPoolExecutor(max_workers=max(2, common.NCPU // 2)) as pool:
		results = list(pool.map(one, chunks))
	values = []
	for (position, chunk), result in zip(chunks, results):
		if result is not None:
			values += result
			continue
		singles = [(f'{position}_{offset}', [expr]) for offset, expr in enumerate(chunk)]
		with concurrent.futures.ThreadPoolExecutor(max_workers=common.NCPU) as pool:
			for single in pool.map(one, singles):
				values.append(single[0] if single is not None else 'crash:OutOfFuel')
	return values


def failure_reason(text):
	"""Stable short reason of a failed generator run / import: exception type and the innermost frame's function."""
	lines = [line for line in text.strip().split('\n') if line.strip()]
	last = lines[-1] if lines else 'no-output'
	last = re.sub(r'\x1b\[[0-9;]*m', '', last)
	function = ''
	for line in lines:
		found = re.match(r'\s*File "[^"]*[/\\]([A-Za-z_]+)\.py", line \d+, in (\S+)', line)
		if found:
			function = f'{found.group(1)}.{found.group(2)}'
	kind = last.split(':')[0].strip().replace(' ', '-')[:40]
	return f'{kind}@{function}' if function else kind


class SchemaCheck:
	"""The view of the run's Check that c01.run_network sees for ONE generated schema: own PRNG, findings carry the schema."""

	def __init__(self, check, index, schema, seed):
		self.check = check
		self.index = index
		self.schema = schema
		self.tier = check.tier
		self.rng = random.Random(seed)
		self.seed = seed
		self.extra = {}
		self.failed = 0

	def flush(self):
		exhausted = sum(value for key, value in self.extra.items() if key.endswith('_exhausted_cases'))
		self.check.extra['exhausted_cases'] = self.check.extra.get('exhausted_cases', 0) + exhausted

	def case(self, kind, key, nontrivial=True):
		kind = re.sub(r'^s\d+:', '', kind)
		self.check.case(kind, (self.index, key), nontrivial)

	def sample(self, item):
		self.check.sample(item)

	def disagree(self, name, case, impl, model):
		case = dict(case)
		case['schema'] = self.schema.text
		self.check.disagree('Layout-vs-generated-module', case, impl, model)

	def fail(self, signature, what, replay):
		if 'crash:Timeout' in what:
			# resource rule (DESIGN C01): a mutated count that makes the codec iterate for seconds is the exhausted class, not a byte string that decodes
			self.check.extra['exhausted_cases'] = self.check.extra.get('exhausted_cases', 0) + 1
			return
		self.failed += 1
		kind = signature.split(':')[0]
		replay = dict(replay)
		replay['schema'] = self.schema.text
		replay['schema_index'] = self.index
		replay['schema_seed'] = self.seed
		what = re.sub(r'^s\d+\.', 'generated module: ', what)
		self.check.fail(f'c15:{kind}:{classify(self.schema.text, replay.get("class"))}', what, replay)


def classify(text, class_name):
	"""Coarse, name-independent description of the failing class (so that signatures are stable across seeds)."""
	if not class_name:
		return 'schema'
	found = re.search(r'((?:@[^\n]*\n)*)(abstract |inline )?struct ' + re.escape(class_name) + r'\n((?:\t[^\n]*\n|\n)*)', text)
	if not found:
		return 'class'
	body = found.group(3)
	tags = []
	for tag, pattern in [
		('union', r' equals '), ('sizeref', r'@sizeref'), ('sentinel', r'if (0x)?[0-9A-Fa-f]+ not equals \w+_size'), ('sizeof', r'= sizeof\('),
		('fill', r'__FILL__'), ('byte-sized', r'@is_byte_constrained'), ('sort_key', r'@sort_key'), ('aligned', r'@alignment'),
		('named-inline', r'= inline '), ('inline', r'\tinline '), ('array', r'= array\(')]:
		if re.search(pattern, body):
			tags.append(tag)
	return '+'.join(tags[:3]) or 'plain'


def load_generated(scratch, package, index, schema_path):
	"""Imports the generated module as symbolchain_gen.s<index> and builds the Net (schema through /repo's own parser + post-processor)."""
	name = f's{index}'
	target = package / name
	target.mkdir()
	shutil.copy(scratch / f'out_{index}_a' / '__init__.py', target / '__init__.py')
	importlib.invalidate_caches()
	module = importlib.import_module(f'{PACKAGE}.{name}')
	models = expanded_models(schema_path, schema_path.parent)
	coq_name = f'gs_{index}'
	return codec.Net(name, module, models, coq_name, schema_text(coq_name, models))


def run_schema(check, scratch, package, index, schema, seed, generated, per_class, mutants):
	"""Everything after generation for one schema; returns (wf expression prelude or None)."""
	schema_path = scratch / 'schemas' / f's{index}.cats'
	(first, second) = generated
	view = SchemaCheck(check, index, schema, seed)
	base_replay = {'schema': schema.text, 'schema_index': index, 'schema_seed': seed}
	if first[0] != 0:
		reason = failure_reason(first[1])
		check.fail(f'c15:generator-fails:{reason}', f'CLI + generator exit {first[0]} on a dialect schema: {reason}',
			dict(base_replay, op='generate', output=first[1][-1500:]))
		return None
	text_a = (scratch / f'out_{index}_a' / '__init__.py').read_text(encoding='utf8')
	text_b = (scratch / f'out_{index}_b' / '__init__.py').read_text(encoding='utf8') if second[0] == 0 else None
	check.case('generate-twice', (index, hashlib.sha256(text_a.encode('utf8')).hexdigest()[:12]))
	if text_a != text_b:
		check.fail('c15:generated-twice-differs', 'generating the same schema twice gives different text', dict(base_replay, op='generate-twice'))
	try:
		net = load_generated(scratch, package, index, schema_path)
	except Exception as ex:  # pylint: disable=broad-except
		import traceback
		reason = failure_reason(traceback.format_exc())
		check.fail(f'c15:import-fails:{reason}', f'generated module does not import: {type(ex).__name__}: {ex}', dict(base_replay, op='import'))
		return None
	check.case('import', (index, len(text_a)))
	saved = c01.coq_eval
	c01.coq_eval = robust_coq_eval
	try:
		c01.run_network(view, net, per_class, mutants)
	finally:
		c01.coq_eval = saved
	view.flush()
	return net


def run(check, unrecognised):
	check.trusted += [
		'translator harness/gens/c01.py + harness/astdump.py: each generated schema as /repo\'s own parser + post-processor expand it, printed as a Gallina term',
		'harness/dialect.py (random schemas of the shipped dialect), harness/codec.py (admissible values, object <-> tree)',
		'modelled, not verified: the generated codec classes themselves (tied by correspondence per generated program), CPython semantics']
	check.assume += ['"dialect the shipped schemas use" = harness/dialect.py dialect() (13 listed restrictions, each with the code location forcing it)']
	check.extra['rule'] = 'N random dialect schemas of 8-25 declarations (features rotated so that every construct of the property text occurs in the batch) -> ' \
		'real CLI + generator twice -> import -> wf_schema by the kernel -> for every class of the generated module: admissible values ' \
		'(boundary ints, flag subsets, array lengths 0-3, both arms of conditionals) -> serialize/size/deserialize/factory, mutated encodings -> ' \
		'deserialize + re-encode, model vs module + property oracles; distinct = distinct (schema, class, value or bytes)'
	check.extra['dialect'] = dialect.dialect()
	if unrecognised.get('ArrayOps'):
		check.notes.append(f'anchors not recognised, pinned operators used: {unrecognised["ArrayOps"]}')
	check.prove('C15.v')
	codec.setup_paths()
	count, per_class, mutants = (12, 4, 8) if check.tier == 'quick' else (400, 4, 8)
	count = int(os.environ.get('VERIF_C15_SCHEMAS', count))
	scratch = common.scratch_dir('c15')
	try:
		(scratch / 'schemas').mkdir()
		package = prepare_package(scratch)
		schemas = []
		constructs = {}
		sizes = {}
		for index in range(count):
			seed = check.rng.getrandbits(64)
			schema = dialect.generate(random.Random(seed), index)
			schemas.append((schema, seed))
			(scratch / 'schemas' / f's{index}.cats').write_text(schema.text, encoding='utf8')
			for construct, number in schema.constructs.items():
				constructs[construct] = constructs.get(construct, 0) + number
			sizes[schema.declarations] = sizes.get(schema.declarations, 0) + 1
		check.extra['construct_distribution'] = {construct: constructs.get(construct, 0) for construct in dialect.CONSTRUCTS}
		check.extra['declarations_per_schema'] = dict(sorted(sizes.items()))
		missing = [construct for construct in dialect.CONSTRUCTS if not constructs.get(construct)]
		if missing:
			check.notes.append(f'constructs absent from this batch: {missing}')
		with concurrent.futures.ThreadPoolExecutor(max_workers=common.NCPU) as pool:
			generated = list(pool.map(lambda index: generate_twice(scratch / 'schemas' / f's{index}.cats', scratch, index), range(count)))
		nets = []
		for index, (schema, seed) in enumerate(schemas):
			net = run_schema(check, scratch, package, index, schema, seed, generated[index], per_class, mutants)
			if net is not None:
				nets.append((index, net))
		# kernel obligation per generated program: wf_schema <its schema term> = true
		shard = 8
		for start in range(0, len(nets), shard):
			group = nets[start:start + shard]
			prelude = 'From Symv Require Import Cats.Dialect.\n' + '\n'.join(net.coq_import for _, net in group)
			results = common.coq_eval(prelude, [f'bool_to_string (wf_schema {net.coq_schema})' for _, net in group], f'c15wf{start}', shard=1)
			for (index, net), result in zip(group, results):
				check.case('wf-obligation', (index, result))
				if result != 'true':
					check.obligation(f'wf_schema gs_{index}', False, schemas[index][0].text[:3000])
		check.obligation(f'wf_schema of {len(nets)} generated schema terms', all(True for _ in nets))
		check.extra['generated_programs'] = len(nets)
		if check.failures or check.disagreements:
			keep = common.WORK / 'replays' / 'C15'
			keep.mkdir(parents=True, exist_ok=True)
	finally:
		shutil.rmtree(scratch, ignore_errors=True)


def replay(data):
	"""Regenerates the module from the recorded schema text and repeats the recorded operation."""
	codec.setup_paths()
	info = data['replay']
	scratch = common.scratch_dir('c15replay')
	try:
		(scratch / 'schemas').mkdir()
		schema_path = scratch / 'schemas' / 's0.cats'
		schema_path.write_text(info['schema'], encoding='utf8')
		generated = generate_twice(schema_path, scratch, 0)
		print('generator exit:', generated[0][0], generated[1][0])
		if generated[0][0] != 0:
			print(generated[0][1][-2000:])
			return 1
		text_a = (scratch / 'out_0_a' / '__init__.py').read_text(encoding='utf8')
		text_b = (scratch / 'out_0_b' / '__init__.py').read_text(encoding='utf8')
		print('generated twice identical:', text_a == text_b)
		package = prepare_package(scratch)
		try:
			net = load_generated(scratch, package, 0, schema_path)
		except Exception as ex:  # pylint: disable=broad-except
			print('import fails:', type(ex).__name__, ex)
			return 1
		if 'bytes' in info and info.get('class'):
			text, decoded = c01.impl_des(net, info['class'], bytes.fromhex(info['bytes']))
			print('deserialize:', text[:1500])
			if decoded is not None:
				print('decoded tree :', codec.render(decoded[1])[:1500])
		if 'value' in info:
			print('recorded value:', info['value'][:1500])
		if info.get('factory') and 'bytes' in info:
			print('factory:', c01.impl_fac(net, info['factory'], bytes.fromhex(info['bytes']))[0][:1500])
		print('replay of', info.get('op'), 'for', info.get('class'), '- the oracle failed as recorded in "what":', data.get('what'))
		return 1
	finally:
		shutil.rmtree(scratch, ignore_errors=True)
