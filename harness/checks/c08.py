"""C08: addresses derive from public keys per network and round-trip through base32 text."""
import base64
import datetime
import hashlib

from ..common import blit, coq_eval, zlit

MANIFEST = {
	'text': 'Address structure, validity on the own network / invalidity under any other identifier, the base32 round trip for all '
		'24-byte (Symbol form) and 25-byte (NEM) values (and for every multiple of 5; hence address_text_injective), totality of b32decode on the alphabet and the '
		'exact acceptance condition of is_valid_address_string are Qed theorems (Props/C08.v, closed under the global context) over '
		'the model of Network.py / symbol.Network / nem.Network / ByteArray and of CPython base64, parametric in the hashes and '
		'instantiated with the Gallina SHA3-256, Keccak-256 and RIPEMD-160; constants, operators, alphabet and shipped identifiers are '
		'regenerated from the source on every run; model and implementation are compared on seeded keys, networks, strings and bytes.',
	'design_ref': 'DESIGN.md section 4, C08',
	'technique': 'Coq proof over regenerated model + vm_compute correspondence with the Python implementation',
}

IMPORTS = 'From Symv Require Import Base.Bytes Base.PyOps Sym.Keccak Sym.Ripemd Sym.Base32 Sym.Address.'
ALPHABET = 'ABCDEFGHIJKLMNOPQRSTUVWXYZ234567'
SIZE = {'symbol': 24, 'nem': 25}
ENCODED_SIZE = {'symbol': 39, 'nem': 40}
CHECKSUM_SIZE = {'symbol': 3, 'nem': 4}
SHIPPED = {'mainnet': 0x68, 'testnet': 0x98}
COQ_FLAVOR = {'symbol': 'Symbol', 'nem': 'Nem'}
COQ_SHIPPED = {('symbol', 'mainnet'): 'sym_mainnet_id', ('symbol', 'testnet'): 'sym_testnet_id',
	('nem', 'mainnet'): 'nem_mainnet_id', ('nem', 'testnet'): 'nem_testnet_id'}
OUTSIDE = ['0', '1', '8', '9', '=', ' ', '-', 'a', 'z', 'n', '@', '[', '`', '{', '/', ':', 'é', 'А', '\U0001F600']
EPOCH = datetime.datetime(2021, 3, 16, 0, 6, 25, tzinfo=datetime.timezone.utc)


# --- the property, stated from its text with hashlib / base64 (never from the model)

def ref_hash(flavor, data):
	if flavor == 'symbol':
		return hashlib.sha3_256(data).digest()
	import sha3  # harness shim: original-padding Keccak
	return sha3.keccak_256(data).digest()


def ref_ripemd(data):
	return hashlib.new('ripemd160', data).digest()


def ref_ident(case_net):
	return SHIPPED[case_net] if isinstance(case_net, str) else case_net


def ref_address(flavor, ident, public_key):
	version = bytes([ident]) + ref_ripemd(ref_hash(flavor, public_key))
	return version + ref_hash(flavor, version)[:CHECKSUM_SIZE[flavor]]


def ref_text(addr):
	"""RFC 4648 base32 of the bytes, without padding characters (25 bytes need none, 24 bytes have one)."""
	return base64.b32encode(addr).decode('ascii').rstrip('=')


def ref_decode(flavor, text):
	return base64.b32decode(text + '=' if flavor == 'symbol' else text)


def ref_valid_bytes(flavor, ident, addr):
	return addr[0] == ident and addr[21:] == ref_hash(flavor, addr[:21])[:len(addr) - 21]


def ref_valid_string(flavor, ident, text):
	if len(text) != ENCODED_SIZE[flavor] or any(ch not in ALPHABET for ch in text):
		return False
	return ref_valid_bytes(flavor, ident, ref_decode(flavor, text))


# --- generators

def rand_bytes(rng, n):
	return bytes(rng.randrange(256) for _ in range(n))


def boundary_keys(rng):
	return [bytes(32), b'\xff' * 32, bytes([1] + [0] * 31), bytes([0] * 31 + [0x80]), bytes(range(32)), rand_bytes(rng, 32)]


def networks(rng):
	"""mainnet, testnet and 5 custom identifiers per flavor."""
	customs = [0x00, 0xFF]
	while len(customs) < 5:
		ident = rng.randrange(256)
		if ident not in customs and ident not in SHIPPED.values():
			customs.append(ident)
	return [(flavor, net) for flavor in ('symbol', 'nem') for net in ['mainnet', 'testnet'] + customs]


def replace_at(text, index, ch):
	return text[:index] + ch + text[index + 1:]


def string_cases(rng, flavor, net, others, count):
	ident = ref_ident(net)
	cases = []

	def add(text, why):
		cases.append({'kind': 'string', 'flavor': flavor, 'net': net, 'text': text, 'why': why})

	# deterministic boundary corpus: a valid address with one control / whitespace character (or two) after it, before it, inside it
	# (regular-expression anchors, strip() and split() slips); none of these has the network's length and alphabet
	valid = ref_text(ref_address(flavor, ident, rand_bytes(rng, 32)))
	for extra in ['\n', '\r', '\r\n', '\n\n', ' ', '\t', '\x0b', '\x0c', '\x00', '\x1f', '\x7f', '\x85', '\u2028', '\u00a0']:
		add(valid + extra, 'valid-plus-trailing-character')
		add(extra + valid, 'valid-after-leading-character')
		add(valid[:10] + extra + valid[10:], 'character-inside')
		add(valid[:-1] + extra, 'last-character-replaced')
	count += len(cases)   # the boundary corpus above comes on top of the `count` random ones
	# every style once, then at random
	styles = list(range(16))
	while len(cases) < count:
		addr = ref_address(flavor, ident, rand_bytes(rng, 32))
		text = ref_text(addr)
		style = styles.pop(0) if styles else rng.randrange(16)
		if style == 0:
			add(text, 'valid')
		elif style == 1:
			add(rng.choice([text[:-1], text[1:], text + 'A', text + text[-1], '', text[:8], text + '=', text + text, text[:-1] + '==', 'A']), 'wrong-length')
		elif style in (2, 3):
			index = rng.randrange(len(text))
			ch = text[index].lower() if style == 2 and text[index].isalpha() else rng.choice(OUTSIDE)
			add(replace_at(text, index, ch), 'outside-alphabet')
		elif style == 4:
			add(text.lower(), 'lower-case')
		elif style == 5:
			other = ref_ident(rng.choice(others))
			add(ref_text(ref_address(flavor, other, rand_bytes(rng, 32))), 'wrong-id')
		elif style == 6:
			mutated = bytearray(addr)
			mutated[rng.randrange(21, len(addr))] ^= 1 << rng.randrange(8)
			add(ref_text(bytes(mutated)), 'wrong-checksum')
		elif style == 7:
			mutated = bytearray(addr)
			mutated[rng.randrange(1, 21)] ^= 1 << rng.randrange(8)
			add(ref_text(bytes(mutated)), 'wrong-body')
		elif style in (8, 9, 10):
			index = rng.choice([0, 1, len(text) - 2, len(text) - 1, rng.randrange(len(text))])
			add(replace_at(text, index, rng.choice([ch for ch in ALPHABET if ch != text[index]])), 'single-char-mutation')
		elif style == 11 and flavor == 'symbol':
			value = ALPHABET.index(text[-1])
			add(text[:-1] + ALPHABET[(value & 0b11000) | rng.randrange(1, 8)], 'nonzero-trailing-bits')
		elif style == 12:
			add(''.join(rng.choice(ALPHABET) for _ in range(ENCODED_SIZE[flavor])), 'random-over-alphabet')
		elif style == 13:
			junk = bytes([ident]) + rand_bytes(rng, SIZE[flavor] - 1)
			add(ref_text(junk), 'right-id-random-rest')
		elif style == 14:
			# padded / oversized text: exercises base64.b32decode's padding arms through Address(str)
			add(rng.choice([text[:-2] + '==', text[:-4] + '====', text + 'AAAAAAAA', text[:-1] + '=' * 9, '=' * ENCODED_SIZE[flavor], text[:32]]), 'padding')
		elif style == 15:
			other_flavor = 'nem' if flavor == 'symbol' else 'symbol'
			add(ref_text(ref_address(other_flavor, ident, rand_bytes(rng, 32))), 'other-flavor-text')
	return cases


def bytes_cases(rng, flavor, net, others, count):
	ident = ref_ident(net)
	cases = []
	for index in range(count):
		addr = bytearray(ref_address(flavor, ident, rand_bytes(rng, 32)))
		style = index % 6
		why = 'valid'
		if style == 1:
			addr[0] = ref_ident(rng.choice(others))
			why = 'wrong-id'
		elif style == 2:
			addr[rng.randrange(21, len(addr))] ^= 1 << rng.randrange(8)
			why = 'wrong-checksum'
		elif style == 3:
			addr[rng.randrange(1, 21)] ^= 1 << rng.randrange(8)
			why = 'wrong-body'
		elif style == 4:
			addr = bytearray(rand_bytes(rng, SIZE[flavor]))
			why = 'random'
		elif style == 5:
			# an Address object of the other flavor handed to this network (duck typing); no claim in the property, correspondence only
			other_flavor = 'nem' if flavor == 'symbol' else 'symbol'
			version = bytes(addr[:21])
			addr = bytearray(version + ref_hash(flavor, version)[:CHECKSUM_SIZE[other_flavor]])
			if rng.randrange(2):
				addr[-1] ^= 0x10
			why = 'other-flavor-object'
		cases.append({'kind': 'bytes', 'flavor': flavor, 'net': net, 'addr': bytes(addr).hex(), 'why': why})
	return cases


def misplaced_checksum_cases(rng, flavor, net, count):
	"""Near misses of the checksum: for `count` key hashes, the addresses (as bytes and as text) whose identifier and key hash are right but
	whose checksum bytes are some OTHER bytes a sloppy comparison could be satisfied with -- the digest window starting at offset 1, 2, 3
	and the last window, the leading checksum bytes reversed / rotated, the leading bytes of the other flavor's hash, of the hash of the
	key hash without the identifier, and of the hash of the whole address.  Only the leading window of the hash of the first 21 bytes matches."""
	ident = ref_ident(net)
	size = CHECKSUM_SIZE[flavor]
	other_flavor = 'nem' if flavor == 'symbol' else 'symbol'
	cases = []
	for _ in range(count):
		version = bytes([ident]) + ref_ripemd(ref_hash(flavor, rand_bytes(rng, 32)))
		digest = ref_hash(flavor, version)
		genuine = digest[:size]
		variants = [(f'checksum-from-digest-offset-{offset}', digest[offset:offset + size]) for offset in (1, 2, 3, 32 - size)]
		variants += [
			('checksum-reversed', genuine[::-1]), ('checksum-rotated', genuine[1:] + genuine[:1]),
			('checksum-of-other-hash', ref_hash(other_flavor, version)[:size]), ('checksum-without-identifier', ref_hash(flavor, version[1:])[:size]),
			('checksum-of-whole-address', ref_hash(flavor, version + genuine)[:size])]
		for why, checksum in variants:
			if checksum == genuine:
				continue
			cases.append({'kind': 'bytes', 'flavor': flavor, 'net': net, 'addr': (version + checksum).hex(), 'why': why})
			cases.append({'kind': 'string', 'flavor': flavor, 'net': net, 'text': ref_text(version + checksum), 'why': why})
	return cases


def b32_cases(rng, count):
	cases = []
	for index in range(count):
		style = index % 8
		if style < 3:
			length = rng.choice([0, 1, 2, 3, 4, 5, 6, 9, 10, 24, 25, rng.randrange(41)])
			cases.append({'kind': 'b32enc', 'data': rand_bytes(rng, length).hex()})
			continue
		data = rand_bytes(rng, rng.choice([1, 2, 3, 4, 5, 7, 10, 24, 25, rng.randrange(1, 31)]))
		text = base64.b32encode(data).decode('ascii')
		if style == 4:
			text = rng.choice([text.rstrip('='), text + '=', text[:-1], '=' + text[1:], text[:-1] + '=', text + '=' * 8, text.replace('=', 'A')])
		elif style == 5:
			index2 = rng.randrange(len(text))
			text = replace_at(text, index2, rng.choice(OUTSIDE + ['=']))
		elif style == 6:
			text = text.lower()
		elif style == 7:
			text = ''.join(rng.choice(ALPHABET + '=') for _ in range(8 * rng.randrange(0, 4)))
		cases.append({'kind': 'b32dec', 'text': text})
	return cases


def gen_cases(rng, tier):
	quick = tier == 'quick'
	nets = networks(rng)
	cases = []
	for flavor, net in nets:
		others = [other for other_flavor, other in nets if other_flavor == flavor and ref_ident(other) != ref_ident(net)]
		keys = boundary_keys(rng)
		keys = [rng.choice(keys[:5]), keys[5]] + [rand_bytes(rng, 32) for _ in range(1 if quick else 58)]
		if not quick:
			keys += boundary_keys(rng)[:5]
		for key in keys:
			cases.append({'kind': 'derive', 'flavor': flavor, 'net': net, 'other': rng.choice(others), 'pk': key.hex()})
		cases += string_cases(rng, flavor, net, others, 20 if quick else 520)
		cases += bytes_cases(rng, flavor, net, others, 6 if quick else 90)
		cases += misplaced_checksum_cases(rng, flavor, net, 1 if quick else 12)
	for flavor in ('symbol', 'nem'):
		# identifiers that are not bytes: bytes([identifier]) raises; correspondence only
		for ident in (256, -1):
			cases.append({'kind': 'derive', 'flavor': flavor, 'net': ident, 'other': 'mainnet', 'pk': rand_bytes(rng, 32).hex()})
			cases.append({'kind': 'bytes', 'flavor': flavor, 'net': ident, 'addr': ref_address(flavor, 0x68, bytes(32)).hex(), 'why': 'identifier-not-a-byte'})
	cases += b32_cases(rng, 48 if quick else 1600)
	return cases


# --- implementation

def make_network(flavor, net):
	from symbolchain.nem.Network import Network as NemNetwork
	from symbolchain.symbol.Network import Network as SymbolNetwork
	cls = SymbolNetwork if flavor == 'symbol' else NemNetwork
	if net == 'mainnet':
		return cls.MAINNET
	if net == 'testnet':
		return cls.TESTNET
	return cls('custom', net, EPOCH)


def address_class(flavor):
	from symbolchain.nem.Network import Address as NemAddress
	from symbolchain.symbol.Network import Address as SymbolAddress
	return SymbolAddress if flavor == 'symbol' else NemAddress


def flag(value):
	if value is True:
		return 'T'
	if value is False:
		return 'F'
	return f'crash:not-a-bool:{value!r}'


def guarded(function):
	try:
		return function()
	except ValueError:   # includes binascii.Error
		return 'reject'
	except Exception as ex:  # pylint: disable=broad-except
		return f'crash:{type(ex).__name__}'


def impl(case):
	from symbolchain.CryptoTypes import PublicKey
	kind = case['kind']
	if kind == 'b32enc':
		return guarded(lambda: base64.b32encode(bytes.fromhex(case['data'])).decode('utf8'))
	if kind == 'b32dec':
		return guarded(lambda: base64.b32decode(case['text']).hex())
	flavor = case['flavor']
	network = make_network(flavor, case['net'])
	if kind == 'derive':
		other = make_network(flavor, case['other'])
		address = guarded(lambda: network.public_key_to_address(PublicKey(bytes.fromhex(case['pk']))))
		if isinstance(address, str):
			return address
		text = guarded(lambda: str(address))
		return '|'.join([
			address.bytes.hex(), text, guarded(lambda: address_class(flavor)(text).bytes.hex()),
			guarded(lambda: flag(network.is_valid_address(address))), guarded(lambda: flag(network.is_valid_address_string(text))),
			guarded(lambda: flag(other.is_valid_address(address))), guarded(lambda: flag(other.is_valid_address_string(text)))])
	if kind == 'string':
		text = case['text']
		return guarded(lambda: flag(network.is_valid_address_string(text))) + '|' + guarded(lambda: address_class(flavor)(text).bytes.hex())
	if kind == 'bytes':
		raw = bytes.fromhex(case['addr'])
		cls = address_class(flavor if len(raw) == SIZE[flavor] else ('nem' if flavor == 'symbol' else 'symbol'))
		return guarded(lambda: flag(network.is_valid_address(cls(raw))))
	raise ValueError(kind)


# --- model

def cps(text):
	return '[' + '; '.join(str(ord(c)) for c in text) + ']%Z'


def coq_ident(flavor, net):
	return COQ_SHIPPED[(flavor, net)] if isinstance(net, str) else zlit(net)


def model(case):
	kind = case['kind']
	if kind == 'b32enc':
		return f'text_to_string (b32encode {blit(bytes.fromhex(case["data"]))})'
	if kind == 'b32dec':
		return f'render_bytes (b32decode {cps(case["text"])})'
	flavor = COQ_FLAVOR[case['flavor']]
	ident = coq_ident(case['flavor'], case['net'])
	if kind == 'derive':
		return f'render_derive {flavor} {ident} {coq_ident(case["flavor"], case["other"])} {blit(bytes.fromhex(case["pk"]))}'
	if kind == 'string':
		return f'render_string {flavor} {ident} {cps(case["text"])}'
	if kind == 'bytes':
		return f'bool_to_string (is_valid_address_now {flavor} {ident} {blit(bytes.fromhex(case["addr"]))})'
	raise ValueError(kind)


PRELUDE = IMPORTS + '''
Open Scope string_scope.
Definition render_derive (fl : flavor) (id id' : Z) (pk : bytes) : string :=
  match public_key_to_address_now fl id pk with
  | Ok a =>
    let t := address_to_string fl a in
    to_hex a ++ "|" ++ text_to_string t ++ "|" ++ render_bytes (address_from_string fl t)
    ++ "|" ++ bool_to_string (is_valid_address_now fl id a) ++ "|" ++ render_bool (is_valid_address_string_now fl id t)
    ++ "|" ++ bool_to_string (is_valid_address_now fl id' a) ++ "|" ++ render_bool (is_valid_address_string_now fl id' t)
  | r => render_bytes r
  end.
Definition render_string (fl : flavor) (id : Z) (s : list Z) : string :=
  render_bool (is_valid_address_string_now fl id s) ++ "|" ++ render_bytes (address_from_string fl s).
'''


# --- property oracle

def oracle(case, out):
	kind = case['kind']
	if kind in ('b32enc', 'b32dec'):
		return None   # CPython's base64 is not under test; these cases only tie the base32 model to it
	flavor = case['flavor']
	if not isinstance(case['net'], str) and not 0 <= case['net'] <= 255:
		return None   # the property ranges over identifiers that are bytes
	ident = ref_ident(case['net'])
	if kind == 'derive':
		public_key = bytes.fromhex(case['pk'])
		addr = ref_address(flavor, ident, public_key)
		text = ref_text(addr)
		other = ref_ident(case['other'])
		expected = '|'.join([addr.hex(), text, addr.hex(), 'T', 'T', 'T' if other == ident else 'F', 'T' if other == ident else 'F'])
		if out == expected:
			return None
		names = ['address bytes', 'str(address)', 'Address(str(address))', 'is_valid_address on own network', 'is_valid_address_string on own network',
			'is_valid_address on a network with another identifier', 'is_valid_address_string on a network with another identifier']
		got = out.split('|')
		for name, have, want in zip(names, got, expected.split('|')):
			if have != want:
				return f'{flavor} network {case["net"]!r} (identifier {ident:#x}), public key {case["pk"]}: {name} is {have}, the definition gives {want}'
		return f'{flavor} network {case["net"]!r}, public key {case["pk"]}: observed {out}, the definition gives {expected}'
	if kind == 'string':
		text = case['text']
		verdict, parsed = out.split('|', 1)
		expected = 'T' if ref_valid_string(flavor, ident, text) else 'F'
		if verdict != expected:
			return f'{flavor} network {case["net"]!r} (identifier {ident:#x}): is_valid_address_string({text!r}) is {verdict}, ' \
				f'length/alphabet/identifier/checksum give {expected}'
		if len(text) == ENCODED_SIZE[flavor] and all(ch in ALPHABET for ch in text):
			want = ref_decode(flavor, text).hex()
			if parsed != want:
				return f'{flavor} Address({text!r}) is {parsed}, base32 decoding gives {want}'
		return None
	if kind == 'bytes':
		addr = bytes.fromhex(case['addr'])
		if len(addr) != SIZE[flavor]:
			return None
		expected = 'T' if ref_valid_bytes(flavor, ident, addr) else 'F'
		return None if out == expected else \
			f'{flavor} network {case["net"]!r} (identifier {ident:#x}): is_valid_address({case["addr"]}) is {out}, identifier/checksum give {expected}'
	raise ValueError(kind)


def signature(case):
	return f'{case["kind"]}:' + hashlib.sha256(repr(sorted(case.items())).encode('utf8')).hexdigest()[:12]


def label(case, out):
	kind = case['kind']
	if kind == 'derive':
		return f'derive:{case["flavor"]}' + (':reject' if out == 'reject' else '')
	if kind == 'string':
		return f'string:{case["flavor"]}:{case["why"]}:{out.split("|")[0]}'
	if kind == 'bytes':
		return f'bytes:{case["flavor"]}:{case["why"]}:{out}'
	return kind + (':reject' if out == 'reject' else '')


def run(check, unrecognised):
	check.trusted += [
		'translator harness/gen.py + harness/gens/c08.py (AddressOps: sizes, slice bounds, operators, return values, alphabet, shipped identifiers; '
		'names of called functions -- hashlib.sha3_256, sha3.keccak_256, ripemd160, base64.b32encode/b32decode -- are part of the pinned skeletons)',
		'CPython base64.b32encode/b32decode: modelled in Sym/Base32.v and sampled against the model (kinds b32enc/b32dec), not verified',
		'hashlib (sha3_256, ripemd160) and the sha3 shim (keccak_256) are used by the property oracle P and by the implementation; '
		'the model side uses the Gallina Keccak/SHA3 (Sym/Keccak.v) and RIPEMD-160 (Sym/Ripemd.v)',
		'modelled, not verified: bytes slicing/concatenation, bytes([i]), str membership test, ByteArray/PublicKey wrappers']
	check.assume += [
		'hashes are fixed functions of the stated output lengths (no collision-resistance claim)',
		'text is compared as code points; the alphabet is ASCII',
		'shipped identifiers are 0x68 (mainnet) and 0x98 (testnet) for both flavors (oracle); the theorems hold for every identifier 0..255']
	check.extra['rule'] = 'seeded: boundary + random 32-byte keys x {Symbol, NEM} x {mainnet, testnet, 5 custom identifiers incl. 0x00/0xFF}; per network ' \
		'strings (valid, wrong length, outside alphabet incl. lower case/0/1/8/9/=/non-ASCII, wrong id, wrong checksum/body, single-char mutation, ' \
		'non-zero trailing bits on Symbol, random, padded) and address bytes (valid, wrong id/checksum/body, random, other-flavor object); per network and ' \
		'key hash the near misses of the checksum as bytes and text (digest window at offset 1, 2, 3 and last, reversed, rotated, other flavor\'s hash, hash without ' \
		'identifier, hash of the whole address); ' \
		'base64 encode/decode samples; distinct = distinct (kind, arguments); non-trivial = all (each exercises hashing, decoding or a reject branch)'
	if unrecognised.get('AddressOps'):
		check.notes.append(f'anchors not recognised, pinned constants used for them: {unrecognised["AddressOps"]}')
	check.prove('C08.v')
	cases = gen_cases(check.rng, check.tier)
	outs = [impl(case) for case in cases]
	models = coq_eval(PRELUDE, [model(case) for case in cases], 'c08', shard=24 if check.tier == 'quick' else 160)
	for case, out, mod in zip(cases, outs, models):
		check.case(label(case, out), repr(sorted(case.items())))
		if out != mod:
			check.disagree('Address-model-vs-Network/Address/base64', case, out, mod)
		problem = oracle(case, out)
		if problem:
			check.fail(signature(case), problem, {'case': case, 'observed': out, 'how': 'run.py replay <this file>'})
	for case, out in list(zip(cases, outs))[::max(1, len(cases) // 6)]:
		check.sample({'case': case, 'observed': out})


def replay(data):
	case = data['replay']['case']
	out = impl(case)
	problem = oracle(case, out)
	print('observed:', out)
	print('property:', problem or 'holds')
	return 1 if problem else 0
