"""C16: hierarchical key derivation (Bip32.py) composes and matches SLIP-10; facades: account -> coin-type path, node -> key pair."""
import concurrent.futures
import hashlib
import hmac
import struct
import unicodedata

from .. import common
from ..common import blit, coq_eval, zlit

MANIFEST = {
	'text': 'Composition of derive_path over any split, every derive_one step = SLIP-10 hardened child (incl. 0x80000000 | i = 2^31 + i '
		'and the behaviour outside [0, 2^31)), root label, root from a mnemonic = root from its PBKDF2 seed, facade coin-type paths, '
		'NEM double reversal and "signing secret = node key bytes" for both facades are Qed theorems (Props/C16.v, closed under the '
		'global context) over the model of Bip32.py / BufferWriter.write_int / both facades / nem KeyPair, instantiated with the Gallina '
		'HMAC-SHA512 and with constants/operators regenerated from the source on every run; the Ed25519 public-key map is a parameter '
		'of the key-pair theorems. Model and implementation are compared on seeded seeds x curve labels x paths x split points, on '
		'facade paths and key pairs, and on one (quick) / three (thorough) mnemonics through the Gallina PBKDF2.  Added: '
		'derive_path_any_split (any number of consecutive segments), derive_path_two_splits_agree, derive_path_stepwise, '
		'symbol_account_node / nem_account_node (facade path + curve label + root + every level composed), account_paths_injective, '
		'hardened_index_bytes_injective.',
	'design_ref': 'DESIGN.md section 4, C16',
	'technique': 'Coq proof over regenerated model + vm_compute correspondence with the Python implementation',
}

IMPORTS = 'From Symv Require Import Base.Bytes Base.PyOps Sym.Hmac Sym.Bip32.'
PRELUDE = IMPORTS + '''
Open Scope string_scope.
Definition render_node (n : node) : string := to_hex (private_key n) ++ "|" ++ to_hex (chain_code n).
Definition render (r : result node) : string :=
  match r with Ok n => render_node n | Reject => "reject" | Crash k => "crash:" ++ k end.
Fixpoint commas (l : list Z) : string := match l with [] => "" | [x] => Z_to_string x | x :: r => Z_to_string x ++ "," ++ commas r end.
Definition ident (b : bytes) : bytes := b.
Definition render_bytes (r : result bytes) : string := match r with Ok b => to_hex b | Reject => "reject" | Crash k => "crash:" ++ k end.
(* observable private_key property | the bytes handed to the (parametric) public-key map *)
Definition render_symbol_pair (n : node) : string :=
  let kp := symbol_bip32_node_to_key_pair ident n in to_hex (signing_secret kp) ++ "|" ++ to_hex (public_key kp).
Definition render_nem_pair (n : node) : string :=
  match nem_bip32_node_to_key_pair ident n with
  | Ok kp => render_bytes (nem_key_pair_private_key kp) ++ "|" ++ to_hex (public_key kp)
  | Reject => "reject" | Crash k => "crash:" ++ k
  end.
'''

CURVES = ['ed25519', 'ed25519-keccak']
BOUNDARY = [0, 1, 2**31 - 1]
OUTSIDE = [2**31, 2**32 - 1, 2**32, -1, 2**31 + 5, 2**40, -(2**31)]
WORDS = ['abandon', 'ability', 'able', 'about', 'above', 'absent', 'absorb', 'abstract', 'absurd', 'abuse', 'access', 'zoo', 'wrong', 'vote']


# ---------------------------------------------------------------------------------------------------------------------
# independent statements of the property (P): SLIP-10 from the property text with hmac/hashlib, BIP39 seed by hand-rolled PBKDF2,
# Ed25519 public key (RFC 8032 arithmetic) with a pluggable 512-bit hash

def slip10_root(curve, seed):
	digest = hmac.new((curve + ' seed').encode('utf8'), seed, hashlib.sha512).digest()
	return digest[:32], digest[32:]


def slip10_child(key, chain, index):
	digest = hmac.new(chain, b'\x00' + key + struct.pack('>I', 0x80000000 + index), hashlib.sha512).digest()
	return digest[:32], digest[32:]


def slip10_path(curve, seed, path):
	key, chain = slip10_root(curve, seed)
	for index in path:
		key, chain = slip10_child(key, chain, index)
	return key, chain


def bip39_seed(mnemonic, passphrase):
	"""PBKDF2-HMAC-SHA512(password = NFKD(mnemonic), salt = 'mnemonic' + NFKD(passphrase), 2048 rounds, 64 bytes), one block."""
	password = unicodedata.normalize('NFKD', mnemonic).encode('utf8')
	salt = ('mnemonic' + unicodedata.normalize('NFKD', passphrase)).encode('utf8')
	block = hmac.new(password, salt + struct.pack('>I', 1), hashlib.sha512).digest()
	total = int.from_bytes(block, 'big')
	for _ in range(2047):
		block = hmac.new(password, block, hashlib.sha512).digest()
		total ^= int.from_bytes(block, 'big')
	return total.to_bytes(64, 'big')


_P = 2**255 - 19
_D = -121665 * pow(121666, _P - 2, _P) % _P
_BY = 4 * pow(5, _P - 2, _P) % _P


def _recover_x(y):
	xx = (y * y - 1) * pow(_D * y * y + 1, _P - 2, _P) % _P
	x = pow(xx, (_P + 3) // 8, _P)
	if (x * x - xx) % _P:
		x = x * pow(2, (_P - 1) // 4, _P) % _P
	return _P - x if x % 2 else x


_B = (_recover_x(_BY), _BY, 1, _recover_x(_BY) * _BY % _P)


def _add(p, q):
	a = (p[1] - p[0]) * (q[1] - q[0]) % _P
	b = (p[1] + p[0]) * (q[1] + q[0]) % _P
	c = 2 * p[3] * q[3] * _D % _P
	d = 2 * p[2] * q[2] % _P
	e, f, g, h = b - a, d - c, d + c, b + a
	return e * f % _P, g * h % _P, f * g % _P, e * h % _P


def _scalarmult_base_clamped(scalar_bytes):
	"""Encoded clamp(scalar) * B (what nacl.bindings.crypto_scalarmult_ed25519_base computes)."""
	scalar = int.from_bytes(scalar_bytes[:32], 'little')
	scalar &= (1 << 254) - 8
	scalar |= 1 << 254
	result, point = (0, 1, 1, 0), _B
	while scalar:
		if scalar & 1:
			result = _add(result, point)
		point = _add(point, point)
		scalar >>= 1
	zinv = pow(result[2], _P - 2, _P)
	x, y = result[0] * zinv % _P, result[1] * zinv % _P
	return (y | ((x & 1) << 255)).to_bytes(32, 'little')


def keccak_512(data):
	import sha3  # harness shim (pure Python original-padding Keccak)
	return sha3.keccak_512(data).digest()


def ed25519_public_key(variant, secret):
	hashed = hashlib.sha512(secret).digest() if variant == 'symbol' else keccak_512(secret)
	return _scalarmult_base_clamped(hashed[:32])


def self_test():
	seed = bytes.fromhex('000102030405060708090a0b0c0d0e0f')   # SLIP-10 test vector 1 for ed25519
	assert slip10_path('ed25519', seed, [])[0].hex() == '2b4be7f19ee27bbf30c667b642d5f4aa69fd169872f8fc3059c08ebae2eb19e7'
	assert slip10_path('ed25519', seed, [0])[0].hex() == '68e0fe46dfb67e368c75379acec591dad19df3cde26e63b93a8e704f1dade7a3'
	assert slip10_path('ed25519', seed, [0])[1].hex() == '8b59aa11380b624e81507a27fedda59fea6d0b779a778918a2fd3590e16e9c69'
	assert slip10_path('ed25519', seed, [0, 1])[0].hex() == 'b1d0bad404bf35da785a64ca1ac54b2617211d2777696fbffaf208f746ae84f2'
	assert ed25519_public_key('symbol', slip10_path('ed25519', seed, [0])[0]).hex() == '8c8a13df77a28f3445213a0f432fde644acaa215fc72dcdf300d5efaa85d350c'
	assert ed25519_public_key('symbol', slip10_path('ed25519', seed, [0, 1])[0]).hex() == '1932a5270f335bed617d5b935c80aedb1a35bd9fc1e31acafd5372c30f5c1187'
	# BIP39 reference vector (Trezor): 'abandon' x 11 + 'about', passphrase TREZOR
	assert bip39_seed('abandon ' * 11 + 'about', 'TREZOR').hex().startswith('c55257c360c07c72029aebc1b53c05ed0362ada38ead3e3e9efa3708e5349553')
	assert bip39_seed('abandon ' * 11 + 'about', 'TREZOR') == hashlib.pbkdf2_hmac('sha512', ('abandon ' * 11 + 'about').encode(), b'mnemonicTREZOR', 2048)


# ---------------------------------------------------------------------------------------------------------------------
# generators

def rand_bytes(rng, n):
	return bytes(rng.randrange(256) for _ in range(n))


def rand_index(rng):
	return rng.choice(BOUNDARY + [rng.randrange(2**31), rng.randrange(2**31), rng.randrange(100), 44, 4343, 2**31 - 2, 2**30, 255, 256, 65536])


def rand_path(rng, length):
	path = [rand_index(rng) for _ in range(length)]
	if length and rng.randrange(3) == 0:
		path[rng.randrange(length)] = rng.choice(BOUNDARY)
	return path


def rand_seed(rng, k):
	size = [16, 32, 64][k % 3]
	style = rng.randrange(6)
	if style == 0:
		return bytes(size)
	if style == 1:
		return b'\xff' * size
	return rand_bytes(rng, size)


def rand_mnemonic(rng):
	return ' '.join(rng.choice(WORDS) for _ in range(rng.choice([12, 15, 18, 24])))


def rand_passphrase(rng, ascii_only):
	alphabet = 'abcXYZ019 !#-_' if ascii_only else 'abcXYZ019 !#-_éüΩﬁあ\U0001F600'
	return ''.join(rng.choice(alphabet) for _ in range(rng.choice([0, 0, 1, 6, 13])))


def rand_secret_phrase(rng, k):
	return f'pw{k}' + rand_passphrase(rng, k % 2 == 0)


def rand_session(rng, k):
	"""A sequence of calls on ONE Bip32 factory instance: the same mnemonic under different passphrases (incl. the empty one) in
	varying order, different mnemonics under one passphrase, repeats, from_seed and derivations in between.  Ops:
	['mnemonic', m, passphrase] / ['seed', hex] make a new current root; ['derive', path] derives from the current node (twice, and
	index by index) without moving; ['descend', path] moves the current node."""
	mnemonics = [rand_mnemonic(rng) for _ in range(3)]
	phrases = ['', rand_secret_phrase(rng, 1), rand_secret_phrase(rng, 2)]
	rng.shuffle(phrases)
	style = k % 5

	def mnemonic(i, j):
		return ['mnemonic', mnemonics[i], phrases[j]]

	def seed():
		return ['seed', rand_seed(rng, rng.randrange(3)).hex()]

	def derive():
		return [rng.choice(['derive', 'derive', 'descend']), rand_path(rng, rng.randrange(4))]

	if style == 0:     # one mnemonic, every passphrase, then the first again
		ops = [mnemonic(0, 0), mnemonic(0, 1), mnemonic(0, 2), mnemonic(0, 0)]
	elif style == 1:   # different mnemonics under one passphrase, then one of them under another passphrase
		ops = [mnemonic(0, 0), mnemonic(1, 0), mnemonic(2, 0), mnemonic(1, 1), mnemonic(1, 0)]
	elif style == 2:   # interleaved with from_seed and derivations
		ops = [seed(), derive(), mnemonic(0, 0), derive(), seed(), mnemonic(0, 1), derive(), mnemonic(0, 0), derive()]
	elif style == 3:   # repeated identical calls
		ops = [mnemonic(0, 1), mnemonic(0, 1), derive(), derive(), mnemonic(0, 2), mnemonic(0, 2), mnemonic(0, 1)]
	else:
		ops = [seed()]
	for _ in range(rng.randrange(0, 4) if style != 4 else rng.randrange(6, 11)):
		choice = rng.randrange(6)
		if choice < 3:
			ops.append(mnemonic(rng.randrange(2), rng.randrange(3)))
		elif choice == 3:
			ops.append(seed())
		else:
			ops.append(derive())
	return {'kind': 'session', 'curve': CURVES[k % 2], 'style': style, 'ops': ops}


def related_paths(rng):
	"""Paths from ONE node whose textual spellings overlap although their components differ: a component that is a decimal prefix /
	extension of another (43 and 4343, 1 and 10..19, 4 and 44), components that concatenate to the same digits ([1, 23], [12, 3], [123]),
	a path and its own prefixes / extensions.  Each is a separate SLIP-10 chain."""
	style = rng.randrange(5)
	if style == 0:      # one mnemonic for both chains: NEM, Symbol and testnet accounts from one root
		account = rng.choice([0, 1, rng.randrange(100)])
		paths = [[44, 43, account, 0, 0], [44, 4343, account, 0, 0], [44, 1, account, 0, 0], [44, 434, account, 0, 0], [4, 43, account, 0, 0]]
	elif style == 1:    # a wallet with more than ten accounts
		coin = rng.choice([4343, 43, 1])
		first = rng.randrange(1, 10)
		paths = [[44, coin, account, 0, 0] for account in (first, 10 * first + rng.randrange(10), 100 * first + rng.randrange(100), first, 0, 10 * first)]
	elif style == 2:    # decimal prefix / extension of a random component at a random depth
		base = rand_path(rng, rng.randrange(1, 5))
		where = rng.randrange(len(base))
		value = base[where] if base[where] else 7
		variants = [value, (value * 10 + rng.randrange(10)) % 2**31, int(str(value)[:-1] or '0'), int(str(value) + str(value)) % 2**31]
		paths = [base[:where] + [variant] + base[where + 1:] for variant in variants]
	elif style == 3:    # the same digits cut differently
		digits = ''.join(rng.choice('123456789') for _ in range(rng.randrange(3, 7)))
		cuts = sorted(rng.sample(range(1, len(digits)), 2))
		paths = [[int(digits)], [int(digits[:cuts[0]]), int(digits[cuts[0]:])], [int(digits[:cuts[1]]), int(digits[cuts[1]:])],
			[int(digits[:cuts[0]]), int(digits[cuts[0]:cuts[1]]), int(digits[cuts[1]:])]]
	else:               # prefixes and extensions of one path
		base = rand_path(rng, rng.randrange(2, 6))
		paths = [base, base[:-1], base + [rng.randrange(10)], base[:1], base]
	rng.shuffle(paths)
	return paths


def related_session(rng, k):
	"""One root (or one inner node) derives a family of related paths, some of them twice."""
	paths = related_paths(rng)
	ops = [['seed', rand_seed(rng, k).hex()]]
	if k % 3 == 2:
		ops.append(['descend', rand_path(rng, 1)])
	for path in paths + paths[:2]:
		ops.append(['derive', path])
	return {'kind': 'session', 'curve': CURVES[k % 2], 'style': 'related-paths', 'ops': ops}


def zero_byte_accounts(rng, facade, network, seed):
	"""Accounts (searched upwards from a seeded start with the SLIP-10 reference) whose node key has 0x00 as its last / its first byte."""
	coin = {('symbol', 'mainnet'): 4343, ('nem', 'mainnet'): 43}.get((facade, network), 1)
	curve = 'ed25519' if facade == 'symbol' else 'ed25519-keccak'
	key, chain = slip10_path(curve, seed, [44, coin])
	found = {}
	account = rng.randrange(2**20)
	for _ in range(20000):
		node_key = key, chain
		for index in (account, 0, 0):
			node_key = slip10_child(node_key[0], node_key[1], index)
		if node_key[0][-1] == 0:
			found.setdefault('trailing', account)
		if node_key[0][0] == 0:
			found.setdefault('leading', account)
		if len(found) == 2:
			break
		account += 1
	return found


PATH_EDITS = ['none', 'set-address-index', 'append', 'pop', 'set-account', 'clear', 'none', 'reverse']


def edit_path(path, edit):
	"""What a caller may do with a path it was given (its own list, by the function's contract)."""
	if edit == 'set-address-index':
		path[4] = 9
	elif edit == 'append':
		path.append(7)
	elif edit == 'pop':
		path.pop()
	elif edit == 'set-account':
		path[2] = 2**31 - 1
	elif edit == 'clear':
		path.clear()
	elif edit == 'reverse':
		path.reverse()


def path_session(rng, k):
	"""ONE facade is asked for the paths of several accounts; every returned list is kept, some are edited by the caller."""
	steps = [
		{'account': rng.choice([0, 1, 2, 7, rng.randrange(2**31)]), 'then': 'none' if index == 0 else rng.choice(PATH_EDITS)}
		for index in range(rng.randrange(2, 7))]
	if k % 2:
		steps[0]['then'] = rng.choice(PATH_EDITS[1:6])
	return {'kind': 'pathsession', 'facade': ('symbol', 'nem')[k % 2], 'network': ('mainnet', 'testnet')[(k // 2) % 2], 'steps': steps}


def gen_cases(rng, tier):
	quick = tier == 'quick'
	cases = []
	# derive: every length 0..8, every (seed size, curve) combination; the implementation side also tries ALL split points
	lengths = list(range(9)) if quick else [k % 9 for k in range(330)]
	for k, length in enumerate(lengths):
		cases.append({
			'kind': 'derive', 'curve': CURVES[k % 2], 'seed': rand_seed(rng, k // 2 + (k % 2)).hex(), 'path': rand_path(rng, length)})
	# the three boundary indices, each alone and all together, on both curves
	for k, path in enumerate([[0], [1], [2**31 - 1]] if quick else [[0], [1], [2**31 - 1], BOUNDARY, BOUNDARY[::-1], [0, 0], [2**31 - 1] * 3]):
		cases.append({'kind': 'derive', 'curve': CURVES[k % 2], 'seed': rand_seed(rng, k).hex(), 'path': path})
	# split evaluated in the model as well: derive p, then q from the node reached
	for k in range(6 if quick else 200):
		length = 1 + (k % 4 if quick else k % 8)
		path = rand_path(rng, length)
		cases.append({
			'kind': 'split', 'curve': CURVES[k % 2], 'seed': rand_seed(rng, k).hex(), 'path': path, 'at': rng.randrange(length + 1)})
	# paths of any length: far longer than the interpreter's recursion limit, derived in one call, from the middle and index by index
	for k in range(2 if quick else 6):
		path = rand_path(rng, 1200 + 150 * k)
		for at in (len(path), len(path) // 2, 1):
			cases.append({'kind': 'split', 'curve': CURVES[k % 2], 'seed': rand_seed(rng, k).hex(), 'path': path, 'at': at, 'nomodel': True})
	# indices outside [0, 2^31): already-hardened (accepted, not hardened twice) and unwritable ones (OverflowError)
	for k in range(4 if quick else 50):
		path = rand_path(rng, rng.randrange(3))
		path.insert(rng.randrange(len(path) + 1), OUTSIDE[k % len(OUTSIDE)])
		cases.append({'kind': 'outside', 'curve': CURVES[k % 2], 'seed': rand_seed(rng, k).hex(), 'path': path})
	# roots under the default curve label of Bip32() and under each facade's BIP32_CURVE_NAME
	for k in range(3 if quick else 30):
		cases.append({'kind': 'root', 'label': ('default', 'symbol', 'nem')[k % 3], 'seed': rand_seed(rng, k // 3).hex()})
	# facade paths
	# '#copy': the facade is given a Network OBJECT equal to the shipped one but not the same object (deep copy / rebuilt from its fields)
	names = ['mainnet', 'testnet', 'mainnet#copy', 'testnet#copy']
	accounts = BOUNDARY + [2, 7, rng.randrange(2**31), rng.randrange(2**31)]
	if not quick:
		accounts += [rng.randrange(2**31) for _ in range(40)] + [2**31, 2**32, -1]
		names += ['Mainnet', 'mainnet ', '', 'mainne', 'mainnett', 'private', 'nainnet']
	for facade in ('symbol', 'nem'):
		for name in names:
			for account in (accounts if name in ('mainnet', 'testnet') else accounts[:3]):
				cases.append({'kind': 'path', 'facade': facade, 'network': name, 'account': account})
	# node -> key pair (the node is made by the implementation; the model receives its bytes)
	for k in range(8 if quick else 300):
		facade = ('symbol', 'nem')[k % 2]
		cases.append({
			'kind': 'keypair', 'facade': facade, 'network': ('mainnet', 'testnet')[(k // 2) % 2], 'seed': rand_seed(rng, k).hex(),
			'account': rng.choice(BOUNDARY + [rng.randrange(2**31)])})
	# mnemonics: the implementation against the oracle for many, the Gallina PBKDF2 for very few (about a minute each)
	for k in range(1 if quick else 3):
		cases.append({
			'kind': 'mnemonic', 'curve': CURVES[k % 2], 'mnemonic': rand_mnemonic(rng), 'passphrase': rand_passphrase(rng, True), 'in_model': True})
	for k in range(40 if quick else 400):
		cases.append({
			'kind': 'mnemonic', 'curve': CURVES[k % 2], 'mnemonic': rand_mnemonic(rng) if k % 5 else rand_passphrase(rng, False),
			'passphrase': rand_passphrase(rng, k % 3 == 0), 'in_model': False})
	# mnemonics are opaque strings: white space at either end, other separators and doubled blanks are part of the PBKDF2 password
	for k in range(10 if quick else 60):
		words = rand_mnemonic(rng).split(' ')
		variant = [
			' '.join(words) + '\n', ' ' + ' '.join(words), ' '.join(words) + ' ', '\t'.join(words), '\n'.join(words), '  '.join(words),
			' '.join(words[:3]) + '  ' + ' '.join(words[3:]), ' '.join(words) + '\r\n', '\u3000'.join(words), ' '.join(words).upper()][k % 10]
		cases.append({
			'kind': 'mnemonic', 'curve': CURVES[k % 2], 'mnemonic': variant, 'passphrase': rand_passphrase(rng, k % 3 == 0), 'in_model': False})
	# call sequences on one factory instance (state kept between calls must not leak from one call into the next)
	for k in range(15 if quick else 200):
		cases.append(rand_session(rng, k))
	# one node, a family of paths whose spellings overlap (decimal prefixes, re-cut digits, prefixes / extensions)
	for k in range(10 if quick else 150):
		cases.append(related_session(rng, k))
	# node keys with a zero byte at either end (fixed-width handling of the 32 key bytes), both facades and networks
	for k in range(1 if quick else 6):
		seed = rand_seed(rng, 2 + 3 * k)
		for facade in ('symbol', 'nem'):
			for network in ('mainnet', 'testnet'):
				for where, account in sorted(zero_byte_accounts(rng, facade, network, seed).items()):
					cases.append({'kind': 'keypair', 'facade': facade, 'network': network, 'seed': seed.hex(), 'account': account, 'zero_byte': where})
	# one facade asked several times, the returned lists kept and edited
	for k in range(12 if quick else 120):
		cases.append(path_session(rng, k))
	return cases


# ---------------------------------------------------------------------------------------------------------------------
# implementation

_FACADES = {}
_NACL = {}
_FACTORIES = {}   # one Bip32 factory per curve label for the whole run: SDK objects are reused across cases, as applications do
_HISTORY = {}     # from_mnemonic calls already served by each shared factory (so that a failure can be replayed as a session)


def factory_for(curve):
	"""The shared Bip32 factory of a curve label (None = Bip32() with its default label)."""
	from symbolchain.Bip32 import Bip32
	if curve not in _FACTORIES:
		_FACTORIES[curve] = Bip32() if curve is None else Bip32(curve)
		_HISTORY[curve] = []
	return _FACTORIES[curve]


def facade_for(kind, name):
	"""The real facade for a network name (a custom network object when the name is not a shipped one)."""
	import datetime
	if (kind, name) not in _FACADES:
		if kind == 'symbol':
			from symbolchain.facade.SymbolFacade import SymbolFacade
			from symbolchain.symbol.Network import Network
			network = name if name in ('mainnet', 'testnet') else Network(name, 0x68, datetime.datetime(2021, 3, 16, tzinfo=datetime.timezone.utc))
			if name.endswith('#copy'):
				import copy
				network = copy.deepcopy(getattr(Network, name[:-5].upper()))
			_FACADES[(kind, name)] = SymbolFacade(network)
		else:
			ensure_nem_key_pair_usable()
			from symbolchain.facade.NemFacade import NemFacade
			from symbolchain.nem.Network import Network
			network = name if name in ('mainnet', 'testnet') else Network(name, 0x68, datetime.datetime(2015, 3, 29, tzinfo=datetime.timezone.utc))
			if name.endswith('#copy'):
				import copy
				network = copy.deepcopy(getattr(Network, name[:-5].upper()))
			_FACADES[(kind, name)] = NemFacade(network)
	return _FACADES[(kind, name)]


def ensure_nem_key_pair_usable():
	"""nem.KeyPair.__init__ needs nacl.bindings.crypto_scalarmult_ed25519_base; when the sandbox only has the placeholder shim
	(raises NotImplementedError) the missing library function -- not any code of /repo -- is supplied from this file."""
	if _NACL:
		return _NACL['how']
	import symbolchain.nem.KeyPair as nem_key_pair
	try:
		nem_key_pair.crypto_scalarmult_ed25519_base(bytes([1] * 32))
		_NACL['how'] = 'nacl.bindings of the sandbox'
	except NotImplementedError:
		nem_key_pair.crypto_scalarmult_ed25519_base = _scalarmult_base_clamped
		_NACL['how'] = 'placeholder nacl shim: crypto_scalarmult_ed25519_base supplied by harness/checks/c16.py'
	return _NACL['how']


def show_node(node):
	return f'{node.private_key.bytes.hex()}|{bytes(node.chain_code).hex()}'


def guarded(function):
	try:
		return function()
	except ValueError:
		return 'reject'
	except Exception as ex:  # pylint: disable=broad-except
		return f'crash:{type(ex).__name__}'


def impl_derive(curve, seed_hex, parts):
	"""Root from the seed, then derive_path along each part in sequence."""
	def go():
		node = factory_for(curve).from_seed(bytes.fromhex(seed_hex))
		for part in parts:
			node = node.derive_path(part)
		return show_node(node)
	return guarded(go)


def impl_key_pair(case):
	facade = facade_for(case['facade'], case['network'])
	node = factory_for(facade.BIP32_CURVE_NAME).from_seed(bytes.fromhex(case['seed'])).derive_path(facade.bip32_path(case['account']))
	key_pair = facade.bip32_node_to_key_pair(node)
	return node, f'{key_pair.private_key.bytes.hex()}|{key_pair.public_key.bytes.hex()}'


def impl(case):
	kind = case['kind']
	if kind in ('derive', 'outside'):
		return impl_derive(case['curve'], case['seed'], [case['path']])
	if kind == 'split':
		return impl_derive(case['curve'], case['seed'], [case['path'][:case['at']], case['path'][case['at']:]])
	if kind == 'root':
		def root():
			factory = factory_for(None if case['label'] == 'default' else type(facade_for(case['label'], 'testnet')).BIP32_CURVE_NAME)
			return show_node(factory.from_seed(bytes.fromhex(case['seed'])))
		return guarded(root)
	if kind == 'path':
		return guarded(lambda: ','.join(str(v) for v in facade_for(case['facade'], case['network']).bip32_path(case['account'])))
	if kind == 'keypair':
		def go():
			node, shown = impl_key_pair(case)
			case['node'] = show_node(node)   # recorded for the model side and for replays
			return shown
		return guarded(go)
	if kind == 'mnemonic':
		factory = factory_for(case['curve'])
		case['history'] = list(_HISTORY[case['curve']])   # what this shared factory had served before (kept for the replay)
		_HISTORY[case['curve']].append(['mnemonic', case['mnemonic'], case['passphrase']])
		return guarded(lambda: show_node(factory.from_mnemonic(case['mnemonic'], case['passphrase'])))
	if kind == 'session':
		return impl_session(case)
	if kind == 'pathsession':
		return impl_path_session(case)
	raise ValueError(kind)


def impl_path_session(case):
	"""A fresh facade; per step the list as returned, at the end every kept list as it is then."""
	def go():
		if case['facade'] == 'symbol':
			from symbolchain.facade.SymbolFacade import SymbolFacade
			facade = SymbolFacade(case['network'])
		else:
			ensure_nem_key_pair_usable()
			from symbolchain.facade.NemFacade import NemFacade
			facade = NemFacade(case['network'])
		kept, shown = [], []
		for step in case['steps']:
			path = facade.bip32_path(step['account'])
			shown.append(','.join(str(v) for v in path))
			kept.append(path)
			try:
				edit_path(path, step['then'])
			except IndexError:
				pass    # nothing to pop / overwrite in the caller's list
		return ';'.join(shown) + '#' + ';'.join(','.join(str(v) for v in path) for path in kept)
	return guarded(go)


def impl_session(case):
	"""Runs the ops on one fresh Bip32 factory; one observation per op, joined with ';'."""
	from symbolchain.Bip32 import Bip32
	state = {}

	def step(op):
		if 'factory' not in state:
			state['factory'] = Bip32(case['curve'])
		if op[0] == 'mnemonic':
			state['node'] = state['factory'].from_mnemonic(op[1], op[2])
			return show_node(state['node'])
		if op[0] == 'seed':
			state['node'] = state['factory'].from_seed(bytes.fromhex(op[1]))
			return show_node(state['node'])
		node = state['node']
		before = show_node(node)
		first = show_node(node.derive_path(op[1]))
		second = show_node(node.derive_path(list(op[1])))
		stepwise = node
		for index in op[1]:
			stepwise = stepwise.derive_one(index)
		after = show_node(node)
		if not first == second == show_node(stepwise) or before != after:
			return f'unstable(first {first}, again {second}, index by index {show_node(stepwise)}, node before {before}, node after {after})'
		if op[0] == 'descend':
			state['node'] = stepwise
		return first
	return ';'.join(guarded(lambda op=op: step(op)) for op in case['ops'])


# ---------------------------------------------------------------------------------------------------------------------
# model

def zlist(values):
	return '[' + '; '.join(zlit(v) for v in values) + ']%Z' if values else '(@nil Z)'


def root_expr(case):
	return f'(from_seed_sha512 {blit(case["curve"].encode("utf8"))} {blit(bytes.fromhex(case["seed"]))})'


def model(case):
	"""Gallina expression (type string) or None when the case has no model side."""
	kind = case['kind']
	if kind in ('derive', 'outside'):
		return f'render (derive_path_sha512 {zlist(case["path"])} {root_expr(case)})'
	if kind == 'split':
		if case.get('nomodel'):
			return None
		first, second = case['path'][:case['at']], case['path'][case['at']:]
		return f'render (bind (derive_path_sha512 {zlist(first)} {root_expr(case)}) (derive_path_sha512 {zlist(second)}))'
	if kind == 'root':
		label = {'default': 'default_curve', 'symbol': 'sym_curve', 'nem': 'nem_curve'}[case['label']]
		return f'render_node (from_seed_sha512 {label} {blit(bytes.fromhex(case["seed"]))})'
	if kind == 'path':
		function = 'symbol_bip32_path' if case['facade'] == 'symbol' else 'nem_bip32_path'
		return f'commas ({function} {blit(case["network"].replace("#copy", "").encode("utf8"))} {zlit(case["account"])})'
	if kind == 'keypair':
		if 'node' not in case:
			return None
		key, chain = case['node'].split('|')
		node = f'{{| private_key := {blit(bytes.fromhex(key))}; chain_code := {blit(bytes.fromhex(chain))} |}}'
		return f'{"render_symbol_pair" if case["facade"] == "symbol" else "render_nem_pair"} {node}'
	if kind in ('session', 'pathsession'):
		return None
	if kind == 'mnemonic':
		if not case['in_model']:
			return None
		return f'render_node (from_mnemonic_sha512_fast {blit(case["curve"].encode("utf8"))} {blit(case["mnemonic"].encode("utf8"))} ' \
			f'{blit(case["passphrase"].encode("utf8"))})'
	raise ValueError(kind)


def model_cost(case):
	"""HMAC-SHA512 evaluations the model expression costs (each 0.1-0.2 s under vm_compute)."""
	if case['kind'] in ('derive', 'outside', 'split'):
		return 1 + len(case['path'])
	return 1 if case['kind'] == 'root' else 0


def agree(case, out, mod):
	"""Model/implementation agreement.  For key pairs the second component of the model output is the secret handed to the
	parametric public-key map; the implementation shows the public key, so the map (Ed25519 with the network's hash) is applied here."""
	if case['kind'] == 'keypair' and '|' in mod and '|' in out:
		model_private, model_secret = mod.split('|')
		return out == f'{model_private}|{ed25519_public_key(case["facade"], bytes.fromhex(model_secret)).hex()}'
	return out == mod


# ---------------------------------------------------------------------------------------------------------------------
# property oracle (from the property text, independent of the model)

def oracle(case, out):
	kind = case['kind']
	if kind in ('derive', 'split'):
		path, seed = case['path'], bytes.fromhex(case['seed'])
		expected = '|'.join(part.hex() for part in slip10_path(case['curve'], seed, path))
		if out != expected:
			return f'derive_path {path} from seed {case["seed"]} on {case["curve"]!r}: {out}, SLIP-10 hardened derivation gives {expected}'
		if kind == 'derive':
			for at in range(len(path) + 1):
				two_steps = impl_derive(case['curve'], case['seed'], [path[:at], path[at:]])
				if two_steps != out:
					return f'derive_path {path[:at]} then {path[at:]} gives {two_steps}, the whole path gives {out}'
			one_by_one = impl_derive(case['curve'], case['seed'], [[index] for index in path])
			if one_by_one != out:
				return f'deriving {path} one index at a time gives {one_by_one}, the whole path gives {out}'
		return None
	if kind == 'root':
		curve = 'ed25519-keccak' if case['label'] == 'nem' else 'ed25519'
		expected = '|'.join(part.hex() for part in slip10_root(curve, bytes.fromhex(case['seed'])))
		return None if out == expected else f'root of seed {case["seed"]} under the {case["label"]} curve label: {out}, HMAC-SHA512 keyed by {curve + " seed"!r} gives {expected}'
	if kind == 'outside':
		return None   # the property speaks about indices in [0, 2^31) only; behaviour outside is compared with the model
	if kind == 'path':
		if case['network'].replace('#copy', '') not in ('mainnet', 'testnet'):
			return None
		coin = {('symbol', 'mainnet'): 4343, ('nem', 'mainnet'): 43}.get((case['facade'], case['network'].replace('#copy', '')), 1)
		expected = f'44,{coin},{case["account"]},0,0'
		return None if out == expected else f'{case["facade"]} {case["network"]} bip32_path({case["account"]}) = [{out}], expected [{expected}]'
	if kind == 'keypair':
		coin = {('symbol', 'mainnet'): 4343, ('nem', 'mainnet'): 43}.get((case['facade'], case['network']), 1)
		curve = 'ed25519' if case['facade'] == 'symbol' else 'ed25519-keccak'
		key, _ = slip10_path(curve, bytes.fromhex(case['seed']), [44, coin, case['account'], 0, 0])
		expected_public = ed25519_public_key(case['facade'], key).hex()
		if '|' not in out:
			return f'{case["facade"]} bip32_node_to_key_pair raised {out}'
		shown_private, shown_public = out.split('|')
		if shown_public != expected_public:
			return f'{case["facade"]} key pair of account {case["account"]}: public key {shown_public} is not the ' \
				f'{"SHA-512" if case["facade"] == "symbol" else "Keccak-512"} Ed25519 public key of the node key {key.hex()} ({expected_public})'
		if case['facade'] == 'symbol' and shown_private != key.hex():
			return f'symbol key pair private key {shown_private} is not the node key {key.hex()}'
		return None
	if kind == 'session':
		return session_oracle(case, out)
	if kind == 'pathsession':
		return path_session_oracle(case, out)
	if kind == 'mnemonic':
		seed = bip39_seed(case['mnemonic'], case['passphrase'])
		expected = '|'.join(part.hex() for part in slip10_root(case['curve'], seed))
		via_seed = impl_derive(case['curve'], seed.hex(), [])
		if out != via_seed:
			return f'from_mnemonic gives {out}, from_seed of the BIP39 seed gives {via_seed}'
		return None if out == expected else f'from_mnemonic gives {out}, SLIP-10 root of the BIP39 seed is {expected}'
	raise ValueError(kind)


def path_session_oracle(case, out):
	coin = {('symbol', 'mainnet'): 4343, ('nem', 'mainnet'): 43}.get((case['facade'], case['network']), 1)
	if '#' not in out:
		return f'{case["facade"]} {case["network"]}: a sequence of bip32_path calls raised {out}'
	returned, kept = (part.split(';') for part in out.split('#'))
	history = []
	for number, (step, seen) in enumerate(zip(case['steps'], returned)):
		expected = f'44,{coin},{step["account"]},0,0'
		if seen != expected:
			return f'{case["facade"]} {case["network"]} bip32_path({step["account"]}), call {number + 1} on one facade after {", ".join(history) or "nothing"}: ' \
				f'[{seen}], expected [{expected}]'
		history.append(f'bip32_path({step["account"]}) with the returned list then edited by the caller ({step["then"]})')
	for number, (step, seen) in enumerate(zip(case['steps'], kept)):
		mine = [44, coin, step['account'], 0, 0]
		try:
			edit_path(mine, step['then'])
		except IndexError:
			pass
		expected = ','.join(str(v) for v in mine)
		if seen != expected:
			return f'{case["facade"]} {case["network"]}: the list returned by call {number + 1}, bip32_path({step["account"]}) (caller\'s edit: {step["then"]}), ' \
				f'reads [{seen}] after the later calls {[later["account"] for later in case["steps"][number + 1:]]}; it was [{expected}]'
	return None


def session_oracle(case, out):
	"""Every call of the sequence against the independent PBKDF2 + SLIP-10 computation."""
	outs = out.split(';')
	if len(outs) != len(case['ops']):
		return f'session produced {len(outs)} observations for {len(case["ops"])} calls: {out}'
	key = chain = None
	for number, (op, observed) in enumerate(zip(case['ops'], outs)):
		if op[0] == 'mnemonic':
			key, chain = slip10_root(case['curve'], bip39_seed(op[1], op[2]))
			expected = (key, chain)
		elif op[0] == 'seed':
			key, chain = slip10_root(case['curve'], bytes.fromhex(op[1]))
			expected = (key, chain)
		else:
			expected = (key, chain)
			for index in op[1]:
				expected = slip10_child(expected[0], expected[1], index)
			if op[0] == 'descend':
				key, chain = expected
		expected = f'{expected[0].hex()}|{expected[1].hex()}'
		if observed != expected:
			shown = [o if o[0] != 'mnemonic' else ['mnemonic', o[1][:24] + '...', o[2]] for o in case['ops'][:number]]
			return f'call #{number} {op} on a Bip32({case["curve"]!r}) instance that had already served {shown}: got {observed}, ' \
				f'the independent BIP39 seed + SLIP-10 computation gives {expected}'
	return None


def replay_form(case):
	"""The case as stored in a replay file: a failing mnemonic call on the shared factory becomes the session that led to it."""
	if case['kind'] == 'mnemonic' and case.get('history'):
		return {'kind': 'session', 'curve': case['curve'], 'style': 'shared-factory',
			'ops': case['history'] + [['mnemonic', case['mnemonic'], case['passphrase']]]}
	return {k: v for k, v in case.items() if k not in ('node', 'history')}


def signature(case):
	shown = {k: v for k, v in case.items() if k not in ('node', 'history')}
	return f'{case["kind"]}:' + hashlib.sha256(repr(sorted(shown.items())).encode('utf8')).hexdigest()[:12]


def case_kind(case, out):
	kind = case['kind']
	if kind in ('derive', 'split', 'outside'):
		return f'{kind}:len{len(case["path"])}:{case["curve"]}:seed{len(case["seed"]) // 2}' + (':raises' if out.startswith('crash') else '')
	if kind == 'path':
		return f'path:{case["facade"]}:{case["network"] if case["network"] in ("mainnet", "testnet") else "other-name"}'
	if kind == 'keypair':
		return f'keypair:{case["facade"]}:{case["network"]}' + (f':node-key-with-{case["zero_byte"]}-zero-byte' if 'zero_byte' in case else '')
	if kind == 'pathsession':
		return f'pathsession:{case["facade"]}:{case["network"]}:{len(case["steps"])}'
	if kind == 'root':
		return f'root:{case["label"]}-curve-label'
	if kind == 'session':
		return f'session:style{case["style"]}:{case["curve"]}'
	return 'mnemonic:' + ('model' if case['in_model'] else 'oracle-only')


def evaluate_models(cases, tier):
	"""Model outputs (None where a case has no model side); the PBKDF2 cases run beside the HMAC shards."""
	exprs = [(index, model(case)) for index, case in enumerate(cases)]
	slow = [(i, e) for i, e in exprs if e is not None and cases[i]['kind'] == 'mnemonic']
	fast = [(i, e) for i, e in exprs if e is not None and cases[i]['kind'] != 'mnemonic']
	# longest first, dealt round-robin so that every shard gets a similar number of HMAC evaluations
	shard = 3 if tier == 'quick' else 8
	fast.sort(key=lambda item: -model_cost(cases[item[0]]))
	shards = max(1, -(-len(fast) // shard))
	ordered = [item for s in range(shards) for item in fast[s::shards]]
	with concurrent.futures.ThreadPoolExecutor(max_workers=2) as pool:
		slow_job = pool.submit(coq_eval, PRELUDE, [e for _, e in slow], 'c16m', 1, 1500)
		fast_job = pool.submit(coq_eval, PRELUDE, [e for _, e in ordered], 'c16', -(-len(ordered) // shards) if ordered else 1, 900)
		results = dict(zip([i for i, _ in ordered], fast_job.result()))
		results.update(zip([i for i, _ in slow], slow_job.result()))
	return [results.get(index) for index in range(len(cases))]


def name_failing_proof(check):
	"""Props/C16.v did not compile: names the first failing definition/lemma in this property's own dependency chain."""
	for rel in ('Gen/Bip32Ops.v', 'Sym/Bip32.v', 'Sym/Bip32Proofs.v', 'Props/C16.v'):
		ok, out, _ = common.coqc(rel)
		if not ok:
			text = (common.COQ / rel).read_text(encoding='utf8')
			name = common._failing_theorem(text, out, rel.split('/')[-1])  # pylint: disable=protected-access
			check.extra['first_failing_proof'] = f'{rel}:{name}'
			check.notes.append(f'first failing proof in the C16 chain: {rel}:{name}: {out.strip()[-600:]}')
			return


def run(check, unrecognised):
	self_test()
	check.trusted += [
		'translator harness/gen.py (Bip32Ops: constants/operators of Bip32.py, both bip32_path, both bip32_node_to_key_pair, nem KeyPair; '
		'BufferWriter.write_int/write_bytes/__init__, derive_path, from_seed, from_mnemonic and symbol KeyPair.__init__ are pinned shapes)',
		'hmac/hashlib (SHA-512, HMAC) are used only by the property oracle P; the model side uses the Gallina SHA-512/HMAC/PBKDF2 (Sym/Sha2.v, Sym/Hmac.v)',
		'the `mnemonic` package is replaced by harness/shims/mnemonic.py (hashlib.pbkdf2_hmac); the model of Mnemonic.to_seed is BIP39 text, not /repo code',
		'Ed25519 public-key map: a parameter of the key-pair theorems; in the correspondence it is the RFC 8032 arithmetic in harness/checks/c16.py '
		'(self-tested on the SLIP-10 public keys), compared with `cryptography` (Symbol) and nacl.bindings or its stand-in (NEM)',
		'modelled, not verified: CPython int.to_bytes / bytes slicing / str.encode semantics, ByteArray size check, hmac module']
	check.assume += [
		'HMAC-SHA512 is a fixed function (no PRF / collision claim)',
		'mnemonics and passphrases are opaque strings; in the model they are the utf8 bytes of their NFKD form (ASCII in the model-side cases)',
		'key-pair theorems are parametric in the public-key map secret -> public key']
	check.extra['rule'] = 'seeded random + boundary indices {0, 1, 2^31-1}; seeds of 16/32/64 bytes x both curve labels x path lengths 0..8; ' \
		'every derive case is also derived over ALL split points and index-by-index on the implementation and compared with an independent ' \
		'SLIP-10; split/outside/root/path/keypair/mnemonic kinds and call sequences on ONE Bip32 instance (session: the same mnemonic ' \
		'under several passphrases incl. the empty one, several mnemonics under one passphrase, repeats, from_seed and derivations in ' \
		'between, every node re-derived twice and index by index and checked unchanged; related-paths: one node derives families of paths whose ' \
		'spellings overlap -- 43/4343, 1/10..19, re-cut digits, prefixes and extensions) as listed in input_distribution; key pairs of accounts whose ' \
		'node key starts / ends with a zero byte (searched with the SLIP-10 reference); several bip32_path calls on ONE facade with the returned ' \
		'lists kept and edited by the caller; Bip32 factories ' \
		'and facades are shared by all other cases of a run; distinct = distinct (kind, arguments); ' \
		'non-trivial = all (each runs at least one HMAC or one facade rule)'
	if unrecognised.get('Bip32Ops'):
		check.notes.append(f'anchors not recognised, pinned constants used for them: {unrecognised["Bip32Ops"]}')
		# a changed shape of an anchor function is a broken tie (DESIGN section 0, step 2), whatever the cases below find
		check.broken += [f'shape:{key}' for key in unrecognised['Bip32Ops']]
	if not check.prove('C16.v'):
		name_failing_proof(check)
	cases = gen_cases(check.rng, check.tier)
	outs = [impl(case) for case in cases]
	check.notes.append(f'nem KeyPair construction: {ensure_nem_key_pair_usable()}')
	models = evaluate_models(cases, check.tier)
	check.extra['model_hmac_evaluations'] = sum(model_cost(case) for case, mod in zip(cases, models) if mod is not None)
	check.extra['model_pbkdf2_evaluations'] = sum(1 for case, mod in zip(cases, models) if mod is not None and case['kind'] == 'mnemonic')
	for case, out, mod in zip(cases, outs, models):
		check.case(case_kind(case, out), repr(sorted((k, v) for k, v in case.items() if k not in ('node', 'history'))))
		if mod is not None and not agree(case, out, mod):
			check.disagree('Bip32-model-vs-Bip32/facades', case, out, mod)
		if mod is None and case['kind'] == 'keypair':
			check.disagree('Bip32-model-vs-Bip32/facades', case, out, 'no node: the implementation raised before a node existed')
		problem = oracle(case, out)
		if problem:
			replay_case = replay_form(case)
			check.fail(signature(case), problem, {'case': replay_case, 'observed': out, 'how': 'run.py replay <this file>'})
	shown = set()
	for case, out in zip(cases, outs):
		if case['kind'] not in shown:
			shown.add(case['kind'])
			check.sample({'case': {k: v for k, v in case.items() if k not in ('node', 'history')}, 'observed': out})


def replay(data):
	case = data['replay']['case']
	out = impl(case)
	problem = oracle(case, out)
	print('observed:', out)
	print('property:', problem or 'holds')
	return 1 if problem else 0
