"""C13: mosaic / namespace / metadata identifiers."""
import hashlib
import re

from ..common import blit, coq_eval, zlit

MANIFEST = {
	'text': 'All 8 identifier laws are Qed theorems (Props/C13.v, closed under the global context) over the model of IdGenerator.py, '
		'Metadata.py and the alias half of symbol.Network.Address, instantiated with the Gallina SHA3-256 and with constants/operators '
		'regenerated from the source on every run; model and implementation are compared on seeded inputs for all 8 functions.  Added: '
		'the level-by-level law as equations (path_level_by_level, path_composes, path_has_one_id_per_part), the mosaic alias id '
		'(mosaic_alias_id_is_last_level, mosaic_alias_id_is_namespace_id), mosaic_and_namespace_ids_disjoint, and the exact shape of '
		'the update payload (xor_update_length, xor_update_overlap, xor_update_tail, xor_update_self).',
	'design_ref': 'DESIGN.md section 4, C13',
	'technique': 'Coq proof over regenerated model + vm_compute correspondence with the Python implementation',
}

IMPORTS = 'From Symv Require Import Base.Bytes Base.PyOps Sym.Keccak Sym.Ids.'
M63 = (1 << 63) - 1
F63 = 1 << 63
NAME_RE = re.compile(r'[a-z0-9][a-z0-9_-]*')


def opt_list(values):
	return 'reject' if values is None else 'ok:' + ','.join(str(v) for v in values)


# --- generators

def rand_bytes(rng, n):
	return bytes(rng.randrange(256) for _ in range(n))


def rand_name(rng):
	style = rng.randrange(10)
	alphabet = 'abcdefghijklmnopqrstuvwxyz0123456789'
	if style < 6:
		return rng.choice(alphabet) + ''.join(rng.choice(alphabet + '_-') for _ in range(rng.randrange(0, 12)))
	if style == 6:
		return ''
	if style == 7:
		if rng.randrange(2):
			# a valid name with one control / whitespace character at the end, at the start or inside (regex anchors and strip() slips)
			base = rng.choice(alphabet) + ''.join(rng.choice(alphabet + '_-') for _ in range(rng.randrange(0, 6)))
			extra = rng.choice(['\n', '\r', '\t', ' ', '\x0b', '\x0c', '\x00', '\x1f', '\x7f', '\u2028', '\n\n', '\r\n'])
			position = rng.choice([len(base), len(base), 0, rng.randrange(len(base) + 1)])
			return base[:position] + extra + base[position:]
		return rng.choice('_-') + rng.choice(alphabet)
	if style == 8:
		return rng.choice(alphabet) + rng.choice('AZ@`{/: .ééа\U0001F600') + rng.choice(alphabet)
	return rng.choice('AZ@`{/:[') + 'ab'


# strings whose Unicode normal forms (NFC / NFD / NFKC / NFKD), case foldings or stripped forms differ from the string itself: the
# identifiers are hashes of the UTF-8 bytes of the string AS GIVEN, so each of these has its own key
UNICODE_FORMS = [
	'cafe\u0301', 'caf\u00e9', 'A\u030a', '\u00c5', '\u212b', '\u2126', '\u03a9', '\u1112\u1161\u11ab', '\ud55c', 'a\u0323\u0307', 'a\u0307\u0323',
	'\u1e9b\u0323', '\ufb01', 'fi', '\uff21', '\u00b5', '\u03bc', '\u2160', '\u00df', 'SS', 'ss', '\u0130', 'i\u0307', '\u01c5', 'n\u0303o', '\u00f1o',
	'\u0958', '\u0915\u093c', '\u2000x', '\u00a0x', ' x', 'x ', 'x\n', '\ufeffx', 'x\u200d', 'x\u00ad', 'e\u0301\u0301', '\u0344', '\u0308\u0301',
	'\uf900', '\u8c48', '\u1100\u1161', '\uac00', 'Key', 'key', 'KEY']


def unicode_form_seed(rng):
	"""One of the corpus strings alone, or embedded in / concatenated with ordinary text."""
	core = rng.choice(UNICODE_FORMS)
	alphabet = 'abcdefghijklmnopqrstuvwxyz0123456789_- '
	style = rng.randrange(4)
	if style == 0:
		return core
	if style == 1:
		return ''.join(rng.choice(alphabet) for _ in range(rng.randrange(1, 8))) + core
	if style == 2:
		return core + ''.join(rng.choice(alphabet) for _ in range(rng.randrange(1, 8)))
	return core + rng.choice(UNICODE_FORMS)


PATH_EDITS = ['pop', 'keep-first', 'reverse', 'clear', 'append', 'set-last', 'set-first', 'none', 'extend', 'sort-descending']


def edit_list(values, edit):
	"""What a caller may do with a list it was given (its own copy, by the function's contract)."""
	if edit == 'pop':
		values.pop()
	elif edit == 'keep-first':
		del values[1:]
	elif edit == 'reverse':
		values.reverse()
	elif edit == 'clear':
		values.clear()
	elif edit == 'append':
		values.append(0)
	elif edit == 'set-last':
		values[-1] = 1
	elif edit == 'set-first':
		values[0] ^= 1
	elif edit == 'extend':
		values += values
	elif edit == 'sort-descending':
		values.sort(reverse=True)


def gen_path_sessions(rng, count):
	"""Several resolutions in one process: 2-3 names (valid multi-level ones, now and then an invalid one) resolved 4-8 times in a mixed
	order; after each resolution the caller edits the list it got back (pop, truncate, reverse, clear, append, overwrite ...).  Every
	resolution must give the level-by-level definition, whatever was resolved and done before."""
	parts = ['a', 'b', 'ab', 'x1', 'symbol', 'xym', 'cat', 'token', 'foo-bar', 'n_1']
	cases = []
	for index in range(count):
		names = ['.'.join(rng.choice(parts) for _ in range(rng.randrange(2, 5))) for _ in range(rng.randrange(1, 4))]
		if index % 3 == 0:
			names[0] = 'symbol.xym'
		if index % 5 == 4:
			names.append(rng.choice(['a..b', 'A.b', 'a.b.', 'a. b']))
		steps = []
		for position in range(rng.randrange(4, 9)):
			name = names[0] if position in (0, 2) else rng.choice(names)
			steps.append({'fqn': name, 'then': rng.choice(PATH_EDITS) if position else rng.choice(PATH_EDITS[:7])})
		cases.append({'kind': 'pathsession', 'steps': steps})
	return cases


def gen_cases(rng, tier):
	n = 60 if tier == 'quick' else 6000
	cases = []
	for i in range(n):
		nonce = rng.choice([0, 1, 2**32 - 1, 2**31, rng.randrange(2**32)])
		cases.append({'kind': 'mosaic', 'addr': rand_bytes(rng, 24).hex(), 'nonce': nonce})
	for i in range(n):
		name = rand_name(rng) if i % 3 else ''.join(chr(rng.choice([rng.randrange(32, 127), rng.randrange(160, 0x800), rng.randrange(0x10000, 0x10400)])) for _ in range(rng.randrange(0, 6)))
		name = name.replace('"', 'q')
		parent = rng.choice([0, 1, 2**64 - 1, 2**63, rng.randrange(2**64)])
		cases.append({'kind': 'namespace', 'name': name, 'parent': parent})
	for i in range(n):
		parts = [rand_name(rng) if rng.randrange(8) else rng.choice(['', 'A', 'a.', '-a', 'a b']) for _ in range(rng.randrange(1, 5))]
		if i % 4 == 0:
			parts = [p for p in (NAME_RE.fullmatch(q) and q for q in parts) if p] or ['a']
		cases.append({'kind': 'path', 'fqn': '.'.join(parts)})
	# the same part name at several levels (each level is hashed with the id of the level before it, not of its first occurrence)
	for fqn in ['a.a', 'a.a.a', 'a.b.a', 'a.b.b', 'b.a.b.a', 'token.token', 'cat.token.cat', 'x.y.z.x', 'x.x.y', 'abc.abc.abc.abc', 'a.b.c.d.a']:
		cases.append({'kind': 'path', 'fqn': fqn})
	for i in range(max(6, n // 10)):
		parts = [rng.choice(['a', 'b', 'ab', 'x1']) for _ in range(rng.randrange(2, 6))]
		cases.append({'kind': 'path', 'fqn': '.'.join(parts)})
	for i in range(n):
		cases.append({'kind': 'validname', 'name': rand_name(rng)})
	# deterministic boundary corpus: one control / whitespace character around an otherwise valid name (regex-anchor and strip() slips)
	for extra in ['\n', '\r', '\t', ' ', '\x0b', '\x0c', '\x00', '\x1f', '\x7f', '\u2028', '\n\n', '\r\n', '.', 'A', '_', '-']:
		for name in ('ab' + extra, extra + 'ab', 'a' + extra + 'b', 'a' + extra):
			cases.append({'kind': 'validname', 'name': name})
		cases.append({'kind': 'path', 'fqn': 'foo.bar' + extra})
		cases.append({'kind': 'path', 'fqn': 'foo' + extra + '.bar'})
		cases.append({'kind': 'path', 'fqn': extra + 'foo.bar'})
	for i in range(n // 2):
		seed = ''.join(chr(rng.choice([rng.randrange(32, 127), rng.randrange(160, 0x800)])) for _ in range(rng.randrange(0, 20))).replace('"', 'q')
		cases.append({'kind': 'mdkey', 'seed': seed})
	# seeds and names that are not in a Unicode normal form / differ from their case-folded or stripped form: each corpus string once, then mixed
	for seed in UNICODE_FORMS + [unicode_form_seed(rng) for _ in range(max(10, n // 4))]:
		cases.append({'kind': 'mdkey', 'seed': seed})
	for i in range(max(10, n // 4)):
		cases.append({'kind': 'namespace', 'name': unicode_form_seed(rng), 'parent': rng.choice([0, rng.randrange(2**64)])})
	cases += gen_path_sessions(rng, max(15, n // 8))
	for i in range(n):
		la, lb = rng.choice([(0, 0), (0, 5), (5, 0), (3, 3), (3, 7), (7, 3), (1, 1), (rng.randrange(40), rng.randrange(40))])
		old, new = rand_bytes(rng, la), rand_bytes(rng, lb)
		if i % 5 == 0 and la and lb:
			new = old[:min(la, lb)] + new[min(la, lb):]
		cases.append({'kind': 'mdupdate', 'old': old.hex(), 'new': new.hex()})
	for i in range(n):
		ident = rng.choice([0, 2**64 - 1, 2**63, 2**63 - 1, rng.randrange(2**64)])
		cases.append({'kind': 'alias', 'id': ident, 'net': rng.choice([0x68, 0x98])})
	for i in range(n // 2):
		addr = bytearray(rand_bytes(rng, 24))
		cases.append({'kind': 'toalias', 'addr': bytes(addr).hex()})
	# ids filled in by the transaction factory (symbol/TransactionFactory.py): namespace registration (root / child, with and without a
	# parent_id given for a root, which the encoding ignores) and mosaic definition, top-level and embedded, both shipped networks
	alphabet = 'abcdefghijklmnopqrstuvwxyz0123456789'
	for i in range(max(24, n // 3)):
		name = rng.choice(alphabet) + ''.join(rng.choice(alphabet + '_-') for _ in range(rng.randrange(0, 9)))
		registration = ['root', 'child', 'root-with-parent', 'default-with-parent', 'default'][i % 5]
		parent = rng.choice([1, 2**64 - 1, 2**63, rng.randrange(1, 2**64)])
		cases.append({
			'kind': 'txnamespace', 'name': name, 'registration': registration, 'parent': parent,
			'embedded': bool(i // 5 % 2), 'network': ['testnet', 'mainnet'][i // 10 % 2], 'autosort': i % 3 != 2})
	for i in range(max(12, n // 4)):
		cases.append({
			'kind': 'txmosaic', 'signer': rand_bytes(rng, 32).hex(), 'nonce': rng.choice([0, 1, 2**32 - 1, 2**31, rng.randrange(2**32)]),
			'embedded': bool(i % 2), 'network': ['testnet', 'mainnet'][i // 2 % 2], 'autosort': i % 3 != 2})
	# the same signer through both networks' factories, one right after the other, in both orders (the owner address differs by network)
	for i in range(max(6, n // 10)):
		signer, nonce = rand_bytes(rng, 32).hex(), rng.randrange(2**32)
		for network in (('mainnet', 'testnet', 'mainnet') if i % 2 else ('testnet', 'mainnet', 'testnet')):
			cases.append({'kind': 'txmosaic', 'signer': signer, 'nonce': nonce, 'embedded': bool(i // 2 % 2), 'network': network})
	return cases


def tx_descriptor(case):
	if case['kind'] == 'txnamespace':
		descriptor = {'type': 'namespace_registration_transaction_v1', 'name': case['name']}
		registration = case['registration']
		if registration in ('root', 'root-with-parent'):
			descriptor['registration_type'] = 'root'
		if registration == 'child':
			descriptor['registration_type'] = 'child'
		if registration in ('child', 'root-with-parent', 'default-with-parent'):
			descriptor['parent_id'] = case['parent']
		if registration != 'child':
			descriptor['duration'] = 123
		return descriptor
	return {'type': 'mosaic_definition_transaction_v1', 'nonce': case['nonce'], 'signer_public_key': case['signer'].upper()}


def tx_owner_address(case):
	from symbolchain.CryptoTypes import PublicKey
	from symbolchain.symbol.Network import Network
	network = {'testnet': Network.TESTNET, 'mainnet': Network.MAINNET}[case['network']]
	return network.public_key_to_address(PublicKey(bytes.fromhex(case['signer']))).bytes


# --- implementation

def impl(case):
	from symbolchain.sc import NamespaceId
	from symbolchain.symbol import IdGenerator, Metadata
	from symbolchain.symbol.Network import Address
	kind = case['kind']
	try:
		if kind == 'mosaic':
			return str(IdGenerator.generate_mosaic_id(Address(bytes.fromhex(case['addr'])), case['nonce']))
		if kind == 'namespace':
			return str(IdGenerator.generate_namespace_id(case['name'], case['parent']))
		if kind == 'path':
			try:
				path = IdGenerator.generate_namespace_path(case['fqn'])
			except ValueError:
				return 'reject|reject'
			try:
				alias = IdGenerator.generate_mosaic_alias_id(case['fqn'])
			except ValueError:
				alias = 'reject'
			return f'{opt_list(path)}|{alias}'
		if kind == 'pathsession':
			results = []
			for step in case['steps']:
				try:
					path = IdGenerator.generate_namespace_path(step['fqn'])
					shown = opt_list(path)
				except ValueError:
					path, shown = None, 'reject'
				except Exception as ex:  # pylint: disable=broad-except
					path, shown = None, f'crash:{type(ex).__name__}'
				try:
					alias = str(IdGenerator.generate_mosaic_alias_id(step['fqn']))
				except ValueError:
					alias = 'reject'
				except Exception as ex:  # pylint: disable=broad-except
					alias = f'crash:{type(ex).__name__}'
				results.append(f'{shown}|{alias}')
				if path is not None:
					try:
						edit_list(path, step['then'])
					except IndexError:
						pass    # nothing to pop / overwrite in the caller's list
			return ';'.join(results)
		if kind == 'validname':
			return 'T' if IdGenerator.is_valid_namespace_name(case['name']) else 'F'
		if kind == 'mdkey':
			return str(Metadata.metadata_generate_key(case['seed']))
		if kind == 'mdupdate':
			return bytes(Metadata.metadata_update_value(bytes.fromhex(case['old']), bytes.fromhex(case['new']))).hex()
		if kind == 'alias':
			address = Address.from_namespace_id(NamespaceId(case['id']), case['net'])
			back = address.to_namespace_id()
			return f'{address.bytes.hex()}|{"none" if back is None else back.value}'
		if kind == 'toalias':
			back = Address(bytes.fromhex(case['addr'])).to_namespace_id()
			return 'none' if back is None else str(back.value)
		if kind in ('txnamespace', 'txmosaic'):
			from symbolchain.facade.SymbolFacade import SymbolFacade
			factory = SymbolFacade(case['network']).transaction_factory
			create = factory.create_embedded if case['embedded'] else factory.create
			# ids are filled in whether or not the factory is asked to sort keyed arrays
			transaction = create(tx_descriptor(case)) if case.get('autosort', True) else create(tx_descriptor(case), autosort=False)
			decoded = type(transaction).deserialize(transaction.serialize())
			return f'{transaction.id.value}|{decoded.id.value}'
	except Exception as ex:  # pylint: disable=broad-except
		return f'crash:{type(ex).__name__}'
	raise ValueError(kind)


# --- model

def cps(text):
	return '[' + '; '.join(str(ord(c)) for c in text) + ']%Z'


def model(case):
	kind = case['kind']
	if kind == 'mosaic':
		return f'Z_to_string (generate_mosaic_id sha3_256 {blit(bytes.fromhex(case["addr"]))} {zlit(case["nonce"])})'
	if kind == 'namespace':
		return f'Z_to_string (generate_namespace_id sha3_256 {blit(case["name"].encode("utf8"))} {zlit(case["parent"])})'
	if kind == 'path':
		return f'render_path sha3_256 {cps(case["fqn"])}'
	if kind == 'pathsession':
		return 'semis [' + '; '.join(f'render_path sha3_256 {cps(step["fqn"])}' for step in case['steps']) + ']'
	if kind == 'validname':
		return f'bool_to_string (is_valid_namespace_name {cps(case["name"])})'
	if kind == 'mdkey':
		return f'Z_to_string (metadata_generate_key sha3_256 {blit(case["seed"].encode("utf8"))})'
	if kind == 'mdupdate':
		return f'to_hex (metadata_update_value {blit(bytes.fromhex(case["old"]))} {blit(bytes.fromhex(case["new"]))})'
	if kind == 'alias':
		return f'render_alias {zlit(case["id"])} {zlit(case["net"])}'
	if kind == 'toalias':
		return f'render_opt (address_to_namespace_id {blit(bytes.fromhex(case["addr"]))})'
	if kind == 'txnamespace':
		parent = case['parent'] if case['registration'] == 'child' else 0
		return f'twice (Z_to_string (generate_namespace_id sha3_256 {blit(case["name"].encode("utf8"))} {zlit(parent)}))'
	if kind == 'txmosaic':
		return f'twice (Z_to_string (generate_mosaic_id sha3_256 {blit(tx_owner_address(case))} {zlit(case["nonce"])}))'
	raise ValueError(kind)


PRELUDE = IMPORTS + '''
Open Scope string_scope.
Fixpoint commas (l : list Z) : string := match l with [] => "" | [x] => Z_to_string x | x :: r => Z_to_string x ++ "," ++ commas r end.
Definition render_opt (o : option Z) : string := match o with None => "none" | Some v => Z_to_string v end.
Definition render_path H (fqn : list Z) : string :=
  match generate_namespace_path H fqn with
  | None => "reject|reject"
  | Some p => "ok:" ++ commas p ++ "|" ++ match generate_mosaic_alias_id H fqn with Some a => Z_to_string a | None => "reject" end
  end.
Definition twice (s : string) : string := s ++ "|" ++ s.
Fixpoint semis (l : list string) : string := match l with [] => "" | [x] => x | x :: r => x ++ ";" ++ semis r end.
Definition render_alias (id net : Z) : string :=
  let a := address_from_namespace_id id net in to_hex a ++ "|" ++ render_opt (address_to_namespace_id a).
'''


# --- property oracle (from the property text, independent of the model)

def sha3(data):
	return hashlib.sha3_256(data).digest()


def p_path(fqn):
	"""Path and alias id of a dotted name from the property text: level by level, each level's id the next parent; invalid part -> rejected."""
	parts = fqn.split('.')
	if not all(NAME_RE.fullmatch(p) for p in parts):
		return 'reject|reject'
	ids = []
	parent = 0
	for part in parts:
		parent = int.from_bytes(sha3(parent.to_bytes(8, 'little') + part.encode('utf8'))[:8], 'little') | F63
		ids.append(parent)
	return f'{opt_list(ids)}|{ids[-1]}'


def oracle(case, out):
	kind = case['kind']
	if kind == 'mosaic':
		expected = int.from_bytes(sha3(case['nonce'].to_bytes(4, 'little') + bytes.fromhex(case['addr']))[:8], 'little') & M63
		return None if out == str(expected) else f'mosaic id {out} != first 8 bytes of SHA3-256(nonce || address) with top bit cleared ({expected})'
	if kind == 'namespace':
		expected = int.from_bytes(sha3(case['parent'].to_bytes(8, 'little') + case['name'].encode('utf8'))[:8], 'little') | F63
		return None if out == str(expected) else f'namespace id {out} != first 8 bytes of SHA3-256(parent || name) with top bit set ({expected})'
	if kind == 'path':
		expected = p_path(case['fqn'])
		return None if out == expected else f'path {case["fqn"]!r}: got {out}, level-by-level definition gives {expected}'
	if kind == 'pathsession':
		seen = out.split(';')
		if len(seen) != len(case['steps']):
			return f'a sequence of {len(case["steps"])} resolutions gave {out}'
		history = []
		for number, (step, got) in enumerate(zip(case['steps'], seen)):
			expected = p_path(step['fqn'])
			if got != expected:
				return f'resolution {number + 1} in one process, of {step["fqn"]!r}, after {", ".join(history) or "nothing"}: got {got}, ' \
					f'level-by-level definition gives {expected}'
			history.append(f'resolving {step["fqn"]!r} and editing the returned list ({step["then"]})')
		return None
	if kind == 'validname':
		expected = 'T' if NAME_RE.fullmatch(case['name']) else 'F'
		return None if out == expected else f'name {case["name"]!r} validity {out}, [a-z0-9][a-z0-9_-]* gives {expected}'
	if kind == 'mdkey':
		expected = int.from_bytes(sha3(case['seed'].encode('utf8'))[:8], 'little') | F63
		return None if out == str(expected) else f'metadata key {out} != {expected}'
	if kind == 'mdupdate':
		if out.startswith('crash'):
			return f'metadata_update_value raised {out}'
		old, new, payload = bytes.fromhex(case['old']), bytes.fromhex(case['new']), bytes.fromhex(out)
		width = max(len(old), len(payload))
		applied = bytes(a ^ b for a, b in zip(old.ljust(width, b'\0'), payload.ljust(width, b'\0')))[:len(new)]
		return None if applied == new else f'payload {out} applied to old value gives {applied.hex()}, not the new value'
	if kind == 'alias':
		expected_tail = f'|{case["id"]}'
		return None if out.endswith(expected_tail) and len(out.split('|')[0]) == 48 else f'alias address of id {case["id"]} converts back to {out}'
	if kind == 'toalias':
		addr = bytes.fromhex(case['addr'])
		expected = str(int.from_bytes(addr[1:9], 'little')) if addr[0] & 1 else 'none'
		return None if out == expected else f'address {case["addr"]}: to_namespace_id {out}, expected {expected}'
	if kind == 'txnamespace':
		# the parent of a root registration is 0 whatever else the descriptor says (that is what the encoding carries)
		parent = case['parent'] if case['registration'] == 'child' else 0
		expected = int.from_bytes(sha3(parent.to_bytes(8, 'little') + case['name'].encode('utf8'))[:8], 'little') | F63
		return None if out == f'{expected}|{expected}' else \
			f'{case["registration"]} registration of {case["name"]!r}: created/decoded id {out} != hash of parent id then name ({expected})'
	if kind == 'txmosaic':
		identifier = {'testnet': 0x98, 'mainnet': 0x68}[case['network']]
		part = hashlib.new('ripemd160', sha3(bytes.fromhex(case['signer']))).digest()
		version = bytes([identifier]) + part
		address = version + sha3(version)[:3]
		expected = int.from_bytes(sha3(case['nonce'].to_bytes(4, 'little') + address)[:8], 'little') & M63
		return None if out == f'{expected}|{expected}' else f'mosaic definition: created/decoded id {out} != hash of nonce then owner address ({expected})'
	raise ValueError(kind)


def signature(case):
	return f'{case["kind"]}:' + hashlib.sha256(repr(sorted(case.items())).encode('utf8')).hexdigest()[:12]


def run(check, unrecognised):
	check.trusted += [
		'translator harness/gen.py (IdsOps: constants/operators of the 9 anchor functions; names of called functions are part of the pinned skeleton)',
		'hashlib.sha3_256 is used only by the property oracle P; the model side uses the Gallina Keccak (Sym/Keccak.v)',
		'modelled, not verified: CPython str.split/str.encode/int.to_bytes semantics, ByteArray/NamespaceId wrappers']
	check.assume += ['hash is a fixed function (no collision-resistance claim)', 'names are compared as code points; valid names are ASCII (proved)']
	check.extra['rule'] = 'seeded random + boundary cases per function (mosaic, namespace, path, validname, mdkey, mdupdate, alias, toalias); ' \
		'metadata seeds and names that differ from their Unicode normal / case-folded / stripped forms (combining marks, singletons, Hangul jamo, compatibility ' \
		'characters); sequences of path resolutions in one process with the returned lists edited by the caller in between; ' \
		'distinct = distinct (kind, arguments); non-trivial = all (each exercises hashing or a reject branch)'
	if unrecognised.get('IdsOps'):
		check.notes.append(f'anchors not recognised, pinned constants used for them: {unrecognised["IdsOps"]}')
	check.prove('C13.v')
	cases = gen_cases(check.rng, check.tier)
	outs = [impl(case) for case in cases]
	models = coq_eval(PRELUDE, [model(case) for case in cases], 'c13')
	for case, out, mod in zip(cases, outs, models):
		check.case(case['kind'] + (':reject' if 'reject' in out or out in ('F', 'none') else ''), repr(sorted(case.items())))
		if out != mod:
			check.disagree('Ids-model-vs-IdGenerator/Metadata/Address', case, out, mod)
		problem = oracle(case, out)
		if problem:
			check.fail(signature(case), problem, {'case': case, 'observed': out, 'how': 'run.py replay <this file>'})
	for case, out in list(zip(cases, outs))[::max(1, len(cases) // 6)]:
		check.sample({'case': case, 'observed': out})


def replay(data):
	case = data['replay']['case']
	out = impl(case)
	problem = oracle(case, out)
	print('observed:', out)
	print('property:', problem or 'holds')
	return 1 if problem else 0
