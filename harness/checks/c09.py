"""C09: transaction hashes, Merkle roots and audit paths, Patricia state proofs."""
import hashlib
import itertools

from ..common import coq_eval

MANIFEST = {
	'text': 'Qed theorems (Props/C09.v, closed under the global context) over the model of symbol/Merkle.py, BufferReader.py and the hashing '
		'half of SymbolFacade/NemFacade, instantiated with the Gallina SHA3-256/Keccak-256 and with the constants/operators regenerated from '
		'the source on every run: data window and hash input of a Symbol transaction (covered / uncovered bytes), the level loop of '
		'MerkleHashBuilder.final equals the pairwise tree for every leaf count, honest audit paths verify, a verifying path is the honest one '
		'or exhibits a SHA3 collision, hex-prefix path encoding (definition, injectivity), parse(serialize nodes) = nodes, and the verdict of '
		'prove_patricia_merkle on all inputs with iff-characterisations of the positive / negative / inconclusive verdicts, and the verdict '
		'the tree implies for every proof cut from a tree along the key (branches with non-empty paths included).  '
		'Added: the shape of the tree as equations between roots (merkle_root_of_pair, merkle_root_of_balanced_halves for every k, '
		'merkle_root_odd_duplicates_last, merkle_pairing_is_local, merkle_loop_of_balanced_halves).  '
		'Digest inequality after a covered bit flip is collision resistance of SHA3 and is not a theorem.  '
		'Model and implementation are compared on seeded inputs for every function; corpus cases (past findings) run first.',
	'design_ref': 'DESIGN.md section 4, C09',
	'technique': 'Coq proof over regenerated model + vm_compute correspondence with the Python implementation',
}

IMPORTS = 'From Symv Require Import Base.Bytes Base.PyOps Sym.Keccak Sym.Merkle.'
PRELUDE = IMPORTS + '''
Open Scope string_scope.
Definition hx := of_hex.
Definition leaves_of (s : string) : list bytes := chunks 32 (of_hex s).
Definition mp (left : bool) (s : string) : merkle_part := {| part_hash := of_hex s; part_is_left := left |}.
Definition paths_case (leaves : list bytes) (positions : list nat) : string :=
  let lv := levels sha3_256 leaves in join_with ";" (map (fun i => render_path (path_in lv i)) positions).
Definition patricia_case (key value buf state : bytes) (roots : list bytes) : string :=
  match deserialize_patricia_tree_nodes buf with
  | Ok ns => render_Z (prove_patricia_merkle sha3_256 key value ns state roots)
  | Reject => "reject"
  | Crash k => "crash:" ++ k
  end.
'''

AGGREGATE_TYPES = (0x4141, 0x4241)   # aggregate complete, aggregate bonded (property text / catapult)
CODES = {
	'positive': 0x0001, 'negative': 0x0002, 'inconclusive': 0x4001, 'state': 0x8001, 'unanchored': 0x8002, 'value': 0x8003,
	'unlinked': 0x8004, 'path': 0x8005}


def sha3(data):
	return hashlib.sha3_256(data).digest()


def rand_bytes(rng, n):
	return bytes(rng.randrange(256) for _ in range(n))


def flip(data, bit):
	out = bytearray(data)
	out[bit // 8] ^= 1 << (bit % 8)
	return bytes(out)


def canonical_exception(ex):
	return 'reject' if isinstance(ex, ValueError) else f'crash:{type(ex).__name__}'


# ---------------------------------------------------------------------------------------------------------------------
# P: the property stated in Python from the property text (independent of the model; hashlib only)

def p_levels(leaves):
	"""All levels of the pairwise SHA3-256 tree, last node duplicated at odd levels."""
	levels = [list(leaves)]
	while len(levels[-1]) > 1:
		cur = levels[-1]
		if len(cur) % 2:
			cur = cur + [cur[-1]]
		levels.append([sha3(cur[i] + cur[i + 1]) for i in range(0, len(cur), 2)])
	return levels


def p_root(leaves):
	return bytes(32) if not leaves else p_levels(leaves)[-1][0]


def p_path(leaves, index):
	"""Honest audit path, leaf to root: (sibling hash, sibling is on the left)."""
	path = []
	for level in p_levels(leaves)[:-1]:
		sibling = index ^ 1
		path.append((level[sibling] if sibling < len(level) else level[index], bool(index & 1)))
		index //= 2
	return path


def p_fold(leaf, path):
	working = leaf
	for part, is_left in path:
		working = sha3(part + working) if is_left else sha3(working + part)
	return working


def p_window(buffer):
	tx_type = buffer[110] | (buffer[111] << 8)
	return buffer[108:160] if tx_type in AGGREGATE_TYPES else buffer[108:]


def p_covered(buffer, byte_index):
	"""signature and signer, then everything from byte 108 (for aggregates only up to byte 160)."""
	if 8 <= byte_index < 104:
		return True
	tx_type = buffer[110] | (buffer[111] << 8)
	return 108 <= byte_index < (160 if tx_type in AGGREGATE_TYPES else len(buffer))


def p_nem_covered_end(buffer):
	"""NEM: everything is hashed except signature size + signature (bytes 48..116) and, for a multisig transaction (type 0x1004),
	the cosignatures that follow the inner transaction."""
	if int.from_bytes(buffer[0:4], 'little') == 0x1004:
		return 132 + int.from_bytes(buffer[128:132], 'little')
	return len(buffer)


def p_nem_non_verifiable(buffer):
	return buffer[:48] + buffer[116:p_nem_covered_end(buffer)]


def nibbles_of(data):
	return [n for b in data for n in (b >> 4, b & 15)]


def hp_encode(nibbles, is_leaf):
	"""Hex-prefix encoding of a nibble path: flag nibble 2*leaf + odd, zero padding nibble for even paths."""
	odd = len(nibbles) & 1
	full = [(2 if is_leaf else 0) + odd] + ([] if odd else [0]) + list(nibbles)
	return bytes(full[i] * 16 + full[i + 1] for i in range(0, len(full), 2))


class PNode:
	"""Node of a compact Patricia tree (catapult's format): leaf (path, value) or branch (path, 16 links)."""

	def __init__(self, path, value=None, children=None):
		self.path = list(path)
		self.value = value
		self.children = children
		self.link_override = None     # corrupted proofs: link hashes given directly

	@property
	def is_leaf(self):
		return self.children is None and self.link_override is None

	def links(self):
		if self.link_override is not None:
			return self.link_override
		return [child.hash() if child else None for child in self.children]

	def hash(self):
		if self.is_leaf:
			return sha3(hp_encode(self.path, True) + self.value)
		return sha3(hp_encode(self.path, False) + b''.join(link if link else bytes(32) for link in self.links()))

	def detached(self):
		"""Copy that keeps link hashes only (what a proof carries)."""
		if self.is_leaf:
			return PNode(self.path, self.value)
		node = PNode(self.path)
		node.link_override = self.links()
		return node

	def serialize(self):
		packed = self.path + ([0] if len(self.path) & 1 else [])
		head = bytes([len(self.path)]) + bytes(packed[i] * 16 + packed[i + 1] for i in range(0, len(packed), 2))
		if self.is_leaf:
			return b'\xff' + head + self.value
		links = self.links()
		mask = sum(1 << i for i, link in enumerate(links) if link)
		return b'\x00' + head + mask.to_bytes(2, 'little') + b''.join(link for link in links if link)

	def render(self):
		packed = self.path + ([0] if len(self.path) & 1 else [])
		path_hex = bytes(packed[i] * 16 + packed[i + 1] for i in range(0, len(packed), 2)).hex()
		if self.is_leaf:
			return f'leaf:{len(self.path)}:{path_hex}:{self.value.hex()}'
		return f'branch:{len(self.path)}:{path_hex}:' + '/'.join(link.hex() if link else '-' for link in self.links())


def build_tree(items, depth=0):
	"""items: [(nibbles, value)] with pairwise different nibble strings of equal length sharing their first `depth` nibbles."""
	if len(items) == 1:
		return PNode(items[0][0][depth:], value=items[0][1])
	common = 0
	while len({tuple(nib[depth:depth + common + 1]) for nib, _ in items}) == 1:
		common += 1
	children = [None] * 16
	for nibble in range(16):
		sub = [item for item in items if item[0][depth + common] == nibble]
		if sub:
			children[nibble] = build_tree(sub, depth + common + 1)
	return PNode(items[0][0][depth:depth + common], children=children)


def cut_proof(root, key_nibbles):
	"""Nodes visited when looking the key up: branch path, then the link nibble, then the child."""
	chain = []
	node = root
	pos = 0
	while True:
		chain.append(node)
		if key_nibbles[pos:pos + len(node.path)] != node.path or node.is_leaf:
			return chain
		pos += len(node.path)
		child = node.children[key_nibbles[pos]]
		if child is None:
			return chain
		pos += 1
		node = child


def p_verdict(key, value, chain, state_hash, roots):
	"""The verdict the tree format implies for a chain of (detached) nodes."""
	if sha3(b''.join(roots)) != state_hash:
		return CODES['state']
	if chain[0].hash() not in roots:
		return CODES['unanchored']
	last = chain[-1]
	if last.is_leaf and value != last.value:
		return CODES['value']
	# linkage is checked from the leaf upwards
	for parent, child in reversed(list(zip(chain, chain[1:]))):
		if parent.is_leaf or child.hash() not in parent.links():
			return CODES['unlinked']
	spelled = []
	for parent, child in zip(chain, chain[1:]):
		spelled += parent.path + [parent.links().index(child.hash())]
	spelled += last.path
	key_nibbles = nibbles_of(key)
	if last.is_leaf:
		return CODES['positive'] if spelled == key_nibbles else CODES['path']
	if key_nibbles[:len(spelled)] != spelled or len(spelled) >= len(key_nibbles):
		return CODES['path']
	return CODES['inconclusive'] if last.links()[key_nibbles[len(spelled)]] else CODES['negative']


# ---------------------------------------------------------------------------------------------------------------------
# case generators

def merkle_counts(tier):
	counts = list(range(0, 71)) + [127, 128, 129, 130]
	if tier == 'quick':
		return counts + [1000]
	return counts + list(range(1000, 1031)) + [2047, 2048, 2049, 4095, 4096, 4097, 5000]


def gen_merkle(rng, tier):
	cases = []
	rich = {7, 8, 9, 16, 17, 31, 32, 33, 64, 65, 127, 128, 129, 130, 1000, 1024, 1025, 2048, 2049, 4097, 5000}
	corruption_cycle = itertools.cycle([('leaf-bit', 'side-flag'), ('root-bit', 'path-bit'), ('other-leaf', 'side-flag'), ('path-bit', 'leaf-bit')])
	for count in merkle_counts(tier):
		leaves = [rand_bytes(rng, 32) for _ in range(count)]
		blob = b''.join(leaves).hex()
		cases.append({'kind': 'root', 'count': count, 'leaves': blob})
		if not count:
			continue
		full = tier == 'thorough' or count in rich
		if tier == 'thorough' and count <= 70:
			positions = list(range(count))
		elif count in rich:
			positions = sorted({0, 1, count - 1, count - 2, count // 2} | {rng.randrange(count) for _ in range(2)})
		else:
			positions = [rng.choice([count - 1, rng.randrange(count)])]
		positions = [p for p in positions if 0 <= p < count]
		if (full and (count <= 130 or count in rich)) or count % 5 == 0:
			cases.append({'kind': 'paths', 'count': count, 'leaves': blob, 'positions': positions})
		root = p_root(leaves)
		with_model = set(positions if len(positions) <= 8 else rng.sample(positions, 6) + [0, count - 1])
		for position in positions:
			path = p_path(leaves, position)
			honest = {'kind': 'prove', 'count': count, 'position': position, 'leaf': leaves[position].hex(),
				'path': [[h.hex(), left] for h, left in path], 'root': root.hex(), 'nomodel': position not in with_model}
			wanted = ('leaf-bit', 'root-bit', 'path-bit', 'side-flag', 'other-leaf') if full else next(corruption_cycle)
			cases.append(dict(honest, what='honest', expect=True))
			if 'leaf-bit' in wanted:
				cases.append(dict(honest, what='leaf-bit', leaf=flip(leaves[position], rng.randrange(256)).hex(), expect=False))
			if 'root-bit' in wanted:
				cases.append(dict(honest, what='root-bit', root=flip(root, rng.randrange(256)).hex(), expect=False))
			if not path:
				cases.append(dict(honest, what='extra-part', path=[[rand_bytes(rng, 32).hex(), bool(rng.randrange(2))]], expect=False))
				continue
			if 'path-bit' in wanted:
				level = rng.randrange(len(path))
				bad = [list(p) for p in honest['path']]
				bad[level][0] = flip(path[level][0], rng.randrange(256)).hex()
				cases.append(dict(honest, what='path-bit', path=bad, expect=False))
			if 'side-flag' in wanted:
				# prefer the level where the node is its own sibling (duplicated last node): swapping sides names the same pair there
				own = [k for k in range(len(path)) if p_fold(leaves[position], path[:k]) == path[k][0]]
				level = rng.choice(own) if own and rng.randrange(2) else rng.randrange(len(path))
				bad = [list(p) for p in honest['path']]
				bad[level][1] = not bad[level][1]
				cases.append(dict(honest, what='side-flag', path=bad, expect=level in own))
			if 'other-leaf' in wanted and 1 < count <= 130:
				other = (position + 1 + rng.randrange(count - 1)) % count
				cases.append(dict(honest, what='other-leaf', leaf=leaves[other].hex(), expect=leaves[other] == leaves[position]))
	return cases


def symbol_transactions(rng, tier):
	"""Serialized Symbol transactions of every type (+ realistic ones built from descriptors), with labels."""
	from symbolchain import sc
	from symbolchain.CryptoTypes import Hash256, PrivateKey
	from symbolchain.facade.SymbolFacade import SymbolFacade
	result = []
	for network_name in ('testnet', 'mainnet'):
		facade = SymbolFacade(network_name)
		key_pair = facade.KeyPair(PrivateKey(rand_bytes(rng, 32)))
		other = facade.KeyPair(PrivateKey(rand_bytes(rng, 32)))
		recipient = facade.network.public_key_to_address(other.public_key)

		def signed(descriptor):
			transaction = facade.transaction_factory.create(descriptor)
			try:
				facade.transaction_factory.attach_signature(transaction, facade.sign_transaction(key_pair, transaction))
			except Exception:  # pylint: disable=broad-except
				transaction.signature = sc.Signature(rand_bytes(rng, 64))   # the hash does not care whether the signature verifies
			return transaction

		transfer = signed({
			'type': 'transfer_transaction_v1', 'signer_public_key': key_pair.public_key, 'fee': rng.randrange(10**6), 'deadline': rng.randrange(2**40),
			'recipient_address': recipient, 'mosaics': [{'mosaic_id': rng.randrange(2**63), 'amount': rng.randrange(10**9)}],
			'message': rand_bytes(rng, rng.randrange(0, 40))})
		result.append((network_name, 'transfer', transfer.serialize()))
		lock = signed({
			'type': 'hash_lock_transaction_v1', 'signer_public_key': key_pair.public_key, 'fee': 5, 'deadline': 77,
			'mosaic': {'mosaic_id': rng.randrange(2**63), 'amount': 10000000}, 'duration': 480, 'hash': rand_bytes(rng, 32).hex().upper()})
		result.append((network_name, 'hash_lock', lock.serialize()))
		for kind, embedded_count, cosigners in (('aggregate_complete', 3, 2), ('aggregate_bonded', 2, 1), ('aggregate_complete', 1, 0), ('aggregate_bonded', 5, 3)):
			embedded = [facade.transaction_factory.create_embedded({
				'type': 'transfer_transaction_v1', 'signer_public_key': (key_pair if i % 2 else other).public_key, 'recipient_address': recipient,
				'message': rand_bytes(rng, rng.randrange(1, 30))}) for i in range(embedded_count)]
			aggregate = signed({
				'type': f'{kind}_transaction_v2', 'signer_public_key': key_pair.public_key, 'fee': rng.randrange(10**6), 'deadline': rng.randrange(2**40),
				'transactions_hash': Hash256(p_root([sha3(e.serialize()) for e in embedded])), 'transactions': embedded})
			for _ in range(cosigners):
				cosignature = sc.Cosignature()
				cosignature.signer_public_key = sc.PublicKey(rand_bytes(rng, 32))
				cosignature.signature = sc.Signature(rand_bytes(rng, 64))
				aggregate.cosignatures.append(cosignature)
			result.append((network_name, f'{kind}+{embedded_count}emb+{cosigners}cosig', aggregate.serialize()))
		if network_name == 'mainnet' and tier == 'quick':
			continue
		names = sorted(name for name in dir(sc) if 'Transaction' in name and name[-2] == 'V' and name[-1].isdigit() and not name.startswith('Embedded'))
		for name in names:
			transaction = getattr(sc, name)()
			transaction.signature = sc.Signature(rand_bytes(rng, 64))
			transaction.signer_public_key = sc.PublicKey(rand_bytes(rng, 32))
			transaction.network = sc.NetworkType.TESTNET if network_name == 'testnet' else sc.NetworkType.MAINNET
			transaction.fee = sc.Amount(rng.randrange(2**64))
			transaction.deadline = sc.Timestamp(rng.randrange(2**64))
			result.append((network_name, f'default:{name}', transaction.serialize()))
	return result


def gen_txhash(rng, tier):
	cases = []
	mutations = 6 if tier == 'quick' else 40
	for network_name, label, buffer in symbol_transactions(rng, tier):
		cases.append({'kind': 'txhash', 'network': network_name, 'label': label, 'b': buffer.hex(), 'mode': 'object'})
		is_aggregate = (buffer[110] | (buffer[111] << 8)) in AGGREGATE_TYPES
		if label.startswith('default:') and tier == 'quick' and not is_aggregate:
			continue
		regions = [(0, 8), (8, 72), (72, 104), (104, 108), (108, min(len(buffer), 160))]
		if len(buffer) > 160:
			regions.append((160, len(buffer)))
		regions += [(110, 112)] if is_aggregate else []
		for region in itertools.islice(itertools.cycle(regions), mutations):
			bit = rng.randrange(region[0] * 8, region[1] * 8)
			for mode in ('object', 'raw'):
				cases.append({
					'kind': 'txhash', 'network': network_name, 'label': label, 'b': flip(buffer, bit).hex(), 'mode': mode,
					'base': buffer.hex(), 'bit': bit})
		if is_aggregate:
			from symbolchain import sc
			transaction = sc.TransactionFactory.deserialize(buffer)
			cases.append({'kind': 'embedded', 'network': network_name, 'txs': [e.serialize().hex() for e in transaction.transactions]})
	# too short to hold a type: IndexError on both sides
	cases.append({'kind': 'txhash', 'network': 'testnet', 'label': 'short', 'b': rand_bytes(rng, 111).hex(), 'mode': 'raw'})
	cases.append({'kind': 'txhash', 'network': 'testnet', 'label': 'short', 'b': rand_bytes(rng, 112).hex(), 'mode': 'raw'})
	for count in ([0, 1, 2, 3, 5] if tier == 'quick' else range(0, 20)):
		from symbolchain import sc
		embedded = []
		for _ in range(count):
			transaction = sc.EmbeddedTransferTransactionV1()
			transaction.signer_public_key = sc.PublicKey(rand_bytes(rng, 32))
			transaction.message = rand_bytes(rng, rng.randrange(0, 50))
			embedded.append(transaction.serialize().hex())
		cases.append({'kind': 'embedded', 'network': 'testnet', 'txs': embedded})
	return cases


class _Exhausted(Exception):
	pass


def _bounded(function, seconds=3, extra_bytes=1 << 30):
	"""Runs function() with a time limit and an address-space limit: a mutated count / size member can make a lenient reader build
	gigabytes out of a few bytes; such byte strings are simply not used as cases."""
	import resource
	import signal

	def on_alarm(_signum, _frame):
		raise _Exhausted()
	with open('/proc/self/statm', encoding='utf8') as statm:
		current = int(statm.read().split()[0]) * resource.getpagesize()
	soft, hard = resource.getrlimit(resource.RLIMIT_AS)
	previous = signal.signal(signal.SIGALRM, on_alarm)
	signal.setitimer(signal.ITIMER_REAL, seconds)
	resource.setrlimit(resource.RLIMIT_AS, (current + extra_bytes, hard))
	try:
		return function()
	finally:
		resource.setrlimit(resource.RLIMIT_AS, (soft, hard))
		signal.setitimer(signal.ITIMER_REAL, 0)
		signal.signal(signal.SIGALRM, previous)


def gen_nem(rng, tier):
	from symbolchain import nc
	from symbolchain.facade.NemFacade import NemFacade
	from symbolchain.nem.TransactionFactory import TransactionFactory
	cases = []
	buffers = []
	facade = NemFacade('testnet')
	from symbolchain.CryptoTypes import PublicKey
	signer = PublicKey(rand_bytes(rng, 32))
	transfer = facade.transaction_factory.create({
		'type': 'transfer_transaction_v1', 'signer_public_key': signer, 'fee': rng.randrange(10**6), 'timestamp': rng.randrange(2**31),
		'deadline': rng.randrange(2**31), 'recipient_address': 'TALICE5VF6J5FYMTCB7A3QG6OIRDRUXDWJGFVXNW', 'amount': rng.randrange(10**9),
		'message': {'message_type': 'plain', 'message': 'hello nem'}})
	transfer.signature = nc.Signature(rand_bytes(rng, 64))
	buffers.append(('transfer', transfer.serialize()))
	for name in sorted(n for n in dir(nc) if 'Transaction' in n and n[-2] == 'V' and n[-1].isdigit() and not n.startswith('NonVerifiable')):
		transaction = getattr(nc, name)()
		if name.startswith('Multisig' + 'TransactionV'):
			transaction.inner_transaction = nc.NonVerifiableTransferTransactionV1()
		transaction.signature = nc.Signature(rand_bytes(rng, 64))
		transaction.signer_public_key = nc.PublicKey(rand_bytes(rng, 32))
		transaction.fee = nc.Amount(rng.randrange(2**64))
		buffers.append((f'default:{name}', transaction.serialize()))
	# schema-directed values of every NEM transaction class: EVERY member takes non-default values (plain integers such as
	# min_approval_delta included), both arms of conditionals, arrays of several lengths
	from .. import codec
	codec.setup_paths()
	net = codec.load_net('nem')
	generator = codec.Generator(net, rng)
	for model in net.models:
		if codec.kind(model) != 'Struct' or model.is_abstract or not model.name[-1].isdigit() or 'Transaction' not in model.name \
			or model.name.startswith('NonVerifiable') or not hasattr(nc, model.name):
			continue
		for _ in range(2 if tier == 'quick' else 12):
			try:
				transaction = codec.to_object(net, model.name, generator.struct(model, 0))
				buffers.append((f'generated:{model.name}', bytes(transaction.serialize())))
			except Exception:  # pylint: disable=broad-except
				continue
	mutations = 4 if tier == 'quick' else 30
	for label, buffer in buffers:
		variants = [(buffer, None)]
		for k in range(mutations):
			region = [(52, 116), (0, 48), (116, len(buffer)), (48, 52)][k % 4]    # signature, head, body, signature size
			bit = rng.randrange(region[0] * 8, region[1] * 8)
			variants.append((flip(buffer, bit), bit))
		for variant, bit in variants:
			def decode_and_convert(data=variant):
				transaction = nc.TransactionFactory.deserialize(data)
				if transaction.serialize() != data:
					return None
				return TransactionFactory.to_non_verifiable_transaction(transaction).serialize()
			try:
				non_verifiable = _bounded(decode_and_convert)
			except (Exception, _Exhausted):  # pylint: disable=broad-except
				continue   # the mutated bytes are not a transaction of the schema (or make the lenient reader allocate without bound)
			if non_verifiable is None:
				continue
			case = {'kind': 'nemhash', 'label': label, 'b': variant.hex(), 'nv': non_verifiable.hex()}
			if bit is not None:
				case.update({'base': buffer.hex(), 'bit': bit})
			cases.append(case)
	return cases


def gen_encode(rng, tier):
	cases = []
	for size in list(range(0, 10)) + [59, 60, 61, 64]:
		for is_leaf in (True, False):
			data = rand_bytes(rng, (size + 1) // 2)
			cases.append({'kind': 'encode', 'path': data.hex(), 'size': size, 'leaf': is_leaf, 'wf': True})
	for _ in range(6 if tier == 'quick' else 60):
		size = rng.randrange(1, 12)
		length = rng.choice([0, max(0, (size + 1) // 2 - 1), (size + 1) // 2 + 1])
		cases.append({'kind': 'encode', 'path': rand_bytes(rng, length).hex(), 'size': size, 'leaf': bool(rng.randrange(2)), 'wf': False})
	return cases


def small_key_sets(rng, tier):
	prefixes = list(itertools.product((0x3, 0xC), repeat=4))
	sets = [combo for size in (1, 2, 3, 4) for combo in itertools.combinations(prefixes, size)]
	if tier == 'quick':
		chosen = rng.sample(sets, 24)
		# make sure the shapes with compressed branch paths are present in every run
		chosen += [((0x3, 0x3, 0x3, 0x3), (0x3, 0x3, 0x3, 0xC)), ((0x3, 0x3, 0x3, 0x3), (0x3, 0xC, 0x3, 0x3), (0x3, 0xC, 0xC, 0x3))]
		return chosen
	return sets


def gen_patricia(rng, tier):
	cases = []
	suffix = nibbles_of(rand_bytes(rng, 30))
	trees = []
	for key_set in small_key_sets(rng, tier):
		trees.append(('small', [(list(prefix) + suffix, rand_bytes(rng, 32)) for prefix in key_set]))
	for _ in range(4 if tier == 'quick' else 100):
		count = rng.randrange(5, 60)
		trees.append(('random', [(nibbles_of(rand_bytes(rng, 32)), rand_bytes(rng, 32)) for _ in range(count)]))
	corruption_cycle = itertools.cycle(['state', 'unanchored', 'value', 'unlinked-drop', 'unlinked-leaf-path', 'key-nibble', 'truncated'])
	for tree_number, (shape, items) in enumerate(trees):
		root = build_tree(items)
		nomodel = tier == 'thorough' and shape == 'small' and tree_number % 5 != 0
		other_roots = [rand_bytes(rng, 32) for _ in range(rng.randrange(0, 3))]
		position = rng.randrange(len(other_roots) + 1)
		roots = other_roots[:position] + [root.hash()] + other_roots[position:]
		state_hash = sha3(b''.join(roots))

		def add(key_nibbles, value, chain, what, state=state_hash, root_list=None, judged=True):
			key = bytes(key_nibbles[i] * 16 + key_nibbles[i + 1] for i in range(0, 64, 2))
			chain = [node.detached() if node.children is not None else node for node in chain]
			root_list = roots if root_list is None else root_list
			cases.append({
				'kind': 'patricia', 'shape': shape, 'what': what, 'key': key.hex(), 'value': value.hex(),
				'buf': b''.join(node.serialize() for node in chain).hex(), 'nodes': [node.render() for node in chain],
				'state': state.hex(), 'roots': [r.hex() for r in root_list],
				'expect': p_verdict(key, value, chain, state, root_list) if judged else None,
				'inner_paths': any(node.path for node in chain[:-1]), 'nomodel': nomodel})

		present = items if (tier == 'thorough' or shape == 'small') else rng.sample(items, 3)
		for key_nibbles, value in present:
			add(key_nibbles, value, cut_proof(root, key_nibbles), 'present')
		# absent keys: a third nibble at a branching position (dead end), another key of the alphabet, a random key
		absent = []
		base = list(rng.choice(items)[0])
		where = rng.randrange(4)
		absent.append(base[:where] + [rng.choice([0x0, 0x7, 0xF])] + base[where + 1:])
		absent.append(list(rng.choice([0x3, 0xC]) for _ in range(4)) + base[4:])
		absent.append(nibbles_of(rand_bytes(rng, 32)))
		existing = {tuple(k) for k, _ in items}
		for key_nibbles in absent:
			if tuple(key_nibbles) not in existing:
				add(key_nibbles, rand_bytes(rng, 32), cut_proof(root, key_nibbles), 'absent')
		# corruptions of an honest positive proof
		key_nibbles, value = rng.choice(items)
		chain = cut_proof(root, key_nibbles)
		for _ in range(2 if tier == 'quick' else 1):
			what = next(corruption_cycle)
			if what == 'state':
				add(key_nibbles, value, chain, what, state=flip(state_hash, rng.randrange(256)))
			elif what == 'unanchored':
				replaced = [r if r != root.hash() else flip(r, rng.randrange(256)) for r in roots]
				add(key_nibbles, value, chain, what, state=sha3(b''.join(replaced)), root_list=replaced)
			elif what == 'value':
				add(key_nibbles, flip(value, rng.randrange(256)), chain, what)
			elif what == 'unlinked-drop' and len(chain) >= 3:
				drop = rng.randrange(1, len(chain) - 1)
				add(key_nibbles, value, chain[:drop] + chain[drop + 1:], what)
			elif what == 'unlinked-leaf-path' and len(chain) >= 2:
				leaf = chain[-1]
				changed = PNode(leaf.path[:-1] + [leaf.path[-1] ^ 1], value=leaf.value)
				add(key_nibbles, value, chain[:-1] + [changed], what)
			elif what == 'key-nibble':
				where = rng.randrange(4, 64)
				add(key_nibbles[:where] + [key_nibbles[where] ^ 8] + key_nibbles[where + 1:], value, chain, what)
			elif what == 'truncated' and len(chain) >= 2:
				add(key_nibbles, value, chain[:rng.randrange(1, len(chain))], what)
		# outside the property (not proofs cut from a tree): only model vs implementation
		if shape == 'small' and len(chain) >= 2 and rng.randrange(4) == 0:
			add(key_nibbles, value, [chain[0], chain[-1], chain[-1]], 'leaf-in-the-middle', judged=False)
	cases.append({
		'kind': 'patricia', 'shape': 'none', 'what': 'empty-path', 'key': bytes(32).hex(), 'value': bytes(32).hex(), 'buf': '', 'nodes': [],
		'state': sha3(b'').hex(), 'roots': [], 'expect': None, 'inner_paths': False})
	return cases


def patricia_case(shape, what, key_nibbles, value, chain, state, root_list):
	"""One judged `patricia` case (same dictionary as the ones gen_patricia builds)."""
	key = bytes(key_nibbles[i] * 16 + key_nibbles[i + 1] for i in range(0, 64, 2))
	chain = [node.detached() if node.children is not None else node for node in chain]
	return {
		'kind': 'patricia', 'shape': shape, 'what': what, 'key': key.hex(), 'value': value.hex(),
		'buf': b''.join(node.serialize() for node in chain).hex(), 'nodes': [node.render() for node in chain],
		'state': state.hex(), 'roots': [r.hex() for r in root_list], 'expect': p_verdict(key, value, chain, state, root_list),
		'inner_paths': any(node.path for node in chain[:-1]), 'nomodel': False}


def gen_patricia_roots(rng, tier):
	"""The sub cache roots list as an input of its own: the state hash is SHA3-256 over ALL roots in order, whatever their value.  Lists that
	contain the all-zero hash (the root of an empty sub cache) once, several times, next to the proven tree's root or alone; the honest
	list with zero hashes inserted or removed while the state hash stays (no longer the hash of the list); roots one bit away from zero."""
	zero = bytes(32)
	cases = []
	prefixes = list(itertools.product((0x3, 0xC), repeat=4))
	for number in range(6 if tier == 'quick' else 80):
		suffix = nibbles_of(rand_bytes(rng, 30))
		if number % 3 == 2:
			shape, items = 'random', [(nibbles_of(rand_bytes(rng, 32)), rand_bytes(rng, 32)) for _ in range(rng.randrange(2, 20))]
		else:
			shape, items = 'small', [(list(prefix) + suffix, rand_bytes(rng, 32)) for prefix in rng.sample(prefixes, rng.randrange(1, 5))]
		root = build_tree(items)
		present, value = rng.choice(items)
		absent = list(present)
		absent[rng.randrange(4)] = rng.choice([0x0, 0x7, 0xF])
		lookups = [(present, value)] + ([(absent, rand_bytes(rng, 32))] if tuple(absent) not in {tuple(k) for k, _ in items} else [])

		def mixed(count, zeros):
			others = [zero] * zeros + [rand_bytes(rng, 32) for _ in range(count - zeros)]
			rng.shuffle(others)
			position = rng.randrange(len(others) + 1)
			return others[:position] + [root.hash()] + others[position:]

		for key_nibbles, tested in lookups:
			chain = cut_proof(root, key_nibbles)
			# honest: the list the state hash was made from, with empty sub caches in it
			for roots in (mixed(rng.randrange(1, 4), 1), mixed(rng.randrange(2, 5), 2), mixed(rng.randrange(1, 3), 0)):
				cases.append(patricia_case(shape, 'zero-roots-honest' if zero in roots else 'roots-honest', key_nibbles, tested, chain, sha3(b''.join(roots)), roots))
		key_nibbles, tested = lookups[0]
		chain = cut_proof(root, key_nibbles)
		honest = mixed(rng.randrange(0, 3), 0)
		state = sha3(b''.join(honest))
		where = rng.randrange(len(honest) + 1)
		cases.append(patricia_case(shape, 'zero-roots-inserted', key_nibbles, tested, chain, state, honest[:where] + [zero] * rng.randrange(1, 3) + honest[where:]))
		with_zeros = mixed(rng.randrange(1, 4), 1)
		cases.append(patricia_case(
			shape, 'zero-roots-removed', key_nibbles, tested, chain, sha3(b''.join(with_zeros)), [r for r in with_zeros if r != zero]))
		near = flip(zero, rng.randrange(256))
		cases.append(patricia_case(shape, 'near-zero-root-dropped', key_nibbles, tested, chain, sha3(b''.join(honest)), honest + [near]))
		cases.append(patricia_case(shape, 'near-zero-root-honest', key_nibbles, tested, chain, sha3(b''.join(honest + [near])), honest + [near]))
		if number % 2 == 0:
			cases.append(patricia_case(shape, 'only-zero-roots', key_nibbles, tested, chain, sha3(zero), [zero]))
	return cases


def corpus_cases():
	"""Past findings kept as regression inputs (corpus/c09_*.json); they are evaluated before the generated cases."""
	import json
	from ..common import VERIF
	cases = []
	for path in sorted((VERIF / 'corpus').glob('c09_*.json')):
		for case in json.loads(path.read_text(encoding='utf8'))['cases']:
			cases.append(dict(case, corpus=path.name))
	return cases


def gen_deser(rng, tier, patricia_cases):
	cases = []
	step = max(1, len(patricia_cases) // (25 if tier == 'quick' else 400))
	for case in patricia_cases[::step]:
		cases.append({'kind': 'deser', 'buf': case['buf'], 'expect': ';'.join(case['nodes']), 'what': 'serialized-nodes'})
	good = next(c for c in patricia_cases if c['nodes'] and c['nodes'][-1].startswith('leaf'))
	buffer = bytes.fromhex(good['buf'])
	cases.append({'kind': 'deser', 'buf': (b'\xfe' + buffer[1:]).hex(), 'expect': None, 'what': 'bad-marker'})
	cases.append({'kind': 'deser', 'buf': (buffer + b'\x7f').hex(), 'expect': None, 'what': 'bad-marker-after-nodes'})
	cases.append({'kind': 'deser', 'buf': buffer[:-1].hex(), 'expect': None, 'what': 'truncated-leaf-value'})
	cases.append({'kind': 'deser', 'buf': (buffer + b'\xff\x02\x12').hex(), 'expect': None, 'what': 'truncated-leaf-value'})
	cases.append({'kind': 'deser', 'buf': (buffer + b'\x00\x00\x01\x00' + rand_bytes(rng, 31)).hex(), 'expect': None, 'what': 'truncated-link'})
	return cases


# ---------------------------------------------------------------------------------------------------------------------
# implementation

class RawTransaction:
	"""What SymbolFacade.hash_transaction reads of a transaction, backed by raw bytes (any bit pattern, incl. size / reserved words)."""

	def __init__(self, buffer):
		from symbolchain import sc
		self._buffer = buffer
		self.signature = sc.Signature(buffer[8:72].ljust(64, b'\0')[:64])
		self.signer_public_key = sc.PublicKey(buffer[72:104].ljust(32, b'\0')[:32])

	def serialize(self):
		return self._buffer


def render_impl_node(node):
	path = f'{node.path.size}:{bytes(node.path.path).hex()}'
	if hasattr(node, 'value'):
		return f'leaf:{path}:{node.value.bytes.hex()}'
	return f'branch:{path}:' + '/'.join(link.bytes.hex() if link else '-' for link in node.links)


def impl(case):
	# pylint: disable=too-many-return-statements,too-many-locals
	from symbolchain.CryptoTypes import Hash256
	from symbolchain.symbol import Merkle
	kind = case['kind']
	try:
		if kind == 'root':
			builder = Merkle.MerkleHashBuilder()
			blob = bytes.fromhex(case['leaves'])
			for i in range(0, len(blob), 32):
				builder.update(Hash256(blob[i:i + 32]))
			return builder.final().bytes.hex()
		if kind == 'paths':
			blob = bytes.fromhex(case['leaves'])
			leaves = [blob[i:i + 32] for i in range(0, len(blob), 32)]
			return ';'.join(','.join(('L' if left else 'R') + h.hex() for h, left in p_path(leaves, p)) for p in case['positions'])
		if kind == 'prove':
			path = [Merkle.MerklePart(Hash256(bytes.fromhex(h)), left) for h, left in case['path']]
			return 'T' if Merkle.prove_merkle(Hash256(bytes.fromhex(case['leaf'])), path, Hash256(bytes.fromhex(case['root']))) else 'F'
		if kind == 'txhash':
			from symbolchain import sc
			from symbolchain.facade.SymbolFacade import SymbolFacade
			facade = SymbolFacade(case['network'])
			buffer = bytes.fromhex(case['b'])
			if case['mode'] == 'object':
				try:
					transaction = sc.TransactionFactory.deserialize(buffer)
					if transaction.serialize() != buffer:
						return 'not-a-transaction'
				except Exception:  # pylint: disable=broad-except
					return 'not-a-transaction'
			else:
				transaction = RawTransaction(buffer)
			return facade.hash_transaction(transaction).bytes.hex()
		if kind == 'embedded':
			from symbolchain import sc
			from symbolchain.facade.SymbolFacade import SymbolFacade
			embedded = [sc.EmbeddedTransactionFactory.deserialize(bytes.fromhex(b)) for b in case['txs']]
			return SymbolFacade.hash_embedded_transactions(embedded).bytes.hex()
		if kind == 'nemhash':
			from symbolchain import nc
			from symbolchain.facade.NemFacade import NemFacade
			return NemFacade.hash_transaction(nc.TransactionFactory.deserialize(bytes.fromhex(case['b']))).bytes.hex()
		if kind == 'encode':
			return Merkle._encode_path(Merkle.PatriciaTreePath(bytes.fromhex(case['path']), case['size']), case['leaf']).hex()  # pylint: disable=protected-access
		if kind == 'deser':
			return ';'.join(render_impl_node(node) for node in Merkle.deserialize_patricia_tree_nodes(bytes.fromhex(case['buf'])))
		if kind == 'patricia':
			nodes = Merkle.deserialize_patricia_tree_nodes(bytes.fromhex(case['buf']))
			verdict = Merkle.prove_patricia_merkle(
				Hash256(bytes.fromhex(case['key'])), Hash256(bytes.fromhex(case['value'])), nodes, Hash256(bytes.fromhex(case['state'])),
				[Hash256(bytes.fromhex(r)) for r in case['roots']])
			return str(verdict.value)
	except Exception as ex:  # pylint: disable=broad-except
		return canonical_exception(ex)
	raise ValueError(kind)


# ---------------------------------------------------------------------------------------------------------------------
# model

def hx(text):
	return f'(hx "{text}")'


def seed_of(network_name):
	from symbolchain.facade.SymbolFacade import SymbolFacade
	return SymbolFacade(network_name).network.generation_hash_seed.bytes.hex()


def leaves_literal(blob):
	"""Leaves as a Gallina term; string literals are kept short (a 64 000 character literal overflows coqc's stack)."""
	chunk = 64 * 64
	return '(flat_map leaves_of [' + '; '.join(f'"{blob[i:i + chunk]}"' for i in range(0, len(blob), chunk)) + '])'


def model(case):
	kind = case['kind']
	if kind == 'root':
		return f'render_bytes (merkle_final sha3_256 {leaves_literal(case["leaves"])})'
	if kind == 'paths':
		return f'paths_case {leaves_literal(case["leaves"])} [{"; ".join(str(p) for p in case["positions"])}]%nat'
	if kind == 'prove':
		parts = '; '.join(f'mp {"true" if left else "false"} "{h}"' for h, left in case['path'])
		return f'bool_to_string (prove_merkle sha3_256 {hx(case["leaf"])} [{parts}] {hx(case["root"])})'
	if kind == 'txhash':
		buffer = bytes.fromhex(case['b'])
		signature, signer = buffer[8:72].ljust(64, b'\0')[:64], buffer[72:104].ljust(32, b'\0')[:32]
		return f'render_bytes (hash_transaction_bytes sha3_256 {hx(signature.hex())} {hx(signer.hex())} {hx(seed_of(case["network"]))} {hx(case["b"])})'
	if kind == 'embedded':
		return f'render_bytes (hash_embedded_transactions sha3_256 [{"; ".join(hx(b) for b in case["txs"])}])'
	if kind == 'nemhash':
		return f'to_hex (nem_hash_transaction keccak_256 {hx(case["nv"])})'
	if kind == 'encode':
		return f'render_bytes (encode_path {{| pp_bytes := {hx(case["path"])}; pp_size := {case["size"]} |}} {"true" if case["leaf"] else "false"})'
	if kind == 'deser':
		return f'render_nodes (deserialize_patricia_tree_nodes {hx(case["buf"])})'
	if kind == 'patricia':
		return f'patricia_case {hx(case["key"])} {hx(case["value"])} {hx(case["buf"])} {hx(case["state"])} [{"; ".join(hx(r) for r in case["roots"])}]'
	raise ValueError(kind)


def cost(case):
	"""Rough number of Gallina hash blocks, to balance the shards."""
	kind = case['kind']
	if kind in ('root', 'paths'):
		return 1 + case['count']
	if kind == 'prove':
		return 1 + len(case['path'])
	if kind == 'patricia':
		return 2 + 5 * len(case['nodes'])
	if kind == 'txhash':
		return 1 + len(case['b']) // 272
	return 2


def evaluate_models(cases):
	"""Evaluates all model expressions, heavy ones in their own shard."""
	order = sorted((i for i in range(len(cases)) if not cases[i].get('nomodel')), key=lambda i: -cost(cases[i]))
	results = [None] * len(cases)
	groups = [([i for i in order if cost(cases[i]) >= 150], 1), ([i for i in order if 20 <= cost(cases[i]) < 150], 3),
		([i for i in order if cost(cases[i]) < 20], 24)]
	for number, (indexes, shard) in enumerate(groups):
		# interleave so that every shard of a group gets a similar load
		shards = max(1, (len(indexes) + shard - 1) // shard)
		arranged = [indexes[k] for s in range(shards) for k in range(s, len(indexes), shards)]
		values = coq_eval(PRELUDE, [model(cases[i]) for i in arranged], f'c09g{number}', shard=shard, timeout=1500)
		for i, value in zip(arranged, values):
			results[i] = value
	return results


# ---------------------------------------------------------------------------------------------------------------------
# property oracle

def oracle(case, out):
	# pylint: disable=too-many-return-statements,too-many-branches
	kind = case['kind']
	if kind == 'root':
		blob = bytes.fromhex(case['leaves'])
		expected = p_root([blob[i:i + 32] for i in range(0, len(blob), 32)]).hex()
		return None if out == expected else f'[root-definition] merkle root of {case["count"]} leaves is {out}, the pairwise tree gives {expected}'
	if kind == 'paths':
		return None   # the harness' own path builder; compared with the model's merkle_path in the correspondence
	if kind == 'prove':
		expected = 'T' if case['expect'] else 'F'
		return None if out == expected else \
			f'[{case["what"]}-{expected}] prove_merkle ({case["what"]}, {case["count"]} leaves, position {case["position"]}) returned {out}, expected {expected}'
	if kind == 'txhash':
		buffer = bytes.fromhex(case['b'])
		if out == 'not-a-transaction':
			return None
		if len(buffer) < 112:
			return None if out == 'crash:IndexError' else f'[short-buffer] transaction of {len(buffer)} bytes hashed to {out}'
		seed = bytes.fromhex(seed_of(case['network']))
		expected = sha3(buffer[8:72] + buffer[72:104] + seed + p_window(buffer)).hex()
		if out != expected:
			return f'[hash-definition] hash {out} != SHA3-256(signature || signer || seed || window) = {expected}'
		if 'base' in case:
			base = bytes.fromhex(case['base'])
			base_hash = sha3(base[8:72] + base[72:104] + seed + p_window(base)).hex()
			covered = p_covered(base, case['bit'] // 8)
			if (out != base_hash) != covered:
				return f'[{"covered-bit-ignored" if covered else "uncovered-bit-hashed"}] bit {case["bit"]} is {"covered" if covered else "not covered"} but the hash {"changed" if out != base_hash else "did not change"}'
		return None
	if kind == 'embedded':
		expected = p_root([sha3(bytes.fromhex(b)) for b in case['txs']]).hex()
		return None if out == expected else f'[embedded-root-definition] embedded transactions hash {out} != merkle root of the embedded hashes {expected}'
	if kind == 'nemhash':
		import sha3 as keccak   # harness shim (hashlib has no original Keccak)
		buffer = bytes.fromhex(case['b'])
		expected = keccak.keccak_256(p_nem_non_verifiable(buffer)).digest().hex()
		if out != expected:
			return f'[hash-definition] NEM hash {out} != Keccak-256 of the serialization without the signature = {expected}'
		if 'base' in case:
			base = bytes.fromhex(case['base'])
			base_hash = keccak.keccak_256(p_nem_non_verifiable(base)).digest().hex()
			covered = not 48 <= case['bit'] // 8 < 116 and case['bit'] // 8 < p_nem_covered_end(base)
			if (out != base_hash) != covered:
				return f'[{"covered-bit-ignored" if covered else "uncovered-bit-hashed"}] bit {case["bit"]} is {"covered" if covered else "not covered"} but the hash {"changed" if out != base_hash else "did not change"}'
		return None
	if kind == 'encode':
		if not case['wf']:
			return None
		nibbles = nibbles_of(bytes.fromhex(case['path']))[:case['size']]
		expected = hp_encode(nibbles, case['leaf']).hex()
		return None if out == expected else f'[hex-prefix] encoded path {out} != hex-prefix encoding {expected}'
	if kind == 'deser':
		if case['expect'] is None:
			return None if out == 'reject' else f'[malformed-accepted] malformed buffer ({case["what"]}) gave {out[:80]}'
		return None if out == case['expect'] else f'[parse-roundtrip] parsed nodes differ from the serialized ones: {out[:120]}'
	if kind == 'patricia':
		if case['expect'] is None:
			return None
		return None if out == str(case['expect']) else \
			f'[{case["what"]}-expected-{hex(case["expect"])}-got-{out}] proof ({case["what"]}, {case["shape"]} tree, {len(case["nodes"])} nodes) got verdict {out}, the tree implies {case["expect"]} ({hex(case["expect"])})'
	raise ValueError(kind)


def signature(case, out, problem):
	"""Class of the failure (kind + tag of the oracle message), so that one finding is reported once."""
	if case['kind'] == 'patricia' and case.get('inner_paths') and out == str(CODES['path']) \
		and case['expect'] in (CODES['positive'], CODES['negative'], CODES['inconclusive']):
		return 'patricia:branch-path-spelled-after-link-index'
	tag = problem[1:problem.index(']')] if problem.startswith('[') else 'other'
	return f'{case["kind"]}:{tag}'


def describe(case):
	short = {k: (v if not isinstance(v, str) or len(v) <= 80 else v[:40] + f'...({len(v) // 2} bytes)') for k, v in case.items() if k not in ('nodes',)}
	return short


def divergence_probe():
	"""deserialize_patricia_tree_nodes on a buffer truncated inside a branch path never reaches eof (observation, outside C09's text)."""
	import subprocess
	import sys
	from ..common import impl_env
	code = 'import resource\nresource.setrlimit(resource.RLIMIT_AS, (1 << 30, 1 << 30))\n' \
		'from symbolchain.symbol.Merkle import deserialize_patricia_tree_nodes\nprint(len(deserialize_patricia_tree_nodes(bytes([0, 1]))))\n'
	try:
		proc = subprocess.run([sys.executable, '-c', code], env=impl_env(), capture_output=True, text=True, timeout=5, check=False)
		return 'terminates' if proc.returncode == 0 else 'exhausts-memory'
	except subprocess.TimeoutExpired:
		return 'does-not-terminate-within-5s'


# ---------------------------------------------------------------------------------------------------------------------
# hash, then assign a member of the SAME transaction object in place, then hash again (self-contained family: own generator,
# implementation driver and oracle; no model expression -- the hash definitions P above are applied to the bytes the object serializes to)

REHASH_KEEP = ('type_', 'version')    # assigning these makes the object a different (ill-formed) kind of transaction


def rehash_members(obj, path=(), depth=0):
	"""[(path, class of value, current value)] of everything assignable in a transaction object (nested structs, first array elements)."""
	import enum
	from symbolchain.BaseValue import BaseValue
	from symbolchain.ByteArray import ByteArray
	found = []
	for name in dir(type(obj)):
		descriptor = getattr(type(obj), name, None)
		if name.startswith('_') or name in REHASH_KEEP or not isinstance(descriptor, property) or descriptor.fset is None:
			continue
		try:
			value = getattr(obj, name)
		except Exception:  # pylint: disable=broad-except
			continue
		here = path + (name,)
		if value is None or isinstance(value, bool):
			continue
		if isinstance(value, enum.Enum):
			found.append((here, 'enum', value))
		elif isinstance(value, BaseValue):
			found.append((here, 'base', value))
		elif isinstance(value, ByteArray):
			found.append((here, 'bytearray', value))
		elif isinstance(value, (bytes, bytearray, memoryview)):
			found.append((here, 'bytes', bytes(value)))
		elif isinstance(value, int):
			found.append((here, 'int', value))
		elif isinstance(value, list):
			if value:
				found.append((here, 'list', value))
				if depth < 3 and hasattr(value[0], 'serialize'):
					found += rehash_members(value[0], here + (0,), depth + 1)
		elif hasattr(value, 'serialize') and depth < 3:
			found += rehash_members(value, here, depth + 1)
	return found


def rehash_assignment(rng, path, klass, value):
	edit = {'path': list(path)}
	if klass == 'base':
		return {**edit, 'op': rng.choice(['base', 'base', 'base-inplace']), 'value': value.value ^ (1 << rng.randrange(8 * value.size - 1))}
	if klass == 'int':
		return {**edit, 'op': 'int', 'value': value ^ 1}
	if klass == 'bytearray':
		return {**edit, 'op': 'bytearray', 'value': flip(value.bytes, rng.randrange(8 * len(value.bytes))).hex()}
	if klass == 'bytes':
		choices = [value + bytes([rng.randrange(256)])] + ([flip(value, rng.randrange(8 * len(value))), value[:-1]] if value else [])
		return {**edit, 'op': 'bytes', 'value': rng.choice(choices).hex()}
	if klass == 'enum':
		others = [member.name for member in type(value) if member is not value]
		return {**edit, 'op': 'enum', 'value': rng.choice(others)} if others else None
	return {**edit, 'op': rng.choice(['pop', 'dup'])}


def rehash_apply(transaction, edit):
	"""The change is made on the object itself: through the member's setter, or (pop / dup / base-inplace) inside the member's current value."""
	target = transaction
	for step in edit['path'][:-1]:
		target = target[step] if isinstance(step, int) else getattr(target, step)
	name = edit['path'][-1]
	old = getattr(target, name)
	operation = edit['op']
	if operation == 'base':
		setattr(target, name, type(old)(edit['value']))
	elif operation == 'base-inplace':
		old.value = edit['value']
	elif operation == 'int':
		setattr(target, name, edit['value'])
	elif operation == 'bytearray':
		setattr(target, name, type(old)(bytes.fromhex(edit['value'])))
	elif operation == 'bytes':
		setattr(target, name, bytes.fromhex(edit['value']))
	elif operation == 'enum':
		setattr(target, name, type(old)[edit['value']])
	elif operation == 'pop':
		old.pop()
	else:
		old.append(old[0])


def rehash_nem_transactions(rng):
	"""(network, label, serialized) of NEM transactions built through the facade factory + a default object of every class."""
	from symbolchain import nc
	from symbolchain.CryptoTypes import Hash256, PublicKey
	from symbolchain.facade.NemFacade import NemFacade
	result = []
	for network_name in ('testnet', 'mainnet'):
		facade = NemFacade(network_name)
		signer = PublicKey(rand_bytes(rng, 32))
		address = facade.network.public_key_to_address(PublicKey(rand_bytes(rng, 32)))
		base = {'signer_public_key': signer, 'fee': rng.randrange(10**6), 'timestamp': rng.randrange(2**31), 'deadline': rng.randrange(2**31)}
		transfer1 = facade.transaction_factory.create({
			**base, 'type': 'transfer_transaction_v1', 'recipient_address': address, 'amount': rng.randrange(10**9),
			'message': {'message_type': 'plain', 'message': 'hello nem'}})
		transfer2 = facade.transaction_factory.create({
			**base, 'type': 'transfer_transaction_v2', 'recipient_address': address, 'amount': rng.randrange(10**9),
			'mosaics': [{'mosaic': {'mosaic_id': {'namespace_id': {'name': b'nem'}, 'name': b'xem'}, 'amount': rng.randrange(10**9)}}]})
		modification = facade.transaction_factory.create({
			**base, 'type': 'multisig_account_modification_transaction_v2', 'min_approval_delta': 1,
			'modifications': [{'modification': {'modification_type': 'add_cosignatory', 'cosignatory_public_key': rand_bytes(rng, 32).hex().upper()}}
				for _ in range(2)]})
		multisig = facade.transaction_factory.create({
			**base, 'type': 'multisig_transaction_v1', 'inner_transaction': facade.transaction_factory.to_non_verifiable_transaction(transfer2)})
		cosignature = facade.transaction_factory.create({
			**base, 'type': 'cosignature_v1', 'other_transaction_hash': Hash256(rand_bytes(rng, 32)), 'multisig_account_address': address})
		cosignature.signature = nc.Signature(rand_bytes(rng, 64))
		wrapper = nc.SizePrefixedCosignatureV1()
		wrapper.cosignature = cosignature
		multisig.cosignatures.append(wrapper)
		for label, transaction in (('transfer_v1', transfer1), ('transfer_v2', transfer2), ('multisig_account_modification', modification),
			('multisig+cosignature', multisig), ('cosignature', cosignature)):
			transaction.signature = nc.Signature(rand_bytes(rng, 64))
			result.append((network_name, label, bytes(transaction.serialize())))
	for name in sorted(n for n in dir(nc) if 'Transaction' in n and n[-2] == 'V' and n[-1].isdigit() and not n.startswith('NonVerifiable')):
		transaction = getattr(nc, name)()
		if name.startswith('Multisig' + 'TransactionV'):
			transaction.inner_transaction = nc.NonVerifiableTransferTransactionV1()
		transaction.signature = nc.Signature(rand_bytes(rng, 64))
		transaction.signer_public_key = nc.PublicKey(rand_bytes(rng, 32))
		result.append(('testnet', f'default:{name}', bytes(transaction.serialize())))
	return result


def gen_rehash(rng, tier):
	from symbolchain import nc, sc
	sources = [('symbol', network, label, buffer) for network, label, buffer in symbol_transactions(rng, 'quick')]
	sources += [('nem', network, label, buffer) for network, label, buffer in rehash_nem_transactions(rng)]
	per_transaction = 3 if tier == 'quick' else 12
	orders = [['hash'], ['hash', 'hash'], ['hash'], []]
	cases = []
	for chain, network, label, buffer in sources:
		try:
			transaction = (sc if chain == 'symbol' else nc).TransactionFactory.deserialize(buffer)
			if bytes(transaction.serialize()) != bytes(buffer):
				continue
			members = rehash_members(transaction)
		except Exception:  # pylint: disable=broad-except
			continue
		if not members:
			continue
		# always: a fee-like top-level number; for aggregates / multisig: the transactions hash, an embedded / inner member, the cosignatures
		wanted = [[m for m in members if len(m[0]) == 1 and m[1] == 'base']]
		wanted.append([m for m in members if m[0] == ('transactions_hash',)])
		wanted.append([m for m in members if m[0][0] in ('transactions', 'inner_transaction') and len(m[0]) > 1])
		wanted.append([m for m in members if m[0][0] in ('cosignatures', 'signature', 'signer_public_key')])
		picks = [rng.choice(group) for group in wanted if group]
		while len(picks) < per_transaction:
			picks.append(rng.choice(members))
		for member_path, klass, value in picks:
			edit = rehash_assignment(rng, member_path, klass, value)
			if edit is None:
				continue
			cases.append({
				'kind': 'rehash', 'chain': chain, 'network': network, 'label': label, 'b': bytes(buffer).hex(), 'uses': orders[len(cases) % len(orders)],
				'edit': edit, 'member': '.'.join(str(step) for step in member_path), 'nomodel': True})
	return cases


def impl_rehash(case):
	from symbolchain import nc, sc
	from symbolchain.facade.NemFacade import NemFacade
	from symbolchain.facade.SymbolFacade import SymbolFacade
	try:
		symbol = case['chain'] == 'symbol'
		facade = SymbolFacade(case['network']) if symbol else NemFacade(case['network'])
		transaction = (sc if symbol else nc).TransactionFactory.deserialize(bytes.fromhex(case['b']))
		first = [facade.hash_transaction(transaction).bytes.hex() for _ in case['uses']]
		embedded_first = SymbolFacade.hash_embedded_transactions(transaction.transactions).bytes.hex() if symbol and hasattr(transaction, 'transactions') else None
		before = bytes(transaction.serialize())
		try:
			rehash_apply(transaction, case['edit'])
			after = bytes(transaction.serialize())
		except Exception as ex:  # pylint: disable=broad-except
			return {'error': f'unparsable:{type(ex).__name__}'}
		second = facade.hash_transaction(transaction).bytes.hex()
		out = {'first': first, 'before': before.hex(), 'after': after.hex(), 'second': second, 'still': bytes(transaction.serialize()) == after}
		if embedded_first is not None:
			out['embedded_first'] = embedded_first
			out['embedded_second'] = SymbolFacade.hash_embedded_transactions(transaction.transactions).bytes.hex()
			out['embedded_after'] = [bytes(e.serialize()).hex() for e in transaction.transactions]
		return out
	except Exception as ex:  # pylint: disable=broad-except
		return {'error': canonical_exception(ex)}


def p_transaction_hash(case, buffer):
	"""The property's definition applied to serialized bytes."""
	if case['chain'] == 'symbol':
		return sha3(buffer[8:72] + buffer[72:104] + bytes.fromhex(seed_of(case['network'])) + p_window(buffer)).hex()
	import sha3 as keccak   # harness shim (hashlib has no original Keccak)
	return keccak.keccak_256(p_nem_non_verifiable(buffer)).digest().hex()


def oracle_rehash(case, out):
	if 'error' in out:
		return None if out['error'].startswith('unparsable') else f'[rehash-raised] hash / assign / hash on one object raised {out["error"]}'
	if out['before'] != case['b'] or not out['still']:
		return None    # the object does not reproduce its bytes: a codec matter (C01/C02)
	before, after = bytes.fromhex(out['before']), bytes.fromhex(out['after'])
	what = f'{case["chain"]} {case["label"]}: after {len(case["uses"])} x hash_transaction and then assigning {case["member"]} ({case["edit"]["op"]}) on the same object'
	expected_before, expected_after = p_transaction_hash(case, before), p_transaction_hash(case, after)
	if any(value != expected_before for value in out['first']):
		return f'[hash-definition] {case["chain"]} {case["label"]}: hash before any assignment {out["first"]} != definition {expected_before}'
	if out['second'] != expected_after:
		stale = ' -- it is still the hash of the bytes BEFORE the assignment' if out['second'] == expected_before else ''
		return f'[rehash-not-current] {what}, hash_transaction gives {out["second"]}, the definition on the current bytes {out["after"][:64]}... gives {expected_after}{stale}'
	if 'embedded_first' in out:
		expected = p_root([sha3(bytes.fromhex(b)) for b in out['embedded_after']]).hex()
		if out['embedded_second'] != expected:
			return f'[rehash-embedded-not-current] {what}, hash_embedded_transactions gives {out["embedded_second"]}, the merkle root of the current embedded hashes is {expected}'
	return None


def run_rehash(check):
	cases = gen_rehash(check.rng, check.tier)
	for case in cases:
		out = impl_rehash(case)
		changed = 'error' not in out and p_transaction_hash(case, bytes.fromhex(out['before'])) != p_transaction_hash(case, bytes.fromhex(out['after']))
		label = f'rehash:{case["chain"]}:{case["edit"]["op"]}:' + (out['error'] if 'error' in out else 'covered' if changed else 'uncovered')
		check.case(label + ':implementation-and-oracle-only', repr(sorted(case.items())), nontrivial='error' not in out)
		problem = oracle_rehash(case, out)
		if problem:
			tag = problem[1:problem.index(']')]
			check.fail(f'rehash:{case["chain"]}:{tag}:{case["label"].split(":")[0]}', problem, {'case': case, 'observed': out, 'how': 'run.py replay <this file>'})
	check.extra['rehash_cases'] = len(cases)


# ---------------------------------------------------------------------------------------------------------------------
# ONE list of parsed node objects judged several times, with the node objects or the buffer they were parsed from changed in between
# (self-contained family: own generator, driver and oracle; the oracle keeps its own copy of the nodes -- PNode -- and applies the same
# changes to it, so every verdict / node hash is the one the nodes AS THEY ARE NOW imply; a change of the caller's buffer changes nothing)

def parse_rendered(text):
	"""PNode from the text form of PNode.render / render_impl_node."""
	kind, size, path_hex, rest = text.split(':', 3)
	nibbles = nibbles_of(bytes.fromhex(path_hex))[:int(size)]
	if kind == 'leaf':
		return PNode(nibbles, value=bytes.fromhex(rest))
	node = PNode(nibbles)
	node.link_override = [None if link == '-' else bytes.fromhex(link) for link in rest.split('/')]
	return node


def session_tree(rng, number):
	prefixes = list(itertools.product((0x3, 0xC), repeat=4))
	suffix = nibbles_of(rand_bytes(rng, 30))
	if number % 3 == 2:
		return [(nibbles_of(rand_bytes(rng, 32)), rand_bytes(rng, 32)) for _ in range(rng.randrange(4, 40))]
	return [(list(prefix) + suffix, rand_bytes(rng, 32)) for prefix in rng.sample(prefixes, rng.randrange(2, 6))]


SESSION_SCENARIOS = [
	'sibling-link-bit', 'forged-leaf', 'buffer-zeroed', 'path-link-bit', 'buffer-reused-for-other-proof', 'links-rebound', 'link-changed-and-restored',
	'buffer-bit-flipped', 'empty-link-filled', 'sibling-link-bit']
SESSION_USES = [['prove'], ['prove', 'prove'], ['hash-all'], [], ['prove', 'hash-all']]


def gen_patricia_sessions(rng, tier):
	cases = []
	for number in range(20 if tier == 'quick' else 400):
		items = session_tree(rng, number)
		root = build_tree(items)
		scenario = SESSION_SCENARIOS[number % len(SESSION_SCENARIOS)]
		key_nibbles, value = rng.choice(items)
		if number % 4 == 3 and scenario not in ('forged-leaf',):
			absent = list(key_nibbles)
			absent[rng.randrange(4)] = rng.choice([0x0, 0x7, 0xF])
			if tuple(absent) not in {tuple(k) for k, _ in items}:
				key_nibbles, value = absent, rand_bytes(rng, 32)
		chain = [node.detached() for node in cut_proof(root, key_nibbles)]
		others = [rand_bytes(rng, 32) for _ in range(rng.randrange(0, 3))]
		position = rng.randrange(len(others) + 1)
		roots = others[:position] + [root.hash()] + others[position:]
		buf = b''.join(node.serialize() for node in chain)
		branches = [index for index, node in enumerate(chain) if not node.is_leaf]
		uses = SESSION_USES[(number // len(SESSION_SCENARIOS) + number) % len(SESSION_USES)]
		steps = []
		for use in uses:
			steps += [{'op': 'prove'}] if use == 'prove' else [{'op': 'hash', 'node': index} for index in range(len(chain))]
		buffer_kind = 'bytearray' if scenario.startswith('buffer') or number % 2 else 'bytes'

		def path_link(index):
			"""Position of the link of chain[index] that names the next node of the chain (None for the last node)."""
			if index + 1 >= len(chain):
				return None
			child_hash = chain[index + 1].hash()
			links = chain[index].links()
			return links.index(child_hash) if child_hash in links else None

		if scenario in ('sibling-link-bit', 'path-link-bit', 'link-changed-and-restored', 'links-rebound', 'empty-link-filled'):
			index = rng.choice(branches)
			links = chain[index].links()
			on_path = path_link(index)
			if scenario == 'path-link-bit' and on_path is not None:
				slot = on_path
			elif scenario == 'empty-link-filled' and None in links:
				slot = rng.choice([i for i, link in enumerate(links) if link is None])
			else:
				slot = rng.choice([i for i, link in enumerate(links) if link is not None and i != on_path] or [i for i, link in enumerate(links) if link])
			changed = flip(links[slot], rng.randrange(256)) if links[slot] else rand_bytes(rng, 32)
			if scenario == 'links-rebound':
				rebound = [link.hex() if link else None for link in links[:slot] + [changed] + links[slot + 1:]]
				steps.append({'op': 'assign-links', 'node': index, 'links': rebound})
			else:
				steps.append({'op': 'set-link', 'node': index, 'index': slot, 'hash': changed.hex()})
			steps += [{'op': 'prove'}, {'op': 'hash', 'node': index}, {'op': 'hash', 'node': 0}]
			if scenario == 'link-changed-and-restored':
				steps += [{'op': 'set-link', 'node': index, 'index': slot, 'hash': links[slot].hex() if links[slot] else None}, {'op': 'prove'}]
		elif scenario == 'forged-leaf':
			forged = rand_bytes(rng, 32)
			leaf_index = len(chain) - 1
			steps.append({'op': 'set-value', 'node': leaf_index, 'value': forged.hex()})
			if leaf_index > 0 and path_link(leaf_index - 1) is not None:
				forged_hash = PNode(chain[leaf_index].path, value=forged).hash()
				steps.append({'op': 'set-link', 'node': leaf_index - 1, 'index': path_link(leaf_index - 1), 'hash': forged_hash.hex()})
			steps += [{'op': 'prove', 'value': forged.hex()}, {'op': 'prove'}]
		elif scenario in ('buffer-zeroed', 'buffer-bit-flipped'):
			if scenario == 'buffer-zeroed':
				data = bytes(len(buf))
			else:
				data = bytearray(buf)
				for _ in range(rng.randrange(1, 4)):
					data[rng.randrange(len(data))] ^= 1 << rng.randrange(8)
			steps += [{'op': 'overwrite-buffer', 'data': bytes(data).hex()}, {'op': 'prove'}, {'op': 'hash', 'node': 0}, {'op': 'hash', 'node': len(chain) - 1}]
		else:
			# the same keys with other values: a proof of the same length from ANOTHER tree arrives in the same receive buffer
			other_items = [(nibbles, rand_bytes(rng, 32)) for nibbles, _ in items]
			other_root = build_tree(other_items)
			other_chain = [node.detached() for node in cut_proof(other_root, key_nibbles)]
			other_buf = b''.join(node.serialize() for node in other_chain)
			other_value = dict((tuple(k), v) for k, v in other_items).get(tuple(key_nibbles), value)
			steps += [{'op': 'overwrite-buffer', 'data': other_buf.hex()}, {'op': 'prove'}]
			steps.append({'op': 'prove', 'value': other_value.hex(), 'state': sha3(other_root.hash()).hex(), 'roots': [other_root.hash().hex()]})
			steps.append({'op': 'hash', 'node': 0})
			assert len(other_buf) == len(buf)
		steps.append({'op': 'render'})
		key = bytes(key_nibbles[i] * 16 + key_nibbles[i + 1] for i in range(0, 64, 2))
		cases.append({
			'kind': 'patricia-session', 'scenario': scenario, 'buffer': buffer_kind, 'key': key.hex(), 'value': value.hex(), 'buf': buf.hex(),
			'nodes': [node.render() for node in chain], 'state': sha3(b''.join(roots)).hex(), 'roots': [r.hex() for r in roots], 'steps': steps})
	return cases


def impl_patricia_session(case):
	from symbolchain.CryptoTypes import Hash256
	from symbolchain.symbol import Merkle
	buffer = bytearray.fromhex(case['buf']) if case['buffer'] == 'bytearray' else bytes.fromhex(case['buf'])
	try:
		nodes = Merkle.deserialize_patricia_tree_nodes(buffer)
	except Exception as ex:  # pylint: disable=broad-except
		return [canonical_exception(ex)] * len(case['steps'])
	observed = []
	for step in case['steps']:
		try:
			operation = step['op']
			if operation == 'prove':
				verdict = Merkle.prove_patricia_merkle(
					Hash256(bytes.fromhex(case['key'])), Hash256(bytes.fromhex(step.get('value', case['value']))), nodes,
					Hash256(bytes.fromhex(step.get('state', case['state']))), [Hash256(bytes.fromhex(r)) for r in step.get('roots', case['roots'])])
				observed.append(str(verdict.value))
			elif operation == 'hash':
				observed.append(bytes(nodes[step['node']].calculate_hash().bytes).hex())
			elif operation == 'render':
				observed.append(';'.join(render_impl_node(node) for node in nodes))
			else:
				if operation == 'set-link':
					nodes[step['node']].links[step['index']] = Hash256(bytes.fromhex(step['hash'])) if step['hash'] else None
				elif operation == 'assign-links':
					nodes[step['node']].links = [Hash256(bytes.fromhex(link)) if link else None for link in step['links']]
				elif operation == 'set-value':
					nodes[step['node']].value = Hash256(bytes.fromhex(step['value']))
				else:
					buffer[:] = bytes.fromhex(step['data'])    # same length: the buffer is written, never resized
				observed.append('-')
		except Exception as ex:  # pylint: disable=broad-except
			observed.append(canonical_exception(ex))
	return observed


def oracle_patricia_session(case, out):
	chain = [parse_rendered(text) for text in case['nodes']]
	key = bytes.fromhex(case['key'])
	done = []
	for number, (step, seen) in enumerate(zip(case['steps'], out)):
		operation = step['op']
		if operation == 'prove':
			roots = [bytes.fromhex(r) for r in step.get('roots', case['roots'])]
			expected = str(p_verdict(key, bytes.fromhex(step.get('value', case['value'])), chain, bytes.fromhex(step.get('state', case['state'])), roots))
			what = 'prove_patricia_merkle gives verdict'
		elif operation == 'hash':
			expected = chain[step['node']].hash().hex()
			what = f'calculate_hash of node {step["node"]} gives'
		elif operation == 'render':
			expected = ';'.join(node.render() for node in chain)
			what = 'the node objects hold'
		else:
			expected = '-'
			what = f'{operation} gives'
			if operation == 'set-link':
				chain[step['node']].link_override[step['index']] = bytes.fromhex(step['hash']) if step['hash'] else None
			elif operation == 'assign-links':
				chain[step['node']].link_override = [bytes.fromhex(link) if link else None for link in step['links']]
			elif operation == 'set-value':
				chain[step['node']].value = bytes.fromhex(step['value'])
		if seen != expected:
			history = ', then '.join(done) or 'nothing'
			return f'[{case["scenario"]}] on ONE list of {len(chain)} parsed nodes (from a {case["buffer"]}) after {history}: step {number + 1} {what} ' \
				f'{seen[:100]}, the nodes as they are now imply {expected[:100]}'
		done.append(operation + (f'(node {step["node"]})' if 'node' in step else ''))
	return None


def run_patricia_sessions(check):
	cases = gen_patricia_sessions(check.rng, check.tier)
	for case in cases:
		out = impl_patricia_session(case)
		verdicts = '/'.join(hex(int(seen)) if seen.isdigit() else seen for step, seen in zip(case['steps'], out) if step['op'] == 'prove')
		check.case(f'patricia-session:{case["scenario"]}:{case["buffer"]}:{verdicts}:implementation-and-oracle-only', repr(sorted(case.items())))
		problem = oracle_patricia_session(case, out)
		if problem:
			check.fail(f'patricia-session:{case["scenario"]}', problem, {'case': case, 'observed': out, 'how': 'run.py replay <this file>'})
	if cases:
		check.sample({'case': describe({k: v for k, v in cases[0].items() if k != 'steps'}), 'steps': [step['op'] for step in cases[0]['steps']]})
	check.extra['patricia_session_cases'] = len(cases)


def run(check, unrecognised):
	check.trusted += [
		'translator harness/gen.py (MerkleOps: constants/operators of 31 anchors in Merkle.py, BufferReader.py, SymbolFacade.py, NemFacade.py, '
		'CryptoTypes.py, sc/__init__.py; names of called functions and the order of hasher.update calls are part of the pinned skeletons)',
		'hashlib.sha3_256 is used only by the property oracle P and the harness tree builders; the model side uses the Gallina Keccak (Sym/Keccak.v)',
		'modelled, not verified: CPython list/bytes indexing and slicing, int.from_bytes, ByteArray equality/length check, hexlify; '
		'the sc/nc codecs (Transaction.serialize / deserialize, to_non_verifiable_transaction) are inputs here, their layout is C01/C02']
	check.assume += [
		'SHA3-256 / Keccak-256 are fixed functions; "a flipped covered bit changes the digest" is collision resistance and is only sampled',
		'path bytes handed to _encode_path are bytes (0..255) and a branch has at most 16 links (true for parsed nodes)',
		'serialized Symbol transactions have at least 112 bytes (shorter buffers raise IndexError in model and implementation alike)']
	check.extra['rule'] = 'leaf counts 0-70, 127-130, 1000 (thorough: 1000-1030, 2047-2049, 4095-4097, 5000) x positions x {honest, leaf/path/flag/root bit flips}; ' \
		'transactions of every Symbol/NEM type x single-bit flips in each header/body region (deserialized objects and raw buffers); ' \
		'all Patricia trees with <= 4 keys over a 2-nibble alphabet (quick: 26 of them) + random larger ones x present/absent keys x corruption classes; ' \
		'sub cache roots lists with all-zero roots (honest; zero hashes inserted / removed under an unchanged state hash; a lone zero root; roots one bit from zero); ' \
		'sessions on ONE list of parsed nodes: judged / hashed, then a link written in place (sibling, path link, empty slot, restored), links re-bound, a leaf value forged ' \
		'together with its parent link, or the bytearray the nodes were parsed from zeroed / bit-flipped / refilled with a same-length proof of another tree, then judged again; ' \
		'distinct = distinct case dictionaries; non-trivial = all but the "not-a-transaction" mutations'
	if unrecognised.get('MerkleOps'):
		check.notes.append(f'anchors not recognised, pinned constants used for them: {unrecognised["MerkleOps"]}')
		for key in unrecognised['MerkleOps']:
			check.broken.append(f'shape:{key}')
	check.prove('C09.v')
	rng = check.rng
	cases = corpus_cases()
	check.extra['corpus_cases'] = len(cases)
	cases += gen_merkle(rng, check.tier) + gen_txhash(rng, check.tier) + gen_nem(rng, check.tier) + gen_encode(rng, check.tier)
	patricia = gen_patricia(rng, check.tier)
	cases += patricia + gen_deser(rng, check.tier, patricia) + gen_patricia_roots(rng, check.tier)
	outs = [impl(case) for case in cases]
	# raw and object mode of the same mutated bytes must agree whenever the bytes are a transaction (checked through the shared oracle)
	models = evaluate_models(cases)
	names = {
		'root': 'merkle_final-vs-MerkleHashBuilder.final', 'paths': 'merkle_path-vs-harness-path-builder', 'prove': 'prove_merkle',
		'txhash': 'hash_transaction_bytes-vs-SymbolFacade.hash_transaction', 'embedded': 'hash_embedded_transactions',
		'nemhash': 'nem_hash_transaction-vs-NemFacade.hash_transaction', 'encode': 'encode_path', 'deser': 'deserialize_patricia_tree_nodes',
		'patricia': 'prove_patricia_merkle'}
	for case, out, mod in zip(cases, outs, models):
		label = case['kind'] + (':' + case['what'] if 'what' in case else '') + (':' + case['mode'] if 'mode' in case else '')
		if case['kind'] == 'patricia' and case['expect'] is not None:
			label += f':{hex(case["expect"])}'
		if 'corpus' in case:
			label = 'corpus:' + label
		if mod is None:
			label += ':implementation-and-oracle-only'
		check.case(label, repr(sorted(case.items())), nontrivial=out != 'not-a-transaction')
		if mod is not None and out != mod and out != 'not-a-transaction':
			check.disagree(names[case['kind']], describe(case), out, mod)
		problem = oracle(case, out)
		if problem:
			check.fail(signature(case, out, problem), problem, {'case': case, 'observed': out, 'how': 'run.py replay <this file>'})
	for case, out in list(zip(cases, outs))[::max(1, len(cases) // 6)]:
		check.sample({'case': describe(case), 'observed': out})
	check.extra['deserialize_truncated_branch_probe'] = divergence_probe()
	check.notes.append(
		'observation outside the property text: deserialize_patricia_tree_nodes(bytes([0, 1])) (input truncated inside a branch path) '
		f'{check.extra["deserialize_truncated_branch_probe"]}; BufferReader.read_bytes does not bound-check, so eof is never reached; '
		'the model returns crash:out-of-fuel for it')
	run_rehash(check)    # last, so that the case stream of the families above is unchanged
	run_patricia_sessions(check)


def replay(data):
	case = data['replay']['case']
	if case['kind'] == 'patricia-session':
		out = impl_patricia_session(case)
		problem = oracle_patricia_session(case, out)
		print('observed:', out)
		print('property:', problem or 'holds')
		return 1 if problem else 0
	if case['kind'] == 'rehash':
		out = impl_rehash(case)
		problem = oracle_rehash(case, out)
		print('observed:', out)
		print('property:', problem or 'holds')
		return 1 if problem else 0
	out = impl(case)
	problem = oracle(case, out)
	print('observed:', out)
	print('property:', problem or 'holds')
	return 1 if problem else 0
