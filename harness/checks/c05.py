"""C05: inline expansion substitutes members in place and never disturbs the template.

Correspondence: the three real AstPostProcessor passes vs the Gallina model (Cats/Expand.v), compared through the canonical text
of astdump / Cats.AstRender on ALL raw descriptors after every pass and on type_descriptors.
Oracle P: the property text re-stated in Python over plain snapshots of the descriptors (independent of the model)."""
import contextlib
import hashlib
import io
import re
import signal

from .. import astdump
from ..common import NCPU, REPO, coq_eval

MANIFEST = {
	'text': 'expand_named_spec / prefix_copy_spec / expand_unnamed_spec (+ fuel bound from acyclicity) / expand_frame are Qed theorems '
		'(Props/C05.v) over the functional model of AstPostProcessor + the ast.py copy functions (Cats/Expand.v, immutable values), with the '
		'compared strings/operators regenerated from the source; model and implementation are compared after each of the three passes on both '
		'shipped schema sets and on generated schemas (every member form, 1-4 templates x 0-3 sites, unnamed chains of depth 0-5). Inherited attributes and factory type are proved for every declaration order (Cats/ExpandInheritProofs.v).',
	'design_ref': 'DESIGN.md section 4, C05',
	'technique': 'Coq proof over regenerated model + vm_compute correspondence with the Python implementation + property oracle on snapshots',
}

IMPORTS = 'From Coq Require Import Uint63.\nFrom Symv Require Import Cats.Ast Cats.AstRender Cats.Expand.'
PRELUDE = IMPORTS + '''
Open Scope string_scope.
(* one line per stage header / declaration; the big text never leaves Coq: it is compared with the implementation's lines inside *)
Definition lines_res (tag : string) (r : result (list decl)) (k : list decl -> list string) : list string :=
  match r with
  | Ok s => (tag ++ ":") :: (map r_decl s ++ k s)%list
  | Reject => [tag ++ ":reject"]
  | Crash c => [tag ++ ":crash:" ++ c]
  end.
Definition render_lines (s : list decl) : list string :=
  lines_res "A" (apply_attributes s) (fun s1 => lines_res "N" (expand_named s1) (fun s2 => lines_res "U" (expand_unnamed s2)
    (fun s3 => "T:" :: map r_decl (type_descriptors s3)))).
(* the implementation's lines arrive as 63-bit polynomial hashes (parsing megabytes of string literals dominated the run time);
   primitive integers are used for this comparison only, never in the proofs *)
Definition ascii_int (c : ascii) : int :=
  match c with
  | Ascii b0 b1 b2 b3 b4 b5 b6 b7 =>
    ((if b0 then 1 else 0) + (if b1 then 2 else 0) + (if b2 then 4 else 0) + (if b3 then 8 else 0) + (if b4 then 16 else 0)
     + (if b5 then 32 else 0) + (if b6 then 64 else 0) + (if b7 then 128 else 0))%uint63
  end.
Fixpoint lhash (s : string) (h : int) : int :=
  match s with
  | EmptyString => h
  | String c r => lhash r (h * 257 + ascii_int c)%uint63
  end.
Fixpoint first_diff (n : Z) (model : list string) (impl : list int) : string :=
  match model, impl with
  | [], [] => "="
  | x :: model', y :: impl' => if Uint63.eqb (lhash x 7%uint63) y then first_diff (n + 1)%Z model' impl' else Z_to_string n ++ "|" ++ x
  | x :: _, [] => Z_to_string n ++ "|" ++ x
  | [], _ :: _ => Z_to_string n ++ "|<end>"
  end.
Definition check_run (s : list decl) (impl : list int) : string := first_diff 0 (render_lines s) impl.
'''

D1 = 'array-copy-aliases-attributes'
D2 = 'array-copy-loses-fill'
D3 = 'sizeref-without-delta'
SIZEOF = 'sizeof-target-not-repointed'

# ---------------------------------------------------------------------------------------------------------------------
# real parser

_PARSER = []


def parse_text(text):
	from catparser.ast import Statement
	from catparser.CatsLarkParser import create_cats_lark_parser
	if not _PARSER:
		_PARSER.append(create_cats_lark_parser())
	result = _PARSER[0].parse(text)
	if isinstance(result, Statement):
		return [result]
	return [child for child in result.children if isinstance(child, Statement)]


class _Timeout(Exception):
	pass


def _alarm(_signum, _frame):
	raise _Timeout()


# ---------------------------------------------------------------------------------------------------------------------
# plain snapshots of descriptors (no object sharing with the implementation)

def _tok(value):
	return value.value if hasattr(value, 'value') and hasattr(value, 'type') else value


def snap_int(obj):
	ref = obj.sizeref
	return ('int', bool(obj.is_unsigned), int(obj.size), None if not ref else (str(ref.property_name), ref.delta))


def snap_type(obj):
	kind = type(obj).__name__
	if kind == 'FixedSizeInteger':
		return snap_int(obj)
	if kind == 'Array':
		elem = obj.element_type
		elem = snap_int(elem) if type(elem).__name__ == 'FixedSizeInteger' else ('name', str(_tok(elem)))
		size = ('fill',) if obj.is_expandable else (str(obj.size) if isinstance(obj.size, str) else int(obj.size))
		return ('array', elem, size, obj.sort_key, bool(obj.is_byte_constrained), obj.alignment, obj.is_last_element_padded)
	return ('name', str(_tok(obj)))


def snap_comment(obj):
	comment = getattr(obj, 'comment', None)
	return None if not comment else str(comment.parsed)


def snap_attrs(attrs):
	return None if attrs is None else [(str(a.name), [v if v is None or isinstance(v, int) else str(v) for v in a.values]) for a in attrs]


def snap_field(obj):
	if type(obj).__name__ == 'StructInlinePlaceholder':
		return {'k': 'inline', 'type': str(obj.inlined_typename), 'comment': snap_comment(obj)}
	value = obj.value
	if type(value).__name__ == 'Conditional':
		value = ('if', value.value if isinstance(value.value, int) else str(value.value), str(value.operation), str(value.linked_field_name))
	elif isinstance(value, str):
		value = str(value)
	return {
		'k': 'field', 'name': str(obj.name), 'type': snap_type(obj.field_type), 'value': value, 'disp': obj.disposition,
		'attrs': snap_attrs(obj.attributes), 'comment': snap_comment(obj)}


def snap_decl(obj):
	if type(obj).__name__ != 'Struct':
		return {'k': 'other', 'name': str(obj.name), 'text': astdump.r_decl(obj), 'kind': type(obj).__name__}
	return {
		'k': 'struct', 'name': str(obj.name), 'disp': obj.disposition, 'fields': [snap_field(f) for f in obj.fields],
		'factory': obj.factory_type, 'attrs': snap_attrs(obj.attributes), 'comment': snap_comment(obj),
		'unaligned': bool(obj.requires_unaligned), 'text': astdump.r_decl(obj)}


def snapshot(models):
	return [snap_decl(model) for model in models]


# canonical text of a snapshot member (same layout as astdump.r_field)

def _q(text):
	return astdump._q(text)  # pylint: disable=protected-access


def _o(value, render):
	return '~' if value is None else render(value)


def _b(value):
	return 'T' if value else 'F'


def t_int(t):
	return f'(int {_b(t[1])} {t[2]} {"~" if t[3] is None else "(" + _q(t[3][0]) + " " + _o(t[3][1], str) + ")"})'


def t_type(t):
	if t[0] == 'int':
		return t_int(t)
	if t[0] == 'name':
		return _q(t[1])
	_, elem, size, sort_key, constrained, alignment, padded = t
	size_text = 'fill' if size == ('fill',) else (_q(size) if isinstance(size, str) else str(size))
	return f'(array {t_int(elem) if elem[0] == "int" else _q(elem[1])} {size_text} {_o(sort_key, _q)} {_b(constrained)} ' \
		f'{_o(alignment, str)} {_o(padded, _b)})'


def t_value(value):
	if value is None:
		return '~'
	if isinstance(value, tuple):
		return f'(if {_q(value[1]) if isinstance(value[1], str) else value[1]} {_q(value[2])} {_q(value[3])})'
	return _q(value) if isinstance(value, str) else str(value)


def t_attrs(attrs):
	if attrs is None:
		return '~'
	return '[' + ' '.join(
		'(@' + name + ' [' + ' '.join('~' if v is None else (_q(v) if isinstance(v, str) else str(v)) for v in values) + '])'
		for name, values in attrs) + ']'


def t_field(member):
	if member['k'] == 'inline':
		return f'(inline {_q(member["type"])} {_o(member["comment"], _q)})'
	return f'(field {_q(member["name"])} {t_type(member["type"])} {t_value(member["value"])} {member["disp"] or "~"} ' \
		f'{t_attrs(member["attrs"])} {_o(member["comment"], _q)})'


# ---------------------------------------------------------------------------------------------------------------------
# implementation run: outcome text per stage + snapshots between the passes

def stage_text(tag, models):
	return '\n'.join([f'{tag}:'] + [astdump.r_decl(model) for model in models])


def impl_run(models):
	"""Runs the three passes on the objects; returns (text, snapshots {stage: snapshot before that stage}, outcomes {stage: 'ok'|...})."""
	from catparser.ast import AstException
	from catparser.AstPostProcessor import AstPostProcessor
	parts = []
	snaps = {}
	outcomes = {}
	processor = AstPostProcessor(models)
	stages = (('A', processor.apply_attributes), ('N', processor.expand_named_inlines), ('U', processor.expand_unnamed_inlines))
	for tag, action in stages:
		snaps[tag] = snapshot(models)
		previous = signal.signal(signal.SIGALRM, _alarm)
		signal.setitimer(signal.ITIMER_REAL, 20)
		try:
			action()
			outcome = 'ok'
		except AstException:
			outcome = 'reject'
		except _Timeout:
			outcome = 'crash:timeout'
		except Exception as ex:  # pylint: disable=broad-except
			outcome = f'crash:{type(ex).__name__}'
		finally:
			signal.setitimer(signal.ITIMER_REAL, 0)
			signal.signal(signal.SIGALRM, previous)
		outcomes[tag] = outcome
		if outcome != 'ok':
			parts.append(f'{tag}:{outcome}')
			return '\n'.join(parts), snaps, outcomes, None
		parts.append(stage_text(tag, models))
	snaps['T'] = snapshot(models)
	outputs = processor.type_descriptors
	parts.append(stage_text('T', outputs))
	return '\n'.join(parts), snaps, outcomes, [str(model.name) for model in outputs]


# ---------------------------------------------------------------------------------------------------------------------
# oracle P (written from the property text; works on snapshots only)

ARRAY_ATTRIBUTES = ('sort_key', 'is_byte_constrained', 'alignment')


def expected_type_after_attributes(member):
	"""None = some attribute does not apply to this member's type (an error is expected)."""
	current = member['type']
	for name, values in member['attrs'] or []:
		if name in ARRAY_ATTRIBUTES and current[0] == 'array':
			_, elem, size, sort_key, constrained, alignment, padded = current
			if name == 'sort_key':
				sort_key = values[0]
			elif name == 'is_byte_constrained':
				constrained = True
			else:
				alignment = values[0]
				padded = 'not' not in values[1:]
			current = ('array', elem, size, sort_key, constrained, alignment, padded)
		elif name == 'sizeref' and current[0] == 'int':
			delta = values[1] if len(values) > 1 and values[1] is not None else 0   # "adjusted by y", y optional
			current = ('int', current[1], current[2], (values[0], delta))
		else:
			return None
	return current


def member_comment_map(parsed):
	"""`[key] text` lines of a named inline's documentation; following lines without a key continue the last key."""
	groups = {}
	key = None
	for line in parsed.split('\n'):
		match = re.match(r'\[(\S+)\] ', line)
		if match:
			key = match.group(1)
			groups[key] = [line[match.end():]]
		elif key is not None:
			groups[key].append(line)
	result = {}
	for name, lines in groups.items():
		pieces = [line.strip('# \t') for line in lines]
		text = pieces[0] if pieces[0] else '\n'
		for piece in pieces[1:]:
			text += '\n' + (piece if piece else '\n')
		result[name] = text
	return result


def prefix_copy(prefix, member, comments):
	"""The copy of a template member at the named inline `prefix` (property text: names prefixed, references re-pointed, rest kept)."""
	def point(name):
		return f'{prefix}_{name}'
	kind = member['type']
	if kind[0] == 'int' and kind[3] is not None:
		kind = ('int', kind[1], kind[2], (point(kind[3][0]), kind[3][1]))
	elif kind[0] == 'array':
		_, elem, size, sort_key, constrained, alignment, padded = kind
		kind = ('array', elem, point(size) if isinstance(size, str) else size, None if sort_key is None else point(sort_key),
			constrained, alignment, padded)
	value = member['value']
	if isinstance(value, tuple):
		value = ('if', value[1], value[2], point(value[3]))
	elif member['disp'] == 'sizeof' and isinstance(value, str):
		value = prefix if value == '__value__' else point(value)   # the measured member is copied too: the reference follows it
	return {
		'k': 'field', 'name': prefix if member['name'] == '__value__' else point(member['name']), 'type': kind, 'value': value,
		'disp': member['disp'], 'attrs': member['attrs'], 'comment': comments.get(member['name'])}


def is_named_site(member):
	return member['k'] == 'field' and member['disp'] == 'inline'


def classify_member_difference(expected, actual_text):
	"""Stable signature for the known copy defects (Array.copy aliasing / fill, sizeof target kept verbatim), None otherwise."""
	if expected['k'] == 'field' and expected['disp'] == 'sizeof' and isinstance(expected['value'], str):
		if re.fullmatch(re.escape(t_field(dict(expected, value='\0'))).replace(re.escape(_q('\0')), r"'[^' ]*'"), actual_text):
			return SIZEOF
	if expected['k'] != 'field' or expected['type'][0] != 'array':
		return None
	kind = expected['type']
	if kind[2] == ('fill',):
		as_zero = dict(expected, type=('array', kind[1], 0) + kind[3:])
		if t_field(as_zero) == actual_text:
			return D2
		kind_zero = as_zero['type']
	else:
		kind_zero = None
	if kind[3] is not None:
		for candidate in (kind, kind_zero):
			if candidate is None:
				continue
			pattern = re.escape(t_field(dict(expected, type=candidate[:3] + ('\0',) + candidate[4:]))).replace(re.escape(_q('\0')), r"'([^' ]*)'")
			match = re.fullmatch(pattern, actual_text)
			if match and match.group(1) != kind[3] and is_stacked_prefix(kind[3], match.group(1)):
				return D1
	return None


def is_stacked_prefix(expected_key, actual_key):
	"""The actual sort key is the expected one with other prefixes in front of (part of) it: first_key / second_first_first_key."""
	common = 0
	while common < min(len(expected_key), len(actual_key)) and expected_key[-1 - common] == actual_key[-1 - common]:
		common += 1
	suffix = expected_key[len(expected_key) - common:]
	return len(actual_key) > common >= 2 and (common == len(expected_key) or len(suffix) - suffix.find('_') >= 2 and '_' in suffix)


class Oracle:
	def __init__(self):
		self.findings = []     # (signature, what)
		self.judged = {'sites': 0, 'templates': 0, 'flattened': 0, 'skipped_sites': 0, 'unjudged_schemas': 0}

	def fail(self, signature, what):
		self.findings.append((signature, what))

	# -- apply_attributes
	def attributes(self, before, outcome, after):
		expected_error = False
		missing_delta = False
		for decl in before:
			if decl['k'] != 'struct':
				continue
			for member in decl['fields']:
				if member['k'] != 'field' or not member['attrs']:
					continue
				if expected_type_after_attributes(member) is None:
					expected_error = True
				if any(name == 'sizeref' and (len(values) < 2 or values[1] is None) for name, values in member['attrs']):
					missing_delta = True
		if expected_error:
			if outcome == 'ok':
				self.fail('inapplicable-attribute-accepted', 'an attribute that does not apply to its member type was silently accepted')
			return False
		if outcome != 'ok':
			if missing_delta and outcome == 'crash:IndexError':
				self.fail(D3, '`@sizeref(x)` without the (documented optional) delta makes apply_attributes raise IndexError')
			else:
				self.fail(f'attributes-unexpected-{outcome}', f'apply_attributes ended with {outcome} on a schema whose attributes all apply')
			return False
		for decl, decl_after in zip(before, after):
			if decl['k'] != 'struct':
				if decl['text'] != decl_after['text']:
					self.fail('non-struct-changed', f'{decl["name"]} changed during apply_attributes')
				continue
			if len(decl['fields']) != len(decl_after['fields']):
				self.fail('attributes-changed-layout', f'{decl["name"]}: member count changed during apply_attributes')
				continue
			for member, member_after in zip(decl['fields'], decl_after['fields']):
				expected = member if member['k'] != 'field' else dict(member, type=expected_type_after_attributes(member))
				if t_field(expected) != t_field(member_after):
					self.fail('attributes-not-applied', f'{decl["name"]}.{member.get("name")}: expected {t_field(expected)} got {t_field(member_after)}')
		return True

	# -- expand_named_inlines
	def named(self, before, outcome, after):
		by_name = {decl['name']: decl for decl in before}
		ill_formed = False
		for decl in before:
			if decl['k'] != 'struct':
				continue
			for member in decl['fields']:
				if not is_named_site(member):
					continue
				target = by_name.get(member['type'][1]) if member['type'][0] == 'name' else None
				if target is None or target['k'] != 'struct' or target['disp'] != 'inline' or any(f['k'] != 'field' for f in target['fields']):
					ill_formed = True
		if ill_formed:
			if outcome == 'ok':
				self.fail('ill-formed-named-inline-accepted', 'a named inline whose target is missing / not an inline struct was expanded silently')
			self.judged['unjudged_schemas'] += 1
			return False
		if outcome != 'ok':
			self.fail(f'named-unexpected-{outcome}', f'expand_named_inlines ended with {outcome} although every target is an inline struct')
			return False
		position = {decl['name']: index for index, decl in enumerate(before)}

		def expected_layout(decl, stack):
			"""The members of `decl` with every named inline replaced, in place and RECURSIVELY, by the prefixed copies of the template's
			members (a template that itself names a template is expanded before it is copied).  None = not judged: the template names
			itself, or a template that is itself a user is declared AFTER the struct that names it - what that site sees depends on the
			order in which the structs are processed."""
			layout = []
			for member in decl['fields']:
				if not is_named_site(member):
					layout.append(member)
					continue
				target = by_name[member['type'][1]]
				target_members = target['fields']
				if any(is_named_site(f) for f in target['fields']):
					if target['name'] in stack or position[target['name']] > position[decl['name']]:
						return None
					target_members = expected_layout(target, stack + [target['name']])
					if target_members is None:
						return None
					self.judged['nested_sites'] = self.judged.get('nested_sites', 0) + 1
				comments = member_comment_map(member['comment']) if member['comment'] is not None else {}
				layout += [prefix_copy(member['name'], f, comments) for f in target_members]
			return layout

		for decl, decl_after in zip(before, after):
			if decl['k'] != 'struct':
				if decl['text'] != decl_after['text']:
					self.fail('non-struct-changed', f'{decl["name"]} changed during expand_named_inlines')
				continue
			has_sites = any(is_named_site(member) for member in decl['fields'])
			if not has_sites:
				# "expanding one site changes neither the template nor any other site": a struct without sites is left alone
				self.judged['templates'] += 1
				if decl['text'] != decl_after['text']:
					signature = 'struct-without-sites-changed'
					if len(decl['fields']) == len(decl_after['fields']):
						kinds = {classify_member_difference(m, t_field(m2)) for m, m2 in zip(decl['fields'], decl_after['fields']) if t_field(m) != t_field(m2)}
						if kinds == {D1}:
							signature = D1
					changed = [(t_field(m), t_field(m2)) for m, m2 in zip(decl['fields'], decl_after['fields']) if t_field(m) != t_field(m2)]
					detail = f'member {changed[0][0]} became {changed[0][1]}' if changed else f'before {decl["text"][:400]} after {decl_after["text"][:400]}'
					self.fail(signature, f'{decl["disp"] or "plain"} struct {decl["name"]} has no named inline but was changed by the expansion of '
						f'other structs: {detail}')
				continue
			expected = expected_layout(decl, [decl['name']])
			judgeable = expected is not None
			if not judgeable:
				self.judged['skipped_sites'] += 1
				continue
			self.judged['sites'] += sum(1 for member in decl['fields'] if is_named_site(member))
			actual = [t_field(member) for member in decl_after['fields']]
			if len(actual) != len(expected):
				self.fail('named-site-member-count', f'{decl["name"]}: {len(actual)} members after expansion, expected {len(expected)}')
				continue
			for member, text in zip(expected, actual):
				if t_field(member) != text:
					signature = classify_member_difference(member, text) or 'named-site-mismatch'
					self.fail(signature, f'{decl["name"]}.{member.get("name")}: expected {t_field(member)} got {text}')
			rest = dict(decl, fields=[], text=None), dict(decl_after, fields=[], text=None)
			if rest[0] != rest[1]:
				self.fail('named-changed-struct-properties', f'{decl["name"]}: properties other than the members changed')
		return True

	# -- expand_unnamed_inlines + type_descriptors
	def unnamed(self, before, outcome, after, output_names):
		by_name = {decl['name']: decl for decl in before}
		position = {decl['name']: index for index, decl in enumerate(before)}

		class Unjudged(Exception):
			pass

		class IllFormed(Exception):
			pass

		def flatten(decl, stack):
			"""(members, inherited attributes in depth-first order, abstract ancestors, nearest abstract, targets precede users)"""
			members, inherited, ancestors, nearest, ordered = [], [], [], None, True
			for member in decl['fields']:
				if member['k'] != 'inline':
					members.append(member)
					continue
				target = by_name.get(member['type'])
				if target is None or target['k'] != 'struct':
					raise IllFormed()
				if target['name'] in stack:
					raise Unjudged()
				sub_members, sub_inherited, sub_ancestors, sub_nearest, sub_ordered = flatten(target, stack + [target['name']])
				members += sub_members
				inherited += (target['attrs'] or []) + sub_inherited
				ancestors += ([target['name']] if target['disp'] == 'abstract' else []) + sub_ancestors
				if target['disp'] == 'abstract':
					nearest = target['name']
				elif sub_nearest is not None:
					nearest = sub_nearest
				ordered = ordered and sub_ordered and position[target['name']] < position[decl['name']]
			return members, inherited, ancestors, nearest, ordered

		try:
			expectations = {decl['name']: flatten(decl, [decl['name']]) for decl in before if decl['k'] == 'struct'}
		except IllFormed:
			if outcome == 'ok':
				self.fail('ill-formed-unnamed-inline-accepted', 'an unnamed inline whose target is missing / not a struct was expanded silently')
			self.judged['unjudged_schemas'] += 1
			return
		except Unjudged:
			self.judged['unjudged_schemas'] += 1
			return
		if outcome != 'ok':
			self.fail(f'unnamed-unexpected-{outcome}', f'expand_unnamed_inlines ended with {outcome} on an acyclic schema whose targets are structs')
			return
		for decl, decl_after in zip(before, after):
			if decl['k'] != 'struct':
				if decl['text'] != decl_after['text']:
					self.fail('non-struct-changed', f'{decl["name"]} changed during expand_unnamed_inlines')
				continue
			members, inherited, ancestors, nearest, ordered = expectations[decl['name']]
			self.judged['flattened'] += 1
			expected = [t_field(member) for member in members]
			actual = [t_field(member) for member in decl_after['fields']]
			if expected != actual:
				self.fail('unnamed-layout-mismatch', f'{decl["name"]}: layout {actual} is not the recursive in-place splice {expected}')
			own = decl['attrs'] or []
			actual_attrs = decl_after['attrs'] or []
			if sorted(t_attrs([a]) for a in own + inherited) != sorted(t_attrs([a]) for a in actual_attrs) or actual_attrs[:len(own)] != own:
				self.fail('unnamed-attributes-mismatch', f'{decl["name"]}: attributes {t_attrs(actual_attrs)} are not own {t_attrs(own)} + inherited {t_attrs(inherited)}')
			elif ordered and actual_attrs != own + inherited:
				self.fail('unnamed-attributes-order', f'{decl["name"]}: attributes {t_attrs(actual_attrs)} expected {t_attrs(own + inherited)}')
			if not ancestors:
				if decl_after['factory'] != decl['factory']:
					self.fail('factory-type-without-abstract-ancestor', f'{decl["name"]}: factory_type {decl_after["factory"]} but no abstract struct is inlined')
			elif decl_after['factory'] not in ancestors:
				self.fail('factory-type-not-an-abstract-ancestor', f'{decl["name"]}: factory_type {decl_after["factory"]}, abstract ancestors {ancestors}')
			elif ordered and decl_after['factory'] != nearest:
				self.fail('factory-type-not-nearest', f'{decl["name"]}: factory_type {decl_after["factory"]}, nearest abstract ancestor {nearest}')
			rest = dict(decl, fields=[], text=None, attrs=None, factory=None), dict(decl_after, fields=[], text=None, attrs=None, factory=None)
			if rest[0] != rest[1]:
				self.fail('unnamed-changed-struct-properties', f'{decl["name"]}: name / disposition / comment changed')
		expected_output = [decl['name'] for decl in after if not (decl['k'] == 'struct' and decl['disp'] == 'inline')]
		if output_names != expected_output:
			self.fail('type-descriptors-filter', f'type_descriptors {output_names} expected {expected_output}')


def declared_before_use(decls):
	"""Hypothesis `targets_first` of expand_unnamed_inherit_partial: every unnamed-inline target is a struct declared earlier."""
	seen = set()
	for decl in decls:
		if decl['k'] == 'struct' and any(member['k'] == 'inline' and member['type'] not in seen for member in decl['fields']):
			return False
		if decl['k'] == 'struct':
			seen.add(decl['name'])
	return True


def judge(snaps, outcomes, output_names):
	oracle = Oracle()
	stages = ['A', 'N', 'U', 'T']

	def after(tag):
		return snaps.get(stages[stages.index(tag) + 1])

	if oracle.attributes(snaps['A'], outcomes['A'], after('A')) and 'N' in outcomes:
		if oracle.named(snaps['N'], outcomes['N'], after('N')) and 'U' in outcomes:
			oracle.unnamed(snaps['U'], outcomes['U'], after('U'), output_names)
	return oracle


# ---------------------------------------------------------------------------------------------------------------------
# generator of schema text

INT_TYPES = ['uint8', 'uint16', 'uint32', 'uint64', 'int8', 'int16', 'int32', 'int64']
COND_OPS = ['equals', 'not equals', 'in', 'not in']
WORDS = ['alpha', 'beta', 'gamma', 'delta', 'size of', 'the value', 'count', 'entry', 'foo bar']


class SchemaGen:
	def __init__(self, rng):
		self.rng = rng
		self.lines = []
		self.features = set()
		self.counter = 0

	def fresh(self, stem):
		self.counter += 1
		return f'{stem}{self.counter}'

	def chance(self, percent):
		return self.rng.randrange(100) < percent

	def comment(self, indent, percent=35):
		if not self.chance(percent):
			return []
		lines = [f'{indent}# {self.rng.choice(WORDS)} {self.rng.choice(WORDS)}']
		if self.chance(30):
			lines.append(f'{indent}# {self.rng.choice(WORDS)}')
		if self.chance(15):
			lines += [f'{indent}#', f'{indent}# {self.rng.choice(WORDS)}']
		return lines

	def number(self, choices=(0, 1, 2, 8, 16, 255)):
		value = self.rng.choice(choices)
		return f'0x{value:X}' if self.chance(30) else str(value)

	# -- members of a template / plain struct; returns (lines, member names)
	def members(self, count, template):
		rng = self.rng
		lines = []
		names = []
		has_value = False
		forms = ['int', 'counted', 'numeric', 'cond', 'sizeref', 'reserved', 'const', 'sizeof', 'typed', 'value', 'counted', 'cond']
		chosen = [rng.choice(forms) for _ in range(count)]
		if template and self.chance(45):
			chosen.append('fill')
		for form in chosen:
			self.features.add(form)
			block = self.comment('\t')
			if form == 'int':
				name = self.fresh('num')
				block.append(f'\t{name} = {rng.choice(INT_TYPES)}')
			elif form in ('counted', 'fill'):
				count_name = self.fresh('cnt')
				name = self.fresh('items')
				elem = rng.choice(['Elem', 'Elem', 'uint8', 'Amt', 'Key', 'int32'])
				if form == 'counted':
					block.append(f'\t{count_name} = {rng.choice(["uint8", "uint16", "uint32"])}')
					names.append(count_name)
					block += self.comment('\t', 20)
				attrs = []
				if elem == 'Elem' and self.chance(60):
					attrs.append(f'\t@sort_key({rng.choice(["first_key", "other_key"])})')
					self.features.add('sort_key')
				if self.chance(35):
					option = rng.choice(['', ', pad_last', ', not pad_last'])
					attrs.append(f'\t@alignment({self.number((4, 8, 16))}{option})')
					self.features.add('alignment' + option.replace(',', '').replace(' ', '_'))
				if form == 'counted' and self.chance(25):
					attrs.append('\t@is_byte_constrained')
					self.features.add('byte_constrained')
				rng.shuffle(attrs)
				block += attrs
				block.append(f'\t{name} = array({elem}, {count_name if form == "counted" else "__FILL__"})')
			elif form == 'numeric':
				name = self.fresh('fixed')
				block.append(f'\t{name} = array({rng.choice(["uint8", "Elem", "int16"])}, {self.number((1, 4, 16, 32))})')
			elif form == 'cond':
				link = self.fresh('kind')
				name = self.fresh('opt')
				link_line = f'\t{link} = {rng.choice(["Kind", "uint8", "uint16"])}'
				value = rng.choice(['FOO', 'BAR', self.number()])
				field = f'\t{name} = {rng.choice(["Amt", "uint32", "Elem", "array(uint8, 4)"])} if {value} {rng.choice(COND_OPS)} {link}'
				names.append(link)
				if self.chance(50):
					block = [link_line] + block + [field]
				else:
					block = block + [field] + [link_line]
			elif form == 'sizeref':
				target = self.fresh('body')
				name = self.fresh('bsize')
				if self.chance(6):
					block.append(f'\t@sizeref({target})')
					self.features.add('sizeref_no_delta')
				else:
					block.append(f'\t@sizeref({target}, {self.number((0, 2, 4))})')
				block.append(f'\t{name} = {rng.choice(["uint16", "uint32"])}')
				block.append(f'\t{target} = Elem')
				names.append(target)
			elif form == 'reserved':
				name = self.fresh('pad')
				block.append(f'\t{name} = make_reserved({rng.choice(["uint32, " + self.number(), "Kind, FOO", "uint8, 0"])})')
			elif form == 'const':
				name = self.fresh('TX_CONST')
				block.append(f'\t{name} = make_const({rng.choice(["uint8, " + self.number(), "Kind, BAR"])})')
			elif form == 'sizeof':
				target = self.fresh('part')
				name = self.fresh('psize')
				block.append(f'\t{name} = sizeof({rng.choice(["uint32", "uint16"])}, {target})')
				block.append(f'\t{target} = Elem')
				names.append(target)
			elif form == 'typed':
				name = self.fresh('val')
				block.append(f'\t{name} = {rng.choice(["Amt", "Key", "Kind", "Elem"])}')
			else:
				if has_value or not template:
					name = self.fresh('val')
					block.append(f'\t{name} = Amt')
				else:
					has_value = True
					name = '__value__'
					if self.chance(50) and names:
						sizes = [n for n in names if n.startswith('cnt') or n.startswith('num')]
						block.append(f'\t__value__ = array(int8, {rng.choice(sizes)})' if sizes else '\t__value__ = Key')
					else:
						block.append(f'\t__value__ = {rng.choice(["Amt", "Key", "uint32"])}')
			names.append(name)
			lines += block + ['']
		return lines, names

	def struct_attributes(self, names):
		rng = self.rng
		lines = []
		usable = [n for n in names if n != '__value__' and not n.startswith('TX_')] or ['size']
		if self.chance(25):
			lines.append(rng.choice(['@is_aligned', '@is_size_implicit']))
		if self.chance(20):
			lines.append(f'@size({rng.choice(usable)})')
		if self.chance(15):
			lines.append(f'@initializes({rng.choice(usable)}, {rng.choice(["FOO", "TX_CONST"])})')
		if self.chance(15):
			lines.append(f'@discriminator({", ".join(rng.sample(usable, min(len(usable), rng.randrange(1, 3))))})')
		if self.chance(10):
			lines.append(f'@comparer({rng.choice(usable)}!ripemd_keccak_256, {rng.choice(usable)})')
		if lines:
			self.features.add('struct_attributes')
		return lines

	def site(self, template_name, template_members):
		name = self.fresh('site')
		lines = []
		if self.chance(55) and template_members:
			self.features.add('site_comment_map')
			keys = self.rng.sample(template_members, min(len(template_members), self.rng.randrange(1, 4)))
			if self.chance(20):
				lines.append(f'\t# {self.rng.choice(WORDS)}')
				lines.append('\t#')
			for index, key in enumerate(keys):
				if index:
					lines.append('\t#')
				lines.append(f'\t# [{key}] {self.rng.choice(WORDS)} {self.rng.choice(WORDS)}')
				if self.chance(25):
					lines.append(f'\t# {self.rng.choice(WORDS)}')
				if self.chance(15):
					lines += ['\t#', f'\t# {self.rng.choice(WORDS)} more']
			if self.chance(10):
				lines += ['\t#', f'\t# [{keys[0]}] again {self.rng.choice(WORDS)}']
		else:
			lines += self.comment('\t', 30)
		lines.append(f'\t{name} = inline {template_name}')
		return lines + [''], name

	def build(self):
		rng = self.rng
		blocks = []   # (name, lines) in dependency order
		base = [
			('Amt', self.comment('') + ['using Amt = uint64', '']),
			('Key', ['using Key = binary_fixed(32)', '']),
			('Kind', self.comment('') + ['enum Kind : uint8', '\t# foo', '\tFOO = 1', '\tBAR = 0x02', '']),
			('Elem', self.comment('') + ['struct Elem', '\tfirst_key = uint32', '\tother_key = Amt', ''])]
		templates = []
		for index in range(rng.randrange(1, 5)):
			name = f'Tmpl{index}'
			lines, names = self.members(rng.randrange(1, 5), True)
			head = self.comment('')
			if templates and self.chance(15):
				inner, inner_names = rng.choice(templates)
				site_lines, site_name = self.site(inner, inner_names)
				lines += site_lines
				self.features.add('template_with_named_inline')
			if self.chance(3):
				lines += ['\tinline Elem', '']
				self.features.add('template_with_unnamed_inline')
			if self.chance(2):
				lines += [f'\tselfsite = inline {name}', '']
				self.features.add('named_self_reference')
			blocks.append((name, head + self.struct_attributes(names) * self.chance(20) + [f'inline struct {name}'] + lines))
			templates.append((name, names))
		sites = []
		for template in templates:
			sites += [template] * rng.choice([0, 1, 1, 2, 2, 3])
		rng.shuffle(sites)
		self.features.add(f'sites_per_schema_{min(len(sites), 6)}')
		# unnamed chains
		chain_structs = []
		for chain in range(rng.randrange(1, 3)):
			depth = rng.choice([0, 1, 1, 2, 2, 3, 4, 5])
			self.features.add(f'chain_depth_{depth}')
			previous = None
			for level in range(depth + 1):
				name = f'Ch{chain}x{level}'
				lines, names = self.members(rng.randrange(0, 3), False)
				own_sites = []
				while sites and self.chance(45):
					template_name, template_members = sites.pop()
					site_lines, _ = self.site(template_name, template_members)
					own_sites.append(site_lines)
				chunks = [[line for line in lines]] if lines else []
				chunks += own_sites
				inlines = []
				if previous is not None:
					inlines.append(previous)
					if self.chance(12):
						inlines.append(previous)
						self.features.add('same_struct_inlined_twice')
				if chain_structs and self.chance(12):
					inlines.append(rng.choice(chain_structs))
					self.features.add('second_unnamed_inline')
				if self.chance(10):
					inlines.append(rng.choice(templates)[0])
					self.features.add('unnamed_inline_of_template')
				for target in inlines:
					chunks.insert(rng.randrange(len(chunks) + 1), [f'\tinline {target}', ''])   # (the parser rejects a comment above an unnamed inline)
				body = [line for chunk in chunks for line in chunk] or ['\tfiller_field = uint8', '']
				if level == depth:
					modifier = rng.choice(['', '', '', 'abstract ']) if depth else ''
				elif level == 0:
					modifier = rng.choice(['abstract ', 'abstract ', 'inline ', ''])
				else:
					modifier = rng.choice(['inline ', 'abstract ', '', 'inline '])
				if modifier == 'abstract ':
					self.features.add('abstract_' + ('root' if level == 0 else 'inner'))
				blocks.append((name, self.comment('') + self.struct_attributes(names) + [f'{modifier}struct {name}'] + body))
				chain_structs.append(name)
				previous = name
		while sites:
			name = self.fresh('User')
			lines, _ = self.members(rng.randrange(0, 2), False)
			body = [line for line in lines]
			for _ in range(min(len(sites), rng.randrange(1, 4))):
				template_name, template_members = sites.pop()
				site_lines, _ = self.site(template_name, template_members)
				position = rng.randrange(len(body) + 1) if not body else rng.choice([0, len(body)])
				body[position:position] = site_lines
			blocks.append((name, self.comment('') + [f'struct {name}'] + body))
		# ill-formed cases (rare)
		fault = rng.randrange(100)
		if fault < 12:
			kind = ['named_unknown', 'named_not_inline', 'named_alias', 'unnamed_unknown', 'unnamed_alias', 'attribute_on_int', 'sizeref_on_array',
				'unnamed_self', 'unnamed_two_cycle', 'sort_key_on_name', 'named_enum', 'unnamed_enum'][fault]
			self.features.add('fault_' + kind)
			body = {
				'named_unknown': ['\tbad_site = inline Missing'], 'named_not_inline': ['\tbad_site = inline Elem'],
				'named_alias': ['\tbad_site = inline Amt'], 'named_enum': ['\tbad_site = inline Kind'],
				'unnamed_unknown': ['\tinline Missing'], 'unnamed_alias': ['\tinline Key'], 'unnamed_enum': ['\tinline Kind'],
				'attribute_on_int': ['\t@sort_key(first_key)', '\tbad_field = uint32'],
				'sizeref_on_array': ['\t@sizeref(other_field, 1)', '\tbad_field = array(uint8, 4)'],
				'sort_key_on_name': ['\t@alignment(8)', '\tbad_field = Elem'],
				'unnamed_self': ['\tbefore_self = uint8', '\tinline Faulty', '\tafter_self = uint16'],
				'unnamed_two_cycle': ['\tbefore_cycle = uint8', '\tinline FaultyPeer', '\tafter_cycle = uint16'],
			}[kind]
			blocks.append(('Faulty', ['@is_aligned'] * self.chance(50) + ['struct Faulty', '\tother_field = uint8'] + body + ['']))
			if kind == 'unnamed_two_cycle':
				blocks.append(('FaultyPeer', ['struct FaultyPeer', '\tpeer_field = uint8', '\tinline Faulty', '']))
		order = rng.randrange(3)
		if order == 1:
			rng.shuffle(blocks)
			self.features.add('order_shuffled')
		elif order == 2:
			blocks.reverse()
			self.features.add('order_reversed')
		else:
			self.features.add('order_dependency')
		all_blocks = base + blocks if self.chance(70) else blocks + base
		text = []
		for _, lines in all_blocks:
			text += lines
			if text and text[-1] != '':
				text.append('')
		return '\n'.join(text).rstrip('\n') + '\n'


def gen_schema(rng):
	generator = SchemaGen(rng)
	text = generator.build()
	return text, sorted(generator.features)


# ---------------------------------------------------------------------------------------------------------------------
# cases

CORNERS = {
	'two-sites-sort-key': '''struct Elem
	first_key = uint32

inline struct Tmpl
	count = uint8
	@sort_key(first_key)
	items = array(Elem, count)

struct User
	first = inline Tmpl
	second = inline Tmpl
''',
	'fill-array-in-template': '''inline struct Tmpl
	size = uint32
	tail = array(uint8, __FILL__)

struct User
	payload = inline Tmpl
''',
	'sizeof-in-template': '''inline struct Tpl
	r1_size = sizeof(uint8, r1)
	r1 = Body
	count = uint8
	__value__ = array(Body, count)

struct Body
	value = uint8

struct User
	# [r1_size] size of the first body
	bar = inline Tpl
	baz = inline Tpl
''',
	'sizeref-without-delta': '''struct Holder
	@sizeref(body)
	body_size = uint16
	body = Body

struct Body
	value = uint8
''',
	'three-sites-alignment': '''struct Elem
	first_key = uint32

inline struct Tmpl
	count = uint8
	@alignment(8, not pad_last)
	@is_byte_constrained
	@sort_key(first_key)
	items = array(Elem, count)
	__value__ = uint64

struct UserA
	one = inline Tmpl
	two = inline Tmpl

struct UserB
	three = inline Tmpl
''',
	'comment-map': '''inline struct Tmpl
	size = uint32
	# own comment is dropped
	__value__ = array(int8, size)
	other = uint8

struct User
	# general words
	#
	# [__value__] the text
	# continues here
	#
	# further paragraph
	#
	# [size] size of text
	#
	# [__value__] replaced entry
	#
	# [missing] unused key
	# [nokey]no space after bracket
	name = inline Tmpl
	# [a][size] odd key
	second = inline Tmpl
''',
	'nested-abstract-order': '''struct Leaf
	inline Middle
	leaf_field = uint8

@is_aligned
abstract struct Middle
	inline Root
	inline Other
	middle_field = uint8

@size(root_field)
abstract struct Root
	root_field = uint32

@is_size_implicit
struct Other
	other_field = uint16

struct LateLeaf
	inline Middle
''',
	'template-after-user-nested': '''struct User
	outer = inline Outer

inline struct Outer
	inner = inline Inner
	count = uint8

inline struct Inner
	value = uint16
	items = array(uint8, value)

struct LateUser
	outer = inline Outer
''',
	'nested-named-inline-templates-before-users': '''inline struct SizePrefixedString
	size = uint32
	__value__ = array(int8, size)

inline struct Labelled
	# [size] size of the label
	label = inline SizePrefixedString
	count = uint8

inline struct Tagged
	tag = inline Labelled
	extra = inline SizePrefixedString

abstract struct Base
	version = uint8

struct Box
	inline Base
	front = inline Labelled
	weight = uint32
	# [label_size] size of the label at the back
	back = inline Labelled

struct Crate
	content = inline Tagged
	note = inline SizePrefixedString
''',
	'named-self-and-cycles': '''inline struct Selfish
	before = uint8
	again = inline Selfish
	after = uint8

struct Loop
	first_field = uint8
	inline Loop
	last_field = uint8

struct Ping
	ping_field = uint8
	inline Pong

struct Pong
	inline Ping
	pong_field = uint8
''',
}

SHIPPED = [
	('symbol/all_generated.cats', 'symbol'), ('nem/all_generated.cats', 'nem'), ('symbol/all.cats', 'symbol'), ('nem/all.cats', 'nem')]


def load_case(case):
	"""Raw descriptors (fresh ast objects) of a case."""
	if 'schema_text' in case:
		return parse_text(case['schema_text'])
	root = REPO / 'catbuffer' / 'schemas'
	with contextlib.redirect_stdout(io.StringIO()):
		return astdump.parse_files(root / case['schema_file'], root / case['include'])


def line_hash(line):
	value = 7
	for byte in line.encode('utf8'):
		value = (value * 257 + byte) & 0x7FFFFFFFFFFFFFFF
	return value


def coq_lines(text):
	return '[' + '; '.join(str(line_hash(line)) for line in text.split('\n')) + ']%uint63'


def evaluate(check, cases, tag, shard):
	"""Runs implementation, oracle and model on the cases."""
	prepared = []
	for case in cases:
		try:
			models = load_case(case)
		except Exception as ex:  # pylint: disable=broad-except
			check.notes.append(f'{case.get("label")}: not parsed by the repo parser ({type(ex).__name__}: {str(ex)[:120]}); skipped')
			continue
		names = [str(model.name) for model in models]
		if len(set(names)) != len(names):
			check.notes.append(f'{case.get("label")}: duplicate declaration names (outside the modelled domain); skipped')
			continue
		term = astdump.coq_decls(models)
		text, snaps, outcomes, output_names = impl_run(models)
		prepared.append((case, term, text, snaps, outcomes, output_names))
	verdicts = coq_eval(
		PRELUDE, [f'check_run {term} {coq_lines(text)}' for _, term, text, _, _, _ in prepared], tag, shard=shard, timeout=1200)
	for (case, _, text, snaps, outcomes, output_names), verdict in zip(prepared, verdicts):
		outcome_key = ''.join(f'{stage}={outcomes[stage]};' for stage in ('A', 'N', 'U') if stage in outcomes)
		check.case(f'{case["kind"]}:{outcome_key}', case.get('label') or hashlib.sha256(case.get('schema_text', '').encode('utf8')).hexdigest())
		for feature in case.get('features', []):
			check.distribution[f'feature:{feature}'] = check.distribution.get(f'feature:{feature}', 0) + 1
		if verdict != '=':
			number, _, model_line = verdict.partition('|')
			lines = text.split('\n')
			impl_line = lines[int(number)] if int(number) < len(lines) else '<end>'
			check.disagree(
				'Expand-model-vs-AstPostProcessor', {k: v for k, v in case.items() if k != 'features'},
				f'line {number}: {impl_line[:700]}', f'line {number}: {model_line[:700]}')
		oracle = judge(snaps, outcomes, output_names)
		if case['kind'] == 'shipped' and 'U' in snaps:
			check.extra.setdefault('shipped_declared_before_use', {})[case['label']] = declared_before_use(snaps['U'])
		for key, value in oracle.judged.items():
			check.extra.setdefault('oracle_judged', {}).setdefault(key, 0)
			check.extra['oracle_judged'][key] += value
		for signature, what in oracle.findings:
			check.fail(signature, what, {'case': {k: v for k, v in case.items() if k != 'features'}, 'how': 'run.py replay <this file>'})
	return prepared


def run(check, unrecognised):
	check.trusted += [
		'translator harness/gen.py (ExpandOps: compared strings / operators of the copy functions and the post-processor passes; '
		'control flow of the 20 anchors is part of the pinned skeletons)',
		'harness/astdump.py (ast objects -> Gallina term / canonical text) and Cats/AstRender.v (the same canonical text in Gallina)',
		'the repo parser (CatsLarkParser / LarkMultiFileParser) is used to build the input objects of both sides',
		'modelled, not verified: CPython str.split / str.strip / re.match on the comment-key regex (ASCII whitespace), dict ordering for unique names']
	check.assume += [
		'declaration names are unique (checked for every compared schema); attribute names are the four the grammar admits',
		'values are immutable in the model: aliasing between a copy and its template is a defect of the implementation, not modelled']
	check.extra['rule'] = 'shipped: symbol+nem all_generated.cats / all.cats through the multi-file parser; generated: CATS text ' \
		'(1-4 inline templates x 0-3 named sites, templates that themselves name templates (judged recursively when declared before their users), ' \
		'every member form, unnamed chains depth 0-5 incl. abstract roots, shuffled declaration order, ' \
		'12% ill-formed) parsed by the real parser; distinct = distinct schema text; non-trivial = all'
	if unrecognised.get('ExpandOps'):
		check.notes.append(f'anchors not recognised, pinned constants used for them: {unrecognised["ExpandOps"]}')
	import time
	started = time.time()
	check.prove('C05.v')
	check.extra['seconds_prove'] = round(time.time() - started, 1)
	started = time.time()
	corners = [{'kind': 'corner', 'label': label, 'schema_text': text} for label, text in CORNERS.items()]
	evaluate(check, corners, 'c05c', 1)
	shipped = [{'kind': 'shipped', 'label': path, 'schema_file': path, 'include': include} for path, include in SHIPPED]
	evaluate(check, shipped, 'c05s', 1)
	check.extra['seconds_shipped'] = round(time.time() - started, 1)
	started = time.time()
	count = 200 if check.tier == 'quick' else 10000
	generated = []
	seen = set()
	while len(generated) < count:
		text, features = gen_schema(check.rng)
		if text in seen:
			continue
		seen.add(text)
		generated.append({'kind': 'generated', 'schema_text': text, 'features': features})
	shard = 40 if check.tier != 'quick' else max(4, -(-count // NCPU))
	for start in range(0, len(generated), 2000):
		prepared = evaluate(check, generated[start:start + 2000], 'c05g', shard)
		if start == 0:
			for case, _, text, _, outcomes, _ in prepared[::max(1, len(prepared) // 5)][:5]:
				check.sample({'schema_text': case['schema_text'][:1500], 'outcomes': outcomes, 'observed_head': text[:300]})
	check.extra['seconds_generated'] = round(time.time() - started, 1)


def replay(data):
	case = data['replay']['case']
	models = load_case(case)
	text, snaps, outcomes, output_names = impl_run(models)
	oracle = judge(snaps, outcomes, output_names)
	print('outcomes:', outcomes)
	if 'schema_text' in case:
		print(case['schema_text'])
	print(text[:4000])
	for signature, what in oracle.findings:
		print(f'property fails [{signature}]: {what}')
	if not oracle.findings:
		print('property: holds')
	return 1 if oracle.findings else 0
