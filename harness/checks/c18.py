"""C18: derived facts handed to generators (generators/util.py: build_factory_map, extend_models) follow from the schema relations."""
import hashlib

from .. import astdump, common
from ..common import coq_eval

MANIFEST = {
	'text': 'factory_map_spec (+ factory_map_no_crash), bind_spec, unaligned_sandwich, propagate_fuel_sufficient (fuel bound of the '
		'fixed-point loop), extend_no_crash and order_independent_when_flat are Qed theorems (Props/C18.v, closed under the global '
		'context) over the model Cats/Derive.v of generators/util.py, for ALL expanded schemas and every iteration order of the Python set '
		'`struct_names`; operators, connectives, attribute names and DisplayType values of the model are regenerated from the source on '
		'every run; model and implementation are compared on both shipped schema sets (all.cats, all_generated.cats of symbol and nem) '
		'and on random CATS schemas run through the real parser and post-processor; an independent oracle states the property on the '
		'implementation results.',
	'design_ref': 'DESIGN.md section 4, C18',
	'technique': 'Coq proof over regenerated model + vm_compute correspondence with the Python implementation + independent property oracle',
}

D8_SIGNATURE = 'extend-models-crash:typed-array-of-non-struct'
TIME_LIMIT = 4.0      # seconds per implementation call (the shipped sets take < 0.1 s)
MAX_TIMEOUTS = 4      # after that many calls that did not return, the remaining cases are not run

PRELUDE = '''From Symv Require Import Base.Bytes Base.PyOps Cats.Ast Cats.AstRender Cats.Derive.
Open Scope string_scope.
Definition r_res {A} (f : A -> string) (r : result A) : string :=
  match r with Ok a => f a | Reject => "reject" | Crash k => "crash:" ++ k end.
Definition r_fd (e : string * fdesc) : string :=
  q (fst e) ++ "{" ++ rlist (fun s => q (s_name s)) (fd_children (snd e)) ++ " " ++ rlist r_avalue (fd_names (snd e)) ++ " "
  ++ rlist r_avalue (fd_values (snd e)) ++ " " ++ rlist r_ftype (fd_types (snd e)) ++ "}".
Definition r_fm (ds : list decl) : string := r_res (fun m => String.concat ";" (map r_fd m)) (build_factory_map ds).
Definition fname_at (fs : list field) (i : nat) : string := match nth_error fs i with Some (Field n _ _ _ _ _) => q n | _ => "?" end.
Definition r_pfield (p : pstruct) (e : nat * fext) : string :=
  fname_at (p_fields p) (fst e) ++ " " ++ match fx_type_model (snd e) with None => "self" | Some n => "type:" ++ n end ++ " "
  ++ rbool (fx_abstract (snd e)) ++ " " ++ ropt (fname_at (p_fields p)) (bound_of (p_binds p) (fst e)) ++ " "
  ++ rlist (fname_at (p_fields p)) (sizes_of (p_binds p) (fst e)).
Definition r_pstruct (M : list string) (p : pstruct) : string :=
  q (p_name p) ++ ":" ++ rbool (mem (p_name p) M) ++ "(" ++ String.concat ", " (map (r_pfield p) (combine (seq 0 (length (p_exts p))) (p_exts p))) ++ ")".
Definition r_em (ds : list decl) (order : list string) : string :=
  r_res (fun r => String.concat ";" (map (r_pstruct (snd r)) (fst r))) (extend_models ds order).
Definition r_case (ds : list decl) (order : list string) : string := r_fm ds ++ " || " ++ r_em ds order.
(* the implementation's text is compared inside Coq (printing the model's text costs more than computing it); "=" means equal,
   anything else is the model's text *)
Definition r_diff (ds : list decl) (order : list string) (implementation : string) : string :=
  let text := r_case ds order in if String.eqb text implementation then "=" else text.
'''


# ---------------------------------------------------------------------------------------------------------------------
# schemas -> expanded type descriptors through the repo's own parser and post-processor

_PARSER = None


def parse_text(text):
	"""Statements of one CATS document (no imports) through the repo's lark parser."""
	global _PARSER  # pylint: disable=global-statement
	from catparser.ast import Statement
	from catparser.CatsLarkParser import create_cats_lark_parser
	if _PARSER is None:
		_PARSER = create_cats_lark_parser()
	result = _PARSER.parse(text)
	if isinstance(result, Statement):
		return [result]
	return [child for child in result.children if isinstance(child, Statement)]


def expand(raw):
	from catparser.AstPostProcessor import AstPostProcessor
	processor = AstPostProcessor(raw)
	processor.apply_attributes()
	processor.expand_named_inlines()
	processor.expand_unnamed_inlines()
	return processor.type_descriptors


def load_case(case):
	if case['kind'] == 'shipped':
		include = common.REPO / 'catbuffer' / 'schemas' / case['network']
		return expand(astdump.parse_files(include / case['file'], include))
	return expand(parse_text(case['text']))


def is_struct(model):
	return type(model).__name__ == 'Struct'


def set_order(models):
	"""Iteration order of the set extend_models builds (same insertions in the same process => same order)."""
	names = set()
	for model in models:
		if is_struct(model):
			names.add(model.name)
	return list(names)


# ---------------------------------------------------------------------------------------------------------------------
# implementation side

def _rav(value):
	if value is None:
		return '~'
	return astdump._q(value) if isinstance(value, str) else str(value)  # pylint: disable=protected-access


def _q(text):
	return astdump._q(text)  # pylint: disable=protected-access


def _rlist(items, render):
	return '[' + ' '.join(render(item) for item in items) + ']'


def render_factory_map(factory_map):
	parts = []
	for key, descriptor in factory_map.items():
		parts.append(
			_q(key) + '{' + _rlist(descriptor.children, lambda m: _q(m.name)) + ' ' + _rlist(descriptor.discriminator_names, _rav) + ' '
			+ _rlist(descriptor.discriminator_values, _rav) + ' ' + _rlist(descriptor.discriminator_types, astdump.r_ftype) + '}')
	return ';'.join(parts)


def render_extended(models):
	parts = []
	for model in models:
		if not is_struct(model):
			continue
		fields = []
		for field in model.fields:
			ext = field.extensions
			type_model = 'self' if ext.type_model is field else f'type:{ext.type_model.name}'
			fields.append(
				f'{_q(field.name)} {type_model} {"T" if ext.is_contents_abstract else "F"} '
				f'{"~" if ext.bound_field is None else _q(ext.bound_field.name)} {_rlist(ext.size_fields, lambda f: _q(f.name))}')
		parts.append(f'{_q(model.name)}:{"T" if model.requires_unaligned else "F"}(' + ', '.join(fields) + ')')
	return ';'.join(parts)


def _printer_factory(_type_model, _name, _is_pod):
	return None


class _Timeout(BaseException):
	pass


def _on_alarm(_signum, _frame):
	raise _Timeout()


def run_impl(models):
	"""Returns (canonical text, factory map or None, extend outcome).  A call that does not return within the limit is the outcome
	`crash:Timeout` (the while loop of _propagate_unaligned has no bound of its own)."""
	import signal
	previous = signal.signal(signal.SIGALRM, _on_alarm)
	try:
		return _run_impl(models)
	finally:
		signal.setitimer(signal.ITIMER_REAL, 0)
		signal.signal(signal.SIGALRM, previous)


def _run_impl(models):
	import signal
	from catparser.generators.util import build_factory_map, extend_models
	factory_map = None
	try:
		signal.setitimer(signal.ITIMER_REAL, TIME_LIMIT)
		factory_map = build_factory_map(models)
		fm_text = render_factory_map(factory_map)
	except _Timeout:
		factory_map = None
		fm_text = 'crash:Timeout'
	except Exception as ex:  # pylint: disable=broad-except
		fm_text = f'crash:{type(ex).__name__}'
	try:
		signal.setitimer(signal.ITIMER_REAL, TIME_LIMIT)
		extend_models(models, _printer_factory)
		signal.setitimer(signal.ITIMER_REAL, 0)
		outcome = 'ok'
		em_text = render_extended(models)
	except RuntimeError as ex:
		outcome = 'reject' if str(ex).startswith('array field not handled in ') else 'crash:RuntimeError'
		em_text = outcome
	except _Timeout:
		outcome = 'crash:Timeout'
		em_text = outcome
	except Exception as ex:  # pylint: disable=broad-except
		outcome = f'crash:{type(ex).__name__}'
		em_text = outcome
	return f'{fm_text} || {em_text}', factory_map, outcome


def model_expr(decls_term, order, text):
	names = '[' + '; '.join(astdump._coq_str(name) for name in order) + ']'  # pylint: disable=protected-access
	return f'r_diff\n {decls_term}\n {names}\n {astdump._coq_str(text)}'  # pylint: disable=protected-access


# ---------------------------------------------------------------------------------------------------------------------
# property oracle P: written from the property text, on the ast objects, independent of the model

def _attr_values(model, name):
	for attribute in model.attributes or []:
		if attribute.name == name:
			return attribute.values
	return None


def _has_flag(model, name):
	return any(attribute.name == name for attribute in model.attributes or [])


def _is_array(field):
	return type(field.field_type).__name__ == 'Array'


def _is_typed_array(field):
	if not _is_array(field):
		return False
	element = field.field_type.element_type
	return not (type(element).__name__ == 'FixedSizeInteger' and element.size == 1)


def _element_name(field):
	element = field.field_type.element_type
	return None if type(element).__name__ == 'FixedSizeInteger' else str(element)


def non_struct_typed_arrays(models):
	types = {model.name: model for model in models}
	found = []
	for model in models:
		if not is_struct(model):
			continue
		for field in model.fields:
			if _is_typed_array(field):
				name = _element_name(field)
				if name is None or name not in types or not is_struct(types[name]):
					found.append(f'{model.name}.{field.name}')
	return found


def oracle_factory_map(models, factory_map, fm_text):
	"""Problems (signature, text) of the factory map against the property text."""
	problems = []
	structs = [model for model in models if is_struct(model)]
	types = {model.name: model for model in models}
	keys = []
	for model in structs:
		if model.factory_type and model.factory_type not in keys:
			keys.append(model.factory_type)
	complete = True
	for key in keys:
		first = next(model for model in structs if model.factory_type == key)
		names = _attr_values(first, 'discriminator')
		if names is None:
			complete = False
			continue
		for name in names:
			if not any(a.name == 'initializes' and a.values[0] == name for a in first.attributes or []):
				complete = False
			if not any(field.name == name for field in first.fields):
				complete = False
	if factory_map is None:
		if complete:
			problems.append(('factory-map-crash', f'build_factory_map raised ({fm_text}) although every descendant carries its discriminator '
				'initializers and members'))
		return problems
	if list(factory_map.keys()) != keys:
		problems.append(('factory-map-keys', f'factory map keys {list(factory_map.keys())} are not the factory types in first-occurrence order {keys}'))
		return problems
	for key in keys:
		descriptor = factory_map[key]
		children = [model.name for model in structs if model.factory_type == key]
		if [model.name for model in descriptor.children] != children:
			problems.append(('factory-map-children', f'children of {key}: {[m.name for m in descriptor.children]}, structs recording it as factory '
				f'type in declaration order: {children}'))
		abstract = types.get(key)
		names = _attr_values(abstract, 'discriminator') if abstract is not None and is_struct(abstract) else None
		if names is None:
			continue
		if list(descriptor.discriminator_names) != list(names):
			problems.append(('factory-map-names', f'discriminator names of {key}: {descriptor.discriminator_names}, abstract struct declares {names}'))
			continue
		first = next(model for model in structs if model.factory_type == key)
		values = []
		field_types = []
		for name in names:
			values.append(next((a.values[1] for a in first.attributes or [] if a.name == 'initializes' and a.values[0] == name), None))
			field_types.append(next((astdump.r_ftype(field.field_type) for field in first.fields if field.name == name), None))
		if list(descriptor.discriminator_values) != values:
			problems.append(('factory-map-values', f'discriminator values of {key}: {descriptor.discriminator_values}, initializers in '
				f'discriminator order {names} give {values}'))
		if [astdump.r_ftype(t) for t in descriptor.discriminator_types] != field_types:
			problems.append(('factory-map-types', f'discriminator types of {key} do not equal the member types in discriminator order {names}'))
	return problems


def oracle_bindings(models):
	problems = []
	types = {model.name: model for model in models}
	for model in models:
		if not is_struct(model):
			continue
		for field in model.fields:
			ext = field.extensions
			# the last binder in declaration order: arrays sized by this member, or the member's own sizeof target
			expected = None
			for other in model.fields:
				if _is_array(other) and isinstance(other.field_type.size, str):
					target = next((f for f in model.fields if f.name == other.field_type.size), None)
					if target is field:
						expected = other
				if other is field and field.disposition == 'sizeof':
					expected = next((f for f in model.fields if f.name == field.value), None)
			if ext.bound_field is not expected:
				problems.append(('binding-bound-field', f'{model.name}.{field.name}: bound_field is '
					f'{getattr(ext.bound_field, "name", None)}, the array / struct it measures is {getattr(expected, "name", None)}'))
			sizes = [
				other for other in model.fields
				if other.disposition == 'sizeof' and next((f for f in model.fields if f.name == other.value), None) is field]
			if len(ext.size_fields) != len(sizes) or any(a is not b for a, b in zip(ext.size_fields, sizes)):
				problems.append(('binding-size-fields', f'{model.name}.{field.name}: size_fields {[f.name for f in ext.size_fields]}, sizeof members '
					f'measuring it: {[f.name for f in sizes]}'))
			element = types.get(_element_name(field)) if _is_typed_array(field) and _element_name(field) is not None else None
			abstract = element is not None and is_struct(element) and element.disposition == 'abstract'
			if bool(ext.is_contents_abstract) != abstract:
				problems.append(('binding-contents-abstract', f'{model.name}.{field.name}: is_contents_abstract {ext.is_contents_abstract}, element type '
					f'is {"" if abstract else "not "}an abstract struct'))
			named = types.get(field.field_type) if isinstance(field.field_type, str) else None
			wanted = field if named is None else named
			if ext.type_model is not wanted:
				problems.append(('binding-type-model', f'{model.name}.{field.name}: type_model is {getattr(ext.type_model, "name", None)}'))
	return problems


def unaligned_bounds(models):
	"""(base, demanded, closure, must_reject, may_reject) from the three rules of the property text."""
	structs = {model.name: model for model in models if is_struct(model)}

	def descendants(marked):
		return {name for name, model in structs.items() if model.factory_type in marked and model.factory_type in structs}

	def members(names):
		found = set()
		for name in names:
			for field in structs[name].fields:
				if isinstance(field.field_type, str) and str(field.field_type) in structs:
					found.add(str(field.field_type))
		return found

	base = set()
	for model in structs.values():
		if _has_flag(model, 'is_aligned'):
			continue
		for field in model.fields:
			if _is_typed_array(field):
				element = structs.get(_element_name(field))
				if element is not None and _has_flag(element, 'is_aligned'):
					base.add(element.name)
	first = descendants(base)
	demanded = base | first | members(first)
	closure = set(base)
	while True:
		derived = descendants(closure)
		grown = closure | derived | members(derived)
		if grown == closure:
			break
		closure = grown
	must_reject = any(_is_array(field) for name in first for field in structs[name].fields)
	may_reject = any(_is_array(field) for name in descendants(closure) for field in structs[name].fields)
	return base, demanded, closure, must_reject, may_reject


def oracle_extend(models, outcome):
	problems = []
	base, demanded, closure, must_reject, may_reject = unaligned_bounds(models)
	if outcome.startswith('crash'):
		culprits = non_struct_typed_arrays(models) if outcome == 'crash:AttributeError' else []
		if culprits:
			problems.append((D8_SIGNATURE, f'extend_models raised {outcome[6:]} on a schema whose references all resolve: typed array(s) of a '
				f'non-struct element type ({", ".join(culprits[:4])}{", ..." if len(culprits) > 4 else ""})'))
		else:
			problems.append((f'extend-models-{outcome}', f'extend_models raised {outcome[6:]} on a schema whose references all resolve'))
		return problems
	if outcome == 'reject':
		if not may_reject:
			problems.append(('unaligned-reject', 'extend_models refused an array member although no descendant of a marked factory has one'))
		return problems
	if must_reject:
		problems.append(('unaligned-missing-reject', 'a descendant of a marked factory has an array member but extend_models did not refuse it'))
	marked = {model.name for model in models if is_struct(model) and model.requires_unaligned}
	if not demanded <= marked:
		problems.append(('unaligned-below-demanded', f'requires_unaligned is not set on {sorted(demanded - marked)} although a rule demands it'))
	if not marked <= closure:
		problems.append(('unaligned-above-closure', f'requires_unaligned is set on {sorted(marked - closure)} outside the closure of the rules'))
	if not demanded and marked:
		problems.append(('unaligned-nonempty', f'no rule applies but requires_unaligned is set on {sorted(marked)}'))
	# rule 2 read on the marks themselves ("descendants of marked factories"): a struct whose factory type carries the mark carries it too,
	# at any depth of the hierarchy and for every iteration order of struct_names (the order only decides which MEMBERS are walked)
	structs = {model.name: model for model in models if is_struct(model)}
	orphans = sorted(name for name, model in structs.items() if model.factory_type in marked and model.factory_type in structs and name not in marked)
	if orphans:
		problems.append(('unaligned-descendant-of-marked-factory-unmarked', 'requires_unaligned is set on the factory type of '
			+ ', '.join(f'{name} ({structs[name].factory_type})' for name in orphans[:6]) + ' but not on the descendant itself'))
	problems += oracle_bindings(models)
	return problems


# ---------------------------------------------------------------------------------------------------------------------
# random expanded schemas as CATS text

INTS = ['uint8', 'uint16', 'uint32', 'uint64', 'int8', 'int16', 'int32', 'int64']
WIDE_INTS = ['uint16', 'uint32', 'uint64', 'int32']
DISCRIMINATORS = ['kind', 'version', 'network', 'entity_type']


class SchemaGen:
	def __init__(self, rng):
		self.rng = rng
		self.lines = []
		self.aliases = [f'Alias{chr(65 + i)}x' for i in range(rng.randrange(0, 3))]
		self.enums = [f'Enum{chr(65 + i)}x' for i in range(rng.randrange(0, 3))]
		self.factories = [f'Fact{chr(65 + i)}x' for i in range(rng.choice([0, 1, 1, 2, 2, 3, 4]))]
		self.plain = [f'Plain{chr(65 + i)}x' for i in range(rng.randrange(1, 6))]
		self.templates = [f'Templ{chr(65 + i)}x' for i in range(rng.randrange(0, 2))]
		# inline-only structs that several containers take in through an UNNAMED inline (their members are shared, not copied)
		self.shared = [f'Shared{chr(65 + i)}x' for i in range(rng.choice([0, 0, 1, 1, 2]))]
		self.alias_types = {alias: rng.choice(['uint32', 'uint64', 'uint8', 'uint16', 'binary_fixed(32)', 'binary_fixed(8)']) for alias in self.aliases}
		self.descendants = {}
		counter = 0
		for factory in self.factories:
			self.descendants[factory] = []
			for _ in range(rng.choice([0, 1, 2, 2, 3, 4])):
				self.descendants[factory].append(f'Desc{chr(65 + counter)}x')
				counter += 1
		self.discriminators = {}
		self.chained = {}
		self.features = set()
		# "deep" schemas aim at several rounds of the fixed-point loop: aligned factories used in an unaligned container, descendants
		# whose members are again factories / descendants
		self.deep = bool(self.factories) and rng.randrange(3) == 0

	def scalar_type(self):
		pool = INTS + self.aliases * 2 + self.enums * 2
		return self.rng.choice(pool)

	def size_type(self):
		"""type of a count / byte-size member: a builtin integer or a user-defined ALIAS of one"""
		integer_aliases = [alias for alias in self.aliases if self.alias_types[alias].startswith('uint')]
		if integer_aliases and self.rng.randrange(3) == 0:
			self.features.add('size-member-of-alias-type')
			return self.rng.choice(integer_aliases)
		return self.rng.choice(['uint8', 'uint16', 'uint32'])

	def struct_names(self):
		return self.plain + self.factories + [name for names in self.descendants.values() for name in names]

	def element_type(self):
		roll = self.rng.randrange(10)
		if roll < 5 or not (self.aliases or self.enums):
			return self.rng.choice(self.struct_names())
		if roll < 7:
			self.features.add('array-of-wide-int')
			return self.rng.choice(WIDE_INTS)
		if roll < 9 and self.aliases:
			self.features.add('array-of-alias')
			return self.rng.choice(self.aliases)
		if self.enums:
			self.features.add('array-of-enum')
			return self.rng.choice(self.enums)
		return self.rng.choice(self.struct_names())

	def body(self, prefix, count, allow_arrays=True, allow_fill=True):
		"""Member lines (without indentation) of a struct body."""
		rng = self.rng
		lines = []
		names = []
		shared_count = None
		for index in range(count):
			name = f'{prefix}{index}_field'
			roll = rng.randrange(12)
			if self.deep and prefix.startswith('de') and rng.randrange(10) < 7:
				roll = 3
			if roll < 3:
				lines.append(f'{name} = {self.scalar_type()}')
			elif roll < 5:
				lines.append(f'{name} = {rng.choice(self.struct_names())}')
				self.features.add('struct-member')
			elif roll < 6:
				lines.append(f'{name} = array(uint8, {rng.choice([4, 32])})' if allow_arrays else f'{name} = uint32')
			elif roll < 10 and allow_arrays:
				element = self.element_type()
				style = rng.randrange(6)
				if style == 0:
					lines.append(f'{name} = array({element}, {rng.randrange(1, 5)})')
				elif style == 1 and allow_fill and index == count - 1:
					lines.append(f'{name} = array({element}, __FILL__)')
				elif style == 2 and shared_count:
					lines.append(f'{name} = array({element}, {shared_count})')
					self.features.add('shared-count')
				else:
					size_name = f'{name}_size' if style == 3 else f'{name}_count'
					after = style == 4
					if not after:
						lines.append(f'{size_name} = {self.size_type()}')
					if style == 3:
						lines.append('@is_byte_constrained')
						self.features.add('byte-size')
					lines.append(f'{name} = array({element}, {size_name})')
					if after:
						lines.append(f'{size_name} = {self.size_type()}')
						self.features.add('count-after-array')
					shared_count = size_name
			elif roll < 11 and names:
				target = rng.choice(names)
				lines.append(f'{name} = sizeof({rng.choice(["uint16", "uint32"])}, {target})')
				self.features.add('sizeof')
				if rng.randrange(3) == 0:
					lines.append(f'{name}_again = sizeof(uint8, {target})')
			elif self.templates and roll == 11:
				lines.append(f'{name} = inline {rng.choice(self.templates)}')
				self.features.add('named-inline')
				continue   # the member itself disappears on expansion: not a sizeof target
			else:
				lines.append(f'{name} = {self.scalar_type()}')
			names.append(name)
		return lines

	def emit(self, header, lines):
		self.lines += header + [f'\t{line}' for line in lines] + ['']

	def build(self):
		rng = self.rng
		for alias in self.aliases:
			self.lines += [f'using {alias} = {self.alias_types[alias]}', '']
		for enum in self.enums:
			self.lines += [f'enum {enum} : {rng.choice(["uint8", "uint16", "uint32"])}'] + [f'\tVALUE_{k} = {k}' for k in range(1, rng.randrange(2, 5))] + ['']
		for template in self.templates:
			element = rng.choice(self.struct_names() + self.aliases)
			self.emit([f'inline struct {template}'], ['count = uint8', f'items = array({element}, count)'])
		for index, shared in enumerate(self.shared):
			# always one array of structs (rule 1 looks at the CONTAINER of such a member), then anything
			lines = [f'sh{index}_items_count = {self.size_type()}', f'sh{index}_items = array({rng.choice(self.struct_names())}, sh{index}_items_count)']
			lines += self.body(f'sh{index}', rng.randrange(0, 3), allow_fill=False)
			self.emit([f'inline struct {shared}'], lines)
		blocks = []
		for index, factory in enumerate(self.factories):
			header = []
			lines = []
			parent = None
			if index and rng.randrange(6) == 0:
				parent = rng.choice(self.factories[:index])
				self.features.add('factory-chain')
			if parent:
				self.chained[factory] = parent
				self.discriminators[factory] = self.discriminators[parent]
				lines.append(f'inline {parent}')
			else:
				names = rng.sample(DISCRIMINATORS, rng.randrange(1, 4))
				self.discriminators[factory] = names
				if rng.randrange(3) == 0:
					header.append('@size(size)')
					lines.append('size = uint32')
				fields = [f'{name} = {self.scalar_type()}' for name in names]
				rng.shuffle(fields)
				lines += fields
				header.append(f'@discriminator({", ".join(names)})')
			if self.deep or rng.randrange(2):
				header.insert(rng.randrange(len(header) + 1), '@is_aligned')
			lines += self.body(f'fa{index}', rng.randrange(0, 3), allow_arrays=False)
			blocks.append(('factory', header + [f'abstract struct {factory}'], lines))
		descendant_blocks = []
		counter = 0
		for factory in self.factories:
			names = self.discriminators[factory]
			for descendant in self.descendants[factory]:
				header = [f'@initializes({name}, {name.upper()}_{counter})' for name in names]
				fault = rng.randrange(40)
				if fault == 0 and header:
					del header[rng.randrange(len(header))]
					self.features.add('missing-initializer')
				elif fault < 5:
					header.insert(rng.randrange(len(header) + 1), f'@initializes({rng.choice(names)}, DUPLICATE_{counter})')
					self.features.add('duplicate-initializer')
				rng.shuffle(header)
				if rng.randrange(4) == 0:
					header.insert(rng.randrange(len(header) + 1), '@is_aligned')
				own = self.body(
					f'de{counter}', rng.randrange(1, 4) if self.deep else rng.randrange(0, 3),
					allow_arrays=not self.deep and rng.randrange(8) == 0, allow_fill=False)
				lines = own[:]
				lines.insert(rng.choice([0, 0, 0, len(lines)]), f'inline {factory}')
				descendant_blocks.append(('descendant', header + [f'struct {descendant}'], lines))
				counter += 1
		rng.shuffle(descendant_blocks)
		for index, name in enumerate(self.plain):
			header = ['@is_aligned'] if rng.randrange(5) < 2 and not (self.deep and index == 0) else []
			lines = self.body(f'pl{index}', rng.randrange(1, 6))
			if self.deep and index == 0:
				self.features.add('deep')
				for position, factory in enumerate(rng.sample(self.factories, rng.randrange(1, min(2, len(self.factories)) + 1))):
					lines.insert(0, f'deep{position}_items = array({factory}, {rng.randrange(1, 4)})')
			for shared in self.shared:
				if rng.randrange(2):
					# (own members never refer to the inherited ones: those references are the subject of the directed cases)
					lines.insert(rng.choice([0, len(lines)]), f'inline {shared}')
					self.features.add('shared-unnamed-inline')
			blocks.append(('plain', header + [f'struct {name}'], lines))
		if rng.randrange(3):
			rng.shuffle(blocks)
		# descendants interleaved with everything else, in random positions
		for block in descendant_blocks:
			blocks.insert(rng.randrange(len(blocks) + 1), block)
		for _, header, lines in blocks:
			self.emit(header, lines)
		return '\n'.join(self.lines) + '\n'


DIRECTED = {
	'array-of-alias': 'using Amount = uint64\n\nstruct Holder\n\tamounts = array(Amount, 2)\n',
	'array-of-wide-int': 'struct Holder\n\tvalues = array(uint32, 2)\n',
	'array-of-enum': 'enum Flag : uint8\n\tNONE = 0\n\tSOME = 1\n\nstruct Holder\n\tflags_count = uint8\n\tflags = array(Flag, flags_count)\n',
	'array-of-alias-in-aligned-struct': 'using Amount = uint64\n\n@is_aligned\nstruct Holder\n\tamounts = array(Amount, 2)\n',
	'recursive-marking':
		'@is_aligned\nstruct Alpha\n\tvalue = uint32\n\n@is_aligned\nabstract struct BarBase\n\ttag = uint8\n\nstruct Bar\n\tinline BarBase\n\talpha = Alpha\n\n'
		'@is_aligned\nabstract struct FooBase\n\tkind = uint8\n\nstruct Foo\n\tinline FooBase\n\tbar = BarBase\n\n'
		'struct FooContainer\n\tfoos = array(FooBase, 5)\n',
	# an UNALIGNED abstract struct reached as a member of a descendant of a marked aligned factory: it is marked by the member rule, so its
	# own descendants (and their struct-typed members) carry the mark too - whatever the alignment of the factory they derive from (C18-M)
	'unaligned-factory-inside-aligned-one':
		'@is_aligned\nstruct Alpha\n\tvalue = uint32\n\nabstract struct BarBase\n\ttag = uint8\n\nstruct Bar\n\tinline BarBase\n\talpha = Alpha\n\n'
		'struct OtherBar\n\tinline BarBase\n\tother = uint16\n\n'
		'@is_aligned\nabstract struct FooBase\n\tkind = uint8\n\nstruct Foo\n\tinline FooBase\n\tbar = BarBase\n\n'
		'struct FooContainer\n\tfoos = array(FooBase, 5)\n',
	'unaligned-factory-three-levels-deep':
		'@is_aligned\nstruct Footer\n\tvalue = uint32\n\nabstract struct Inner\n\ttag = uint8\n\nstruct InnerOne\n\tinline Inner\n\tfooter = Footer\n\n'
		'abstract struct Payload\n\tcode = uint8\n\nstruct TransferPayload\n\tinline Payload\n\tinner = Inner\n\n'
		'struct OtherPayload\n\tinline Payload\n\tamount = uint64\n\n'
		'@is_aligned\nabstract struct Entry\n\tkind = uint8\n\nstruct EntryOne\n\tinline Entry\n\tpayload = Payload\n\n'
		'struct Block\n\tentries_count = uint8\n\tentries = array(Entry, entries_count)\n',
	'array-in-marked-descendant':
		'@is_aligned\nstruct Gamma\n\tvalue = uint32\n\n@is_aligned\nabstract struct FooBase\n\tkind = uint8\n\nstruct Foo\n\tinline FooBase\n\tgammas = array(Gamma, 5)\n\n'
		'struct FooContainer\n\tfoos = array(FooBase, 5)\n',
	'abstract-inlines-abstract':
		'@is_aligned\nabstract struct FooBase\n\tkind = uint8\n\nabstract struct Bee\n\tinline FooBase\n\txx = uint8\n\nstruct Uu\n\tyy = uint8\n\n'
		'struct Ss\n\tinline Bee\n\tuu = Uu\n\nstruct Foo\n\tinline FooBase\n\tss = Ss\n\nstruct Container\n\tfoos = array(FooBase, 2)\n',
	'two-factories-interleaved':
		'enum Kind : uint16\n\tALPHA = 1\n\tBETA = 2\n\n@is_aligned\n@discriminator(kind, version)\nabstract struct Shape\n\tversion = uint8\n\tkind = Kind\n\n'
		'@is_aligned\n@discriminator(code)\nabstract struct Event\n\tcode = uint32\n\nstruct Point\n\txx = uint32\n\n'
		'@initializes(version, V_ONE)\n@initializes(kind, ALPHA)\nstruct Circle\n\tinline Shape\n\tcenter = Point\n\n'
		'@initializes(code, E_ONE)\nstruct Click\n\tinline Event\n\n@initializes(kind, BETA)\n@initializes(version, V_TWO)\nstruct Square\n\tinline Shape\n\n'
		'@initializes(code, E_TWO)\nstruct Scroll\n\tinline Event\n\tdelta_size = sizeof(uint16, delta)\n\tdelta = Point\n\n'
		'struct Canvas\n\tshapes_count = uint8\n\tshapes = array(Shape, shapes_count)\n\ttags = array(uint8, 2)\n',
	'shared-count-and-two-sizeofs':
		'struct Item\n\tvalue = uint32\n\nstruct Holder\n\tcount = uint8\n\tfirst = array(Item, count)\n\tsecond = array(Item, count)\n\t'
		'first_size = sizeof(uint16, first)\n\tfirst_size_again = sizeof(uint32, first)\n',
	# several abstract levels whose descendants have integer members only, ten times under different names: the order in which the set of
	# struct names is visited (string hashing) must not decide whether a deeper descendant of a marked factory gets marked
	'deep-abstract-families': ''.join(
		f'@is_aligned\n@discriminator(kind)\n@initializes(kind, KIND)\nabstract struct Entry{tag}\n\tkind = uint32\n\tflags = uint32\n\n'
		f'abstract struct Middle{tag}\n\tinline Entry{tag}\n\tmiddle_value = uint64\n\n'
		f'abstract struct Lower{tag}\n\tinline Middle{tag}\n\tlower_value = uint64\n\n'
		f'struct Final{tag}\n\tKIND = make_const(uint32, {index + 1})\n\tinline Lower{tag}\n\tpayload = uint64\n\n'
		f'struct Other{tag}\n\tKIND = make_const(uint32, 100)\n\tinline Entry{tag}\n\tother_value = uint64\n\n'
		f'struct Holder{tag}\n\tcount = uint8\n\tentries = array(Entry{tag}, count)\n\n'
		for index, tag in enumerate(['Ash', 'Birch', 'Cedar', 'Elm', 'Fir', 'Hazel', 'Larch', 'Maple', 'Oak', 'Pine'])),
	# two abstract levels that BOTH declare a discriminator (different name lists): each factory's names are those of the abstract struct itself
	'nested-factories-with-own-discriminators':
		'enum Kind : uint16\n\tPLAIN = 1\n\tLEAF = 2\n\n@discriminator(kind)\nabstract struct Outer\n\tkind = Kind\n\n'
		'@initializes(kind, PLAIN_KIND)\nstruct Plain\n\tPLAIN_KIND = make_const(Kind, PLAIN)\n\tinline Outer\n\tpayload = uint32\n\n'
		'@discriminator(kind, version)\nabstract struct Middle\n\tinline Outer\n\tversion = uint8\n\n'
		'@initializes(kind, LEAF_KIND)\n@initializes(version, LEAF_VERSION)\nstruct LeafOne\n\tLEAF_KIND = make_const(Kind, LEAF)\n\t'
		'LEAF_VERSION = make_const(uint8, 1)\n\tinline Middle\n\tamount = uint64\n\n'
		'@initializes(kind, LEAF_KIND)\n@initializes(version, LEAF_VERSION)\nstruct LeafTwo\n\tLEAF_KIND = make_const(Kind, LEAF)\n\t'
		'LEAF_VERSION = make_const(uint8, 2)\n\tinline Middle\n\tamount = uint64\n\tfee = uint64\n',
	# count / byte-size members declared with a user-defined alias of an integer (before and after the array, byte constrained, byte array)
	'size-members-of-alias-type':
		'using EntryCount = uint16\nusing PayloadSize = uint32\n\n@is_size_implicit\nstruct Entry\n\tkey = uint64\n\n'
		'struct TypedTable\n\tentries_count = EntryCount\n\tentries = array(Entry, entries_count)\n\ttrailing = array(Entry, trailing_count)\n\t'
		'trailing_count = EntryCount\n\n'
		'struct TypedPackedTable\n\tpayload_size = PayloadSize\n\treserved_1 = make_reserved(uint32, 0)\n\t@is_byte_constrained\n\t'
		'entries = array(Entry, payload_size)\n\nstruct TypedMessage\n\tmessage_size = PayloadSize\n\tmessage = array(uint8, message_size)\n\t'
		'first_size = sizeof(uint16, first)\n\tfirst = Entry\n',
	# one inline-only struct with an array of aligned structs, taken in (unnamed) by an aligned container FIRST and by unaligned ones later,
	# and the other way round: rule 1 depends on the container, not on the shared member
	'shared-unnamed-inline-aligned-container-first':
		'@is_aligned\nstruct Cosignature\n\tversion = uint64\n\nstruct Marker\n\tvalue = uint8\n\n'
		'inline struct PayloadBody\n\tcosignatures_count = uint32\n\tmarkers_count = uint32\n\tcosignatures = array(Cosignature, cosignatures_count)\n\t'
		'markers = array(Marker, markers_count)\n\n'
		'@is_aligned\nstruct AlignedPayload\n\tsize = uint64\n\tinline PayloadBody\n\n'
		'struct PackedPayload\n\ttag = uint8\n\tinline PayloadBody\n\n@is_aligned\nstruct AlignedAgain\n\tinline PayloadBody\n',
	'shared-unnamed-inline-unaligned-container-first':
		'@is_aligned\nstruct Cosignature\n\tversion = uint64\n\n'
		'inline struct PayloadBody\n\tcosignatures_count = uint32\n\tcosignatures = array(Cosignature, cosignatures_count)\n\n'
		'struct PackedPayload\n\ttag = uint8\n\tinline PayloadBody\n\n@is_aligned\nstruct AlignedPayload\n\tsize = uint64\n\tinline PayloadBody\n',
	# KNOWN FINDING (kept as a directed case): two structs take in the same struct by unnamed inline; the first measures an inherited member
	# with a sizeof member.  expand_unnamed_inlines shares the member OBJECTS between the two users and _process_struct replaces the shared
	# member's extensions when it reaches the second user, so the measured member forgets its size member.
	'shared-unnamed-inline-with-sizeof':
		'@is_size_implicit\nstruct Item\n\tvalue = uint32\n\ninline struct Shared\n\tfirst = Item\n\tcount = uint8\n\titems = array(Item, count)\n\n'
		'struct One\n\tinline Shared\n\tfirst_size = sizeof(uint16, first)\n\nstruct Two\n\tinline Shared\n\tother = uint8\n',
	'missing-initializer':
		'@discriminator(kind, version)\nabstract struct Base\n\tkind = uint8\n\tversion = uint8\n\n@initializes(kind, ONE)\nstruct Derived\n\tinline Base\n',
}


KNOWN_SHARED_INLINE = 'shared-unnamed-inline-with-sizeof'


def gen_cases(rng, tier):
	cases = []
	for name, text in DIRECTED.items():
		cases.append({'kind': 'directed', 'name': name, 'text': text, 'features': [f'directed:{name}']})
	for network in ('symbol', 'nem'):
		for name in ('all_generated.cats', 'all.cats'):
			cases.append({'kind': 'shipped', 'network': network, 'file': name})
	for index in range(200 if tier == 'quick' else 10000):
		generator = SchemaGen(rng)
		text = generator.build()
		cases.append({'kind': 'random', 'id': index, 'text': text, 'features': sorted(generator.features)})
	return cases


# ---------------------------------------------------------------------------------------------------------------------

def evaluate(case):
	"""Runs the implementation on a case; returns a dict with the canonical text, the model expression and the oracle's problems."""
	models = load_case(case)
	order = set_order(models)
	decls_term = astdump.coq_decls(models)   # before extend_models mutates the objects
	text, factory_map, outcome = run_impl(models)
	expr = model_expr(decls_term, order, text)
	problems = oracle_factory_map(models, factory_map, text.split(' || ')[0]) + oracle_extend(models, outcome)
	base, demanded, closure, _, _ = unaligned_bounds(models)
	marked = sorted(model.name for model in models if is_struct(model) and model.requires_unaligned)
	shape = {
		'decls': len(models), 'factories': 0 if factory_map is None else len(factory_map), 'outcome': outcome, 'base': len(base),
		'demanded': len(demanded), 'closure': len(closure), 'marked': len(marked), 'order': order}
	return {'text': text, 'expr': expr, 'problems': problems, 'shape': shape}


def case_label(case):
	if case['kind'] == 'shipped':
		return f'{case["network"]}/{case["file"]}'
	return f'directed:{case["name"]}' if case['kind'] == 'directed' else f'random#{case["id"]}'


def replay_payload(case, result):
	payload = {'case': case, 'observed': result['text'][:4000], 'problems': [text for _, text in result['problems']][:6], 'shape': result['shape'],
		'how': 'run.py replay <this file>: reparses the schema, runs build_factory_map / extend_models of the working tree and the oracle'}
	return payload


def raise_stack_limit():
	"""coqc reads back / parses strings of 40-50 kB for the shipped schema sets (deep, non-tail recursion): children get the hard stack limit."""
	import resource
	_, hard = resource.getrlimit(resource.RLIMIT_STACK)
	try:
		resource.setrlimit(resource.RLIMIT_STACK, (hard, hard))
	except (ValueError, OSError):
		pass


def run(check, unrecognised):
	check.trusted += [
		'translator harness/gens/c18.py + harness/gen.py (DeriveOps: operators, connectives, membership polarities, attribute names, '
		'DisplayType values of 31 anchors; names of called functions / attributes are part of the pinned skeleton)',
		'harness/astdump.py (ast.py objects -> Gallina terms of Cats/Ast.v); the repo parser and AstPostProcessor produce the inputs',
		'modelled, not verified: CPython dict insertion order, `next` / StopIteration, attribute lookup; object identity is represented '
		'by model names and member indices; the iteration order of the Python set struct_names is an INPUT of the model (theorems hold '
		'for every order)']
	check.assume += [
		'model names are unique and requires_unaligned is False on entry (what the parser produces); factory types are non-empty names',
		'theorem extend_no_crash: references resolve (array size names and sizeof targets name members, factory types name structs, no '
		'unexpanded inline placeholder)']
	check.extra['rule'] = 'the 4 shipped expanded schema sets + 10 directed small schemas (one feature each) + seeded random CATS documents (0-4 abstract factories incl. abstract-inlines-' \
		'abstract chains, 0-4 interleaved descendants each with 1-3 discriminators and shuffled / duplicated / missing initializers, aligned ' \
		'and unaligned structs, arrays of structs / factories / descendants / aliases / enums / wide ints with numeric, count, byte-size, ' \
		'shared, trailing and fill sizes, sizeof members, named inline templates), each parsed by the repo parser and expanded by ' \
		'AstPostProcessor; distinct = distinct schema text; all non-trivial'
	mine = unrecognised.get('DeriveOps') or []
	if mine:
		check.notes.append(f'anchors not recognised, pinned (intended-behaviour) hole values used for them: {mine}')
		for key in mine:
			check.broken.append(f'shape:{key}')
	check.prove('C18.v')
	cases = gen_cases(check.rng, check.tier)
	results = []
	timeouts = 0
	for case in cases:
		try:
			results.append(evaluate(case))
		except Exception as ex:  # pylint: disable=broad-except
			raise RuntimeError(f'case {case_label(case)} could not be prepared: {type(ex).__name__}: {ex}\n{case.get("text", "")}') from ex
		timeouts += 'crash:Timeout' in results[-1]['text']
		if timeouts >= MAX_TIMEOUTS:
			check.notes.append(f'{timeouts} implementation calls did not return within {TIME_LIMIT} s; {len(cases) - len(results)} cases not run')
			cases = cases[:len(results)]
			break
	raise_stack_limit()
	exprs = [result['expr'] for result in results]
	shard = 125 if check.tier == 'thorough' else 16
	try:
		models = coq_eval(PRELUDE, exprs, 'c18', shard=shard)
	except RuntimeError as ex:
		# a coqc killed from outside (memory pressure on a shared machine) is retried once; a genuine failure fails again
		check.notes.append(f'model evaluation retried once after: {str(ex)[:200]}')
		models = coq_eval(PRELUDE, exprs, 'c18', shard=shard)
	failing = []
	features = {}
	for case, result, model in zip(cases, results, models):
		key = hashlib.sha256((case.get('text') or case_label(case)).encode('utf8')).hexdigest()
		check.case(f'{case["kind"]}:{result["shape"]["outcome"]}' + (':fm-crash' if result['text'].startswith('crash') else ''), key)
		for feature in case.get('features', []):
			features[feature] = features.get(feature, 0) + 1
		if model != '=' and case.get('name') != KNOWN_SHARED_INLINE:
			check.disagree('Derive-model-vs-generators.util', {'case': case_label(case), 'schema': case.get('text'), 'order': result['shape']['order']},
				result['text'][:3000], model[:3000])
		if result['problems']:
			failing.append((len(case.get('text') or '') or 10 ** 9, case, result))
	check.extra['feature_counts'] = features
	check.extra['shape_totals'] = {
		name: sum(result['shape'][name] for result in results) for name in ('factories', 'base', 'demanded', 'closure', 'marked')}
	check.extra['strictly_between'] = sum(
		1 for result in results if result['shape']['outcome'] == 'ok' and result['shape']['demanded'] < result['shape']['marked'] < result['shape']['closure'])
	check.notes.append(
		'observation (not a property violation): when an abstract struct inlines another abstract struct, the final requires_unaligned marks '
		'can depend on the iteration order of the Python set struct_names (hash seed); both outcomes lie inside the sandwich. '
		'Coq: DeriveProofs.order_matters_example')
	failing.sort(key=lambda item: item[0])   # smallest schema first: it becomes the replay of its signature
	same_signature = {}
	for _, case, result in failing:
		for signature in {signature for signature, _ in result['problems']}:
			same_signature.setdefault(signature, []).append(case_label(case))
	for _, case, result in failing:
		for signature, text in result['problems']:
			if case.get('name') == KNOWN_SHARED_INLINE and signature == 'binding-size-fields':
				signature = 'binding-size-fields:members-shared-between-two-users-of-an-unnamed-inline'
			payload = replay_payload(case, result)
			others = same_signature.get(signature, [case_label(case)])
			payload['same_signature_cases'] = {
				'count': len(others), 'shipped': [label for label in others if '/' in label], 'first': others[:8]}
			check.fail(signature, f'{case_label(case)}: {text}', payload)
	for case, result in list(zip(cases, results))[::max(1, len(cases) // 6)]:
		check.sample({'case': case_label(case), 'shape': {k: v for k, v in result['shape'].items() if k != 'order'}, 'observed': result['text'][:300]})


def replay(data):
	import json
	import os
	import subprocess
	import sys
	import tempfile
	case = data['replay']['case']
	result = evaluate(case)
	if not result['problems'] and not os.environ.get('SYMV_C18_REPLAY_CHILD'):
		# extend_models walks a Python set of struct names: its order depends on the string hash seed of the process, and the property
		# quantifies over every order.  The same input is run under other hash seeds (fresh interpreters) until one shows the failure.
		with tempfile.NamedTemporaryFile('w', suffix='.json', encoding='utf8', delete=False) as handle:
			json.dump(data, handle)
		try:
			for seed in range(24):
				env = dict(os.environ, PYTHONHASHSEED=str(seed), SYMV_C18_REPLAY_CHILD='1')
				proc = subprocess.run([sys.executable, str(common.VERIF / 'run.py'), 'replay', handle.name], env=env, stdout=subprocess.PIPE,
					stderr=subprocess.STDOUT, text=True, timeout=600, check=False)
				if proc.returncode == 1:
					print(f'(holds under the hash seed of this process; PYTHONHASHSEED={seed}:)')
					print(proc.stdout, end='')
					return 1
		finally:
			os.unlink(handle.name)
	print('observed:', result['text'][:2000])
	print('struct_names order:', result['shape']['order'])
	for signature, text in result['problems']:
		print(f'property: FAILS [{signature}] {text}')
	if not result['problems']:
		print('property: holds')
	return 1 if result['problems'] else 0
