"""C02: encoded bytes are exactly the layout the CATS schema prescribes; JSON and text renderings show the member values."""
import hashlib
import re
from enum import Enum

from .. import codec
from ..common import blit, coq_eval
from .c01 import PRELUDE, coarse, fmt, impl_des, impl_ser, limited

MANIFEST = {
	'text': 'Layout laws (Props/C02.v, all Qed) pin what the schema interpreter means so that it reads as the specification of cats_dsl.md: the encoding '
		'of a struct is the concatenation of its member encodings in declaration order after expansion (const members contribute nothing), member k '
		'starts at the sum of the sizes before it, integers are fixed-width little-endian with the declared signedness, counts / byte sizes / sizeof / '
		'the @size prefix are derived from the data, reserved members are written as their constant and any other value is refused on read, padding '
		'is zero bytes up to the alignment between elements, conditional members are present iff their condition holds; plus per-artefact kernel '
		'obligations on the regenerated schemas (transaction type offset 110, header size 108 against SymbolFacade constants). Tie: model vs generated '
		'codecs on bytes, decoded trees, to_json() and str() for every class of both networks (schema-directed values).',
	'design_ref': 'DESIGN.md section 4, C02',
	'technique': 'Coq proof (layout laws of the schema interpreter over regenerated schemas) + vm_compute differential incl. JSON/text renderings',
}


def canonical_json(value):
	"""Mirror of r_json in coq/Cats/LayoutText.v."""
	if isinstance(value, bool):
		raise TypeError('bool in json')
	if isinstance(value, int):
		return str(value)
	if isinstance(value, str):
		return '"' + value + '"'
	if isinstance(value, list):
		return '[' + ','.join(canonical_json(item) for item in value) + ']'
	if isinstance(value, dict):
		return '{' + ','.join(f'{key}:{canonical_json(item)}' for key, item in value.items()) + '}'
	raise TypeError(type(value))


def canonical_str(net, text):
	"""enum.__str__ is CPython-version dependent (flags): rewrite `EnumName.MEMBER|MEMBER` / `EnumName(0)` as `EnumName.<value>`."""
	for name, cls in vars(net.module).items():
		if not (isinstance(cls, type) and issubclass(cls, Enum) and cls.__module__ == net.module.__name__):
			continue

		def numeric(match, cls=cls, name=name):
			if match.group(2) is not None:
				return f'{name}.{match.group(2)}'
			value = 0
			for member in match.group(1).split('|'):
				value |= cls[member].value
			return f'{name}.{value}'
		text = re.sub(r'\b' + re.escape(name) + r'(?:\.([A-Z][A-Z0-9_]*(?:\|[A-Z][A-Z0-9_]*)*)|\((\d+)\))', numeric, text)
	return text


def impl_text(net, obj):
	json_result = limited(obj.to_json)
	str_result = limited(lambda: str(obj))
	return fmt(json_result, canonical_json) + '|' + fmt(str_result, lambda t: canonical_str(net, t))


def signature(kind, name, payload):
	return f'{kind}:{name}:' + hashlib.sha256(repr(payload).encode('utf8')).hexdigest()[:12]


def json_oracle(net, type_name, tree, rendered):
	"""P: the JSON shows exactly the member values: re-read every leaf of the JSON against the tree (independent of the model)."""
	def leaves(tree_, json_, type_):
		if tree_ is None:
			return json_ is None
		if isinstance(tree_, tuple):
			model = net.by_name[tree_[1]]
			members = dict(tree_[2])
			for field in codec.settable_fields(model):
				key = codec.fix_name(field.name).rstrip('_')
				value = members[field.name]
				if value is None:
					if key in json_:
						return False
					continue
				if key not in json_:
					return False
				field_type = field.field_type
				kind = codec.kind(field_type)
				if kind == 'FixedSizeInteger':
					if int(json_[key]) != value:
						return False
				elif kind == 'Array':
					if codec.is_byte_array(field):
						if bytes.fromhex(json_[key]) != value:
							return False
					else:
						if len(json_[key]) != len(value) or not all(leaves(v, j, field_type.element_type) for v, j in zip(value, json_[key])):
							return False
				elif not leaves(value, json_[key], field_type):
					return False
			return True
		if isinstance(tree_, (bytes, bytearray)):
			return isinstance(json_, str) and bytes.fromhex(json_) == tree_
		return int(json_) == tree_
	try:
		return leaves(tree, rendered, type_name)
	except (TypeError, ValueError, KeyError):
		return False


def fixed_prefix_reserved_offsets(net, model):
	"""(offset, width, name) of every reserved member that lies in the fixed-size prefix of a struct's encoding (members before the
	first variable-size or conditional one), from the schema alone."""
	found = []
	offset = 0
	for field in codec.non_const(model):
		if field.is_conditional:
			break
		field_type = field.field_type
		kind = codec.kind(field_type)
		if kind == 'FixedSizeInteger':
			width = field_type.size
		elif kind == 'Array':
			if codec.is_byte_array(field) and isinstance(field_type.size, int) and not field_type.is_expandable:
				width = field_type.size
			else:
				break
		else:
			target = net.by_name.get(field_type)
			if target is None or codec.kind(target) == 'Struct':
				break
			width = target.size
		if field.disposition == 'reserved' and kind == 'FixedSizeInteger':
			found.append((offset, width, field.name))
		offset += width
	return found


def without_present_empty(net, tree):
	"""The value with every present-and-empty conditional array member (at any depth) taken for absent."""
	if isinstance(tree, list):
		return [without_present_empty(net, item) for item in tree]
	if not isinstance(tree, tuple) or tree[1] not in net.by_name:
		return tree
	model = net.by_name[tree[1]]
	conditional = {field.name for field in codec.settable_fields(model) if field.is_conditional and codec.kind(field.field_type) == 'Array'}
	return ('S', tree[1], [
		(name, None if name in conditional and value in (b'', []) else without_present_empty(net, value)) for name, value in tree[2]])


def alias_boundary_problem(net, name, value):
	"""P for one value of an integer alias (`using X = (u)intN`), from the schema text alone: every integer of the declared width is admissible,
	is written as exactly that many little-endian bytes, those bytes are accepted and decode to the value, and JSON shows the value."""
	model = net.by_name[name]
	width, signed = model.size, not model.linked_type.is_unsigned
	prescribed = value.to_bytes(width, 'little', signed=signed)
	cls = getattr(net.module, name)
	built = limited(lambda: cls(value))
	if built[0] != 'ok':
		return f'the value {value:#x} of a {"" if signed else "u"}int{8 * width} alias is refused ({fmt(built, str)})'
	encoded = limited(lambda: (bytes(built[1].serialize()), built[1].size))
	if encoded[0] != 'ok' or encoded[1] != (prescribed, width):
		return f'the value {value:#x} is encoded as {fmt(encoded, lambda pair: pair[0].hex() + " size " + str(pair[1]))}, the schema prescribes {prescribed.hex()}'
	decoded = limited(lambda: cls.deserialize(prescribed))
	if decoded[0] != 'ok':
		return f'the bytes {prescribed.hex()} the schema declares for {value:#x} are not accepted ({fmt(decoded, str)})'
	shown = limited(lambda: (decoded[1].value, decoded[1].size, int(decoded[1].to_json())))
	if shown[0] != 'ok' or shown[1] != (value, width, value):
		return f'the bytes {prescribed.hex()} decode to (value, size, json) = {fmt(shown, str)} instead of {value}, {width}, {value}'
	return None


def alias_boundaries(check, net, name, model):
	"""Boundary corpus of every integer alias: both ends of the declared width and their neighbours, the middle, high-bit-only and
	single-byte patterns (deterministic, whatever the random values of the run hold)."""
	width = model.size
	low, high = codec.int_bounds(width, model.linked_type.is_unsigned)
	corpus = sorted({low, low + 1, 0, 1, 0x5A, high // 2, high // 2 + 1, 1 << (8 * width - 8), high - 0xFF, high - 1, high})
	for value in corpus:
		if not low <= value <= high:
			continue
		check.case(f'{net.name}:alias-boundary', (name, value))
		problem = alias_boundary_problem(net, name, value)
		if problem:
			check.fail(signature('alias-boundary', name, value), f'{net.name}.{name}: {problem}',
				{'network': net.name, 'class': name, 'op': 'alias-boundary', 'input': value})


ALIGNMENT_PATTERNS_QUICK = ['u', 'a', 'au', 'ua', 'uu']
ALIGNMENT_PATTERNS_THOROUGH = ALIGNMENT_PATTERNS_QUICK + ['aa', 'uau', 'uua', 'aau', 'uuu']


def aligned_arrays(model):
	return [field for field in codec.settable_fields(model)
		if codec.is_array(field) and not codec.is_byte_array(field) and field.field_type.alignment and isinstance(field.field_type.element_type, str)]


def aligned_array_values(generator, model, patterns=None):
	"""For every array member with declared element alignment: values whose elements have sizes that are (a) / are not (u) multiples of the
	alignment in every short arrangement - in particular an unaligned LAST element, where `pad_last` / `not pad_last` decides what follows."""
	for field in aligned_arrays(model):
		if field.is_conditional or field.field_type.sort_key:
			continue
		base = None
		for pattern in patterns or ALIGNMENT_PATTERNS_QUICK:
			elements = [generator.element_of_residue(field.field_type.element_type, field.field_type.alignment, letter == 'a') for letter in pattern]
			if any(element is None for element in elements):
				continue
			if base is None:
				generator.extreme = 'min'
				base = generator.struct(model, 0)
				generator.extreme = None
			yield ('S', base[1], [(name, elements if name == field.name else value) for name, value in base[2]])


def aligned_array_problem(net, name, tree):
	"""P for a value with aligned arrays, from the schema's alignment attributes and the element encodings alone: the encoding is that of the
	same value with the arrays empty plus, per array, the element encodings each followed by zero bytes up to the alignment (the last one
	only when the schema says pad_last), and these bytes are ACCEPTED: they decode to the value."""
	model = net.by_name[name]
	members = dict(tree[2])
	encoded = limited(lambda: bytes(codec.to_object(net, name, tree).serialize()))
	if encoded[0] != 'ok':
		return f'a value the schema admits does not encode ({fmt(encoded, str)})', None
	data = encoded[1]
	aligned_names = {field.name for field in aligned_arrays(model)}
	emptied = ('S', tree[1], [(member, [] if member in aligned_names and value else value) for member, value in tree[2]])
	without = limited(lambda: bytes(codec.to_object(net, name, emptied).serialize()))
	grown = 0
	for field in aligned_arrays(model):
		elements = members.get(field.name) or []
		if not elements:
			continue
		alignment = field.field_type.alignment
		prescribed = b''
		for position, element in enumerate(elements):
			block = limited(lambda e=element, f=field: bytes(codec.to_object(net, f.field_type.element_type, e).serialize()))
			if block[0] != 'ok':
				return f'an element of {field.name} does not encode on its own ({fmt(block, str)})', data
			block = block[1]
			prescribed += block
			if field.field_type.is_last_element_padded or position != len(elements) - 1:
				prescribed += bytes(-len(block) % alignment)
		grown += len(prescribed)
		if data.find(prescribed) < 0:
			sizes = [codec.encoded_length(net, field.field_type.element_type, element) for element in elements]
			return f'the encoding does not hold the elements of {field.name} (sizes {sizes}) laid out with alignment {alignment}, ' \
				f'{"pad_last" if field.field_type.is_last_element_padded else "not pad_last"}', data
	if without[0] == 'ok' and len(data) != len(without[1]) + grown:
		return f'the encoding is {len(data)} bytes long, the schema prescribes {len(without[1])} + {grown} (members + aligned elements)', data
	des_text, decoded = impl_des(net, name, data)
	if decoded is None:
		sizes = {f.name: [codec.encoded_length(net, f.field_type.element_type, e) for e in members.get(f.name) or []] for f in aligned_arrays(model)}
		return f'the schema-conformant encoding of a value with element sizes {sizes} is not accepted ({des_text[:80]})', data
	if decoded[1] != tree:
		return 'the schema-conformant encoding decodes to a different value', data
	return None, data


def aligned_array_case(check, net, name, tree, exprs, expected, meta):
	check.case(f'{net.name}:aligned-array', (name, codec.render(tree)))
	problem, data = aligned_array_problem(net, name, tree)
	if problem:
		check.fail(signature('aligned-array-layout', name, codec.render(tree)), f'{net.name}.{name}: {problem}',
			{'network': net.name, 'class': name, 'op': 'aligned-array', 'input': codec.tree_to_json(tree), 'shown': codec.render(tree)[:600],
				'bytes': data.hex() if data is not None else None})
	# ... and the same inputs through the schema interpreter
	try:
		ser = impl_ser(codec.to_object(net, name, tree))
	except codec.Inadmissible:
		return
	exprs.append(f'case_ser {net.coq_schema} "{name}" {codec.coq_value(tree)}')
	expected.append(ser)
	meta.append(('ser', name, codec.render(tree), codec.tree_to_json(tree)))
	check.case(f'{net.name}:bytes', (name, codec.render(tree)))
	if data is not None:
		des_text, _ = impl_des(net, name, data)
		exprs.append(f'case_des {net.coq_schema} "{name}" {blit(data)}')
		expected.append(des_text)
		meta.append(('des', name, data.hex(), data.hex()))
		check.case(f'{net.name}:decode', (name, data.hex()))


def run_network(check, net, per_class):
	rng = check.rng
	generator = codec.Generator(net, rng, long_arrays=(check.tier == 'thorough'))
	codecs, _ = codec.all_class_names(net)
	exprs, expected, meta = [], [], []
	# the members of every enumeration class carry the values the schema gives them (a value written through a NAME is the schema's value)
	for model in net.models:
		if codec.kind(model) != 'Enum' or not hasattr(net.module, model.name):
			continue
		cls = getattr(net.module, model.name)
		check.case(f'{net.name}:enum-members', model.name)
		declared = {value.name: value.value for value in model.values}
		actual = {member_name: member.value for member_name, member in cls.__members__.items()}
		if declared != actual:
			wrong = sorted(name for name in set(declared) | set(actual) if declared.get(name) != actual.get(name))
			check.fail(f'enum-members-differ:{net.name}:{model.name}',
				f'{net.name}.{model.name}: members {wrong} have values {[actual.get(n) for n in wrong]}, the schema declares {[declared.get(n) for n in wrong]}',
				{'network': net.name, 'class': model.name, 'declared': declared, 'actual': actual})
	for name in codecs:
		if name not in net.by_name:
			continue
		model = net.by_name[name]
		is_abstract = codec.kind(model) == 'Struct' and model.is_abstract
		if codec.kind(model) == 'Alias' and codec.kind(model.linked_type) == 'FixedSizeInteger':
			alias_boundaries(check, net, name, model)
		patterns = ALIGNMENT_PATTERNS_THOROUGH if check.tier == 'thorough' else ALIGNMENT_PATTERNS_QUICK
		family = list(aligned_array_values(generator, model, patterns)) if codec.kind(model) == 'Struct' and not is_abstract else []
		for tree in family:
			aligned_array_case(check, net, name, tree, exprs, expected, meta)
		# the first values of every class: all variable-length members empty (twice: both arms of the alternating conditionals), then longest,
		# then (classes with integer members) every integer member at exactly the largest value of its width (thorough: and at the smallest)
		modes = [('min', None), ('min', None), ('max', None)]
		if codec.kind(model) == 'Struct' or (codec.kind(model) == 'Alias' and codec.kind(model.linked_type) == 'FixedSizeInteger'):
			modes += [(None, 'max')] + ([(None, 'min'), ('max', 'max')] if check.tier == 'thorough' else [])
		modes += [(None, None)] * per_class
		for index, (extreme, ints) in enumerate(modes):
			generator.extreme, generator.ints = extreme, ints
			tree = generator.struct(model, 0) if is_abstract else generator.named(name)
			generator.extreme, generator.ints = None, None
			try:
				obj = codec.to_object(net, name, tree)
			except codec.Inadmissible as ex:
				# the generator only produces values the schema admits (integers within their width, declared enum members, flag subsets)
				check.case(f'{net.name}:refused-at-construction', (name, codec.render(tree)))
				check.fail(signature('admissible-value-refused', name, codec.render(tree)),
					f'{net.name}.{name}: a value the schema admits is refused when the object is built ({str(ex)[:120]}): the codec cannot produce '
					'the bytes the schema declares for it',
					{'network': net.name, 'class': name, 'op': 'construct', 'input': codec.tree_to_json(tree), 'shown': codec.render(tree)[:600]})
				continue
			# bytes
			ser = impl_ser(obj)
			exprs.append(f'case_ser {net.coq_schema} "{name}" {codec.coq_value(tree)}')
			expected.append(ser)
			meta.append(('ser', name, codec.render(tree), codec.tree_to_json(tree)))
			check.case(f'{net.name}:bytes', (name, codec.render(tree)))
			# renderings of the value and of the decoded value
			text = impl_text(net, obj)
			exprs.append(f'case_text {net.coq_schema} "{name}" {codec.coq_value(tree)}')
			expected.append(text)
			meta.append(('text', name, codec.render(tree), codec.tree_to_json(tree)))
			check.case(f'{net.name}:text', (name, codec.render(tree)))
			json_result = limited(obj.to_json)
			if json_result[0] == 'ok' and codec.kind(model) == 'Struct':
				if not json_oracle(net, name, tree, json_result[1]) and json_oracle(net, name, without_present_empty(net, tree), json_result[1]):
					check.fail('json-omits-present-empty-conditional-member',
						f'{net.name}.{name}: to_json() leaves out a conditional array member that is present and empty (it shows the value as if the '
						'member were absent)',
						{'network': net.name, 'class': name, 'value': codec.render(tree), 'json': str(json_result[1])[:600]})
				elif not json_oracle(net, name, tree, json_result[1]):
					check.fail(signature('json-members', name, codec.render(tree)),
						f'{net.name}.{name}: to_json() does not show exactly the member values',
						{'network': net.name, 'class': name, 'value': codec.render(tree), 'json': str(json_result[1])[:600]})
			if ser.startswith('ok:') and not is_abstract:
				data = bytes.fromhex(ser.split('|')[0][3:])
				des_text, decoded = impl_des(net, name, data)
				exprs.append(f'case_des {net.coq_schema} "{name}" {blit(data)}')
				expected.append(des_text)
				meta.append(('des', name, data.hex(), data.hex()))
				check.case(f'{net.name}:decode', (name, data.hex()))
				# reserved members are AT their constants: the same bytes with one reserved member changed are not an encoding of the type
				if index == 0 and codec.kind(model) == 'Struct':
					for offset, width, reserved_name in fixed_prefix_reserved_offsets(net, model):
						if offset + width > len(data):
							continue
						for position in sorted({offset, offset + width - 1}):
							corrupted = data[:position] + bytes([data[position] ^ 0x01]) + data[position + 1:]
							bad_text, bad_decoded = impl_des(net, name, corrupted)
							exprs.append(f'case_des {net.coq_schema} "{name}" {blit(corrupted)}')
							expected.append(bad_text)
							meta.append(('des', name, corrupted.hex(), corrupted.hex()))
							check.case(f'{net.name}:decode:reserved-member-changed', (name, corrupted.hex()))
							if bad_decoded is not None:
								check.fail(signature('reserved-member-not-checked', name, reserved_name),
									f'{net.name}.{name}: bytes whose reserved member {reserved_name} (offset {offset}) is not its constant decode',
									{'network': net.name, 'class': name, 'bytes': corrupted.hex(), 'member': reserved_name, 'offset': offset})
				if decoded is not None:
					decoded_text = impl_text(net, decoded[0])
					if decoded_text != text:
						check.fail(signature('decoded-renders-differently', name, data.hex()),
							f'{net.name}.{name}: JSON/text of decode(encode v) differ from those of v',
							{'network': net.name, 'class': name, 'bytes': data.hex(), 'before': text[:300], 'after': decoded_text[:300]})
	models = coq_eval(PRELUDE + net.coq_import, exprs, f'c02{net.name}', shard=40)
	for impl_text_, model_text, info in zip(expected, models, meta):
		if coarse(impl_text_) != coarse(model_text):
			check.disagree(f'Layout-vs-{net.module.__name__}', {'op': info[0], 'class': info[1], 'input': info[2][:500]}, impl_text_[:700], model_text[:700])
			# the schema interpreter IS the reading of the schema the layout laws of Props/C02.v are proved for: a codec that answers
			# differently on an input does not produce / accept / show what the schema prescribes for that input
			what = {'ser': 'encodes a value to bytes (or a size) other than', 'des': 'decodes bytes to something other than',
				'text': 'renders a value (JSON / text) other than'}[info[0]]
			check.fail(signature(f'layout-differs-{info[0]}', info[1], info[2]),
				f'{net.name}.{info[1]}: the codec {what} what the schema prescribes: {impl_text_[:160]} vs {model_text[:160]}',
				{'network': net.name, 'class': info[1], 'op': info[0], 'input': info[3], 'shown': info[2][:600],
					'implementation': impl_text_, 'schema_prescribes': model_text})
	for expr, text in list(zip(exprs, expected))[1::max(1, len(exprs) // 3)][:3]:
		check.sample({'model_case': expr[:300], 'implementation': text[:400]})


def run(check, unrecognised):
	check.trusted += [
		'translator harness/gens/c01.py (ArrayOps, SchemaSc/SchemaNc: the schema terms are printed from the objects /repo\'s own parser produces; '
		'the independence of the schema READING from that parser is the subject of C04, whose Coq parser is compared with it on all shipped files)',
		'harness/codec.py; canonicalisation of enum.__str__ (member names -> numeric value) in harness/checks/c02.py']
	check.extra['rule'] = 'every class of sc and nc x schema-directed values (incl. one with every integer member at the maximum of its width) ' \
		'-> serialize bytes, size, deserialize tree, to_json(), str(); every integer alias x boundary corpus of its width -> little-endian bytes, ' \
		'decode, JSON (oracle from the schema alone); every aligned array x arrangements of elements with sizes on / off the alignment (unaligned ' \
		'last element included) -> prescribed padding and decode of the own encoding; ' \
		'distinct = distinct (class, value); all non-trivial'
	if unrecognised.get('ArrayOps'):
		check.notes.append(f'anchors not recognised, pinned operators used: {unrecognised["ArrayOps"]}')
	check.prove('C02.v')
	codec.setup_paths()
	per_class = 1 if check.tier == 'quick' else 60
	for name in ('symbol', 'nem'):
		try:
			net = codec.load_net(name)
		except Exception as ex:  # pylint: disable=broad-except
			check.fail(f'module-import:{name}', f'codec module or schema of {name} cannot be loaded: {type(ex).__name__}: {ex}', {'network': name})
			continue
		run_network(check, net, per_class)


def replay(data):
	"""Re-runs the recorded input on the implementation of the current tree; for `layout-differs-*` replays the answer is compared with
	what the schema interpreter prescribed when the replay was written (recorded in the file)."""
	record = data['replay']
	print('replay data:', {k: str(v)[:400] for k, v in record.items()})
	if record.get('op') in ('construct', 'alias-boundary', 'aligned-array'):
		# oracles that need nothing but the schema: re-evaluated on the implementation of the current tree
		codec.setup_paths()
		net = codec.load_net(record['network'])
		if record['op'] == 'alias-boundary':
			problem = alias_boundary_problem(net, record['class'], record['input'])
		elif record['op'] == 'aligned-array':
			problem = aligned_array_problem(net, record['class'], codec.tree_from_json(record['input']))[0]
		else:
			try:
				codec.to_object(net, record['class'], codec.tree_from_json(record['input']))
				problem = None
			except codec.Inadmissible as ex:
				problem = f'a value the schema admits is refused when the object is built ({str(ex)[:160]})'
		print('property:', f'VIOLATED ({record["network"]}.{record["class"]}: {problem})' if problem else 'holds')
		return 1 if problem else 0
	if 'op' not in record or 'schema_prescribes' not in record:
		return 1
	codec.setup_paths()
	net = codec.load_net(record['network'])
	if record['op'] == 'des':
		observed, _ = impl_des(net, record['class'], bytes.fromhex(record['input']))
	else:
		obj = codec.to_object(net, record['class'], codec.tree_from_json(record['input']))
		observed = impl_ser(obj) if record['op'] == 'ser' else impl_text(net, obj)
	print('implementation now:', observed[:400])
	print('schema prescribes :', record['schema_prescribes'][:400])
	differs = coarse(observed) != coarse(record['schema_prescribes'])
	print('property:', 'VIOLATED (the codec differs from the schema semantics on this input)' if differs else 'holds')
	return 1 if differs else 0
