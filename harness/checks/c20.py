"""C20: the C++ linter's include comparison is a strict weak order; its include proposal and its --fix-indents are fixed points."""
import contextlib
import hashlib
import io
import itertools
import os
import re
import shutil
from pathlib import Path

from ..common import REPO, coq_eval, impl_env, run as run_cmd, scratch_dir

MANIFEST = {
	'text': 'lt_key, lt_strict_weak_order (all strings), lt_trichotomy, not_after_is_total_order, key_determines_include, proposal_independent_of_input_order, propose_idempotent, propose_no_complaint, '
		'fix_touches_only_fixes, fix_then_no_indent_complaint, fix_idempotent (premise: no recorded preprocessor line ends in blanks) are Qed '
		'theorems (Props/C20.v) over the model of SortableInclude/Entry.check_includes/HeaderParser.fix_indents with operators, constants and '
		'tables regenerated from linters/cpp on every run; comparator, sort, proposal, include parsing, fixes list, fixer and reporter are '
		'compared with the real classes on the tree\'s includes/files and on synthetic ones; the real --fix-indents path is run on scratch copies.',
	'design_ref': 'DESIGN.md section 4, C20',
	'technique': 'Coq proof over regenerated model + vm_compute correspondence with the Python linter + direct property oracle on the linter',
	'note': 'Trusted: Coq 8.16.1 kernel + vm_compute, the translators harness/gen.py + harness/gens/c20.py, the correspondence harness, the '
		'ply.lex/colorama shims. Modelled but not verified: list.sort as a stable insertion sort (equal to any sort for the strict total order '
		'proved), str/re primitives for the two fixed patterns and for literal-and-dot patterns. Not modelled: Rules.py (the own header is '
		'obtained from the real ruleset), file replacement (open/remove/move; exercised by running the real --fix-indents path on scratch '
		'copies and listing the directory). fix_idempotent carries the premise that no recorded preprocessor line ends in white space; files '
		'are LF-terminated UTF-8 without CR. The model of fix_indents is the repaired line rewriting (seeded/_fixes/C20-fix.diff, '
		'C20-fix-drift.diff); on a tree without those repairs the check reports fix-indents-crash:TypeError and '
		'fix-indents-continuation-drift with replays.',
}

CLIENT = REPO / 'client' / 'catapult' if (os.environ.get('VERIF_REPO') and (REPO / 'client').is_dir()) else Path('/repo/client/catapult')
SOURCE_DIRS = ('src', 'sdk', 'plugins', 'extensions', 'tests', 'tools')
IMPORTS = 'From Symv Require Import Lint.IncludeOrder Lint.Propose Lint.Indent.'
PRELUDE = IMPORTS + '''
Open Scope string_scope.
Definition r1 (a b : str) : string := match lt a b with Ok true => "T" | Ok false => "F" | _ => "X" end.
Definition lt_matrix (l : list str) : string := String.concat "" (map (fun a => String.concat "" (map (r1 a) l)) l).
Definition render_sort (l : list str) : string := hex_lines (sort_includes l).
Definition render_check_all (own_path : str) (cpp : option own_header) (l : list str) : string :=
  render_check own_path cpp (filter (fun i => negb (is_special_include i)) l).
Definition render_entry (full_path : str) : string := hex_str (own_path_of full_path) ++ "|" ++ bool_to_string (is_cpp_path full_path).
Definition render_includes (lines : list str) : string := String.concat ";" (map render_include lines).
'''
INCLUDE_RE = re.compile(r'^[ \t]*#[ \t]*include[ \t]*(["<][^">]*[">])')
KNOWN_DRIFT = 'fix-indents-continuation-drift'
KNOWN_CRASH = 'fix-indents-crash:TypeError'


# ---------------------------------------------------------------------------------------------------------------------
# small helpers

def cstr(text):
	"""Gallina term of type str (list of code points) for a Python str."""
	if all(c in '\t\n' or 32 <= ord(c) < 127 for c in text):
		return '(of_string "' + text.replace('"', '""') + '")'
	return '[' + '; '.join(str(ord(c)) for c in text) + ']%Z'


def cfile(text):
	"""Gallina term of type list str: the lines of an LF-terminated text."""
	return clist(text.split('\n')[:-1])


def clist(items):
	return '[' + '; '.join(cstr(i) for i in items) + ']'


def hex_str(text):
	return ''.join(f'{ord(c):02x}' if ord(c) < 256 else f'u{ord(c):06x}' for c in text)


def hex_lines(items):
	return ''.join(hex_str(i) + '.' for i in items)


def digest(*parts):
	return hashlib.sha256(repr(parts).encode('utf8')).hexdigest()[:12]


def linter():
	import checkProjectStructure as cps  # pylint: disable=import-error,import-outside-toplevel
	import HeaderParser as hp  # pylint: disable=import-error,import-outside-toplevel
	return cps, hp


class Collector:
	def __init__(self):
		self.items = []

	def __call__(self, group, value):
		self.items.append((group, value))

	def of(self, group):
		return [value for name, value in self.items if name == group]


class Sink:
	"""Output stream for a direct call of HeaderParser.fix_indents: takes what the method writes, str or bytes."""
	def __init__(self):
		self.parts = []
		self.kinds = set()

	def write(self, data):
		self.kinds.add(type(data).__name__)
		self.parts.append(data.decode('utf8') if isinstance(data, bytes) else data)

	def text(self):
		return ''.join(self.parts)


def quiet():
	return contextlib.redirect_stdout(io.StringIO())


# ---------------------------------------------------------------------------------------------------------------------
# inputs: the tree, synthetic includes, synthetic files

_TREE = {}


def tree():
	"""(sorted relative paths of .h/.cpp files, sorted distinct include strings) of the C++ tree, read-only."""
	if not _TREE:
		files = []
		includes = set()
		for source_dir in SOURCE_DIRS:
			for root, _, names in os.walk(CLIENT / source_dir):
				for name in names:
					if name.endswith('.h') or name.endswith('.cpp'):
						path = Path(root) / name
						files.append(str(path.relative_to(CLIENT)))
						for line in path.read_text(encoding='utf8').split('\n'):
							match = INCLUDE_RE.match(line)
							if match:
								includes.add(match.group(1))
		_TREE['files'] = sorted(files)
		_TREE['includes'] = sorted(includes)
	return _TREE['files'], _TREE['includes']


FIRSTS = ['src', 'mongo', 'zeromq', 'plugins', 'catapult', 'symbol', 'tests', 'test', 'extensions', 'sdk', 'tools', 'x', 'Src', 'symbols', 'catapult2', '']
MIDDLES = ['extended', 'txes', 'tests', 'test', 'utils', 'model', 'a', 'A', 'a-b', 'a0', '']
NAMES = ['a.h', 'b.h', 'A.h', 'types.h', 'a.hpp', 'a', 'tests', 'Z.h', 'a b.h', 'é.h', 'tests.h']
SYSTEM = [
	'<stdio.h>', '<sys/types.h>', '<string.h>', '<a.h>', '<.h>', '<h>', '<vector>', '<string>', '<memory>', '<a>', '<sys/x>',
	'<donna/curve25519.h>', '<donna>', '<donnax.h>', '<openssl/evp.h>', '<openssl/sha.hpp>', '<openssl>',
	'<boost/asio.hpp>', '<boost/x.h>', '<boost>', '<boostx.h>', '<mongocxx/client.hpp>', '<mongocxx/x.h>', '<bsoncxx/json.hpp>',
	'<rocksdb/db.h>', '<benchmark/benchmark.h>', '<benchmark>', '<Boost/x.h>', '<ref10/crypto_verify_32.h>', '<unistd.h>', '<stdexcept>']
WEIRD = [
	'<a"', '"b>', 'xyz', '"', '<', '"/"', '"a//b"', '"symbol"', '"symbol/"', '"symbol/extended"', '"tests"', '"a/tests"', '"tests/tests/a.h"',
	'"src"', '"src/"', '"a/b', 'a/b.h', '<é.h>', '"é/ü.h"', '"a b/c.h"', '!a', '~/x']


# one row per class the comparison distinguishes among <...> includes (the property's "system C/C++, external, boost-like"), several
# members each: every law of the order is tried on sets that hold members of several rows
ANGLE_CLASSES = {
	'external, .h': ['<openssl/evp.h>', '<donna/curve25519.h>', '<openssl/sha.h>'],
	'external, no .h': ['<openssl/sha.hpp>', '<donna/x.hpp>'],
	'boost-like, no .h': ['<boost/asio.hpp>', '<boost/optional.hpp>', '<mongocxx/client.hpp>', '<bsoncxx/json.hpp>'],
	'boost-like, .h': ['<boost/x.h>', '<rocksdb/db.h>', '<benchmark/benchmark.h>'],
	'system c++': ['<vector>', '<string>', '<memory>', '<sys/x>'],
	'system c': ['<stdio.h>', '<sys/types.h>', '<unistd.h>', '<ref10/crypto_verify_32.h>']}
QUOTE_CLASSES = {
	'sibling': ['"a.h"', '"Z.h"'], 'other': ['"x/a.h"', '"x/b/c.h"'], 'src': ['"src/a.h"', '"src/b/c.h"'], 'extension': ['"mongo/a.h"', '"zeromq/a.h"'],
	'plugins': ['"plugins/a.h"', '"plugins/b/c.h"'], 'catapult': ['"catapult/types.h"', '"catapult/b/c.h"'],
	'symbol': ['"symbol/a.h"', '"symbol/extended/b/c.h"', '"symbol/txes/a.h"'], 'tests': ['"tests/a.h"', '"test/a.h"', '"plugins/tests/a.h"', '"catapult/tests/a.h"']}


def class_set(rng, size, angle_only=False):
	"""`size` includes of pairwise different classes (one member each); at least two of them <...> classes."""
	angle = rng.sample(sorted(ANGLE_CLASSES), min(size, len(ANGLE_CLASSES)) if angle_only else rng.randrange(2, min(size, len(ANGLE_CLASSES)) + 1))
	quote = rng.sample(sorted(QUOTE_CLASSES), size - len(angle))
	chosen = [rng.choice(ANGLE_CLASSES[name]) for name in angle] + [rng.choice(QUOTE_CLASSES[name]) for name in quote]
	rng.shuffle(chosen)
	return chosen


def synth_include(rng):
	kind = rng.randrange(10)
	if kind < 5:
		depth = rng.choice([1, 1, 2, 2, 3, 3, 4, 5])
		if depth == 1:
			parts = [rng.choice(NAMES)]
		else:
			parts = [rng.choice(FIRSTS)] + [rng.choice(MIDDLES) for _ in range(depth - 2)] + [rng.choice(NAMES)]
		return '"' + '/'.join(parts) + '"'
	if kind < 8:
		return rng.choice(SYSTEM)
	if kind == 8:
		base = rng.choice(SYSTEM)[1:-1]
		return '<' + base + rng.choice(['', '/x.h', '/x.hpp', '.h', 'x']) + '>'
	return rng.choice(WEIRD)


def include_pool(rng, size, tree_share=0.6):
	_, tree_includes = tree()
	pool = set()
	while len(pool) < size:
		pool.add(rng.choice(tree_includes) if rng.random() < tree_share else synth_include(rng))
	return sorted(pool, key=lambda s: rng.random())


# ---------------------------------------------------------------------------------------------------------------------
# implementation side

def make_sortable(cps, hp, include):
	return cps.SortableInclude(hp.Include('#include ' + include, 0, include, ''), None)


def py_lt(cps, hp, a, b):
	try:
		return 'T' if make_sortable(cps, hp, a) < make_sortable(cps, hp, b) else 'F'
	except IndexError:
		return 'X'


def ruleset_of(cps, relpath):
	first = re.split(r'[/\\]', relpath)[0]
	return cps.SOURCE_DIRS.get(first)


def own_spec(entry, full_path):
	"""What the ruleset answers for the first include: None (not a .cpp), 'first', ('is', header) or ('crash', name)."""
	if not full_path.endswith('.cpp'):
		return None
	path_elements = re.split(r'[/\\]', full_path)
	sentinel = type('Sentinel', (), {'include': '\x00first\x00'})()
	try:
		if 'tests' in path_elements:
			header = entry.ruleset.first_test_include_check([sentinel], path_elements)
		else:
			header = entry.ruleset.first_include_check([sentinel], path_elements)
	except Exception as ex:  # pylint: disable=broad-except
		return ('crash', type(ex).__name__)
	return 'first' if header == sentinel.include else ('is', header)


def run_check_includes(cps, hp, root, filename, ruleset, pairs):
	"""Entry.check_includes on (include, rest) pairs; returns (canonical outcome, proposal as SortableIncludes or None)."""
	preprocessor = [hp.Include('#include ' + inc + rest, i + 1, inc, rest) for i, (inc, rest) in enumerate(pairs)]
	entry = cps.Entry(root, filename, ruleset)
	collector = Collector()
	with quiet():
		try:
			entry.check_includes(collector, preprocessor)
		except Exception as ex:  # pylint: disable=broad-except
			return f'crash:{type(ex).__name__}', None
	order = collector.of('includesOrder')
	first = collector.of('firstInclude')
	kept = [inc for inc, _ in pairs if not cps.is_special_include(inc)]
	proposal = [x.include for x in order[0].includes] if order else kept
	return hex_lines(proposal) + '|' + ('T' if order else 'F') + ('T' if first else 'F'), (order[0].includes if order else None)


def parse_real(hp, path, validators=()):
	collector = Collector()
	with quiet():
		parser = hp.HeaderParser(collector, str(path), list(validators))
	return parser, collector


def fold_fix(hp, parser, text):
	"""The real fix_indents fold on `text`, independent of how the method hands its lines to the output stream."""
	sink = Sink()
	parser.fix_indents(io.StringIO(text), sink)
	return sink.text(), sink.kinds


def impl_indent(hp, work, text):
	"""Observable of the fixer on one file: fixes | complaints | changed lines | complaints after | second pass changes nothing."""
	path = work / 'probe.h'
	path.write_text(text, encoding='utf8', newline='')
	try:
		parser, collector = parse_real(hp, path)
	except RuntimeError:
		return 'crash:RuntimeError', None
	except Exception as ex:  # pylint: disable=broad-except
		return f'crash:{type(ex).__name__}', None
	fixes = ''.join(('P' if f.type == hp.MultilineMacro.PPLINE else 'C') + f'{f.lineno},' for f in parser.fixes)
	report = render_complaints(collector.of('indentedPreprocessor'))
	fixed, _ = fold_fix(hp, parser, text)
	before = text.split('\n')[:-1]
	after = fixed.split('\n')[:-1]
	changes = ''.join(f'{i + 1}:{hex_str(a)}.' for i, (b, a) in enumerate(zip(before, after)) if a != b)
	path.write_text(fixed, encoding='utf8', newline='')
	try:
		parser2, collector2 = parse_real(hp, path)
		again, _ = fold_fix(hp, parser2, fixed)
		report_after = render_complaints(collector2.of('indentedPreprocessor'))
	except Exception as ex:  # pylint: disable=broad-except
		# the fixer's own output is not even readable by the linter any more (only seen with a broken fixer)
		again = ''
		report_after = f'crash:{type(ex).__name__}'
	return f'{fixes}|{report}|{changes}|{report_after}|{"T" if again == fixed else "F"}', (fixed, again, len(before) == len(after))


def render_complaints(errors):
	out = ''
	for err in errors:
		out += ('A' if 'column 0' in err.kind else 'B') + f'{err.lineno},'
	return out


# ---------------------------------------------------------------------------------------------------------------------
# property oracles (from the property text; they look only at the real linter's behaviour)

def swo_problem(matrix, items):
	"""First violated strict-weak-order law among `items` for the boolean matrix of the comparator, or None."""
	n = len(items)
	for i in range(n):
		if matrix[i][i]:
			return 'irreflexivity', [items[i]]
	for i in range(n):
		for j in range(n):
			if matrix[i][j] and matrix[j][i]:
				return 'asymmetry', [items[i], items[j]]
	for i in range(n):
		for j in range(n):
			if not matrix[i][j]:
				continue
			for k in range(n):
				if matrix[j][k] and not matrix[i][k]:
					return 'transitivity', [items[i], items[j], items[k]]
	for i in range(n):
		for j in range(n):
			if matrix[i][j] or matrix[j][i]:
				continue
			for k in range(n):
				if not (matrix[j][k] or matrix[k][j]) and (matrix[i][k] or matrix[k][i]):
					return 'transitivity of incomparability', [items[i], items[j], items[k]]
	return None


def pp_roles(lines):
	"""Independent reading of 'preprocessor lines': D = a line whose first non-blank character is # (not itself continued onto),
	1 = the line right after a D line ending in a backslash, 2 = any further line continued onto, - = every other line."""
	roles = []
	previous = '-'
	continued = False
	for line in lines:
		if continued:
			role = '1' if previous == 'D' else '2'
		else:
			role = 'D' if line.lstrip().startswith('#') else '-'
		roles.append(role)
		continued = role != '-' and line.endswith('\\')
		previous = role
	return roles


def is_pp_related(lines):
	return [role != '-' for role in pp_roles(lines)]


def indent_oracle(before_text, after_text, second_text, complaints_after, strays):
	"""'--fix-indents yields a file with no such complaint, leaves every other line unchanged, leaves no stray files, changes
	nothing when applied a second time'. Returns (signature stem, description) or None."""
	before = before_text.split('\n')
	after = after_text.split('\n')
	if strays:
		return 'stray-files', f'stray files left behind: {strays}'
	if len(before) != len(after):
		return 'line-count', f'the fixer changed the number of lines ({len(before)} -> {len(after)})'
	related = is_pp_related(before)
	for number, (b, a, flag) in enumerate(zip(before, after, related), 1):
		if a != b and not flag:
			return 'other-line-changed', f'line {number} is not a preprocessor line but was changed: {b!r} -> {a!r}'
	if complaints_after:
		return 'complaint-after-fix', f'the fixed file still draws indent complaints: {complaints_after}'
	if second_text != after_text:
		second = second_text.split('\n')
		changed = [n for n, (x, y) in enumerate(zip(after, second), 1) if x != y]
		roles_after = pp_roles(after)
		later_continuations = len(after) == len(second) and all(roles_after[n - 1] == '2' for n in changed)
		stem = 'continuation-drift' if later_continuations and changed else 'not-idempotent'
		return stem, f'a second application changes lines {changed[:8]} again (first: {after[changed[0] - 1]!r} -> {second[changed[0] - 1]!r})' \
			if changed else 'a second application changes the file again'
	return None


# ---------------------------------------------------------------------------------------------------------------------
# the real --fix-indents path

def list_strays(directory, expected):
	return sorted(p.name for p in Path(directory).iterdir() if p.name not in expected)


def real_fix_run(cps, hp, validators, path):
	"""HeaderParser as Analyzer.add constructs it when --fix-indents is given. Returns (outcome, indent complaints)."""
	context = cps.AutoContainer()
	with quiet():
		try:
			hp.HeaderParser(cps.FilteredReporter(context), str(path), validators, fix_indents_in_files=True)
		except Exception as ex:  # pylint: disable=broad-except
			return f'crash:{type(ex).__name__}', list(context['indentedPreprocessor'])
	return 'ok', list(context['indentedPreprocessor'])


def real_fix_case(cps, hp, validators, work, name, text):
	"""Runs the real fix path twice on a scratch copy. Returns dict with outcome/after/second/complaints_after/strays."""
	directory = work / 'fix'
	if directory.exists():
		shutil.rmtree(directory)
	directory.mkdir(parents=True)
	path = directory / name
	path.write_text(text, encoding='utf8', newline='')
	outcome, _ = real_fix_run(cps, hp, validators, path)
	strays = list_strays(directory, {name})
	result = {'outcome': outcome, 'strays': strays}
	if outcome != 'ok':
		result['after'] = path.read_text(encoding='utf8') if path.exists() else None
		return result
	result['after'] = path.read_bytes().decode('utf8')
	outcome2, errors2 = real_fix_run(cps, hp, validators, path)
	result['outcome2'] = outcome2
	result['second'] = path.read_bytes().decode('utf8') if path.exists() else None
	result['complaints_after'] = render_complaints(errors2)
	result['strays'] = list_strays(directory, {name})
	return result


# ---------------------------------------------------------------------------------------------------------------------
# case generators for the fixer

def misindent(rng, text, rate=0.5):
	"""Mis-indents preprocessor lines of an LF file: leading blanks on directive lines, 0/2/3 tabs or blanks on first continuation
	lines, extra tabs on later continuation lines.  Never adds trailing blanks."""
	lines = text.split('\n')
	out = []
	for line, role in zip(lines, pp_roles(lines)):
		if role == '-' or rng.random() > rate or line == '':
			out.append(line)
		elif role == 'D':
			out.append(rng.choice([' ', '\t', '  ', '\t\t', ' \t', '    ']) + line.lstrip())
		elif role == '1':
			out.append(rng.choice(['', '\t\t', '\t\t\t', ' ', '  \t', '\t']) + line.lstrip('\t'))
		else:
			out.append(rng.choice(['\t', '\t\t', '']) + line)
	return '\n'.join(out)


SYNTH_FILES = [
	'#pragma once\n  #include <vector>\n#define FOO(x) \\\n\t\t\ta; \\\n\tb; \\\n\tc\nint x;\n',
	'  #pragma once\n#include "a.h" \\\n\tnot a continuation\n#define A \\\n\n#define B 1\n',
	'#define A \\\n#define B \\\n\t\tc\n#endif\n',
	'\t#ifdef X\n\t\t#define Y(a) \\\n a \\\n\t\t\tb\n\t#else\n#  define Y(a) a\n\t#endif\n',
	'#define LAST \\\n',
	'int a;\n\n#if 1\n # include <a>\n#endif\nextern "C" {\n}\n',
	'#\n # \n#define\n#include\n#include <unterminated\n#include "a"b"\n',
	'#warning unknown directive\n',
	'#define A \\\n\t\\\n\t\t\\\n\n\tx\n',
	' #define NBSP 1\n #include <em>\n#define C \\\n \tfoo\n',
	'// no preprocessor line at all\nint main() { return 0; }\n',
	'#define STR(x) \\\n\t#x\n#define CAT(a, b) \\\n#a ## #b\n',
	'#if defined(_MSC_VER)\n\t#pragma warning(push)\n\t#pragma once\n#endif\n#pragma once\n',
	# characters that str.splitlines() - but neither the compiler nor the linter's reader - takes for line ends, inside lines that precede
	# mis-indented preprocessor lines: form feed (page break), vertical tab, FS / GS / RS, NEL, U+2028, U+2029
	'#pragma once\n#include <stdint.h>\n\n// ---- section one ----\x0c\nnamespace catapult {\n\tstruct Foo {\n\t\t#ifdef _MSC_VER\n\t\tuint64_t Value;\n\t\t#endif\n\t};\n}\n',
	'#include "Foo.h"\n\nnamespace catapult {\n\t// separators: \u2028 and \x85 are not newlines\n\tconst char* Text = "a\x0bb";\n\t#if defined(FOO)\n\tint x = 1;\n\t#endif\n}\n',
	'int a; // \x1c|\x1d|\x1e|\u2029|x\n\t#ifdef A\n\t\t#define B(x) \\\n\t\t\t\tx; \\\n\t\t\t\ty\n#endif\n',
	'#define X "a\x0cb" /* \x0b */\n\t#define Y 1\n  #include "a\x0cb.h"\n',
	'#define M(x) \\\n\t\t\tx\x0c; \\\n\ty\u2028z\n\t#undef M\n',
	'/* page\x0c\x0cbreaks\x0c */\n\n  #include <a>\n\n/* \x85 */\n\t#include <b>\n',
	# preprocessor lines on the very first / very last line, blank lines around them, nothing but a newline, nothing at all
	'\t#include <a>\nint x;\n',
	'int x;\n  #include "b.h"\n',
	' #define ONLY 1\n',
	'int a;\n\n\t#ifdef A\n\n\n\t#endif\n\n',
	'\n',
	'',
]
EXOTIC = ['\x0b', '\x0c', '\x1c', '\x1d', '\x1e', '\x85', '\u2028', '\u2029']


def exoticize(rng, text, count=6):
	"""Puts a few characters that some line splitters (not the compiler, not the linter's reader) take for line ends INSIDE lines of an
	LF file: between two non-blank characters of lines that are not preprocessor lines, and inside the body of directive / continuation lines."""
	lines = text.split('\n')
	roles = pp_roles(lines)
	candidates = [i for i, line in enumerate(lines) if len(line.strip()) >= 4 and (roles[i] == '-' or not re.match(r'\s*#\s*include', line))]
	for i in rng.sample(candidates, min(count, len(candidates))):
		line = lines[i]
		body_end = len(line.rstrip(' \t\\')) - 1
		body_start = len(line) - len(line.lstrip()) + 2
		if roles[i] == 'D':   # only inside the last word of a directive, never in its keyword
			body_start = max(line.rfind(' ', 0, body_end), line.rfind('\t', 0, body_end)) + 2
			if line.strip() == '#pragma once' or body_start < len(line) - len(line.lstrip()) + 4:
				continue
		if body_start >= body_end:
			continue
		position = rng.randrange(body_start, body_end)
		lines[i] = line[:position] + rng.choice(EXOTIC) + line[position:]
	return '\n'.join(lines)


def file_cases(rng, tier):
	"""(name, relative path or None, text) of the files the fixer is tried on."""
	files, _ = tree()
	cases = []
	for i, text in enumerate(SYNTH_FILES):
		cases.append((f'synthetic-{i}', None, text))
		if '#warning' not in text:
			cases.append((f'synthetic-{i}-misindented', None, misindent(rng, text, 0.7)))
	want = 20 if tier == 'quick' else 300
	limit = 16000 if tier == 'quick' else 40000
	chosen = []
	candidates = list(files)
	rng.shuffle(candidates)
	with_macro = 0
	for rel in candidates:
		if len(chosen) >= want:
			break
		text = (CLIENT / rel).read_text(encoding='utf8')
		if len(text) > limit or '\r' in text or not text.endswith('\n') or '#' not in text:
			continue
		multi = bool(re.search(r'^\s*#.*\\\n.*\\\n', text, re.M))
		if with_macro < want // 2 and not multi:
			continue
		with_macro += multi
		chosen.append(rel)
	for rel in sorted(chosen):
		text = (CLIENT / rel).read_text(encoding='utf8')
		cases.append((rel, rel, misindent(rng, text)))
	for rel in sorted(chosen)[:max(3, want // 10)]:
		cases.append((rel + ' (as is)', rel, (CLIENT / rel).read_text(encoding='utf8')))
	for rel in sorted(chosen, key=lambda name: hashlib.sha256(name.encode('utf8')).digest())[:max(6, want // 4)]:
		text = (CLIENT / rel).read_text(encoding='utf8')
		cases.append((rel + ' (FF/VT/FS/GS/RS/NEL/U+2028/U+2029 inside lines)', rel, misindent(rng, exoticize(rng, text), 0.7)))
	return cases


# ---------------------------------------------------------------------------------------------------------------------
# the parts of the check

def part_comparator(check, cps, hp):
	rng = check.rng
	if check.tier == 'quick':
		pools = [include_pool(rng, 32) for _ in range(2)] + [include_pool(rng, 32, 0.0)] + [sorted(set(SYSTEM + WEIRD))[:32]]
	else:
		pools = [include_pool(rng, 100) for _ in range(14)] + [include_pool(rng, 100, 0.0) for _ in range(4)] \
			+ [include_pool(rng, 100, 1.0) for _ in range(2)] + [sorted(set(SYSTEM + WEIRD))]
	pools.append(['', '"a.h"', '<a>'])
	models = coq_eval(PRELUDE, [f'lt_matrix {clist(pool)}' for pool in pools], 'c20lt', shard=2)
	for pool, mod in zip(pools, models):
		out = ''.join(py_lt(cps, hp, a, b) for a in pool for b in pool)
		for index, (x, y) in enumerate(zip(out, mod)):
			a, b = pool[index // len(pool)], pool[index % len(pool)]
			check.case('lt:' + {'T': 'less', 'F': 'not-less', 'X': 'crash'}[x], (a, b), a != b)
			if x != y:
				check.disagree('IncludeOrder.lt-vs-SortableInclude.__lt__', {'a': a, 'b': b}, x, y)
		if len(out) != len(mod):
			check.disagree('IncludeOrder.lt-vs-SortableInclude.__lt__', {'pool': pool}, out, mod)
	check.sample({'lt': [pools[0][0], pools[0][1]], 'observed': py_lt(cps, hp, pools[0][0], pools[0][1])})

	# strict weak order laws, directly on the Python comparator, all triples of small sets
	sets = 12 if check.tier == 'quick' else 150
	# one include of every priority class of the comparator (first-level and second-level tables, the tests bonus, depth classes), always
	lattice = [
		'"a.h"', '"x/a.h"', '"src/a.h"', '"src/b/c.h"', '"mongo/a.h"', '"zeromq/a.h"', '"plugins/a.h"', '"plugins/b/c.h"', '"catapult/types.h"',
		'"catapult/b/c.h"', '"symbol/a.h"', '"symbol/b/c.h"', '"symbol/extended/a.h"', '"symbol/extended/b/c.h"', '"symbol/txes/a.h"',
		'"symbol/txes/b/c.h"', '"tests/a.h"', '"test/a.h"', '"plugins/tests/a.h"', '"symbol/extended/tests/a.h"', '"symbol/tests/a.h"',
		'"catapult/tests/a.h"', '<vector>', '<boost/x.h>']
	fixed_sets = [lattice[k:k + 12] for k in range(0, len(lattice), 6)] + [lattice[::2], lattice[1::2]]
	# every class of <...> include against every other: all members at once, then one member per class (every combination of first / last member)
	fixed_sets.append([member for members in ANGLE_CLASSES.values() for member in members])
	fixed_sets += [[members[pick] for members in ANGLE_CLASSES.values()] + ['"a.h"', '"catapult/types.h"'] for pick in (0, -1)]
	fixed_sets += [class_set(rng, 8) for _ in range(4 if check.tier == 'quick' else 40)]
	for number in range(sets + len(fixed_sets)):
		items = fixed_sets[number] if number < len(fixed_sets) else include_pool(rng, 12, rng.choice([0.0, 0.5, 1.0]))
		matrix = [[py_lt(cps, hp, a, b) == 'T' for b in items] for a in items]
		check.case('swo-triples', tuple(items))
		problem = swo_problem(matrix, items)
		if problem:
			law, witness = problem
			check.fail(f'swo:{law}:{digest(witness)}', f'SortableInclude.__lt__ violates {law} on {witness}', {'kind': 'swo', 'includes': witness})


def part_sort(check, cps, hp):
	rng = check.rng
	count = 25 if check.tier == 'quick' else 400
	sets = []
	for _ in range(count):
		size = rng.choice([2, 3, 4, 5, 5])
		sets.append(include_pool(rng, size, rng.choice([0.0, 0.5, 1.0]))[:size])
	# sets that hold one include of each of several classes (two or more of them <...> classes), and every pair / triple of <...> classes
	for _ in range(10 if check.tier == 'quick' else 150):
		sets.append(class_set(rng, rng.choice([3, 4, 5])))
	names = sorted(ANGLE_CLASSES)
	for group in list(itertools.combinations(names, 2)) + list(itertools.combinations(names, 3)):
		sets.append([rng.choice(ANGLE_CLASSES[name]) for name in group])
	models = coq_eval(PRELUDE, [f'render_sort {clist(s)}' for s in sets], 'c20sort', shard=50)
	for items, mod in zip(sets, models):
		orders = set()
		for perm in itertools.permutations(items):
			ordered = sorted(make_sortable(cps, hp, x) for x in perm)
			orders.add(tuple(x.include for x in ordered))
		check.case(f'sort-permutations:{len(items)}', tuple(items))
		if len(orders) != 1:
			check.fail(f'order-depends-on-input:{digest(items)}', f'sorting {items} gives {len(orders)} different orders depending on the written order',
				{'kind': 'perm', 'includes': items})
		out = hex_lines(sorted(orders)[0])
		if out != mod:
			check.disagree('Propose.sort_includes-vs-list.sort', {'includes': items}, out, mod)


ENTRY_CASES = [
	('src/catapult/utils', 'Foo.cpp'), ('src/catapult/utils', 'Foo.h'), ('src/catapult', 'types.h'), ('src', 'x.cpp'),
	('plugins/txes/transfer/src/validators', 'TransferValidator.cpp'), ('plugins/txes/transfer/tests/validators', 'TransferValidatorTests.cpp'),
	('extensions/mongo/src', 'MongoThing.cpp'), ('extensions/zeromq/src', 'ZeroMqExtension.cpp'), ('tests/catapult/utils', 'FooTests.cpp'),
	('tests/int/node', 'BarTests.cpp'), ('tools/health', 'main.cpp'), ('tools/nemgen/blockhashes', 'Util.cpp'), ('sdk/src/builders', 'Builder.cpp'),
	('src/catapult.d/utils', 'Foo.cpp'), ('src\\catapult\\utils', 'Foo.cpp'), ('plugins/a+b/src', 'X.cpp')]


def entry_include_set(rng, root, filename):
	own_dir = re.sub(r'^src/', '', root.replace('\\', '/')) + '/'
	stem = filename.rsplit('.', 1)[0]
	candidates = [
		f'"{stem}.h"', f'"{own_dir}{stem}.h"', f'"{own_dir}Other.h"', f'"{own_dir}sub/Deep.h"', f'"x/{own_dir}Other.h"', '"Other.h"',
		f'"{stem[:-5]}.h"' if stem.endswith('Tests') else '"Validators.h"', '"src/validators/Validators.h"', '"tools/ToolMain.h"',
		'<stdexcept>', '<unistd.h>', '"catapult/utils/MacroBasedEnum.h"', '"catapultXutils/Other.h"']
	size = rng.randrange(0, 7)
	chosen = [rng.choice(candidates) if rng.random() < 0.5 else include_pool(rng, 1, 0.7)[0] for _ in range(size)]
	if rng.random() < 0.2 and chosen:
		chosen.append(chosen[0])
	return [(inc, rng.choice(['', '', ' // note', '\t/* c */'])) for inc in chosen]


# an include line names a FILE: a last path component is there (`#include "catapult/utils/"` or `"/"` name a directory; the linter shortens
# includes of the file's own directory by cutting that directory off, which would leave `""`)
INCLUDE_LINE = re.compile(r'#include ("[^"<>]*[^"<>/]"|<[^"<>]*[^"<>/]>)([ \t].*)?')


def file_with_includes(filename, pairs):
	"""A small source file whose include lines are `pairs` (include, rest of the line) in the written order, other lines around and between."""
	lines = ['/** a file **/', '#pragma once'] if filename.endswith('.h') else ['/** a file **/']
	for index, (inc, rest) in enumerate(pairs):
		lines.append('#include ' + inc + rest)
		if index == 1:
			lines.append('// a comment between includes')
	return '\n'.join(lines + ['', 'namespace catapult { namespace foo {', '\tstruct Bar;', '}}', ''])


def lint_includes_of_file(cps, hp, work, root, filename, ruleset, text):
	"""The file `text`, stored under its name, read by the real HeaderParser and given to Entry.check_includes as the file root/filename.
	Returns (line numbers of the includes the order rule looks at, [(include, rest)] as read, proposed lines or None) or 'crash:<name>'."""
	path = work / 'rewrite' / filename
	path.parent.mkdir(exist_ok=True)
	path.write_text(text, encoding='utf8', newline='')
	collector = Collector()
	try:
		parser, _ = parse_real(hp, path)
		entries = [e for e in include_entries(cps, hp, parser) if not cps.is_special_include(e.include)]
		slots = [e.lineno for e in entries]
		read = [(e.include, e.rest) for e in entries]
		with quiet():
			cps.Entry(root, filename, ruleset).check_includes(collector, parser.preprocessor)
	except Exception as ex:  # pylint: disable=broad-except
		return f'crash:{type(ex).__name__}: {ex}'
	complaint = collector.of('includesOrder')
	return slots, read, [str(x) for x in complaint[0].includes] if complaint else None


def rewrite_problem(cps, hp, work, root, filename, ruleset, text):
	"""'Rewriting a file's includes in the order the linter proposes yields a file about which it has no such complaint, leaves every
	other line unchanged, and changes nothing when applied a second time': the proposal (the lines the includesOrder report prints) is put
	in place of the file's include lines and the file is linted again; when every include line is well formed as written
	(`#include "..."` / `#include <...>`, then nothing or a blank and a comment), so is every line of the proposal.
	Returns (signature stem, description) or None."""
	first = lint_includes_of_file(cps, hp, work, root, filename, ruleset, text)
	if isinstance(first, str) or first[2] is None:
		return None
	slots, _, proposal = first
	if len(proposal) != len(slots):
		return 'proposal-size', f'{len(slots)} includes written, {len(proposal)} lines proposed: {proposal}'
	lines = text.split('\n')
	written_well_formed = all(INCLUDE_LINE.fullmatch(lines[slot - 1]) for slot in slots)
	for slot, line in zip(slots, proposal):
		lines[slot - 1] = line
	second = lint_includes_of_file(cps, hp, work, root, filename, ruleset, '\n'.join(lines))
	malformed = [line for line in proposal if not INCLUDE_LINE.fullmatch(line)]
	if malformed and written_well_formed:
		after = f'cannot be linted any more: {second[6:]}' if isinstance(second, str) else 'is accepted' if second[2] is None else f'is told to use {second[2]}'
		return 'proposal-malformed', f'the proposed order holds {malformed} - not include lines (proposal: {proposal}); the file rewritten to it {after}'
	if isinstance(second, str):
		return 'proposal-not-accepted', f'the file rewritten to the proposal {proposal} cannot be linted any more: {second[6:]}'
	if second[2] is not None:
		return 'proposal-still-complained', f'the file rewritten to the proposal {proposal} is told to use yet another order: {second[2]}'
	return None


def cpp_term(spec):
	if spec is None:
		return 'None'
	if spec == 'first':
		return '(Some OwnFirst)'
	return f'(Some (OwnIs {cstr(spec[1])}))'


def part_propose(check, cps, hp, work):
	rng = check.rng
	count = 150 if check.tier == 'quick' else 3000
	cases = []
	for i in range(count + 2 * len(ENTRY_CASES)):
		root, filename = ENTRY_CASES[i % len(ENTRY_CASES)]
		ruleset = ruleset_of(cps, root)
		entry = cps.Entry(root, filename, ruleset)
		spec = own_spec(entry, entry.full_path())
		if i < count:
			pairs = entry_include_set(rng, root, filename)
		elif i < count + len(ENTRY_CASES):
			# every path shape with headers of the file's own directory spelled by their full path (what Entry.fix_relative is there for)
			own_dir = re.sub(r'^src/', '', root.replace('\\', '/')) + '/'
			stem = filename.rsplit('.', 1)[0]
			pairs = [(f'"{own_dir}Other.h"', ''), ('<memory>', ''), ('"catapult/types.h"', rng.choice(['', ' // note'])), (f'"{own_dir}{stem}Utils.h"', ''),
				(f'"{stem[:-5] if stem.endswith("Tests") else stem}.h"', ''), (f'"{own_dir}sub/Deep.h"', '')]
			pairs = rng.sample(pairs, rng.randrange(3, len(pairs) + 1))
		else:
			# every path shape with includes of several classes, two or more of them <...> classes
			pairs = [(inc, '') for inc in class_set(rng, rng.choice([2, 3, 4, 5]))]
		cases.append((root, filename, ruleset, entry, spec, pairs))
	exprs = []
	for root, filename, ruleset, entry, spec, pairs in cases:
		exprs.append(f'render_check_all {cstr(entry.include_fix_own_path)} {cpp_term(spec if not (spec and spec[0] == "crash") else None)} '
			f'{clist([inc for inc, _ in pairs])}')
		exprs.append(f'render_entry {cstr(entry.full_path())}')
	models = coq_eval(PRELUDE, exprs, 'c20prop', shard=100)
	for index, (root, filename, ruleset, entry, spec, pairs) in enumerate(cases):
		mod, mod_entry = models[2 * index], models[2 * index + 1]
		full_path = entry.full_path()
		out_entry = hex_str(entry.include_fix_own_path) + '|' + ('T' if full_path.endswith('.cpp') else 'F')
		check.case('entry-own-path', full_path, False)
		if out_entry != mod_entry:
			check.disagree('Propose.own_path_of-vs-Entry.__init__', {'path': full_path}, out_entry, mod_entry)
		out, _ = run_check_includes(cps, hp, root, filename, ruleset, pairs)
		includes = [inc for inc, _ in pairs]
		if spec and spec[0] == 'crash':
			check.case('check_includes:ruleset-raises', (full_path, tuple(includes)))
			continue
		if mod == 'unsupported-own-path':
			check.case('check_includes:own-path-outside-modelled-regex-subset', (full_path, tuple(includes)), False)
			continue
		check.case('check_includes:' + ('crash' if out.startswith('crash') else 'complaint' if out.endswith(('|TT', '|TF')) else 'quiet'),
			(full_path, tuple(includes)))
		if out != mod:
			check.disagree('Propose.check_includes-vs-Entry.check_includes', {'path': full_path, 'includes': includes}, out, mod)
		if index % max(1, count // 3) == 0:
			check.sample({'check_includes': {'path': full_path, 'includes': includes}, 'observed': out})
		if out.startswith('crash'):
			continue
		# oracle on a real file: written, read by the real reader, rewritten to the printed proposal, linted again
		for written in ([pairs] if len(pairs) < 2 else [pairs, rng.sample(pairs, len(pairs))]):
			text = file_with_includes(filename, written)
			linted = lint_includes_of_file(cps, hp, work, root, filename, ruleset, text)
			if isinstance(linted, str) or linted[1] != [pair for pair in written if not cps.is_special_include(pair[0])]:
				check.case('rewrite-file:not-read-as-written', (full_path, tuple(written)), False)
				continue
			check.case('rewrite-file:' + ('rewritten' if linted[2] else 'quiet'), (full_path, tuple(written)))
			problem = rewrite_problem(cps, hp, work, root, filename, ruleset, text)
			if problem:
				check.fail(f'{problem[0]}:{digest(full_path, written)}', f'{full_path} with the includes {[inc for inc, _ in written]}: {problem[1]}',
					{'kind': 'rewrite-file', 'root': root, 'filename': filename, 'content': text})
		# oracle: every written order of the same includes draws the same proposal; the proposal draws no complaint
		if len(pairs) > 5:
			continue
		proposals = set()
		for perm in itertools.permutations(pairs):
			other, objects = run_check_includes(cps, hp, root, filename, ruleset, list(perm))
			proposals.add(other.split('|')[0])
			if objects is not None and perm == tuple(pairs):
				rewritten = [(x.include, x.rest) for x in objects]
				again, _ = run_check_includes(cps, hp, root, filename, ruleset, rewritten)
				if '|' not in again or again.split('|')[1][0] != 'F':
					check.fail(f'proposal-still-complained:{digest(full_path, includes)}',
						f'{full_path}: includes rewritten in the proposed order {[x for x, _ in rewritten]} still draw an includesOrder complaint',
						{'kind': 'propose', 'root': root, 'filename': filename, 'pairs': pairs})
		if len(proposals) != 1:
			check.fail(f'proposal-depends-on-input:{digest(full_path, includes)}',
				f'{full_path}: the proposal for {includes} depends on the order in which they are written', {
					'kind': 'propose', 'root': root, 'filename': filename, 'pairs': pairs})


def include_entries(cps, hp, parser):
	return [e for e in parser.preprocessor if e.type == hp.PpType.INCLUDE]


def part_tree_files(check, cps, hp, work):
	"""Real files: include parsing, proposal on shuffled include lines, rewrite in the proposed order, re-lint."""
	rng = check.rng
	files, _ = tree()
	count = 40 if check.tier == 'quick' else 700
	chosen = sorted(rng.sample(files, min(count, len(files))))
	texts = {rel: (CLIENT / rel).read_text(encoding='utf8') for rel in chosen}
	parse_sample = [rel for rel in chosen if len(texts[rel]) < 20000 and texts[rel].isascii()][:10 if check.tier == 'quick' else 120]
	models = coq_eval(PRELUDE, [f'render_includes {cfile(texts[rel])}' for rel in parse_sample], 'c20inc', shard=4)
	for rel, mod in zip(parse_sample, models):
		path = work / 'parse.h'
		path.write_text(texts[rel], encoding='utf8', newline='')
		lines = texts[rel].split('\n')[:-1]
		by_line = {}
		try:
			parser, _ = parse_real(hp, path)
			by_line = {e.lineno: e for e in include_entries(cps, hp, parser)}
		except RuntimeError:
			pass
		out = ';'.join((hex_str(by_line[n].include) + '|' + hex_str(by_line[n].rest)) if n in by_line else 'none' for n in range(1, len(lines) + 1))
		check.case('parse-include-lines', rel)
		if out != mod:
			check.disagree('Indent.parse_include_line-vs-HeaderParser.parse_include', {'file': rel}, out[:300], mod[:300])

	cases = []
	for rel in chosen:
		root, filename = os.path.split(rel)
		ruleset = ruleset_of(cps, rel)
		if any(skip.match(rel) for skip in cps.SKIP_FILES):
			continue
		path = work / 'orig' / filename
		path.parent.mkdir(exist_ok=True)
		path.write_text(texts[rel], encoding='utf8', newline='')
		parser, _ = parse_real(hp, path)
		entries = [e for e in include_entries(cps, hp, parser) if not cps.is_special_include(e.include)]
		probe = cps.Entry(root, filename, ruleset)
		spec = own_spec(probe, probe.full_path())
		if len(entries) < 2 or (spec and spec[0] == 'crash'):
			continue
		cases.append((rel, root, filename, ruleset, entries))
	exprs = []
	shuffles = []
	for rel, root, filename, ruleset, entries in cases:
		entry = cps.Entry(root, filename, ruleset)
		spec = own_spec(entry, entry.full_path())
		order = list(range(len(entries)))
		rng.shuffle(order)
		shuffles.append(order)
		exprs.append(f'render_check_all {cstr(entry.include_fix_own_path)} {cpp_term(spec)} {clist([entries[i].include for i in order])}')
	models = coq_eval(PRELUDE, exprs, 'c20tree', shard=40)
	for (rel, root, filename, ruleset, entries), order, mod in zip(cases, shuffles, models):
		lines = texts[rel].split('\n')
		shuffled = list(lines)
		for slot, source in zip(entries, [entries[i] for i in order]):
			shuffled[slot.lineno - 1] = lines[source.lineno - 1]
		path = work / 'shuffled' / filename
		path.parent.mkdir(exist_ok=True)
		path.write_text('\n'.join(shuffled), encoding='utf8', newline='')
		parser, _ = parse_real(hp, path)
		collector = Collector()
		with quiet():
			cps.Entry(root, filename, ruleset).check_includes(collector, parser.preprocessor)
		complaint = collector.of('includesOrder')
		proposal = complaint[0].includes if complaint else None
		kept = [entries[i].include for i in order]
		out = hex_lines([x.include for x in proposal] if proposal else kept) + '|' + ('T' if complaint else 'F') + ('T' if collector.of('firstInclude') else 'F')
		check.case('tree-file-shuffled-includes:' + ('complaint' if complaint else 'quiet'), rel)
		if out != mod:
			check.disagree('Propose.check_includes-vs-Entry.check_includes(tree file)', {'file': rel, 'order': order}, out, mod)
		if not proposal:
			continue
		# rewrite in the proposed order and lint again
		rewritten = list(shuffled)
		for slot, new in zip(entries, proposal):
			rewritten[slot.lineno - 1] = str(new)
		path.write_text('\n'.join(rewritten), encoding='utf8', newline='')
		parser, _ = parse_real(hp, path)
		collector = Collector()
		with quiet():
			cps.Entry(root, filename, ruleset).check_includes(collector, parser.preprocessor)
		others_same = all(a == b for n, (a, b) in enumerate(zip(shuffled, rewritten), 1) if n not in {e.lineno for e in entries})
		if collector.of('includesOrder') or not others_same:
			check.fail(f'proposal-still-complained:{digest(rel, order)}',
				f'{rel}: after rewriting the includes in the proposed order the linter still complains about their order',
				{'kind': 'tree-file', 'file': rel, 'order': order})
		# the original order of the tree drew no complaint, so it must be what is proposed for any written order
		original = [e.include for e in entries]
		if [x.include for x in proposal] != original:
			quiet_collector = Collector()
			path.write_text(texts[rel], encoding='utf8', newline='')
			parser, _ = parse_real(hp, path)
			with quiet():
				cps.Entry(root, filename, ruleset).check_includes(quiet_collector, parser.preprocessor)
			if not quiet_collector.of('includesOrder'):
				check.fail(f'proposal-depends-on-input:{digest(rel, order)}',
					f'{rel}: the tree\'s order draws no complaint, yet a shuffled copy is told to use a different order',
					{'kind': 'tree-file', 'file': rel, 'order': order})


def part_indent(check, cps, hp, work):
	import validation  # pylint: disable=import-error,import-outside-toplevel
	validators = validation.create_validators()
	cases = file_cases(check.rng, check.tier)
	models = coq_eval(PRELUDE, [f'render_indent {cfile(text)}' for _, _, text in cases], 'c20fix', shard=4)
	crash_reported = False
	for (name, rel, text), mod in zip(cases, models):
		out, detail = impl_indent(hp, work, text)
		kind = 'fixer:' + ('crash' if out.startswith('crash') else 'changes' if out.split('|')[2] else 'nothing-to-change')
		check.case(kind, (name, digest(text)))
		if out != mod:
			check.disagree('Indent.fix_indents/report_indents-vs-HeaderParser (fold)', {'file': name, 'text': text if len(text) < 600 else digest(text)}, out[:400], mod[:400])
		if detail is None:
			continue
		fixed, again, _ = detail
		replay = {'kind': 'fix-indents', 'file': name, 'content': text,
			'command': 'write content to <dir>/x.h; HeaderParser.HeaderParser(reporter, "<dir>/x.h", validators, fix_indents_in_files=True) twice '
				'(what `checkProjectStructure.py --fix-indents` does per file); compare, list <dir>'}
		# oracle on the fold (visible whether or not the file path works)
		complaints_after = out.split('|')[3]
		problem = indent_oracle(text, fixed, again, complaints_after, [])
		if problem:
			stem, what = problem
			signature = KNOWN_DRIFT if stem == 'continuation-drift' else f'fix-indents-{stem}:{digest(text)}'
			check.fail(signature, f'{name}: {what}', replay)
		# the real path
		result = real_fix_case(cps, hp, validators, work, 'x.h' if rel is None else os.path.basename(rel), text)
		if result['outcome'] == 'crash:LexError' and 'inside lines)' in name:
			# the injected character landed where the linter's C++ lexer does not accept it: not a file of the kind the property ranges over
			check.case('fix-indents:injected-character-not-lexable', digest(text), False)
			continue
		if result['outcome'] != 'ok':
			unchanged = result['after'] == text
			check.fail(
				KNOWN_CRASH if result['outcome'] == 'crash:TypeError' else f'fix-indents-{result["outcome"]}:{digest(text)}',
				f'{name}: --fix-indents raises {result["outcome"][6:]} on a file with preprocessor lines; stray files {result["strays"]}; '
				f'file {"left as it was" if unchanged else "modified"}', replay)
			crash_reported = True
			continue
		if result['after'] != fixed:
			check.disagree('HeaderParser file path vs its own fix_indents fold', {'file': name}, digest(result['after']), digest(fixed))
		problem = indent_oracle(text, result['after'], result['second'], result['complaints_after'], result['strays'])
		if problem:
			stem, what = problem
			signature = KNOWN_DRIFT if stem == 'continuation-drift' else f'fix-indents-{stem}:{digest(text)}'
			check.fail(signature, f'{name}: {what}', replay)
	check.sample({'fix-indents': cases[0][2], 'observed': impl_indent(hp, work, cases[0][2])[0]})
	return crash_reported


def part_cli(check, work):
	"""The command line itself, as CI spells it plus --fix-indents, on a small scratch tree."""
	root = work / 'cli'
	(root / 'src' / 'catapult' / 'foo').mkdir(parents=True)
	header = (CLIENT / 'HEADER.inc').read_text(encoding='utf8') if (CLIENT / 'HEADER.inc').exists() else ''
	body = '#pragma once\n  #include <vector>\n\nnamespace catapult { namespace foo {\n\n#define FOO(x) \\\n\t\t\ta; \\\n\tb; \\\n\tc\n\n\tstruct A {};\n}}\n'
	target = root / 'src' / 'catapult' / 'foo' / 'A.h'
	target.write_text(header + body, encoding='utf8')
	status, out = run_cmd(
		['/usr/bin/python3', str(REPO / 'linters' / 'cpp' / 'checkProjectStructure.py'), '--text', '--fix-indents', '--dest-dir', '.', '--source-dir', 'src'],
		300, cwd=root, env=impl_env())
	strays = list_strays(target.parent, {'A.h'})
	after = target.read_text(encoding='utf8')
	check.case('cli --fix-indents', 'scratch tree')
	replay = {'kind': 'cli', 'content': header + body, 'command': 'cd <scratch>; python3 linters/cpp/checkProjectStructure.py --text --fix-indents --dest-dir . --source-dir src'}
	if 'Traceback' in out or strays:
		error = re.findall(r'^(\w+Error)\b', out, re.M)
		check.fail(KNOWN_CRASH if 'TypeError' in error else f'fix-indents-cli-crash:{error[-1] if error else status}',
			f'checkProjectStructure.py --fix-indents dies ({error[-1] if error else status}) on a tree with one mis-indented header; stray files {strays}', replay)
		return
	if '  #include <vector>' in after or '\t\t\ta; \\' in after:
		check.fail('fix-indents-cli-no-effect', 'checkProjectStructure.py --fix-indents left the mis-indented lines as they were', replay)
	status2, _ = run_cmd(
		['/usr/bin/python3', str(REPO / 'linters' / 'cpp' / 'checkProjectStructure.py'), '--text', '--fix-indents', '--dest-dir', '.', '--source-dir', 'src'],
		300, cwd=root, env=impl_env())
	second = target.read_text(encoding='utf8')
	if second != after:
		check.fail(KNOWN_DRIFT, 'checkProjectStructure.py --fix-indents changes the file again when run a second time', replay)
	check.extra['cli_exit_status'] = [status, status2]


OWN_KEYS = ('linters/cpp/checkProjectStructure.py', 'linters/cpp/HeaderParser.py', 'linters/cpp/exclusions.py')


def run(check, unrecognised):
	check.trusted += [
		'translators harness/gen.py + harness/gens/c20.py (IncludeOrderOps: operators/constants/returned booleans of 24 anchor functions, '
		'everything else pinned by skeleton; IncludeOrderTables: priority dicts, prefix list, SPECIAL_INCLUDES read with ast.literal_eval)',
		'modelled, not verified: CPython list.sort (as a stable insertion sort over __lt__), str.split/startswith/endswith/strip, re for the '
		'two fixed patterns and for patterns made of literals and `.`; text-mode universal newlines (files are LF, no CR)',
		'not modelled: Rules.py first_include_check / first_test_include_check (the harness asks the real ruleset for the own header and '
		'passes it to the model), the simple validators, Parser.py']
	check.assume += [
		'files are UTF-8 with LF line ends, no CR, and end in LF (every file of the tree does)',
		'fix_idempotent: no recorded preprocessor line ends in white space (forbidden by the linter\'s own white-space rule; the generated '
		'streams never add trailing blanks)',
		're `\\w` is exact for ASCII only (used for the unknown-directive crash, not for the fixer)']
	check.extra['rule'] = 'pairs/triples/sets drawn from the tree\'s distinct include strings and synthetic includes of every class; ' \
		'sets with one include of each of several comparator classes (every pair / triple of the six <...> classes: external with and ' \
		'without .h, boost-like with and without .h, system C / C++); Entry cases over 16 path shapes x random include sets, x sets spelling headers ' \
		'of the file\'s own directory by their full path, x class-stratified sets, each also as a real file that is rewritten to the printed ' \
		'proposal and linted again; tree files with shuffled include lines; tree files with mis-indented ' \
		'preprocessor lines + 13 synthetic files; distinct = distinct input, non-trivial = all but a==b pairs and own-path probes'
	own_unrecognised = list(unrecognised.get('IncludeOrderOps', []))
	own_unrecognised += [key for key, status in check.shape_report.items() if key.startswith(OWN_KEYS) and status != 'recognised' and key not in own_unrecognised]
	for key in own_unrecognised:
		check.notes.append(f'anchor not recognised, pinned values used: {key} ({check.shape_report.get(key)})')
		check.broken.append(f'shape:{key}')
	check.prove('C20.v')
	cps, hp = linter()
	_, tree_includes = tree()
	check.extra['tree'] = {'files': len(tree()[0]), 'distinct_includes': len(tree_includes), 'root': str(CLIENT)}
	work = scratch_dir('c20')
	try:
		part_comparator(check, cps, hp)
		part_sort(check, cps, hp)
		part_propose(check, cps, hp, work)
		part_tree_files(check, cps, hp, work)
		part_indent(check, cps, hp, work)
		part_cli(check, work)
	finally:
		shutil.rmtree(work, ignore_errors=True)


# ---------------------------------------------------------------------------------------------------------------------

def replay(data):
	info = data['replay']
	cps, hp = linter()
	kind = info.get('kind')
	if kind == 'swo':
		items = info['includes']
		matrix = [[py_lt(cps, hp, a, b) == 'T' for b in items] for a in items]
		for a, row in zip(items, matrix):
			print(f'{a!r}: less than {[b for b, flag in zip(items, row) if flag]}')
		problem = swo_problem(matrix, items)
		print('property:', f'{problem[0]} fails on {problem[1]}' if problem else 'holds')
		return 1 if problem else 0
	if kind == 'perm':
		orders = {tuple(x.include for x in sorted(make_sortable(cps, hp, i) for i in perm)) for perm in itertools.permutations(info['includes'])}
		print('orders:', orders)
		return 1 if len(orders) != 1 else 0
	if kind == 'propose':
		pairs = [tuple(p) for p in info['pairs']]
		ruleset = ruleset_of(cps, info['root'])
		proposals = {run_check_includes(cps, hp, info['root'], info['filename'], ruleset, list(perm))[0].split('|')[0] for perm in itertools.permutations(pairs)}
		out, objects = run_check_includes(cps, hp, info['root'], info['filename'], ruleset, pairs)
		print('observed:', out)
		bad = len(proposals) != 1
		if objects is not None:
			again, _ = run_check_includes(cps, hp, info['root'], info['filename'], ruleset, [(x.include, x.rest) for x in objects])
			print('after rewriting in the proposed order:', again)
			bad = bad or again.split('|')[1][0] != 'F'
		print('property:', 'fails' if bad else 'holds')
		return 1 if bad else 0
	if kind == 'rewrite-file':
		work = scratch_dir('c20-replay')
		try:
			ruleset = ruleset_of(cps, info['root'])
			print('file', os.path.join(info['root'], info['filename']) + ':')
			print(info['content'])
			linted = lint_includes_of_file(cps, hp, work, info['root'], info['filename'], ruleset, info['content'])
			print('proposed:', linted if isinstance(linted, str) else linted[2])
			problem = rewrite_problem(cps, hp, work, info['root'], info['filename'], ruleset, info['content'])
			print('property:', f'fails ({problem[0]}): {problem[1]}' if problem else 'holds')
			return 1 if problem else 0
		finally:
			shutil.rmtree(work, ignore_errors=True)
	if kind in ('fix-indents', 'cli'):
		import validation  # pylint: disable=import-error,import-outside-toplevel
		work = scratch_dir('c20-replay')
		try:
			text = info['content']
			result = real_fix_case(cps, hp, validation.create_validators(), work, 'x.h', text)
			print('outcome:', result['outcome'], 'stray files:', result['strays'])
			if result['outcome'] != 'ok':
				print('property: fails (the fix option crashes' + (', leaving ' + str(result['strays']) if result['strays'] else '') + ')')
				out, detail = impl_indent(hp, work, text)
				if detail is not None:
					problem = indent_oracle(text, detail[0], detail[1], out.split('|')[3], [])
					print('line rewriting of fix_indents alone (output stream accepting what it writes):', problem[1] if problem else 'as the property demands')
				return 1
			problem = indent_oracle(text, result['after'], result['second'], result['complaints_after'], result['strays'])
			print('property:', problem[1] if problem else 'holds')
			return 1 if problem else 0
		finally:
			shutil.rmtree(work, ignore_errors=True)
	if kind == 'tree-file':
		print('re-run the check; the case is', info)
		return 1
	raise ValueError(kind)
