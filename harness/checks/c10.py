"""C10: a transaction built from a descriptor carries exactly the described values.

Descriptor nodes (JSON-able, so that every case is a replay):
  {'i': int} | {'s': str} | {'b': hex} | {'l': [node...]} | {'d': [[key, node]...]} |
  {'o': [kind, class, payload]}  kind 'sdk' (CryptoTypes.* / <network>.Address) or 'codec' (class of sc / nc);
                                 payload {'b': hex} | {'i': int} | {'t': tree-json} (struct object given by its member tree)
"""
import base64
import hashlib
import json
import subprocess
import sys

from .. import codec
from ..common import VERIF, coq_eval, impl_env, slit

MANIFEST = {
	'text': 'Theorems (Props/C10.v) over Sym/Descriptor.v, a Gallina model of TransactionDescriptorProcessor, RuleBasedTransactionFactory and both '
		'TransactionFactory.create / create_embedded whose rule table, TYPE_HINTS, create_by_name mappings, key names, hint prefixes and the '
		'`_computed` suffix are regenerated from /repo on every run and whose object layer is the layout interpreter of C01: created objects hold '
		'the coerced values and constructor defaults (partial: stated before autosort / id filling, which are covered by their own theorems), '
		'bad descriptors (unknown type, non-member or computed key, unknown enum / flag name, out-of-range number, bad hex) never yield an object, '
		'encoding composes with the codec round trip (stated with the layout round trip as a named premise), autosorted keyed arrays are strictly '
		'ordered, namespace / mosaic ids equal their hash definitions. Reflection-based rule discovery (dir(module), inspect) is represented by the '
		'regenerated tables, not modelled. Tie: every transaction type name of both networks x both entry points x autosort on/off x schema-directed '
		'descriptors in every documented form and error injections, model vs implementation (member tree, serialize) and a property oracle on the '
		'implementation alone (independent coercion, re-decode through TransactionFactory.deserialize, to_json). Nested descriptors: a recursive specification of what each rule makes of a descriptor tree, proved equal to what parse/create_core build; error propagation from any depth; fuel sufficiency; autosort at every depth sort() visits (Sym/DescriptorNestedProofs.v, DescriptorSortProofs.v, DescriptorCreateProofs.v).  History probe: sequences of descriptors through one factory against a factory that built nothing before (the model is a function of one descriptor; that the code is too is checked).',
	'design_ref': 'DESIGN.md section 4, C10',
	'technique': 'Coq proof, partial (regenerated rule tables + schema interpreter) + vm_compute differential against the Python SDK + property oracle',
}

PRELUDE = 'From Symv Require Import Sym.Descriptor.\nOpen Scope string_scope.\n'

# documented forms by member type (README, examples/descriptors): hex strings for keys and hashes, base32 strings for addresses
HEX_TYPES = {'PublicKey': 'PublicKey', 'VotingPublicKey': 'PublicKey', 'Hash256': 'Hash256'}      # member type -> CryptoTypes class
ADDRESS_TYPES = ('Address', 'UnresolvedAddress')
SKIP_TOP = ('type', 'version', 'network')      # class constants / the facade's network: a conflicting value is outside the quantifier
NON_MEMBER_KEYS = ['TYPE_HINTS', 'TRANSACTION_VERSION', 'TRANSACTION_TYPE', 'serialize', 'deserialize', 'to_json', 'size', 'sort', '__str__']
IDENTIFIERS = {'testnet': 0x98, 'mainnet': 0x68}


class Unexpected(Exception):
	pass


# ---------------------------------------------------------------------------------------------------------------------
# trees <-> json, objects -> trees

def tree_to_json(tree):
	if tree is None or isinstance(tree, int):
		return tree
	if isinstance(tree, (bytes, bytearray)):
		return {'b': bytes(tree).hex()}
	if isinstance(tree, list):
		return [tree_to_json(item) for item in tree]
	return {'S': tree[1], 'm': [[name, tree_to_json(value)] for name, value in tree[2]]}


def tree_from_json(data):
	if data is None or isinstance(data, int):
		return data
	if isinstance(data, list):
		return [tree_from_json(item) for item in data]
	if 'b' in data:
		return bytes.fromhex(data['b'])
	return ('S', data['S'], [(name, tree_from_json(value)) for name, value in data['m']])


def tree_of(net, obj):
	"""Member tree of whatever the implementation produced (total: ill-typed contents are shown, not hidden)."""
	if obj is None:
		return None
	if isinstance(obj, bool):
		return int(obj)
	if isinstance(obj, int):
		return obj
	if isinstance(obj, str):
		return ('S', 'str', [('utf8', obj.encode('utf8'))])
	if isinstance(obj, (bytes, bytearray, memoryview)):
		return bytes(obj)
	if isinstance(obj, (list, tuple)):
		return [tree_of(net, item) for item in obj]
	if isinstance(obj, dict):
		return ('S', 'dict', [])
	cls_name = type(obj).__name__
	model = net.by_name.get(cls_name)
	if model is not None and codec.kind(model) == 'Struct' and type(obj).__module__ == net.module.__name__:
		members = []
		for field in codec.settable_fields(model):
			members.append((field.name, tree_of(net, getattr(obj, '_' + codec.fix_name(field.name), None))))
		return ('S', cls_name, members)
	if hasattr(obj, 'bytes'):
		return bytes(obj.bytes)
	if hasattr(obj, 'value'):
		return obj.value
	return ('S', 'object', [])


# ---------------------------------------------------------------------------------------------------------------------
# per-network context

class Ctx:
	def __init__(self, netname, network_name):
		self.netname = netname
		self.network_name = network_name
		self.identifier = IDENTIFIERS[network_name]
		self.net = codec.load_net(netname)
		self.module = self.net.module
		self.coq_cfg = 'sc_cfg' if netname == 'symbol' else 'nc_cfg'
		self.via_facade = True
		try:
			if netname == 'symbol':
				from symbolchain.facade.SymbolFacade import SymbolFacade as Facade
			else:
				from symbolchain.facade.NemFacade import NemFacade as Facade
			facade = Facade(network_name)
			self.factory = facade.transaction_factory
			self.address_class = Facade.Address
		except ImportError:
			# baseline interpreter (no `cryptography`): what the facade does, without the facade
			self.via_facade = False
			if netname == 'symbol':
				from symbolchain.symbol.Network import Address, Network
				from symbolchain.symbol.TransactionFactory import TransactionFactory
			else:
				from symbolchain.nem.Network import Address, Network
				from symbolchain.nem.TransactionFactory import TransactionFactory
			network = next(n for n in Network.NETWORKS if n.name == network_name)
			self.factory = TransactionFactory(network)
			self.address_class = Address
		self.rule_names = set(self.factory.factory.rules.keys())      # used by the GENERATOR only (which structs / arrays take nested forms)
		self.entries = self.entry_points()

	def entry_points(self):
		"""{entry: {type name: class name}} by reflection on the generated factories' create_by_name (every known name is enumerated
		by probing the ValueError-free names of the mapping literal through the class' source-independent behaviour)."""
		import inspect
		import re
		entries = {}
		names = ['TransactionFactory', 'EmbeddedTransactionFactory'] if self.netname == 'symbol' else ['TransactionFactory']
		for factory_name in names:
			factory = getattr(self.module, factory_name)
			mapping = {}
			for candidate in re.findall(r"'([a-z0-9_]+)'\s*:", inspect.getsource(factory.create_by_name)):
				try:
					mapping[candidate] = type(factory.create_by_name(candidate)).__name__
				except ValueError:
					pass
			entries['embedded' if factory_name.startswith('Embedded') else 'top'] = mapping
		return entries

	def create(self, entry):
		return self.factory.create_embedded if entry == 'embedded' else self.factory.create

	def deserialize(self, entry):
		return self.factory.deserialize_embedded if entry == 'embedded' else self.factory.deserialize

	def new(self, cls_name):
		return getattr(self.module, cls_name)()


_CTX = {}


def ctx_of(netname, network_name):
	key = (netname, network_name)
	if key not in _CTX:
		_CTX[key] = Ctx(netname, network_name)
	return _CTX[key]


# ---------------------------------------------------------------------------------------------------------------------
# descriptor nodes -> python / Gallina

def to_python(ctx, node):
	if 'i' in node:
		return node['i']
	if 's' in node:
		return node['s']
	if 'b' in node:
		return bytes.fromhex(node['b'])
	if 'l' in node:
		return [to_python(ctx, item) for item in node['l']]
	if 'd' in node:
		return {key: to_python(ctx, value) for key, value in node['d']}
	kind, cls, payload = node['o']
	if kind == 'sdk':
		if cls == 'Address':
			return ctx.address_class(bytes.fromhex(payload['b']))
		from symbolchain import CryptoTypes
		return getattr(CryptoTypes, cls)(bytes.fromhex(payload['b']))
	if 'b' in payload:
		return getattr(ctx.module, cls)(bytes.fromhex(payload['b']))
	if 'i' in payload:
		return getattr(ctx.module, cls)(payload['i'])
	return codec.to_object(ctx.net, cls, tree_from_json(payload['t']))


def coq_bytes(data):
	return '[' + '; '.join(str(b) for b in data) + ']'


def to_coq(node):
	if 'i' in node:
		return f'(DInt ({node["i"]}))'
	if 's' in node:
		return f'(DStr {coq_bytes(node["s"].encode("utf8"))})'
	if 'b' in node:
		return f'(DBytes {coq_bytes(bytes.fromhex(node["b"]))})'
	if 'l' in node:
		return '(DList [' + '; '.join(to_coq(item) for item in node['l']) + '])'
	if 'd' in node:
		return '(DDict [' + '; '.join(f'({slit(key)}, {to_coq(value)})' for key, value in node['d']) + '])'
	kind, cls, payload = node['o']
	if 'b' in payload:
		value = f'(VBytes {coq_bytes(bytes.fromhex(payload["b"]))})'
	elif 'i' in payload:
		value = f'(VInt ({payload["i"]}))'
	else:
		value = codec.coq_value(tree_from_json(payload['t']))
	return f'(DObj {"OSdk" if kind == "sdk" else "OCodec"} {slit(cls)} {value})'


def model_expr(case):
	ctx_cfg = 'sc_cfg' if case['net'] == 'symbol' else 'nc_cfg'
	pairs = '; '.join(f'({slit(key)}, {to_coq(value)})' for key, value in case['desc'])
	return f'case_create {ctx_cfg} {"true" if case["entry"] == "embedded" else "false"} {"true" if case["autosort"] else "false"} ' \
		f'{IDENTIFIERS[case["network"]]} [{pairs}]'


# ---------------------------------------------------------------------------------------------------------------------
# implementation side

def fmt_exception(ex):
	return 'reject' if isinstance(ex, ValueError) else f'crash:{type(ex).__name__}'


def impl(case, ctx=None):
	"""Returns the canonical text `ok:<tree>|<serialize outcome>` / reject / crash:<kind>, plus the live object (or None)."""
	ctx = ctx or ctx_of(case['net'], case['network'])
	try:
		descriptor = {key: to_python(ctx, value) for key, value in case['desc']}
	except Exception as ex:  # pylint: disable=broad-except
		return f'harness:{type(ex).__name__}:{ex}', None
	try:
		transaction = ctx.create(case['entry'])(descriptor, autosort=case['autosort'])
	except RecursionError:
		raise
	except Exception as ex:  # pylint: disable=broad-except
		return fmt_exception(ex), None
	tree = tree_of(ctx.net, transaction)
	try:
		encoded = 'ok:' + bytes(transaction.serialize()).hex()
	except RecursionError:
		raise
	except Exception as ex:  # pylint: disable=broad-except
		encoded = fmt_exception(ex)
	return 'ok:' + codec.render(tree) + '|' + encoded, transaction


def coarse(text):
	return '|'.join('crash' if part.startswith('crash:') else part for part in text.split('|'))


# ---------------------------------------------------------------------------------------------------------------------
# P: independent coercion of a descriptor (from the documentation), defaults from the constructor

def b32_text(netname, raw):
	if netname == 'symbol':
		return base64.b32encode(raw + bytes(1)).decode('ascii')[:-1]
	return base64.b32encode(raw).decode('ascii')


def b32_raw(netname, text):
	return base64.b32decode(text + 'A')[:-1] if netname == 'symbol' else base64.b32decode(text)


def expect_named(ctx, type_name, node):
	model = ctx.net.by_name[type_name]
	model_kind = codec.kind(model)
	if 'o' in node:
		kind, _cls, payload = node['o']
		if 't' in payload:
			return tree_from_json(payload['t'])
		if 'i' in payload:
			return payload['i']
		raw = bytes.fromhex(payload['b'])
		if kind == 'sdk' and type_name in ADDRESS_TYPES and ctx.netname == 'nem':
			return b32_text('nem', raw).encode('ascii')      # NEM stores the encoded form
		return raw
	if model_kind == 'Alias':
		if codec.kind(model.linked_type) == 'FixedSizeInteger':
			return node['i']
		if type_name in ADDRESS_TYPES:
			raw = b32_raw(ctx.netname, node['s']) if 's' in node else bytes.fromhex(node['b'])
			return b32_text('nem', raw).encode('ascii') if ctx.netname == 'nem' else raw
		return bytes.fromhex(node['s']) if 's' in node else bytes.fromhex(node['b'])
	if model_kind == 'Enum':
		if 'i' in node:
			return node['i']
		by_name = {v.name.lower(): v.value for v in model.values}
		if model.is_bitwise:
			by_name['none'] = 0
			result = 0
			for name in node['s'].split(' '):
				result |= by_name[name]
			return result
		return by_name[node['s']]
	if model_kind == 'Struct':
		return expect_struct(ctx, type_name, node['d'], top=False)
	raise Unexpected(model_kind)


def expect_member(ctx, field, node):
	field_type = field.field_type
	field_kind = codec.kind(field_type)
	if field_kind == 'FixedSizeInteger':
		return node['i']
	if field_kind == 'Array':
		if codec.is_byte_array(field):
			return node['s'].encode('utf8') if 's' in node else bytes.fromhex(node['b'])
		return [expect_named(ctx, field_type.element_type, item) for item in node['l']]
	return expect_named(ctx, field_type, node)


def expect_struct(ctx, cls_name, pairs, top):
	model = ctx.net.by_name[cls_name]
	defaults = tree_of(ctx.net, ctx.new(cls_name))
	members = dict(defaults[2])
	fields = {codec.fix_name(f.name): f for f in codec.settable_fields(model)}
	for key, node in pairs:
		if top and key == 'type':
			continue
		field = fields[key]
		value = expect_member(ctx, field, node)
		if isinstance(value, list):
			members[field.name] = list(members[field.name]) + value
		else:
			members[field.name] = value
	return ('S', cls_name, [(name, members[name]) for name, _ in defaults[2]])


def keyed_fields(ctx, cls_name):
	model = ctx.net.by_name[cls_name]
	return [f for f in codec.settable_fields(model) if codec.is_array(f) and not codec.is_byte_array(f) and f.field_type.sort_key]


def expect_sorted(ctx, tree):
	"""What sort() is documented to do: keyed arrays of the object and of its struct-typed members in ascending key order (stable)."""
	if not isinstance(tree, tuple) or tree[1] not in ctx.net.by_name:
		return tree
	model = ctx.net.by_name[tree[1]]
	by_name = {f.name: f for f in codec.settable_fields(model)}
	members = []
	for name, value in tree[2]:
		field = by_name[name]
		if value is not None and codec.is_array(field) and not codec.is_byte_array(field) and field.field_type.sort_key:
			value = sorted(value, key=lambda e, ft=field.field_type: codec.sort_key_of(ctx.net, ft, e))
		elif isinstance(value, tuple):
			value = expect_sorted(ctx, value)
		members.append((name, value))
	return ('S', tree[1], members)


def strictly_sorted(ctx, tree):
	"""True iff every keyed array reachable through struct-typed members (not through array elements... and those too, since
	serialization checks every array it writes) is strictly ascending."""
	if isinstance(tree, list):
		return all(strictly_sorted(ctx, item) for item in tree)
	if not isinstance(tree, tuple) or tree[1] not in ctx.net.by_name:
		return True
	model = ctx.net.by_name[tree[1]]
	by_name = {f.name: f for f in codec.settable_fields(model)}
	for name, value in tree[2]:
		field = by_name[name]
		if value is not None and codec.is_array(field) and not codec.is_byte_array(field) and field.field_type.sort_key:
			keys = [codec.sort_key_of(ctx.net, field.field_type, e) for e in value]
			if any(a >= b for a, b in zip(keys, keys[1:])):
				return False
		if not strictly_sorted(ctx, value):
			return False
	return True


def drop_absent(ctx, tree):
	"""Conditional members whose (enum) condition is false are not part of the value: the constructor default a created object still
	carries there and the None of a decoded object both mean `absent`."""
	if isinstance(tree, list):
		return [drop_absent(ctx, item) for item in tree]
	if not isinstance(tree, tuple) or tree[1] not in ctx.net.by_name:
		return tree
	model = ctx.net.by_name[tree[1]]
	members = dict(tree[2])
	by_name = {f.name: f for f in codec.non_const(model)}
	result = []
	for name, value in tree[2]:
		field = by_name[name]
		if field.is_conditional and isinstance(field.field_type, str):
			conditional = field.value
			condition_field = by_name[conditional.linked_field_name]
			condition_model = ctx.net.by_name.get(condition_field.field_type) if isinstance(condition_field.field_type, str) else None
			if condition_model is not None and codec.kind(condition_model) == 'Enum' and condition_field.name in members:
				wanted = next(v.value for v in condition_model.values if v.name == conditional.value)
				holds = (wanted == members[condition_field.name]) if conditional.operation == 'equals' else (wanted != members[condition_field.name])
				if not holds:
					value = None
		result.append((name, drop_absent(ctx, value)))
	return ('S', tree[1], result)


def sha3(data):
	return hashlib.sha3_256(data).digest()


def expect_ids(ctx, tree):
	"""Symbol: namespace registration / mosaic definition ids are filled in from name + parent / signer + nonce."""
	if ctx.netname != 'symbol':
		return tree
	members = dict(tree[2])
	types = {v.name: v.value for v in ctx.net.by_name['TransactionType'].values}
	if members.get('type') == types['NAMESPACE_REGISTRATION']:
		child = next(v.value for v in ctx.net.by_name['NamespaceRegistrationType'].values if v.name == 'CHILD')
		parent = members['parent_id'] if members['registration_type'] == child else 0
		members['id'] = int.from_bytes(sha3(parent.to_bytes(8, 'little') + members['name'])[:8], 'little') | (1 << 63)
	elif members.get('type') == types['MOSAIC_DEFINITION']:
		part = hashlib.new('ripemd160', sha3(members['signer_public_key'])).digest()
		version = bytes([ctx.identifier]) + part
		address = version + sha3(version)[:3]
		members['id'] = int.from_bytes(sha3(members['nonce'].to_bytes(4, 'little') + address)[:8], 'little') & ((1 << 63) - 1)
	else:
		return tree
	return ('S', tree[1], [(name, members[name]) for name, _ in tree[2]])


def const_of(ctx, cls_name, suffix):
	model = ctx.net.by_name[cls_name]
	for field in model.fields:
		if field.is_const and field.name.lower().endswith(suffix):
			value = field.value
			if isinstance(value, str):
				value = next(v.value for v in ctx.net.by_name[field.field_type].values if v.name == value)
			return value
	return None


def snake_case(name):
	"""TransferTransactionV1 -> transfer_transaction_v1 (the documented descriptor names are the class names in snake case)."""
	out = ''
	for index, char in enumerate(name):
		if char.isupper() and index and not (name[index - 1].isupper()):
			out += '_'
		out += char.lower()
	return out


def oracle_valid(case, text, transaction):
	"""Property on the implementation alone for a descriptor in documented forms. Returns a list of (signature kind, message)."""
	ctx = ctx_of(case['net'], case['network'])
	problems = []
	if not text.startswith('ok:'):
		return [('valid-descriptor-refused', f'a descriptor in documented forms is refused: {text}')]
	cls_name = ctx.entries[case['entry']][dict(case['desc'])['type']['s']]
	actual = tree_of(ctx.net, transaction)
	if actual[1] != cls_name:
		problems.append(('wrong-class', f'created {actual[1]}, expected {cls_name}'))
		return problems
	type_name = dict(case['desc'])['type']['s']
	if snake_case(cls_name[len('Embedded'):] if cls_name.startswith('Embedded') else cls_name) != type_name:
		problems.append(('type-name-class-mismatch', f'type name {type_name!r} creates an object of class {cls_name}'))
	try:
		expected = expect_struct(ctx, cls_name, case['desc'], top=True)
	except Exception as ex:  # pylint: disable=broad-except
		return [('oracle-error', f'{type(ex).__name__}: {ex}')]
	members = dict(expected[2])
	members['network'] = ctx.identifier
	expected = ('S', cls_name, [(name, members[name]) for name, _ in expected[2]])
	if case['autosort']:
		expected = expect_sorted(ctx, expected)
	expected = expect_ids(ctx, expected)
	if actual != expected:
		differing = [name for (name, a), (_, b) in zip(actual[2], expected[2]) if a != b]
		problems.append((f'member-differs:{differing[0] if differing else "?"}',
			f'created members {differing} differ from the described values: got {codec.render(actual)[:400]}, expected {codec.render(expected)[:400]}'))
	actual_members = dict(actual[2])
	if actual_members.get('type') != const_of(ctx, cls_name, 'type') or actual_members.get('version') != const_of(ctx, cls_name, 'version'):
		problems.append(('constants', f'type/version {actual_members.get("type")}/{actual_members.get("version")} are not the class constants'))
	if actual_members.get('network') != ctx.identifier:
		problems.append(('network', f'network {actual_members.get("network")} is not the facade identifier {ctx.identifier}'))
	encoded = text.split('|')[-1]
	if problems:
		return problems
	try:
		canonical = strictly_sorted(ctx, actual)
	except Exception as ex:  # pylint: disable=broad-except
		return [('created-object-ill-typed', f'the created object cannot be inspected ({type(ex).__name__}: {ex})')]
	if not canonical:
		if encoded.startswith('ok:'):
			problems.append(('unordered-array-encoded', 'a keyed array that is not strictly ascending was serialized'))
		return problems
	if not encoded.startswith('ok:'):
		problems.append(('created-object-does-not-encode', f'serialize() of the created transaction fails: {encoded}'))
		return problems
	payload = bytes.fromhex(encoded[3:])
	try:
		decoded = ctx.deserialize(case['entry'])(payload)
		decoded_tree = tree_of(ctx.net, decoded)
		if drop_absent(ctx, decoded_tree) != drop_absent(ctx, actual):
			problems.append(('decode-differs', f'deserialize(serialize(tx)) differs: {codec.render(decoded_tree)[:300]}'))
		elif json.dumps(decoded.to_json(), sort_keys=True, default=str) != json.dumps(transaction.to_json(), sort_keys=True, default=str):
			problems.append(('json-differs', 'to_json of the created and of the re-decoded transaction differ'))
		elif bytes(decoded.serialize()) != payload or transaction.size != len(payload):
			problems.append(('reencode-differs', 'size or re-encoding differs from the serialized bytes'))
	except Exception as ex:  # pylint: disable=broad-except
		problems.append(('decode-fails', f'deserialize(serialize(tx)) raises {type(ex).__name__}: {ex}'))
	return problems


def oracle_injection(case, text):
	"""An injected error must surface as an error (at creation, or -- for plain integer members -- at serialization at the latest);
	it must never be ignored or truncated into a transaction that encodes."""
	inject = case['inject']
	if not text.startswith('ok:'):
		return []
	encoded = text.split('|')[-1]
	if inject['late_ok'] and not encoded.startswith('ok:'):
		return []
	key = inject.get('key', '')
	if inject['kind'] == 'non-member':
		return [(f'copy-to-accepts-non-member:{key}', f'descriptor key {key!r} is not a member of the transaction but is accepted '
			f'({"and the transaction still encodes" if encoded.startswith("ok:") else "and serialize() later dies with " + encoded})')]
	if inject['kind'] == 'flags-negative':
		return [(f'flags-negative-int-accepted:{inject["cls"]}', f'{inject["what"]} is accepted and silently reinterpreted')]
	return [(f'{inject["kind"]}-accepted:{key}', f'{inject["what"]} is not rejected: {text[:200]}')]


# ---------------------------------------------------------------------------------------------------------------------
# descriptor generation (schema directed)

def rb(rng, n):
	return bytes(rng.randrange(256) for _ in range(n))


class DescriptorGen:
	def __init__(self, ctx, rng):
		self.ctx = ctx
		self.rng = rng
		self.values = codec.Generator(ctx.net, rng, max_array=2)
		self.forms = {}

	def note(self, form):
		self.forms[form] = self.forms.get(form, 0) + 1

	def int_value(self, size, unsigned=True):
		return codec.gen_int(self.rng, size, unsigned)

	def named(self, type_name, path, in_message=False):
		ctx, rng = self.ctx, self.rng
		model = ctx.net.by_name[type_name]
		model_kind = codec.kind(model)
		if model_kind == 'Alias':
			if codec.kind(model.linked_type) == 'FixedSizeInteger':
				value = self.int_value(model.size)
				if rng.randrange(4) == 0:
					self.note('pod-int:object')
					return {'o': ['codec', type_name, {'i': value}]}
				self.note('pod-int:int')
				return {'i': value}
			if type_name in ADDRESS_TYPES:
				raw_size = 24 if ctx.netname == 'symbol' else 25
				raw = rb(rng, raw_size)
				form = rng.randrange(4)
				if form == 0:
					self.note('address:bytes')
					return {'b': raw.hex()}
				if form == 1:
					self.note('address:object')
					return {'o': ['sdk', 'Address', {'b': raw.hex()}]}
				self.note('address:base32')
				return {'s': b32_text(ctx.netname, raw)}
			raw = rb(rng, model.size)
			if type_name in HEX_TYPES:
				form = rng.randrange(5)
				if form == 0:
					self.note('bytes-pod:bytes')
					return {'b': raw.hex()}
				if form == 1:
					self.note('bytes-pod:object')
					return {'o': ['sdk', HEX_TYPES[type_name], {'b': raw.hex()}]}
				if form == 2:
					self.note('bytes-pod:hex-lower')
					return {'s': raw.hex()}
				self.note('bytes-pod:hex-upper')
				return {'s': raw.hex().upper()}
			# byte pods without a documented text form (signatures, ...): SDK value objects only
			if type_name == 'Signature' and rng.randrange(2):
				self.note('bytes-pod-untyped:sdk-object')
				return {'o': ['sdk', 'Signature', {'b': raw.hex()}]}
			self.note('bytes-pod-untyped:codec-object')
			return {'o': ['codec', type_name, {'b': raw.hex()}]}
		if model_kind == 'Enum':
			values = [v for v in model.values]
			if model.is_bitwise:
				singles = [v for v in values if v.value and not v.value & (v.value - 1)]
				chosen = rng.sample(singles, rng.randrange(0, min(3, len(singles)) + 1))
				combined = 0
				for v in chosen:
					combined |= v.value
				form = rng.randrange(4)
				if form == 0:
					self.note('flags:int')
					return {'i': combined, 'flags_int': True}
				if form == 1:
					self.note('flags:object')
					return {'o': ['codec', type_name, {'i': combined}]}
				if not chosen:
					self.note('flags:none')
					return {'s': 'none'}
				names = [v.name.lower() for v in chosen]
				if rng.randrange(4) == 0:
					names.insert(rng.randrange(len(names) + 1), 'none')
				if rng.randrange(3) == 0:
					# a name given twice is still that one flag (the value is the union of the named flags)
					names.insert(rng.randrange(len(names) + 1), rng.choice([v.name.lower() for v in chosen]))
					self.note('flags:repeated-name')
				self.note('flags:names')
				return {'s': ' '.join(names)}
			chosen = rng.choice(values)
			form = rng.randrange(4)
			if form == 0:
				self.note('enum:int')
				return {'i': chosen.value}
			if form == 1:
				self.note('enum:object')
				return {'o': ['codec', type_name, {'i': chosen.value}]}
			self.note('enum:name')
			return {'s': chosen.name.lower()}
		if model_kind == 'Struct':
			if f'struct:{type_name}' in ctx.rule_names:
				# a struct with a parsing rule takes nested dictionaries ONLY (the rule calls .keys() on the value)
				self.note('struct:dict')
				return {'d': self.struct_pairs(model, path, top=False, in_message=(type_name == 'Message' and in_message))}
			self.note('struct:object')
			tree = self.values.named(type_name, 1)
			return {'o': ['codec', tree[1], {'t': tree_to_json(tree)}]}
		raise Unexpected(model_kind)

	def member(self, model, field, path, top, in_message=False):
		rng = self.rng
		field_type = field.field_type
		field_kind = codec.kind(field_type)
		if field_kind == 'FixedSizeInteger':
			self.note('int')
			return {'i': self.int_value(field_type.size, field_type.is_unsigned)}
		if field_kind == 'Array':
			if codec.is_byte_array(field):
				length = field_type.size if isinstance(field_type.size, int) and not field_type.is_expandable else rng.choice([0, 1, 2, 5, 17])
				if self.ctx.netname == 'symbol' and field.name == 'name':
					# namespace names are text: the id generation decodes them as UTF-8
					text = ''.join(rng.choice('abcxyz019_-') for _ in range(rng.choice([1, 2, 5, 12])))
					self.note('bytes:name')
					return {'s': text} if rng.randrange(2) else {'b': text.encode('ascii').hex()}
				if (top or in_message) and rng.randrange(2) and not isinstance(field_type.size, int):
					text = ''.join(rng.choice(['a', 'Z', '0', ' ', '_', 'é', 'ж', '€', '\U0001F600', '%']) for _ in range(rng.choice([0, 1, 3, 9])))
					self.note('bytes:str')
					return {'s': text}
				self.note('bytes:bytes')
				return {'b': rb(rng, length).hex()}
			element_type = field_type.element_type
			length = field_type.size if isinstance(field_type.size, int) and not field_type.is_expandable else rng.choice([0, 0, 1, 2, 3])
			if field_type.sort_key and rng.randrange(2):
				length = rng.choice([2, 3, 4])
			self.note(f'array:len{min(length, 3)}')
			if f'array[{element_type}]' in self.ctx.rule_names:
				items = [self.named(element_type, path + [field.name]) for _ in range(length)]
				if field_type.sort_key and len(items) >= 2 and rng.randrange(8) == 0:
					items[-1] = items[0]      # equal keys: not encodable whatever autosort does
					self.note('array:duplicate-key')
				return {'l': items}
			items = []
			for _ in range(min(length, 2)):
				tree = self.values.named(element_type, 1)
				items.append({'o': ['codec', tree[1], {'t': tree_to_json(tree)}]})
			self.note('array:objects')
			return {'l': items}
		return self.named(field_type, path + [field.name], in_message=in_message)

	def struct_pairs(self, model, path, top, in_message=False):
		"""Chooses which members are described and in which form; conditional members stay consistent with their (enum) condition."""
		rng = self.rng
		fields = codec.settable_fields(model)
		density = rng.choice([0.0, 0.3, 0.6, 0.6, 1.0])
		chosen = {}
		nem_transfer = self.ctx.netname == 'nem' and 'TransferTransaction' in model.name
		for field in fields:
			if field.is_conditional:
				continue
			if field.name in SKIP_TOP and (top or model.factory_type or any(f.name == 'network' for f in fields)):
				if field.name == 'network' and top and rng.randrange(4) == 0:
					# the descriptor names a network itself (equal to or different from the facade's): the created transaction still holds the
					# facade's network identifier
					chosen[field.name] = self.member(model, field, path, top)
					self.note('network:given-in-descriptor')
				continue
			target = self.ctx.net.by_name.get(field.field_type) if isinstance(field.field_type, str) else None
			# a member of abstract struct type has no usable default (the constructor puts an instance of the abstract base class there,
			# which encodes but cannot be decoded): it is always described
			needs_value = target is not None and codec.kind(target) == 'Struct' and target.is_abstract
			if needs_value or rng.random() < density:
				chosen[field.name] = self.member(model, field, path, top, in_message=(nem_transfer and field.name == 'message') or in_message)
		by_name = {f.name: f for f in codec.non_const(model)}
		defaults = dict(tree_of(self.ctx.net, self.ctx.new(model.name))[2])
		for field in fields:
			if not field.is_conditional:
				continue
			conditional = field.value
			condition_field = by_name[conditional.linked_field_name]
			condition_model = self.ctx.net.by_name.get(condition_field.field_type) if isinstance(condition_field.field_type, str) else None
			if condition_model is not None and codec.kind(condition_model) == 'Enum' and condition_field.name in defaults:
				wanted = next(v.value for v in condition_model.values if v.name == conditional.value)
				if condition_field.name in chosen:
					actual = expect_named(self.ctx, condition_field.field_type, chosen[condition_field.name])
				else:
					actual = defaults[condition_field.name]
				holds = (wanted == actual) if conditional.operation == 'equals' else (wanted != actual)
				if not holds:
					if rng.randrange(3) == 0:
						# a value for the arm that is not selected: the object holds it, the encoding (and any id derived from the
						# selected arm) ignores it
						chosen[field.name] = self.member(model, field, path, top, in_message=in_message)
						self.note(f'conditional:{field.name}:stray')
					continue
				if defaults[field.name] is None or rng.random() < density:
					chosen[field.name] = self.member(model, field, path, top, in_message=in_message)
				self.note(f'conditional:{field.name}:present')
			else:
				if rng.randrange(2):
					chosen[field.name] = self.member(model, field, path, top, in_message=(nem_transfer and field.name == 'message') or in_message)
					self.note(f'conditional:{field.name}:present')
				else:
					self.note(f'conditional:{field.name}:absent')
		order = [f.name for f in fields if f.name in chosen]
		if rng.randrange(3) == 0:
			rng.shuffle(order)
		return [[codec.fix_name(name), chosen[name]] for name in order]

	def descriptor(self, type_name, cls_name):
		model = self.ctx.net.by_name[cls_name]
		pairs = self.struct_pairs(model, [], top=True)
		position = self.rng.randrange(len(pairs) + 1) if self.rng.randrange(4) == 0 else 0
		pairs.insert(position, ['type', {'s': type_name}])
		return pairs


def strip_marks(node):
	"""Removes generator-only marks (flags_int) from a descriptor node."""
	if 'l' in node:
		return {'l': [strip_marks(item) for item in node['l']]}
	if 'd' in node:
		return {'d': [[key, strip_marks(value)] for key, value in node['d']]}
	return {key: value for key, value in node.items() if key != 'flags_int'}


def has_flags_int(node):
	if node.get('flags_int'):
		return True
	if 'l' in node:
		return any(has_flags_int(item) for item in node['l'])
	if 'd' in node:
		return any(has_flags_int(value) for _, value in node['d'])
	return False


# ---------------------------------------------------------------------------------------------------------------------
# error injections

def injections(ctx, rng, type_name, cls_name, base_pairs):
	"""Yields (pairs, inject) with exactly one thing wrong.  late_ok: the error may surface at serialization (plain integer members)."""
	model = ctx.net.by_name[cls_name]
	fields = codec.settable_fields(model)
	found = []

	def add(pairs, kind, what, key='', late_ok=False, **more):
		found.append((pairs, {'kind': kind, 'what': what, 'key': key, 'late_ok': late_ok, **more}))

	def with_member(key, node, position=None):
		pairs = [pair for pair in base_pairs if pair[0] != key]
		pairs.insert(len(pairs) if position is None else position, [key, node])
		return pairs

	present = [pair[0] for pair in base_pairs if pair[0] != 'type']
	# unknown / misspelt members
	wrong = (rng.choice(present) if present else 'fee') + rng.choice(['x', '_', 's'])
	if wrong not in [codec.fix_name(f.name) for f in fields]:
		add(with_member(wrong, {'i': 1}), 'unknown-member', f'misspelt member {wrong!r}', wrong)
	add(with_member('Fee', {'i': 1}), 'unknown-member', 'member name in the wrong case', 'Fee')
	# fragments and near-misses of the one key that is not a member (`type`)
	for fragment in ('t', 'y', 'e', 'ty', 'pe', 'typ', 'ype', '', 'types', 'type_', ' type', 'Type'):
		if fragment not in [codec.fix_name(f.name) for f in fields]:
			add(with_member(fragment, {'i': 1}), 'unknown-member', f'unknown member {fragment!r} (a fragment / near-miss of `type`)', fragment)
	bound = [f.name for f in codec.non_const(model) if codec.bound_field(model, f) is not None]
	if bound:
		add(with_member(bound[0], {'i': 1}), 'unknown-member', f'derived size/count member {bound[0]!r}', bound[0])
	reserved = [f.name for f in codec.non_const(model) if f.disposition == 'reserved']
	if reserved:
		add(with_member(reserved[0], {'i': 0}), 'unknown-member', f'reserved member {reserved[0]!r}', reserved[0])
		add(with_member('_' + reserved[0], {'i': 3}), 'non-member', f'private slot of reserved member {reserved[0]!r}', '_' + reserved[0])
	# attributes that are not members
	for key in NON_MEMBER_KEYS:
		add(with_member(key, {'i': 1}, rng.randrange(len(base_pairs) + 1)), 'non-member', f'attribute {key!r} is not a member', key)
	private = '_fee' if any(f.name == 'fee' for f in fields) else '_signer_public_key'
	add(with_member(private, {'i': 5}), 'non-member', f'private slot {private!r}', private)
	add(with_member('TYPE_HINTS', {'l': [{'i': 1}]}), 'non-member', 'attribute TYPE_HINTS given a list', 'TYPE_HINTS')
	# computed members
	computed = [f.name for f in codec.non_const(model) if codec.is_computed(f)]
	name = (computed[0] if computed else 'fee') + '_computed'
	add(with_member(name, {'i': 0}), 'computed-member', f'computed member {name!r}', name)
	# unknown type names
	add([['type', {'s': 'x' + type_name}]] + [p for p in base_pairs if p[0] != 'type'], 'unknown-type', 'unknown transaction type name', 'type')
	add([['type', {'s': cls_name}]] + [p for p in base_pairs if p[0] != 'type'], 'unknown-type', 'class name instead of descriptor name', 'type')
	add([p for p in base_pairs if p[0] != 'type'], 'unknown-type', 'descriptor without a type', 'type')
	add([['type', {'i': 16724}]] + [p for p in base_pairs if p[0] != 'type'], 'unknown-type', 'numeric type', 'type')
	# typed members
	for field in fields:
		key = codec.fix_name(field.name)
		field_type = field.field_type
		if field.is_conditional or field.name in SKIP_TOP:
			continue
		if codec.kind(field_type) == 'FixedSizeInteger':
			low, high = codec.int_bounds(field_type.size, field_type.is_unsigned)
			for value in (high + 1, low - 1, 1 << 64):
				add(with_member(key, {'i': value}), 'out-of-range', f'{key}={value} outside [{low}, {high}]', key, late_ok=True)
			continue
		if not isinstance(field_type, str):
			continue
		target = ctx.net.by_name[field_type]
		if codec.kind(target) == 'Alias' and codec.kind(target.linked_type) == 'FixedSizeInteger':
			high = (1 << (8 * target.size)) - 1
			for value in (high + 1, -1, 1 << 64):
				add(with_member(key, {'i': value}), 'out-of-range', f'{key}={value} outside [0, {high}]', key)
		elif codec.kind(target) == 'Alias' and field_type in HEX_TYPES:
			good = rb(rng, target.size).hex().upper()
			for bad, what in ((good[:-2], 'one byte short'), (good + '00', 'one byte long'), (good[:-1], 'odd length'), ('G' + good[1:], 'non-hex digit'),
					('', 'empty')):
				add(with_member(key, {'s': bad}), 'bad-hex', f'{key}: hex string {what}', key)
			add(with_member(key, {'b': rb(rng, target.size + 1).hex()}), 'bad-length', f'{key}: byte string one byte long', key)
		elif codec.kind(target) == 'Alias' and field_type in ADDRESS_TYPES:
			good = b32_text(ctx.netname, rb(rng, 24 if ctx.netname == 'symbol' else 25))
			for bad, what in ((good[:-1], 'one character short'), (good.lower(), 'lower case'), ('1' + good[1:], 'non-base32 digit'), (good + 'AA', 'too long')):
				add(with_member(key, {'s': bad}), 'bad-address', f'{key}: address string {what}', key)
			add(with_member(key, {'b': rb(rng, 23).hex()}), 'bad-length', f'{key}: decoded address of 23 bytes', key)
		elif codec.kind(target) == 'Enum' and not target.is_bitwise:
			some = target.values[0].name
			bad_names = [('bogus', 'unknown name'), (some, 'upper-case name'), (some.lower() + ' ', 'trailing space'), ('', 'empty name')]
			# names that mean something for FLAGS ('none' = no flag) or look like a neutral value are unknown names of a plain enumeration
			for neutral in ('none', 'null', 'zero', 'default', '0'):
				if neutral not in [v.name.lower() for v in target.values]:
					bad_names.append((neutral, 'neutral-looking unknown name'))
			for bad, what in bad_names:
				add(with_member(key, {'s': bad}), 'bad-enum-name', f'{key}: enum {what} {bad!r}', key)
			unused = next(v for v in range(0, 70000) if v not in [e.value for e in target.values])
			add(with_member(key, {'i': unused}), 'bad-enum-value', f'{key}: {unused} is not a value of {field_type}', key)
			add(with_member(key, {'i': -1}), 'bad-enum-value', f'{key}: -1 is not a value of {field_type}', key)
		elif codec.kind(target) == 'Enum' and target.is_bitwise:
			some = target.values[-1].name.lower()
			for bad, what in ((some + ' bogus', 'unknown flag name'), (some.upper(), 'upper-case flag name'), (some + '  ' + some, 'double space'), ('', 'empty string')):
				add(with_member(key, {'s': bad}), 'bad-flag-name', f'{key}: {what} {bad!r}', key)
			mask = 0
			for v in target.values:
				mask |= v.value
			width = 8 * target.size
			unused_bit = next((1 << b for b in range(width) if not mask & (1 << b)), None)
			for value in ([unused_bit] if unused_bit else []) + [1 << width, 1 << 64]:
				add(with_member(key, {'i': value, 'flags_int': True}), 'bad-flag-value', f'{key}: {value} has bits outside {field_type}', key)
			for value in (-1, -2, -(mask + 1) - 1):
				add(with_member(key, {'i': value, 'flags_int': True}), 'flags-negative', f'{key}: negative number {value} for {field_type}', key, cls=field_type)
	# the same mistakes one level down (struct parser)
	for field in fields:
		if isinstance(field.field_type, str) and f'struct:{field.field_type}' in ctx.rule_names and not field.is_conditional:
			key = codec.fix_name(field.name)
			add(with_member(key, {'d': [['TYPE_HINTS', {'i': 1}]]}), 'non-member', f'{key}: attribute TYPE_HINTS inside a nested dictionary', 'TYPE_HINTS')
			add(with_member(key, {'d': [['bogus', {'i': 1}]]}), 'unknown-member', f'{key}: unknown member inside a nested dictionary', 'bogus')
			add(with_member(key, {'d': [['size', {'i': 1}]]}), 'non-member', f'{key}: read-only property size inside a nested dictionary', 'size')
			break
	# names that mean something at the top level (type / version / network) are ordinary unknown members one level down
	for field in fields:
		if field.is_conditional:
			continue
		key = codec.fix_name(field.name)
		nested_type = None
		as_element = False
		if isinstance(field.field_type, str) and f'struct:{field.field_type}' in ctx.rule_names:
			nested_type = field.field_type
		elif codec.is_array(field) and not codec.is_byte_array(field) and f'array[{field.field_type.element_type}]' in ctx.rule_names \
			and f'struct:{field.field_type.element_type}' in ctx.rule_names:
			nested_type, as_element = field.field_type.element_type, True
		if nested_type is None:
			continue
		nested_names = {codec.fix_name(f.name) for f in codec.non_const(ctx.net.by_name[nested_type])}
		for special in ('type', 'version', 'network'):
			if special in nested_names or codec.fix_name(special) in nested_names:
				continue
			node = {'d': [[special, {'s': 'x'} if special == 'type' else {'i': 1}]]}
			add(with_member(key, {'l': [node]} if as_element else node), 'unknown-member',
				f'{key}: unknown member {special!r} inside a nested {"array element" if as_element else "dictionary"} ({nested_type})', special)
	return found


# ---------------------------------------------------------------------------------------------------------------------
# baseline-interpreter worker (enum.Flag is strict only there)

def run_worker_cases(cases):
	"""Evaluates cases under /venv/bin/python (3.12); returns the list of canonical texts (None if the interpreter is missing)."""
	import os
	interpreter = '/venv/bin/python'
	if not os.path.exists(interpreter) or not cases:
		return None
	proc = subprocess.run(
		[interpreter, '-m', 'harness.checks.c10'], cwd=str(VERIF), env=impl_env(), input=json.dumps(cases), stdout=subprocess.PIPE, stderr=subprocess.PIPE,
		text=True, timeout=1800, check=False)
	if proc.returncode != 0:
		raise RuntimeError(f'baseline worker failed: {proc.stderr[-2000:]}')
	return json.loads(proc.stdout.strip().split('\n')[-1])


def worker_main():
	from ..common import setup_impl_path
	setup_impl_path()
	codec.setup_paths()
	cases = json.loads(sys.stdin.read())
	print(json.dumps([impl(case)[0] for case in cases]))


# ---------------------------------------------------------------------------------------------------------------------

def case_signature(kind, case):
	return f'{kind}:{case["net"]}:{dict(case["desc"]).get("type", {}).get("s", "?")}'


def evaluate(check, cases):
	"""Implementation (in-process, flags-int cases again under the baseline interpreter), model, oracle."""
	texts = []
	objects = []
	for case in cases:
		text, transaction = impl(case)
		texts.append(text)
		objects.append(transaction)
	strict = [index for index, case in enumerate(cases) if case.get('flags_int')]
	lenient = 0
	if strict:
		results = run_worker_cases([cases[index] for index in strict])
		if results is None:
			check.notes.append('baseline interpreter missing: integer flag cases evaluated under the lenient enum.Flag of 3.11 only')
		else:
			for index, text in zip(strict, results):
				if text != texts[index]:
					lenient += 1
				texts[index] = text
				if not text.startswith('ok:'):
					objects[index] = None
	check.extra['flag_int_cases_under_baseline_interpreter'] = check.extra.get('flag_int_cases_under_baseline_interpreter', 0) + len(strict)
	check.extra['flag_int_cases_where_3_11_differs'] = check.extra.get('flag_int_cases_where_3_11_differs', 0) + lenient
	models = coq_eval(PRELUDE, [model_expr(case) for case in cases], f'c10{cases[0]["net"]}', shard=40)
	for case, text, transaction, model_text in zip(cases, texts, objects, models):
		inject = case.get('inject')
		outcome = text.split(':')[0].split('|')[0]
		check.case(f'{case["net"]}:{case["entry"]}:{"autosort" if case["autosort"] else "asis"}:' + (f'inject:{inject["kind"]}:{outcome}' if inject else f'valid:{outcome}'),
			json.dumps(case['desc'], sort_keys=True))
		if text.startswith('harness:'):
			raise RuntimeError(f'descriptor could not be built: {text} for {case}')
		if 'OutOfFuel' in model_text:
			check.extra['exhausted_cases'] = check.extra.get('exhausted_cases', 0) + 1
			continue
		if check.evaluations % 997 == 1:
			check.sample({'case': case['desc'], 'implementation': text[:300], 'model': model_text[:300]})
		if coarse(text) != coarse(model_text):
			check.disagree('Descriptor-model-vs-TransactionFactory', {k: v for k, v in case.items() if k != 'inject'} | ({'inject': inject['what']} if inject else {}),
				text[:700], model_text[:700])
		if inject:
			problems = oracle_injection(case, text)
		elif case.get('flags_int') and transaction is None and text.startswith('ok:'):
			problems = []      # evaluated in the worker only: the tree was compared with the model; the object is not here
		else:
			problems = oracle_valid(case, text, transaction)
		for kind, message in problems:
			signature = kind if inject else case_signature(kind, case)
			check.fail(signature, f'{case["net"]} {case["entry"]} {dict(case["desc"]).get("type", {}).get("s", "?")}: {message}',
				{'case': case, 'observed': text[:2000], 'how': 'run.py replay <this file>'})


def build_cases(check, ctx, per_type):
	rng = check.rng
	generator = DescriptorGen(ctx, rng)
	cases = []
	for entry, mapping in ctx.entries.items():
		for type_name, cls_name in mapping.items():
			valid = []
			for index in range(per_type):
				marked = generator.descriptor(type_name, cls_name)
				case = {'net': ctx.netname, 'network': ctx.network_name, 'entry': entry, 'autosort': index % 2 == 0,
					'desc': [[key, strip_marks(node)] for key, node in marked]}
				if any(has_flags_int(node) for _, node in marked):
					case['flags_int'] = True
				valid.append(case)
			cases += valid
			base = min(valid, key=lambda c: len(json.dumps(c['desc'])))['desc'] if rng.randrange(2) else rng.choice(valid)['desc']
			for pairs, inject in injections(ctx, rng, type_name, cls_name, base):
				case = {'net': ctx.netname, 'network': ctx.network_name, 'entry': entry, 'autosort': rng.randrange(2) == 0,
					'desc': [[key, strip_marks(node)] for key, node in pairs], 'inject': inject}
				if any(has_flags_int(node) for _, node in pairs):
					case['flags_int'] = True
				cases.append(case)
	return cases, generator.forms


def _d9(key, node, what):
	return {'net': 'symbol', 'network': 'testnet', 'entry': 'top', 'autosort': True,
		'desc': [['type', {'s': 'transfer_transaction_v1'}], ['fee', {'i': 1000}], [key, node]],
		'inject': {'kind': 'non-member', 'what': what, 'key': key, 'late_ok': False}}


CORNERS = [
	# D9 (DESIGN.md section 1): attributes that are not members, smallest replays first
	_d9('TYPE_HINTS', {'i': 1}, "attribute 'TYPE_HINTS' is not a member"),
	_d9('TRANSACTION_VERSION', {'i': 7}, "attribute 'TRANSACTION_VERSION' is not a member"),
	_d9('serialize', {'i': 1}, "attribute 'serialize' is not a member"),
	_d9('_fee', {'i': 5}, "private slot '_fee'"),
	{'net': 'symbol', 'network': 'testnet', 'entry': 'top', 'autosort': True, 'flags_int': True,
		'desc': [['type', {'s': 'mosaic_definition_transaction_v1'}], ['flags', {'i': -1}]],
		'inject': {'kind': 'flags-negative', 'what': 'flags: negative number -1 for MosaicFlags', 'key': 'flags', 'late_ok': False, 'cls': 'MosaicFlags'}},
	# the README descriptors
	{'net': 'symbol', 'network': 'testnet', 'entry': 'top', 'autosort': True, 'desc': [
		['type', {'s': 'transfer_transaction_v1'}], ['signer_public_key', {'s': '87DA603E7BE5656C45692D5FC7F6D0EF8F24BB7A5C10ED5FDA8C5CFBC49FCBC8'}],
		['fee', {'i': 1000000}], ['deadline', {'i': 41998024783}], ['recipient_address', {'s': 'TCHBDENCLKEBILBPWP3JPB2XNY64OE7PYHHE32I'}],
		['mosaics', {'l': [{'d': [['mosaic_id', {'i': 0x7CDF3B117A3C40CC}], ['amount', {'i': 1000000}]]}]}]]},
	{'net': 'nem', 'network': 'testnet', 'entry': 'top', 'autosort': True, 'desc': [
		['type', {'s': 'transfer_transaction_v1'}], ['signer_public_key', {'s': 'A59277D56E9F4FA46854F5EFAAA253B09F8AE69A473565E01FD9E6A738E4AB74'}],
		['fee', {'i': 0x186A0}], ['timestamp', {'i': 191205516}], ['deadline', {'i': 191291916}],
		['recipient_address', {'s': 'TALICE5VF6J5FYMTCB7A3QG6OIRDRUXDWJGFVXNW'}], ['amount', {'i': 5100000}]]},
	# upstream's autosort tests
	{'net': 'symbol', 'network': 'testnet', 'entry': 'embedded', 'autosort': False, 'desc': [
		['type', {'s': 'transfer_transaction_v1'}],
		['mosaics', {'l': [{'d': [['mosaic_id', {'i': 15358872602548358953}], ['amount', {'i': 1}]]}, {'d': [['mosaic_id', {'i': 95442763262823}], ['amount', {'i': 100}]]}]}]]},
	{'net': 'symbol', 'network': 'mainnet', 'entry': 'top', 'autosort': True, 'desc': [
		['type', {'s': 'namespace_registration_transaction_v1'}], ['registration_type', {'s': 'child'}], ['parent_id', {'i': 0xC6D1F6B5E8F0A1B2}], ['name', {'s': 'charlie'}]]},
	{'net': 'symbol', 'network': 'testnet', 'entry': 'top', 'autosort': True, 'desc': [
		['type', {'s': 'mosaic_definition_transaction_v1'}], ['signer_public_key', {'b': '11' * 32}], ['nonce', {'i': 123}],
		['flags', {'s': 'supply_mutable restrictable transferable revokable'}]]},
	{'net': 'nem', 'network': 'testnet', 'entry': 'top', 'autosort': True, 'desc': [
		['type', {'s': 'multisig_account_modification_transaction_v2'}], ['min_approval_delta', {'i': 1}],
		['modifications', {'l': [
			{'d': [['modification', {'d': [['modification_type', {'s': 'delete_cosignatory'}],
				['cosignatory_public_key', {'s': 'D79936328C188A4416224ABABF580CA2C5C8D852248DB1933FE4BC0DCA0EE7BC'}]]}]]},
			{'d': [['modification', {'d': [['modification_type', {'s': 'add_cosignatory'}],
				['cosignatory_public_key', {'s': '5D378657691CAD70CE35A46FB88CB134232B0B6B3655449C019A1F5F20AE9AAD'}]]}]]}]}]]},
	{'net': 'nem', 'network': 'testnet', 'entry': 'top', 'autosort': False, 'desc': [
		['type', {'s': 'multisig_account_modification_transaction_v1'}],
		['modifications', {'l': [
			{'d': [['modification', {'d': [['modification_type', {'s': 'delete_cosignatory'}],
				['cosignatory_public_key', {'s': 'D79936328C188A4416224ABABF580CA2C5C8D852248DB1933FE4BC0DCA0EE7BC'}]]}]]},
			{'d': [['modification', {'d': [['modification_type', {'s': 'add_cosignatory'}],
				['cosignatory_public_key', {'s': '5D378657691CAD70CE35A46FB88CB134232B0B6B3655449C019A1F5F20AE9AAD'}]]}]]}]}]]},
	{'net': 'nem', 'network': 'testnet', 'entry': 'top', 'autosort': True, 'desc': [
		['type', {'s': 'transfer_transaction_v2'}], ['message', {'d': [['message_type', {'s': 'plain'}], ['message', {'s': 'You miss 100%% of the shots you don’t take'}]]}]]},
]


def _nem_definition(properties):
	definition = [['owner_public_key', {'s': '19583B73669DD8A7020A9C702B728FAE89C20B3EA8B1473A804915B1272F3499'}],
		['id', {'d': [['namespace_id', {'d': [['name', {'b': '616c696365'}]]}], ['name', {'b': '746f6b656e'}]]}], ['description', {'b': '61'}]]
	if properties is not None:
		definition.append(['properties', {'l': [
			{'d': [['property_', {'d': [['name', {'b': name.encode().hex()}], ['value', {'b': value.encode().hex()}]]}]]} for name, value in properties]}])
	return {'net': 'nem', 'network': 'testnet', 'entry': 'top', 'autosort': True, 'desc': [
		['type', {'s': 'mosaic_definition_transaction_v1'}], ['rental_fee', {'i': 50000}], ['mosaic_definition', {'d': definition}]]}


# what a descriptor yields must not depend on what the same factory built before (C10-M: a nested struct parser working on a shallow copy of
# one prototype, whose list members are then shared by every struct the rule produces): descriptors with nested lists, given in sequence
HISTORY = {
	'nem': [_nem_definition([('divisibility', '3'), ('initialSupply', '1000')]), _nem_definition(None), _nem_definition([('divisibility', '3'), ('initialSupply', '1000')]),
		_nem_definition([('supplyMutable', 'true')])],
	'symbol': [
		{'net': 'symbol', 'network': 'testnet', 'entry': 'top', 'autosort': True, 'desc': [['type', {'s': 'transfer_transaction_v1'}],
			['mosaics', {'l': [{'d': [['mosaic_id', {'i': 5}], ['amount', {'i': 7}]]}, {'d': [['mosaic_id', {'i': 9}], ['amount', {'i': 1}]]}]}]]},
		{'net': 'symbol', 'network': 'testnet', 'entry': 'top', 'autosort': True, 'desc': [['type', {'s': 'transfer_transaction_v1'}]]},
		{'net': 'symbol', 'network': 'testnet', 'entry': 'embedded', 'autosort': True, 'desc': [['type', {'s': 'transfer_transaction_v1'}],
			['mosaics', {'l': [{'d': [['mosaic_id', {'i': 5}], ['amount', {'i': 7}]]}]}]]},
	],
}


def history_sequence(netname, network_name, sequence):
	"""[(index, text with a factory that built nothing before, text in sequence through ONE factory, twice over)] where the two differ."""
	sequence = [dict(case, network=network_name) for case in sequence]
	alone = [impl(case, Ctx(netname, network_name))[0] for case in sequence]
	shared = Ctx(netname, network_name)
	differing = []
	for index, case in enumerate(sequence + sequence):
		in_sequence, _ = impl(case, shared)
		if in_sequence != alone[index % len(sequence)]:
			differing.append((index, alone[index % len(sequence)], in_sequence))
	return differing


def history_probe(check, netname, network_name, generated):
	sequences = [('directed', [case for case in HISTORY.get(netname, [])])]
	nested = [case for case in generated if not case.get('inject') and not case.get('flags_int') and '"l": [{' in json.dumps(case['desc'])][:40]
	if nested:
		sequences.append(('generated', nested))
	for label, sequence in sequences:
		if not sequence:
			continue
		check.case(f'{netname}:history:{label}', json.dumps([case['desc'] for case in sequence], sort_keys=True))
		differing = history_sequence(netname, network_name, sequence)
		if differing:
			index, alone, in_sequence = differing[0]
			doubled = list(sequence) + list(sequence)
			check.fail(f'history-dependent:{netname}', f'{netname} {dict(doubled[index]["desc"]).get("type", {}).get("s", "?")}: descriptor number {index + 1} of a '
				f'sequence given to one factory yields {in_sequence[:300]} but {str(alone)[:300]} when the factory has built nothing before',
				{'sequence': doubled[:index + 1], 'net': netname, 'network': network_name, 'observed': in_sequence[:2000], 'alone': str(alone)[:2000],
				'how': 'run.py replay <this file>'})


def run(check, unrecognised):
	check.trusted += [
		'translator harness/gens/c10.py: DescriptorOps (constants of 23 anchor functions) and DescriptorRulesSc/Nc (TYPE_HINTS, autodetected classes, '
		'create_by_name mappings, _build_rules call sequence, all by Python ast); harness/gens/c01.py (schemas, ArrayOps)',
		'harness/codec.py (schema helpers, value generator, object <-> tree conversion) and harness/checks/c10.py (descriptor generator, tree_of)',
		'modelled, not verified: CPython dict / str.split / str.lower / enum / binascii / base64 semantics, the generated codec classes (tied by C01), '
		'reflection-based rule discovery (dir(module), inspect) -- represented by the regenerated tables',
		'/venv/bin/python (3.12, the baseline interpreter) for integer flag values: Debian 3.11.2 enum.Flag silently drops invalid bits']
	check.assume += [
		'descriptors are dicts with string keys whose values are ints, strs, bytes, SDK value objects, lists and dicts; well-formed SDK objects',
		'names given as bytes are valid UTF-8 (name.decode / str.encode are the identity on the encoded form in the model)',
		'a descriptor that names type_/version/network with a value conflicting with the class constants / the facade is outside the quantifier',
		'INTENDED behaviour is modelled for member acceptance (settable members only) and for negative flag numbers (refused)']
	check.extra['rule'] = 'every name of every create_by_name mapping (by reflection) x create/create_embedded x autosort on/off x schema-directed descriptors: ' \
		'each member absent or given in one of its documented forms (int / BaseValue object; hex upper+lower / bytes / CryptoTypes object; base32 / bytes / ' \
		'Address object; enum name / int / member; flag names incl. none / int / member; nested dict / SDK struct object; lists of 0-3 incl. equal keys; ' \
		'str / bytes for byte arrays), conditional members consistent with their condition; then one injected error per case (misspelt / wrong-case / derived / ' \
		'reserved member, TYPE_HINTS, TRANSACTION_VERSION, TRANSACTION_TYPE, serialize, deserialize, to_json, size, sort, __str__, private slots, *_computed, ' \
		'unknown / missing / numeric type, out-of-range numbers incl. 2^64 and -1, bad hex, bad base32, bad lengths, unknown / upper-case enum and flag names, ' \
		'non-member enum values, flag numbers with foreign bits or negative); distinct = distinct descriptors; all non-trivial'
	mine = unrecognised.get('DescriptorOps') or []
	if mine:
		check.notes.append(f'anchors not recognised, pinned constants used for them: {mine}')
	for key in ('descriptor-rules:sc', 'descriptor-rules:nc'):
		if not str(check.shape_report.get(key, '')).startswith('regenerated'):
			check.broken.append(f'shape:{key}')
			check.notes.append(f'{key}: {check.shape_report.get(key)}')
	check.prove('C10.v')
	codec.setup_paths()
	per_type = 20 if check.tier == 'quick' else 500
	forms = {}
	entry_names = {}
	for netname in ('symbol', 'nem'):
		for network_name in (('testnet',) if check.tier == 'quick' else ('testnet', 'mainnet')):
			try:
				ctx = ctx_of(netname, network_name)
			except Exception as ex:  # pylint: disable=broad-except
				check.fail(f'facade-import:{netname}', f'facade / factory of {netname} cannot be built: {type(ex).__name__}: {ex}', {'network': netname})
				continue
			entry_names[netname] = {entry: sorted(mapping) for entry, mapping in ctx.entries.items()}
			share = per_type if check.tier == 'quick' else per_type // 2
			cases, seen = build_cases(check, ctx, share)
			cases = [c for c in CORNERS if c['net'] == netname and c['network'] == network_name] + cases
			for form, count in seen.items():
				forms[form] = forms.get(form, 0) + count
			chunk = 4000
			for start in range(0, len(cases), chunk):
				evaluate(check, cases[start:start + chunk])
			history_probe(check, netname, network_name, cases)
			check.extra[f'{netname}_via_facade'] = ctx.via_facade
	check.extra['transaction_type_names'] = entry_names
	check.extra['forms_generated'] = dict(sorted(forms.items()))
	check.extra['object_only_members'] = 'members whose type has no parsing rule take SDK objects only: signature (pod:Signature), aggregate ' \
		'transactions / cosignatures (array[EmbeddedTransaction], array[Cosignature]), NEM multisig inner_transaction (struct:NonVerifiableTransaction)'
	check.extra['level_note'] = 'proof, partial: create_holds_values is proved for the object before sort() / id filling (those stages have their own ' \
		'theorems); create_then_enc_dec carries the layout round trip as a named premise; rule discovery by reflection is represented by regenerated tables'
	check.extra['observations'] = [
		'struct members whose type has a parsing rule accept nested dictionaries only (an SDK struct object there raises AttributeError: no .keys())',
		'a hex string for a byte pod without a rule (signature) is not parsed: it is stored as the UTF-8 bytes of the text (not generated: undocumented form)',
		'out-of-range plain integer members (version, divisibility, deltas ...) are accepted by create and refused by serialize() with OverflowError',
		'a multisig_transaction_v1 (NEM) created without inner_transaction serializes (default: abstract NonVerifiableTransaction(), type TRANSFER, '
		'version 0) but cannot be deserialized (KeyError in the factory); the generator therefore always describes members of abstract struct type',
		'examples/descriptors/nem_cosignature.py uses the type name cosignature_transaction_v1, which create_by_name does not know (cosignature_v1)']


def replay(data):
	codec.setup_paths()
	if 'sequence' in data['replay']:
		sequence = data['replay']['sequence']
		netname, network_name = data['replay']['net'], data['replay']['network']
		shared = Ctx(netname, network_name)
		in_sequence = [impl(dict(case, network=network_name), shared)[0] for case in sequence][-1]
		alone = impl(dict(sequence[-1], network=network_name), Ctx(netname, network_name))[0]
		print('last descriptor after the others:', in_sequence[:900])
		print('last descriptor alone           :', alone[:900])
		print('property:', 'holds' if in_sequence == alone else 'history-dependent - what the descriptor yields depends on what the factory built before')
		return 0 if in_sequence == alone else 1
	case = data['replay']['case']
	text, transaction = impl(case)
	if case.get('flags_int'):
		results = run_worker_cases([case])
		if results:
			print('under the baseline interpreter:', results[0][:600])
			text = results[0]
	print('observed:', text[:1200])
	if case.get('inject'):
		problems = oracle_injection(case, text)
	elif transaction is None and text.startswith('ok:'):
		problems = []
	else:
		problems = oracle_valid(case, text, transaction)
	for kind, message in problems:
		print('property:', kind, '-', message[:600])
	if not problems:
		print('property: holds')
	return 1 if problems else 0


if __name__ == '__main__':
	worker_main()
