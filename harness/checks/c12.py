"""C12: keyed arrays are canonical -- sorting orders them and codecs refuse unordered data."""
import hashlib
import itertools
import json
import os
import pickle
import shutil
import subprocess
import sys

from .. import codec, common
from ..common import blit, coq_eval
from .c01 import PRELUDE, coarse, fmt, impl_des, impl_ser, limited

MANIFEST = {
	'text': 'Theorems (Props/C12.v, all Qed, closed under the global context) over the model of ArrayHelpers.write_array_impl/read_array_impl '
		'with the >= operators regenerated from the source and over the stable sort with Python\'s key comparison: sort is a permutation, '
		'idempotent, strictly ascending and order-independent on distinct keys, leaves a canonical array alone and keeps its length; encode and decode succeed only on strictly ascending keys '
		'(equal keys rejected); two encodable arrays with the same keyed entries are equal (canonical encoding); written arrays read back. '
		'They hold for any element codec, comparer and transform. Tie: every keyed array of both shipped schemas (found from the regenerated '
		'schema) is exercised on all permutations of small entry sets incl. equal keys, high-byte-only differences and maximal values: '
		'sort(), serialize accept/reject, deserialize of hand-permuted bytes, model vs generated Python code. Stability for lists of any length and uniqueness of the strictly ascending arrangement (Cats/SortProofs2.v).',
	'design_ref': 'DESIGN.md section 4, C12',
	'technique': 'Coq proof (sort + order-check model with regenerated operators) + vm_compute differential on permutations of keyed arrays',
}


def keyed_arrays(net):
	found = []
	for model in net.models:
		if codec.kind(model) != 'Struct':
			continue
		for field in codec.non_const(model):
			if codec.is_array(field) and field.field_type.sort_key:
				found.append((model, field))
	return found


def key_variants(net, array_type, rng):
	"""Elements whose keys probe the comparer: equal keys, keys differing only in a high byte, little-endian vs numeric traps, maxima."""
	element_model = net.by_name[array_type.element_type]
	generator = codec.Generator(net, rng)
	base = generator.struct(element_model, 1)
	key_field = next(f for f in element_model.fields if f.name == array_type.sort_key)
	variants = []

	def with_key(value):
		members = [(name, value if name == array_type.sort_key else member) for name, member in base[2]]
		return ('S', base[1], members)

	if codec.kind(key_field.field_type) == 'Array':
		# the key is itself an array (namespace paths): compared element by element, a proper prefix first; the empty key is falsy in Python
		top = (1 << 64) - 1
		# 7 and 2^64 - 1 (and 1, 2^61) are congruent modulo 2^61 - 1, the modulus of CPython's integer hash
		for value in [[], [], [0], [1], [1, 2], [2], [1, 1], [top], [top, 0], [1 << 56], [0, 0], [7], [1 << 61], [(1 << 61) - 1], [7, top], [top, 7]]:
			variants.append(with_key(list(value)))
	elif isinstance(key_field.field_type, str) and codec.kind(net.by_name[key_field.field_type]) == 'Alias':
		size = net.by_name[key_field.field_type].size
		top = (1 << (8 * size)) - 1
		extra = [7, ((1 << 61) - 1) % (top + 1), (7 + (1 << 61) - 1) % (top + 1)] if size == 8 else []
		for value in [0, 1, 2, 255, 256, 1 << (8 * size - 8), (1 << (8 * size - 8)) + 1, 0x0100000000000000 % (top + 1), top - 1, top] + extra:
			variants.append(with_key(value))
	else:
		for _ in range(6):
			variants.append(with_key(generator.named(key_field.field_type, 2)))
		# same transformed-key component, different second component and vice versa
		inner = variants[0][2]
		key_struct = dict(inner)[array_type.sort_key]
		for _ in range(3):
			other = generator.named(key_field.field_type, 2)
			mixed = ('S', key_struct[1], [(name, value if index == 0 else dict(other[2])[name]) for index, (name, value) in enumerate(key_struct[2])])
			variants.append(with_key(mixed))
	return variants


def stateful_scenario(check, net, host, field, array_type, value, variants):
	"""sort(), serialize(), then overwrite the key members of one entry in place with those of another variant, then sort() and serialize() again:
	the second sort must order by the CURRENT keys and serialize must accept exactly strictly ascending current keys."""
	rng = check.rng
	try:
		obj = codec.to_object(net, host.name, value)
	except codec.Inadmissible:
		return
	limited(obj.sort)
	limited(lambda: bytes(obj.serialize()))
	entries = getattr(obj, '_' + codec.fix_name(field.name))
	if len(entries) < 2:
		return
	victim = entries[rng.randrange(len(entries))]
	donor = codec.to_object(net, array_type.element_type, rng.choice(variants))
	key_name = '_' + codec.fix_name(array_type.sort_key)
	key_object = getattr(victim, key_name)
	donor_key = getattr(donor, key_name)
	if hasattr(key_object, 'TYPE_HINTS') or hasattr(key_object, '__dict__') and not hasattr(key_object, 'value') and not hasattr(key_object, 'bytes'):
		# struct-typed key: overwrite its members one by one through the public setters (what a user editing a transaction does)
		# ONE member at a time (a cache invalidated by one setter but not by another is only visible that way)
		names = [name[1:] for name in vars(donor_key) if name.startswith('_') and not name.startswith('__') and hasattr(type(key_object), name[1:])]
		if names:
			name = rng.choice(names)
			try:
				setattr(key_object, name, getattr(donor_key, name))
			except AttributeError:
				pass
	else:
		setattr(victim, key_name[1:], donor_key)
	check.case(f'{net.name}:{host.name}.{field.name}:stateful', (host.name, codec.render(value), codec.render(codec.from_object(net, array_type.element_type, donor))))
	result = limited(lambda: (obj.sort(), codec.from_object(net, host.name, obj))[1])
	if result[0] != 'ok':
		return
	after = dict(result[1][2])[field.name]
	keys = [codec.sort_key_of(net, array_type, e) for e in after]
	ascending = all(a < b for a, b in zip(keys, keys[1:]))
	nondescending = all(a <= b for a, b in zip(keys, keys[1:]))
	serialized = limited(lambda: bytes(obj.serialize()))
	if not nondescending or (serialized[0] == 'ok') != ascending:
		check.fail(signature('stateful-sort', host.name, codec.render(after)),
			f'{net.name}.{host.name}.{field.name}: after editing an entry\'s key in place, sort() leaves keys '
			f'{"ascending" if nondescending else "OUT OF ORDER"} and serialize {"accepts" if serialized[0] == "ok" else "refuses"} them '
			f'(strictly ascending by the declared comparer: {ascending})',
			{'network': net.name, 'class': host.name, 'member': field.name, 'after_second_sort': codec.render(after)})


# ---------------------------------------------------------------------------------------------------------------------
# equal keys held by ONE object

def twin_of(net, generator, array_type, variant):
	"""An entry with the key of `variant` and (where the element has other members) other payload."""
	other = generator.struct(net.by_name[array_type.element_type], 1)
	return ('S', variant[1], [(name, value if name == array_type.sort_key else dict(other[2]).get(name, value)) for name, value in variant[2]])


def build_shared(net, host_name, field_name, sort_key, value, sharing, positions):
	"""The host object for `value` in which the entries at the two `positions` (equal keys) hold ONE key object (`key-object`: what a
	program that looks an id up once and uses it for two entries builds) or ARE one entry object (`entry-object`)."""
	obj = codec.to_object(net, host_name, value)
	entries = getattr(obj, '_' + codec.fix_name(field_name))
	first, second = positions
	if sharing == 'entry-object':
		entries[second] = entries[first]
	else:
		key_name = '_' + codec.fix_name(sort_key)
		setattr(entries[second], key_name, getattr(entries[first], key_name))
	return obj


def shared_problem(net, host_name, field_name, value, sharing, positions):
	"""P: a value whose keyed array holds two equal keys does not encode - as built, and after sort() - whichever objects hold the keys."""
	field = next(f for f in codec.non_const(net.by_name[host_name]) if f.name == field_name)
	array_type = field.field_type
	entries = dict(value[2])[field_name]
	keys = [codec.sort_key_of(net, array_type, e) for e in entries]
	if keys[positions[0]] != keys[positions[1]]:
		return None      # (not a value with equal keys: nothing to refuse)
	accepted = []
	for moment in ('as built', 'after sort()'):
		obj = build_shared(net, host_name, field_name, array_type.sort_key, value, sharing, positions)
		if moment != 'as built' and limited(obj.sort)[0] != 'ok':
			continue
		if limited(lambda o=obj: bytes(o.serialize()))[0] == 'ok':
			accepted.append(moment)
	if accepted:
		what = 'one key object is attached to both entries' if sharing == 'key-object' else 'one entry object is listed twice'
		return f'serialize accepts ({", ".join(accepted)}) an array in which entries {positions[0]} and {positions[1]} have equal keys ({what})'
	return None


def shared_object_cases(check, net, host, field, host_value, variants, generator):
	array_type = field.field_type
	distinct, seen = [], set()
	for variant in variants:
		key = codec.sort_key_of(net, array_type, variant)
		if key not in seen:
			seen.add(key)
			distinct.append((key, variant))
	distinct.sort(key=lambda pair: pair[0])
	distinct = [variant for _, variant in distinct]
	for index, variant in enumerate(distinct if check.tier == 'thorough' else distinct[:2] + distinct[-2:]):
		twin = twin_of(net, generator, array_type, variant)
		others = [entry for entry in distinct if entry is not variant]
		arrangements = [('key-object', [variant, twin], (0, 1)), ('entry-object', [variant, variant], (0, 1))]
		if len(others) >= 2:
			# equal keys in the middle of an otherwise admissible array, and (second form) not adjacent before sort()
			arrangements.append(('key-object', [others[0], variant, twin, others[-1]], (1, 2)))
			arrangements.append(('entry-object' if index % 2 else 'key-object', [variant, others[0], twin if index % 2 == 0 else variant, others[-1]], (0, 2)))
		for sharing, entries, positions in arrangements:
			value = ('S', host_value[1], [(name, entries if name == field.name else member) for name, member in host_value[2]])
			check.case(f'{net.name}:{host.name}.{field.name}:equal-keys-one-object:{sharing}', (codec.render(entries), positions))
			try:
				problem = shared_problem(net, host.name, field.name, value, sharing, positions)
			except codec.Inadmissible:
				continue
			if problem:
				check.fail(signature('encode-equal-keys-one-object', host.name, (sharing, codec.render(entries))),
					f'{net.name}.{host.name}.{field.name}: {problem}',
					{'network': net.name, 'class': host.name, 'member': field.name, 'op': 'equal-keys-one-object', 'sharing': sharing,
						'positions': list(positions), 'input': codec.tree_to_json(value), 'entries': codec.render(entries)})


# ---------------------------------------------------------------------------------------------------------------------
# the same refusals in an interpreter started with -O (PYTHONOPTIMIZE): assert statements and `__debug__` branches are compiled away there

OPTIMIZED_CHILD = r"""
import importlib, json, pickle, sys
sys.path[:0] = sys.argv[1:]
outcomes = []
for case in pickle.load(sys.stdin.buffer):
	try:
		if case[0] == 'ser':
			bytes(pickle.loads(case[1]).serialize())
		else:
			getattr(importlib.import_module(case[1]), case[2]).deserialize(case[3])
		outcomes.append('ok')
	except ValueError:
		outcomes.append('reject')
	except Exception as ex:
		outcomes.append('crash:' + type(ex).__name__)
print(json.dumps({'debug': __debug__, 'optimize': sys.flags.optimize, 'outcomes': outcomes}))
"""


def optimized_outcomes(net, cases, extra_paths=(), interpreter=None):
	"""Runs encode / decode cases in a child `python -O` (the check's own interpreter, same import path as the in-process implementation).
	cases: ('ser', host class name, value tree) | ('des', host class name, bytes).  Objects are built here and handed over pickled."""
	payload = []
	for case in cases:
		if case[0] == 'ser':
			payload.append(('ser', pickle.dumps(codec.to_object(net, case[1], case[2]))))
		else:
			payload.append(('des', net.module.__name__, case[1], bytes(case[2])))
	proc = subprocess.run(
		[interpreter or sys.executable, '-O', '-c', OPTIMIZED_CHILD] + [str(path) for path in extra_paths],
		input=pickle.dumps(payload), env=common.impl_env(), stdout=subprocess.PIPE, stderr=subprocess.PIPE, timeout=600, check=False)
	try:
		answer = json.loads(proc.stdout.decode('utf8').strip().splitlines()[-1])
	except (IndexError, ValueError) as ex:
		raise RuntimeError(f'optimized child interpreter failed (exit {proc.returncode}): {proc.stderr.decode("utf8", "replace")[-600:]}') from ex
	if answer['debug'] or not answer['optimize'] or len(answer['outcomes']) != len(cases):
		raise RuntimeError(f'optimized child interpreter did not run optimized: {answer}')
	return answer['outcomes']


def optimized_cases(net, host, field, host_value, variants):
	"""A small family per keyed array: one strictly ascending control, the same entries reversed / with the last two exchanged, equal keys
	first and last; the control's encoding as it is, with two element blocks exchanged and with a block repeated.
	Yields (op, payload, expectation, label)."""
	array_type = field.field_type
	distinct, seen = [], set()
	for variant in variants:
		key = codec.sort_key_of(net, array_type, variant)
		if key not in seen:
			seen.add(key)
			distinct.append((key, variant))
	distinct.sort(key=lambda pair: pair[0])
	chosen = [variant for _, variant in (distinct[:2] + distinct[-1:] if len(distinct) >= 3 else distinct)]
	if len(chosen) < 2:
		return

	def hosting(entries):
		return ('S', host_value[1], [(name, entries if name == field.name else member) for name, member in host_value[2]])
	yield 'ser', hosting(chosen), 'ok', 'strictly ascending'
	yield 'ser', hosting(chosen[::-1]), 'reject', 'descending'
	if len(chosen) >= 3:
		yield 'ser', hosting([chosen[0], chosen[2], chosen[1]]), 'reject', 'last two exchanged'
	yield 'ser', hosting([chosen[0], chosen[0]] + chosen[1:]), 'reject', 'first key twice'
	yield 'ser', hosting(chosen + [chosen[-1]]), 'reject', 'last key twice'
	good = impl_ser(codec.to_object(net, host.name, hosting(chosen)))
	if not good.startswith('ok:'):
		return
	data = bytes.fromhex(good.split('|')[0][3:])
	blocks = [bytes(codec.to_object(net, array_type.element_type, e).serialize()) for e in chosen]
	joined = b''.join(blocks)
	position = data.find(joined)
	if position < 0 or data.find(joined, position + 1) >= 0 or len(set(len(block) for block in blocks)) != 1:
		return

	def rebuilt(new_blocks):
		return data[:position] + b''.join(new_blocks) + data[position + len(joined):]
	yield 'des', data, 'ok', 'strictly ascending'
	yield 'des', rebuilt([blocks[1], blocks[0]] + blocks[2:]), 'reject', 'first two element blocks exchanged'
	yield 'des', rebuilt(blocks[::-1]), 'reject', 'element blocks reversed'
	yield 'des', rebuilt([blocks[0]] + blocks[:-1]), 'reject', 'first element block twice'
	yield 'des', rebuilt(blocks[:-1] + [blocks[-2]]), 'reject', 'last-but-one element block twice'


def run_optimized(check, net, pending, extra_paths=()):
	"""P, in an optimized interpreter: encoding a value whose keyed array is out of order or holds two equal keys fails, and decoding such
	bytes fails (the strictly ascending control of every array must still pass, so that a child that refuses everything is noticed)."""
	cases = []
	for host, field, host_value, variants in pending:
		try:
			for op, payload, expectation, label in optimized_cases(net, host, field, host_value, variants):
				cases.append((op, host.name, payload, expectation, label, field.name))
		except codec.Inadmissible:
			continue
	if not cases:
		return
	outcomes = optimized_outcomes(net, [case[:3] for case in cases], extra_paths)
	for (op, host_name, payload, expectation, label, member), observed in zip(cases, outcomes):
		shown = codec.render(dict(payload[2])[member]) if op == 'ser' else payload.hex()
		check.case(f'{net.name}:{host_name}.{member}:python-O:{op}:{expectation}', shown)
		if (observed == 'ok') == (expectation == 'ok'):
			continue
		what = {'ser': 'serialize', 'des': 'deserialize'}[op]
		refused = 'accepts' if observed == 'ok' else f'refuses ({observed})'
		check.fail(signature(f'python-O-{op}-order', host_name, shown),
			f'{net.name}.{host_name}.{member}: in an interpreter started with -O, {what} {refused} '
			f'{"a value" if op == "ser" else "bytes"} whose keyed entries are: {label}',
			{'network': net.name, 'class': host_name, 'member': member, 'op': f'python-O-{op}', 'expected': expectation, 'observed': observed,
				'input': codec.tree_to_json(payload) if op == 'ser' else payload.hex(), 'arrangement': label, 'shown': shown[:600]})


def signature(kind, name, payload):
	return f'{kind}:{name}:' + hashlib.sha256(repr(payload).encode('utf8')).hexdigest()[:12]


class _Discard(list):
	def append(self, item):
		pass


def run_array(check, net, host, field, exprs, expected, meta, pending=None):
	rng = check.rng
	array_type = field.field_type
	element_model = net.by_name[array_type.element_type]
	if codec.kind(next(f for f in element_model.fields if f.name == array_type.sort_key).field_type) == 'Array':
		# array-valued sort keys are outside the Layout model (elem_key answers Unsupported): implementation + property oracle only
		exprs, expected, meta = _Discard(), _Discard(), _Discard()
	variants = key_variants(net, array_type, rng)
	generator = codec.Generator(net, rng)
	host_value = generator.struct(host, 0)
	host_cls = getattr(net.module, host.name)
	max_size = 3 if check.tier == 'quick' else 4
	subsets = [[]]
	for size in range(1, max_size + 1):
		for _ in range(3 if check.tier == 'quick' else 12):
			subsets.append([rng.choice(variants) for _ in range(size)])      # with replacement: equal keys occur
	# equal keys systematically (first, in the middle, last), whatever the random subsets hold: the same entry twice, and two entries
	# that share the key but differ in their other members
	for variant in variants[:6]:
		subsets.append([variant, variant])
		other = generator.struct(net.by_name[array_type.element_type], 1)
		twin = ('S', variant[1], [(name, value if name == array_type.sort_key else dict(other[2]).get(name, value)) for name, value in variant[2]])
		if twin != variant:
			subsets.append([variant, twin])
			subsets.append([twin, variant])
	subsets.append([variants[0], variants[0], variants[-1]])
	subsets.append([variants[0], variants[-1], variants[-1]])
	# equal keys held by one object (one key object on two entries, one entry object twice); the order checks once more under python -O
	shared_object_cases(check, net, host, field, host_value, variants, generator)
	if pending is not None:
		pending.append((host, field, host_value, variants))
	for entries in subsets:
		keys = [codec.sort_key_of(net, array_type, e) for e in entries]
		distinct = len(set(keys)) == len(keys)
		sorted_keys = None
		for permutation in itertools.islice(itertools.permutations(range(len(entries))), 24):
			ordered = [entries[i] for i in permutation]
			value = ('S', host_value[1], [(name, ordered if name == field.name else member) for name, member in host_value[2]])
			try:
				obj = codec.to_object(net, host.name, value)
			except codec.Inadmissible:
				continue
			perm_keys = [keys[i] for i in permutation]
			ascending = all(a < b for a, b in zip(perm_keys, perm_keys[1:]))
			# (a) sort()
			sort_result = limited(lambda o=obj: (o.sort(), codec.from_object(net, host.name, o))[1])
			if sort_result[0] == 'ok':
				after = dict(sort_result[1][2])[field.name]
				text = 'ok:' + codec.render(after)
				after_keys = [codec.sort_key_of(net, array_type, e) for e in after]
				if sorted(after_keys) != sorted(keys) or any(a > b for a, b in zip(after_keys, after_keys[1:])) \
					or (distinct and any(a >= b for a, b in zip(after_keys, after_keys[1:]))):
					check.fail(signature('sort-not-ascending', host.name, codec.render(ordered)),
						f'{net.name}.{host.name}.{field.name}: sort() does not leave the array in ascending key order',
						{'network': net.name, 'class': host.name, 'member': field.name, 'entries': codec.render(ordered), 'after': text})
				if distinct:
					if sorted_keys is None:
						sorted_keys = text
					elif sorted_keys != text:
						check.fail(signature('sort-order-dependent', host.name, codec.render(ordered)),
							f'{net.name}.{host.name}.{field.name}: sort() result depends on the initial order',
							{'network': net.name, 'class': host.name, 'member': field.name, 'entries': codec.render(ordered)})
				again = limited(lambda o=obj: (o.sort(), codec.from_object(net, host.name, o))[1])
				if again[0] != 'ok' or dict(again[1][2])[field.name] != after:
					check.fail(signature('sort-not-idempotent', host.name, codec.render(ordered)),
						f'{net.name}.{host.name}.{field.name}: a second sort() changes the array',
						{'network': net.name, 'class': host.name, 'member': field.name, 'entries': codec.render(ordered)})
				# stateful use: change one entry's key IN PLACE after a sort and sort / serialize again (stale cached keys, stale order)
				if len(ordered) >= 2:
					stateful_scenario(check, net, host, field, array_type, value, variants)
			else:
				text = fmt(sort_result, str)
			exprs.append(f'case_sort {net.coq_schema} "{host.name}" "{field.name}" [{"; ".join(codec.coq_value(e) for e in ordered)}]')
			expected.append(text)
			meta.append(('sort', host.name, codec.render(ordered)))
			check.case(f'{net.name}:{host.name}.{field.name}:sort:{"distinct" if distinct else "equal-keys"}', codec.render(ordered))
			# (b) serialize accepts exactly the strictly ascending orders
			obj = codec.to_object(net, host.name, value)
			ser = impl_ser(obj)
			exprs.append(f'case_ser {net.coq_schema} "{host.name}" {codec.coq_value(value)}')
			expected.append(ser)
			meta.append(('ser', host.name, codec.render(value)))
			check.case(f'{net.name}:{host.name}.{field.name}:ser:{"ascending" if ascending else "unordered"}', codec.render(value))
			accepted = ser.startswith('ok:')
			if accepted != ascending:
				check.fail(signature('encode-order', host.name, codec.render(ordered)),
					f'{net.name}.{host.name}.{field.name}: serialize {"accepts" if accepted else "refuses"} an array whose keys are '
					f'{"strictly ascending" if ascending else "out of order or duplicated"}',
					{'network': net.name, 'class': host.name, 'member': field.name, 'entries': codec.render(ordered), 'observed': ser[:200]})
		# (c) bytes with the element blocks permuted must not decode
		if not distinct or len(entries) < 2:
			continue
		order = sorted(range(len(entries)), key=lambda i: keys[i])
		in_order = [entries[i] for i in order]
		value = ('S', host_value[1], [(name, in_order if name == field.name else member) for name, member in host_value[2]])
		good = impl_ser(codec.to_object(net, host.name, value))
		if not good.startswith('ok:'):
			continue
		data = bytes.fromhex(good.split('|')[0][3:])
		blocks = [bytes(codec.to_object(net, array_type.element_type, e).serialize()) for e in in_order]
		joined = b''.join(blocks)
		position = data.find(joined)
		if position < 0 or data.find(joined, position + 1) >= 0:
			continue
		for permutation in itertools.islice(itertools.permutations(range(len(blocks))), 1, 8):
			shuffled = data[:position] + b''.join(blocks[i] for i in permutation) + data[position + len(joined):]
			duplicate = data[:position] + b''.join([blocks[0]] * len(blocks)) + data[position + len(joined):]
			for variant, how in ((shuffled, 'permuted'), (duplicate, 'duplicated')):
				des_text, decoded = impl_des(net, host.name, variant)
				exprs.append(f'case_des {net.coq_schema} "{host.name}" {blit(variant)}')
				expected.append(des_text)
				meta.append(('des', host.name, variant.hex()))
				check.case(f'{net.name}:{host.name}.{field.name}:des:{how}', variant.hex())
				if decoded is not None:
					check.fail(signature('decode-order', host.name, variant.hex()),
						f'{net.name}.{host.name}.{field.name}: bytes holding {how} entries decode',
						{'network': net.name, 'class': host.name, 'member': field.name, 'bytes': variant.hex()})


def run(check, unrecognised):
	check.trusted += [
		'translator harness/gens/c01.py (ArrayOps operators, SchemaSc/SchemaNc)', 'harness/codec.py (value trees, independent key reading sort_key_of)',
		'modelled, not verified: Python sorted() stability (modelled as a stable insertion sort), tuple/bytes comparison semantics of CPython']
	check.assume += ['restriction and namespace state entries named in the property are not generated into the shipped sc/nc modules '
		'(all_generated.cats excludes state schemas); they are covered by the theorems (any schema) and, after the C18 fix, can be generated: see C15']
	check.extra['rule'] = 'every keyed array of sc and nc x subsets (with replacement) of key-probing entries x up to 24 permutations -> sort(), serialize; ' \
		'element blocks of valid encodings permuted/duplicated -> deserialize; equal keys held by ONE object (a key object attached to two ' \
		'entries, an entry object listed twice; first, in the middle, apart before sort()) -> serialize as built and after sort(); per array a ' \
		'control + unordered + duplicated values and byte strings once more in a child interpreter started with -O; ' \
		'distinct = distinct (array, entry order)'
	if unrecognised.get('ArrayOps'):
		check.notes.append(f'anchors not recognised, pinned operators used: {unrecognised["ArrayOps"]}')
	check.prove('C12.v')
	codec.setup_paths()
	arrays_seen = []
	for name in ('symbol', 'nem'):
		try:
			net = codec.load_net(name)
		except Exception as ex:  # pylint: disable=broad-except
			check.fail(f'module-import:{name}', f'codec module or schema of {name} cannot be loaded: {type(ex).__name__}: {ex}', {'network': name})
			continue
		exprs, expected, meta, pending = [], [], [], []
		for host, field in keyed_arrays(net):
			arrays_seen.append(f'{name}.{host.name}.{field.name} key={field.field_type.sort_key}')
			run_array(check, net, host, field, exprs, expected, meta, pending)
			nested_scenario(check, net, host, field)
		run_optimized(check, net, pending)
		compare_with_model(check, net, exprs, expected, meta, f'c12{name}')
	run_state_entries(check, arrays_seen)
	check.extra['keyed_arrays'] = arrays_seen


def wrappers_of(net, host):
	"""(struct, member) pairs whose member can hold a `host` object: declared as the host itself or as the abstract family it belongs to."""
	accepted = {host.name}
	if host.factory_type:
		accepted.add(host.factory_type)
	found = []
	for model in net.models:
		if codec.kind(model) != 'Struct' or model.name == host.name:
			continue
		for member in codec.settable_fields(model):
			if isinstance(member.field_type, str) and member.field_type in accepted:
				found.append((model, member))
	return found


def holding_chains(net, host, depth=2):
	"""Chains [(struct, member), ...] from the outermost holder down to the member that holds `host` (length 1 and 2)."""
	chains = []
	for wrapper, member in wrappers_of(net, host):
		chains.append([(wrapper, member)])
		if depth >= 2:
			for outer, outer_member in wrappers_of(net, wrapper):
				if outer.name != host.name:
					chains.append([(outer, outer_member), (wrapper, member)])
	return chains


def value_holding(generator, chain, inner):
	"""A value of the outermost struct of `chain` whose members along the chain are present and hold `inner` at the end (conditional
	holders: the generator is asked again until the arm is the selected one)."""
	struct, member = chain[0]
	held = inner if len(chain) == 1 else value_holding(generator, chain[1:], inner)
	if held is None:
		return None
	for _ in range(40):
		base = generator.struct(struct, 0)
		if dict(base[2]).get(member.name) is not None:
			return ('S', base[1], [(name, held if name == member.name else value) for name, value in base[2]])
	return None


def nested_scenario(check, net, host, field):
	"""sort() of an enclosing object reaches the keyed arrays of the objects it holds, one and two levels down (what factory autosort relies
	on), whatever the declared type of the holding member (the concrete struct, its abstract family, one arm of a union); the sorted
	enclosing object then encodes."""
	rng = check.rng
	array_type = field.field_type
	generator = codec.Generator(net, rng)
	variants = key_variants(net, array_type, rng)
	for chain in holding_chains(net, host):
		outermost = chain[0][0]
		label = '->'.join(f'{struct.name}.{member.name}' for struct, member in chain)
		for _ in range(3 if check.tier == 'quick' else 10):
			entries, keys = [], []
			for entry in rng.sample(variants, len(variants)):
				key = codec.sort_key_of(net, array_type, entry)
				if key not in keys:
					keys.append(key)
					entries.append(entry)
				if len(entries) == 3:
					break
			if len(entries) < 2:
				break
			ascending_order = sorted(range(len(entries)), key=lambda i: keys[i])
			permutation = rng.choice([p for p in itertools.permutations(range(len(entries))) if list(p) != ascending_order])
			ordered = [entries[i] for i in permutation]
			inner_base = generator.struct(host, 0)
			inner = ('S', inner_base[1], [(name, ordered if name == field.name else value) for name, value in inner_base[2]])
			outer = value_holding(generator, chain, inner)
			if outer is None:
				break
			try:
				obj = codec.to_object(net, outermost.name, outer)
			except codec.Inadmissible:
				continue
			check.case(f'{net.name}:{label}->{host.name}.{field.name}:nested-sort', codec.render(outer))
			result = limited(lambda o=obj: (o.sort(), codec.from_object(net, outermost.name, o))[1])
			if result[0] != 'ok':
				continue
			held = result[1]
			for _, member in chain:
				held = dict(held[2]).get(member.name) if isinstance(held, tuple) else None
			after = dict(held[2])[field.name] if isinstance(held, tuple) else None
			after_keys = [codec.sort_key_of(net, array_type, e) for e in after] if after is not None else None
			serialized = limited(lambda o=obj: bytes(o.serialize()))
			if after_keys != sorted(keys) or serialized[0] != 'ok':
				check.fail(signature('nested-sort', label, codec.render(ordered)),
					f'{net.name}.{outermost.name}: sort() leaves {label}.{field.name} (a {host.name}) '
					f'{"in ascending key order" if after_keys == sorted(keys) else "NOT in ascending key order"} and serialize() '
					f'{"succeeds" if serialized[0] == "ok" else "fails: " + str(serialized[1:])[:120]}',
					{'network': net.name, 'class': outermost.name, 'member': label, 'held': host.name, 'entries': codec.render(ordered)})


def compare_with_model(check, net, exprs, expected, meta, tag):
	models = coq_eval(PRELUDE + net.coq_import, exprs, tag, shard=40)
	for impl_text, model_text, info in zip(expected, models, meta):
		if coarse(impl_text) != coarse(model_text):
			check.disagree(f'Layout/Sort-vs-{net.module.__name__}', {'op': info[0], 'class': info[1], 'input': info[2][:600]}, impl_text[:500], model_text[:500])
	for expr, impl_text in list(zip(exprs, expected))[:2]:
		check.sample({'model_case': expr[:400], 'implementation': impl_text[:300]})


def run_state_entries(check, arrays_seen):
	"""The restriction and namespace state entries are not part of the shipped sc module (all_generated.cats leaves the state schemas out):
	the real generator compiles catbuffer/schemas/symbol/all.cats into a scratch package on every run and the keyed arrays that only
	exist there go through the same cases."""
	from . import c15
	scratch = common.scratch_dir('c12state')
	try:
		schema = common.REPO / 'catbuffer/schemas/symbol/all.cats'
		status, out = c15.run_generator(schema, scratch / 'out_0_a', '0')
		if status != 0:
			check.fail('state-codecs-not-generated', f'the generator fails on symbol/all.cats: {out[-400:]}', {'schema': str(schema)})
			return
		package = c15.prepare_package(scratch)
		net = c15.load_generated(scratch, package, 0, schema)
		net.name = 'symbol-state'
		shipped = {model.name for model in codec.load_net('symbol').models}
		exprs, expected, meta, pending = [], [], [], []
		for host, field in keyed_arrays(net):
			if host.name in shipped:
				continue
			arrays_seen.append(f'{net.name}.{host.name}.{field.name} key={field.field_type.sort_key}')
			run_array(check, net, host, field, exprs, expected, meta, pending)
			nested_scenario(check, net, host, field)
		run_optimized(check, net, pending, extra_paths=[scratch / 'pkg'])
		compare_with_model(check, net, exprs, expected, meta, 'c12state')
	finally:
		shutil.rmtree(scratch, ignore_errors=True)


BASELINE_INTERPRETER = '/venv/bin/python'      # (run.py re-executes this check under it; a replay started by another python uses it for the -O child)


def replay(data):
	"""Re-evaluates the recorded input on the implementation of the current tree where the record carries it (equal keys held by one
	object; the python -O family); other records are printed."""
	codec.setup_paths()
	info = data['replay']
	print('replay data:', {k: str(v)[:300] for k, v in info.items()})
	op = info.get('op', '')
	if info.get('network') not in ('symbol', 'nem') or not (op == 'equal-keys-one-object' or op.startswith('python-O-')):
		return 1
	net = codec.load_net(info['network'])
	if op == 'equal-keys-one-object':
		problem = shared_problem(net, info['class'], info['member'], codec.tree_from_json(info['input']), info['sharing'], info['positions'])
	else:
		case = ('ser', info['class'], codec.tree_from_json(info['input'])) if op == 'python-O-ser' else ('des', info['class'], bytes.fromhex(info['input']))
		interpreter = BASELINE_INTERPRETER if os.path.exists(BASELINE_INTERPRETER) else sys.executable
		observed = optimized_outcomes(net, [case], interpreter=interpreter)[0]
		print(f'{interpreter} -O:', observed, '(the property expects', info['expected'] + ')')
		problem = None if (observed == 'ok') == (info['expected'] == 'ok') else \
			f'in an interpreter started with -O the {"value" if case[0] == "ser" else "bytes"} with keyed entries "{info["arrangement"]}" ' \
			f'{"accepted" if observed == "ok" else "refused"}'
	print('property:', f'VIOLATED ({info["network"]}.{info["class"]}.{info["member"]}: {problem})' if problem else 'holds')
	return 1 if problem else 0
