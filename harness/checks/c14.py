"""C14: both parties derive one shared key; messages round-trip and resist tampering (Symbol and NEM)."""
import hashlib
import warnings

from .. import edmodel
from ..common import SHIMS, run as run_command
from ..edmodel import hexarg
from .c07 import rand_bytes

MANIFEST = {
	'text': 'proof, partial. Qed theorems (Props/C14.v): for every commutative group with Z-action, base point of order L and injective '
		'decodable encoding (Section hypotheses, no axioms) the shared secret of (a, pub b) equals that of (b, pub a) and is the encoded '
		'product of the clamped hashed private scalar and the public point (shared_symmetric, shared_key_def: HKDF-SHA256 with 32 zero salt '
		'bytes and the network label over it, NEM with Keccak-512 over the re-reversed key; the three clamp formulas of the code -- byte masks '
		'of nem/KeyPair.py, RFC 8032 masks, the arithmetic form of external/ed25519.py -- are proved equal for all digests); keys that are '
		'not canonical or not in the main subgroup are refused (refuses_noncanonical, refuses_outside_subgroup). Message framing in a Section '
		'over an abstract AEAD (hypothesis open_seal) and CBC cipher (hypothesis dec_enc): recipient and sender recover the plaintext in the '
		'current, deprecated (hex wrapper / NEM CBC) and delegation formats (try_decode_encode_*), and whenever the AEAD refuses, Symbol '
		'try_decode returns (false, the encoded bytes) and never a plaintext (tamper_clean). PARTIAL because (1) that the integer arithmetic '
		'EdZ satisfies the group hypotheses (Curve25519 group law) is NOT proved: named premise EdZ_group_premise, sampled only; (2) AES-GCM / '
		'AES-CBC / HKDF of cryptography/OpenSSL are premises (open_seal, dec_enc) or compared by sampling (HKDF against the Gallina HKDF); '
		'that tampering makes the AEAD refuse is AES-GCM authenticity, not a theorem. Correspondence: Python derive_shared_key vs the '
		'zarith-extracted model byte for byte in both directions incl. refused keys; Python-encoded messages are unframed by the model, '
		'opened with the model-derived key through cryptography as AEAD oracle, and re-framed by the model byte for byte.',
	'design_ref': 'DESIGN.md section 4, C14',
	'technique': 'Coq proof over an abstract group / abstract AEAD + regenerated framing constants; zarith-extracted executable model '
		'(cross-checked by vm_compute each run) compared with the Python implementation; oracle from the property text',
}

PLAINTEXT_SIZES = [0, 15, 16, 17, 1024]
TORSION = edmodel.r_point_decompress(bytes.fromhex('26e8958fc2b227b045c3f489f2ef98f0d5dfac05d3c63339b13802886d53fc05'))   # order 8


def key_pair_of(net, secret):
	from symbolchain.CryptoTypes import PrivateKey
	if net == 'sym':
		from symbolchain.symbol.KeyPair import KeyPair
	else:
		from symbolchain.nem.KeyPair import KeyPair
	return KeyPair(PrivateKey(secret))


def shared_key_class(net):
	if net == 'sym':
		from symbolchain.symbol.SharedKey import SharedKey
	else:
		from symbolchain.nem.SharedKey import SharedKey
	return SharedKey


def encoder_of(net, secret):
	if net == 'sym':
		from symbolchain.symbol.MessageEncoder import MessageEncoder
	else:
		from symbolchain.nem.MessageEncoder import MessageEncoder
	return MessageEncoder(key_pair_of(net, secret))


def hasher_of(net):
	return edmodel.sha512 if net == 'sym' else edmodel.keccak512


def prepared(net, secret):
	return secret if net == 'sym' else secret[::-1]


def public_of(net, secret):
	return edmodel.r_public(hasher_of(net), prepared(net, secret))


LABELS = {'sym': b'catapult', 'nem': b'nem-nis1'}


# ---------------------------------------------------------------------------------------------------------------------
# shared keys

def bad_public_keys(rng, net):
	"""(what, key bytes): encodings the property says must be refused, and a few the property is silent about."""
	honest = edmodel.r_point_decompress(public_of(net, rand_bytes(rng, 32)))
	mixed = edmodel.r_point_compress(edmodel.r_point_add(honest, edmodel.r_point_mul(rng.choice([1, 2, 3, 4, 5, 6, 7]), TORSION)))
	result = [
		('outside-subgroup', mixed),
		('outside-subgroup', bytes.fromhex('26e8958fc2b227b045c3f489f2ef98f0d5dfac05d3c63339b13802886d53fc05')),
		('outside-subgroup', bytes(32)),                                                    # y = 0: order 4
		('non-canonical', (edmodel.RP + rng.choice([0, 1, 3, 4, 18])).to_bytes(32, 'little')),
		('non-canonical', ((edmodel.RP + 1) | (1 << 255)).to_bytes(32, 'little')),
		('non-canonical', bytes([255] * 32)),
		('neutral', bytes([1] + [0] * 31)),                                                 # in the prime-order subgroup: the property does not refuse it
	]
	while True:
		candidate = rand_bytes(rng, 32)
		if edmodel.r_point_decompress(candidate) is None and int.from_bytes(candidate, 'little') & ((1 << 255) - 1) < edmodel.RP:
			result.append(('not-on-curve', candidate))
			break
	return result


def gen_shared_cases(rng, pairs):
	cases = []
	for index in range(pairs):
		net = 'sym' if index % 2 == 0 else 'nem'
		first = bytes(32) if index == 2 else rand_bytes(rng, 32)
		second = bytes([255] * 32) if index == 3 else rand_bytes(rng, 32)
		cases.append({'kind': 'shared', 'net': net, 'a': first.hex(), 'b': second.hex()})
		if index % 3 == 0:
			for what, key in bad_public_keys(rng, net):
				cases.append({'kind': 'shared-bad-key', 'net': net, 'a': first.hex(), 'public': key.hex(), 'what': what})
				if net == 'nem':
					# the salted derivation of the deprecated message format takes the same public keys and refuses the same ones
					cases.append({
						'kind': 'shared-deprecated-bad-key', 'net': net, 'a': first.hex(), 'public': key.hex(), 'what': what,
						'salt': rng.choice([bytes(32), rand_bytes(rng, 32)]).hex()})
		if net == 'nem':
			cases.append({'kind': 'shared-deprecated', 'net': net, 'a': first.hex(), 'b': second.hex(), 'salt': rand_bytes(rng, 32).hex()})
	return cases


def derive(net, secret, public, salt=None):
	from symbolchain.CryptoTypes import PublicKey
	try:
		if salt is None:
			return shared_key_class(net).derive_shared_key(key_pair_of(net, secret), PublicKey(public)).bytes.hex()
		return shared_key_class(net).derive_shared_key_deprecated(key_pair_of(net, secret), PublicKey(public), salt).bytes.hex()
	except ValueError as ex:
		text = str(ex)
		for needle, name in (('not canonical', 'not-canonical'), ('not on curve', 'not-on-curve'), ('not in main subgroup', 'not-in-main-subgroup')):
			if needle in text:
				return f'reject:{name}'
		return 'reject'
	except Exception as ex:  # pylint: disable=broad-except
		return f'crash:{type(ex).__name__}'


def impl_shared(case):
	if case['kind'] == 'shared-session':
		return impl_shared_session(case)
	net, first = case['net'], bytes.fromhex(case['a'])
	if case['kind'] == 'shared-bad-key':
		return [derive(net, first, bytes.fromhex(case['public']))]
	if case['kind'] == 'shared-deprecated-bad-key':
		return [derive(net, first, bytes.fromhex(case['public']), bytes.fromhex(case['salt']))]
	second = bytes.fromhex(case['b'])
	pub_a, pub_b = key_pair_of(net, first).public_key.bytes, key_pair_of(net, second).public_key.bytes
	salt = bytes.fromhex(case['salt']) if case['kind'] == 'shared-deprecated' else None
	return [derive(net, first, pub_b, salt), derive(net, second, pub_a, salt)]


def model_shared(cases):
	requests, spans = [], []
	for case in cases:
		net = case['net']
		if case['kind'] == 'shared-bad-key':
			mine = [f'shared {net} {case["a"]} {case["public"]}']
		elif case['kind'] == 'shared-deprecated-bad-key':
			mine = [f'shareddep nem {case["a"]} {case["public"]} {case["salt"]}']
		elif case['kind'] == 'shared-session':
			mine = []
			for step in case['steps']:
				pub_a, pub_b = public_of(step['net'], bytes.fromhex(step['a'])).hex(), public_of(step['net'], bytes.fromhex(step['b'])).hex()
				mine += [f'shared {step["net"]} {step["a"]} {pub_b}', f'shared {step["net"]} {step["b"]} {pub_a}']
		else:
			pub_a, pub_b = public_of(net, bytes.fromhex(case['a'])).hex(), public_of(net, bytes.fromhex(case['b'])).hex()
			if case['kind'] == 'shared':
				mine = [f'shared {net} {case["a"]} {pub_b}', f'shared {net} {case["b"]} {pub_a}', f'pub {net} {case["a"]}', f'pub {net} {case["b"]}']
			else:
				mine = [f'shareddep nem {case["a"]} {pub_b} {case["salt"]}', f'shareddep nem {case["b"]} {pub_a} {case["salt"]}']
		spans.append((len(requests), len(mine)))
		requests += mine
	answers = edmodel.query(requests)
	return [answers[start:start + count] for start, count in spans]


def oracle_shared(case, out):
	net = case['net']
	if any(value.startswith('crash') for value in out):
		return f'shared key derivation raised {out}'
	if case['kind'] in ('shared-bad-key', 'shared-deprecated-bad-key'):
		if case['what'] in ('non-canonical', 'outside-subgroup', 'not-on-curve'):
			through = ' by the deprecated (salted) derivation' if case['kind'] == 'shared-deprecated-bad-key' else ''
			return None if out[0].startswith('reject') else f'a public key that is {case["what"]} is not refused{through}: {out[0]}'
		return None
	if case['kind'] == 'shared-session':
		return oracle_shared_session(case, out)
	if out[0] != out[1]:
		return f'the two directions give different keys: {out[0]} vs {out[1]}'
	if case['kind'] == 'shared':
		first, second = bytes.fromhex(case['a']), bytes.fromhex(case['b'])
		product = edmodel.r_shared_point(hasher_of(net), prepared(net, first), public_of(net, second))
		expected = edmodel.hkdf_sha256(product, LABELS[net]).hex()
		if out[0] != expected:
			return f'shared key {out[0]} is not HKDF-SHA256(zero salt, {LABELS[net]!r}) of the encoded product ({expected})'
	return None


def gen_shared_sessions(rng, count):
	"""ONE process derives on both networks, one after the other (both orders, the first network again at the end), with secrets whose
	32 bytes are related across the networks: the same bytes, the byte-reversed ones (an account migrated from NEM: NEM hashes the
	reversed key), palindromic ones, unrelated ones.  Per step: both directions, and a current-format message from a to b read by both."""
	cases = []
	relations = ['reversed', 'same', 'palindrome', 'reversed', 'unrelated']
	for index in range(count):
		relation = relations[index % len(relations)]
		first, second = rand_bytes(rng, 32), rand_bytes(rng, 32)
		if relation == 'palindrome':
			first, second = first[:16] + first[:16][::-1], second[:16] + second[:16][::-1]
		nets = ['sym', 'nem', 'sym'] if (index // len(relations) + index) % 2 == 0 else ['nem', 'sym', 'nem']
		steps = []
		for position, net in enumerate(nets[:2 + index % 2]):
			if position % 2 == 0 or relation in ('same', 'palindrome'):
				a, b = first, second
			elif relation == 'reversed':
				a, b = first[::-1], second[::-1]
			else:
				a, b = rand_bytes(rng, 32), rand_bytes(rng, 32)
			steps.append({'net': net, 'a': a.hex(), 'b': b.hex()})
		cases.append({'kind': 'shared-session', 'net': 'both', 'what': relation, 'steps': steps, 'plaintext': rand_bytes(rng, rng.choice([0, 5, 16, 40])).hex()})
	return cases


def impl_shared_session(case):
	from symbolchain.CryptoTypes import PublicKey
	out = []
	plaintext = bytes.fromhex(case['plaintext'])
	for step in case['steps']:
		net, first, second = step['net'], bytes.fromhex(step['a']), bytes.fromhex(step['b'])
		pub_a, pub_b = key_pair_of(net, first).public_key.bytes, key_pair_of(net, second).public_key.bytes
		out += [derive(net, first, pub_b), derive(net, second, pub_a)]
		try:
			encoded = encoder_of(net, first).encode(PublicKey(pub_b), plaintext)
			data = encoded if net == 'sym' else bytes(encoded.message)
			out.append(impl_decode({'net': net, 'deprecated': False, 'secret': step['b'], 'public': pub_a.hex(), 'encoded': data}))
			out.append(impl_decode({'net': net, 'deprecated': False, 'secret': step['a'], 'public': pub_b.hex(), 'encoded': data}))
		except Exception as ex:  # pylint: disable=broad-except
			out += [f'crash:{type(ex).__name__}'] * 2
	return out


def oracle_shared_session(case, out):
	done = []
	for number, step in enumerate(case['steps']):
		net, first, second = step['net'], bytes.fromhex(step['a']), bytes.fromhex(step['b'])
		forward, backward, recipient, sender = out[4 * number:4 * number + 4]
		product = edmodel.r_shared_point(hasher_of(net), prepared(net, first), public_of(net, second))
		expected = edmodel.hkdf_sha256(product, LABELS[net]).hex()
		where = f'step {number + 1} ({net}, secrets {step["a"][:8]}.. / {step["b"][:8]}..) of one process' + (f' after {", ".join(done)}' if done else '')
		if forward != backward:
			return f'{where}: the two directions give different keys: {forward} vs {backward}'
		if forward != expected:
			return f'{where}: shared key {forward} is not HKDF-SHA256(zero salt, {LABELS[net]!r}) of the encoded product ({expected})'
		for role, seen in (('recipient', recipient), ('sender', sender)):
			if seen != f'ok:T:{case["plaintext"]}':
				return f'{where}: the {role} does not recover the plaintext of a current-format message: {seen[:120]}'
		done.append(f'deriving and exchanging a message on {net} with secrets {step["a"][:8]}.. / {step["b"][:8]}..')
	return None


# ---------------------------------------------------------------------------------------------------------------------
# AES oracle (cryptography) driven by the model's probe arguments

def parse_probe(answer):
	"""'ok:T:<probe args>' -> list of byte strings (2-byte little-endian length prefixes); None if it is not a probe answer."""
	if not answer.startswith('ok:T:'):
		return None
	data, parts = bytes.fromhex(answer[5:]), []
	while data:
		size = int.from_bytes(data[:2], 'little')
		parts.append(data[2:2 + size])
		data = data[2 + size:]
	return parts


def aes_gcm_open(key, iv, tag, ciphertext):
	from cryptography.exceptions import InvalidTag
	from cryptography.hazmat.primitives.ciphers.aead import AESGCM
	try:
		return AESGCM(key).decrypt(iv, ciphertext + tag, None)
	except InvalidTag:
		return None


def aes_gcm_seal(key, iv, plaintext):
	from cryptography.hazmat.primitives.ciphers.aead import AESGCM
	sealed = AESGCM(key).encrypt(iv, plaintext, None)
	return sealed[:-16], sealed[-16:]


def aes_cbc_open(key, iv, data):
	from cryptography.hazmat.primitives import padding
	from cryptography.hazmat.primitives.ciphers import Cipher, algorithms, modes
	try:
		decryptor = Cipher(algorithms.AES(key), modes.CBC(iv)).decryptor()
		clear = decryptor.update(data) + decryptor.finalize()
		unpadder = padding.PKCS7(128).unpadder()
		return unpadder.update(clear) + unpadder.finalize()
	except ValueError:
		return None


def aes_cbc_seal(key, iv, plaintext):
	from cryptography.hazmat.primitives import padding
	from cryptography.hazmat.primitives.ciphers import Cipher, algorithms, modes
	padder = padding.PKCS7(128).padder()
	padded = padder.update(plaintext) + padder.finalize()
	encryptor = Cipher(algorithms.AES(key), modes.CBC(iv)).encryptor()
	return encryptor.update(padded) + encryptor.finalize()


def model_decode(jobs):
	"""jobs: list of dicts {net, deprecated, secret, public, encoded[, type]}; returns the model's try_decode outcome for each,
	the AEAD / CBC primitive being `cryptography` applied to exactly the arguments the model hands to it."""
	def request(job, stage):
		if job['net'] == 'sym':
			return f'symdecode {1 if stage == 0 else 0} {1 if job["deprecated"] else 0} {job["secret"]} {job["public"]} {hexarg(job["encoded"])}'
		return f'nemdecode {stage} {job["secret"]} {job["public"]} {job.get("type", 2)} {hexarg(job["encoded"])}'

	results = [None] * len(jobs)
	pending = list(range(len(jobs)))
	for stage in (0, 1, 2):
		if not pending:
			break
		answers = edmodel.query([request(jobs[index], stage) for index in pending])
		still = []
		for index, answer in zip(pending, answers):
			job = jobs[index]
			parts = parse_probe(answer)
			final_stage = (stage == 1 and job['net'] == 'sym') or stage == 2
			if final_stage or parts is None:
				results[index] = answer
			elif stage == 0 and len(parts) == 4:
				opened = aes_gcm_open(parts[0], parts[1], parts[2], parts[3])
				if opened is None:
					still.append(index)
				else:
					results[index] = 'ok:T:' + opened.hex()
			elif stage == 1 and len(parts) == 3:
				opened = aes_cbc_open(parts[0], parts[1], parts[2])
				if opened is None:
					still.append(index)
				else:
					results[index] = 'ok:T:' + opened.hex()
			else:
				results[index] = answer    # a genuine decoded payload that merely looks like probe output cannot occur: probes are the only openers
		pending = still
	return results


def impl_decode(job):
	from symbolchain.CryptoTypes import PublicKey
	encoder = encoder_of(job['net'], bytes.fromhex(job['secret']))
	try:
		with warnings.catch_warnings():
			warnings.simplefilter('ignore')
			if job['net'] == 'sym':
				function = encoder.try_decode_deprecated if job['deprecated'] else encoder.try_decode
				decoded, message = function(PublicKey(bytes.fromhex(job['public'])), job['encoded'])
			else:
				from symbolchain.nc import Message, MessageType
				wrapped = Message()
				wrapped.message_type = MessageType(job.get('type', 2))
				wrapped.message = job['encoded']
				decoded, message = encoder.try_decode(PublicKey(bytes.fromhex(job['public'])), wrapped)
				if not decoded:
					message = message.message
		return f'ok:{"T" if decoded else "F"}:{bytes(message).hex()}'
	except ValueError:
		return 'reject'
	except Exception as ex:  # pylint: disable=broad-except
		return f'crash:{type(ex).__name__}'


# ---------------------------------------------------------------------------------------------------------------------
# messages

FORMATS = {'sym': ['current', 'deprecated', 'delegation'], 'nem': ['current', 'deprecated']}


def impl_encode(case):
	"""Encodes with the real encoder (random iv / salt / ephemeral key of the code); returns the encoded bytes."""
	from symbolchain.CryptoTypes import PublicKey
	net, fmt = case['net'], case['format']
	sender, recipient = bytes.fromhex(case['a']), bytes.fromhex(case['b'])
	recipient_public = PublicKey(key_pair_of(net, recipient).public_key.bytes)
	plaintext = bytes.fromhex(case['plaintext'])
	with warnings.catch_warnings():
		warnings.simplefilter('ignore')
		if net == 'sym':
			from symbolchain.symbol.MessageEncoder import MessageEncoder
			if fmt == 'current':
				return encoder_of(net, sender).encode(recipient_public, plaintext)
			if fmt == 'deprecated':
				return encoder_of(net, sender).encode_deprecated(recipient_public, plaintext)
			if case.get('ephemeral'):
				# the ephemeral key the encoder draws is fixed for this case (its public key starts with a byte of the delegation marker)
				from unittest import mock
				from symbolchain.CryptoTypes import PrivateKey
				with mock.patch.object(PrivateKey, 'random', staticmethod(lambda: PrivateKey(bytes.fromhex(case['ephemeral'])))):
					return MessageEncoder.encode_persistent_harvesting_delegation(
						recipient_public, key_pair_of(net, plaintext[:32]), key_pair_of(net, plaintext[32:64]))
			return MessageEncoder.encode_persistent_harvesting_delegation(
				recipient_public, key_pair_of(net, plaintext[:32]), key_pair_of(net, plaintext[32:64]))
		encoder = encoder_of(net, sender)
		if case.get('nonce') and fmt == 'current':
			from unittest import mock
			from symbolchain.impl import CipherHelpers
			with mock.patch.object(CipherHelpers, 'secrets', FixedDraws(bytes.fromhex(case['nonce']))):
				message = encoder.encode(recipient_public, plaintext)
		else:
			message = encoder.encode(recipient_public, plaintext) if fmt == 'current' else encoder.encode_deprecated(recipient_public, plaintext)
		assert message.message_type.value == 2
		return bytes(message.message)


def gen_message_cases(rng, pairs):
	cases = []
	for index in range(pairs):
		net = 'sym' if index % 2 == 0 else 'nem'
		first, second, third = rand_bytes(rng, 32), rand_bytes(rng, 32), rand_bytes(rng, 32)
		for fmt in FORMATS[net]:
			sizes = PLAINTEXT_SIZES if index < 4 else [rng.choice(PLAINTEXT_SIZES), rng.randrange(0, 200)]
			for size in ([64] if fmt == 'delegation' else sizes):
				cases.append({
					'kind': 'message', 'net': net, 'format': fmt, 'a': first.hex(), 'b': second.hex(), 'c': third.hex(),
					'plaintext': rand_bytes(rng, size).hex()})
	# delegation requests whose ephemeral public key begins with each byte of the 8-byte marker (prefix-stripping slips)
	first, second, third = rand_bytes(rng, 32), rand_bytes(rng, 32), rand_bytes(rng, 32)
	wanted = set(bytes.fromhex('FE2A8061577301E2'))
	found = {}
	for _ in range(20000):
		if len(found) == len(wanted):
			break
		secret = rand_bytes(rng, 32)
		lead = key_pair_of('sym', secret).public_key.bytes[0]
		if lead in wanted and lead not in found:
			found[lead] = secret
	for lead in sorted(found):
		cases.append({
			'kind': 'message', 'net': 'sym', 'format': 'delegation', 'a': first.hex(), 'b': second.hex(), 'c': third.hex(),
			'plaintext': rand_bytes(rng, 64).hex(), 'ephemeral': found[lead].hex()})
	return cases


class FixedDraws:
	"""Stands in for the `secrets` module inside impl/CipherHelpers: the encoder draws exactly this nonce (any nonce is a legitimate draw)."""

	def __init__(self, nonce):
		self.nonce = nonce

	def token_bytes(self, size):
		import secrets
		return self.nonce if size == len(self.nonce) else secrets.token_bytes(size)


def gen_two_layout_cases(rng, count):
	"""NEM messages in the CURRENT format (tag 16 | nonce 12 | ciphertext) that also have the shape of the DEPRECATED one (salt 32 | iv 16 |
	whole AES blocks): plaintext length = 4 (mod 16) and >= 36.  Among the nonces the encoder may draw, one is searched (from a seeded
	start, with the reference key derivations and cryptography's AES) for which the bytes, READ AS the deprecated layout, even carry valid
	PKCS7 padding -- the only thing besides authentication that tells the two formats apart.  The encoder is then made to draw that nonce.
	The message is an ordinary current-format message: recipient and sender must recover the plaintext."""
	import sha3
	cases = []
	for _ in range(count):
		first, second, third = rand_bytes(rng, 32), rand_bytes(rng, 32), rand_bytes(rng, 32)
		plaintext = rand_bytes(rng, 36 + 16 * rng.choice([0, 0, 1, 1, 2, rng.randrange(3, 12)]))
		point = edmodel.r_shared_point(edmodel.keccak512, first[::-1], public_of('nem', second))
		key = edmodel.hkdf_sha256(point, LABELS['nem'])
		nonce = None
		for _ in range(6000):
			candidate = rand_bytes(rng, 12)
			ciphertext, tag = aes_gcm_seal(key, candidate, plaintext)
			data = tag + candidate + ciphertext
			legacy_key = sha3.keccak_256(bytes(x ^ y for x, y in zip(point, data[:32]))).digest()
			if aes_cbc_open(legacy_key, data[32:48], data[48:]) is not None:
				nonce = candidate
				break
		case = {
			'kind': 'message', 'net': 'nem', 'format': 'current', 'a': first.hex(), 'b': second.hex(), 'c': third.hex(), 'plaintext': plaintext.hex(),
			'round_trip_only': True}
		if nonce is not None:
			case['nonce'] = nonce.hex()
		cases.append(case)
	return cases


def layout(net, fmt, encoded):
	"""Documented layout of an encoded message: offsets of (tag|salt, iv, ciphertext) in the binary form."""
	if net == 'sym':
		start = {'current': 1, 'deprecated': 1, 'delegation': 8 + 32}[fmt]
		return start, start + 16, start + 28
	return (0, 16, 28) if fmt == 'current' else (0, 32, 48)


def corruptions(rng, case, encoded, count):
	"""Single-byte corruptions of tag / iv / ciphertext (every region; for the hex wrapper: of the hex text)."""
	net, fmt = case['net'], case['format']
	tag_at, iv_at, ct_at = layout(net, fmt, encoded)
	if net == 'sym' and fmt == 'deprecated':
		regions = [(1, 1 + 32), (1 + 32, 1 + 56), (1 + 56, len(encoded))]
	else:
		regions = [(tag_at, iv_at), (iv_at, ct_at), (ct_at, len(encoded))]
	result = []
	for index in range(count):
		low, high = regions[index % 3]
		if high <= low:
			low, high = regions[0]
		position = rng.randrange(low, high)
		if index < 3:
			position = (low, high - 1, (low + high) // 2)[index] if index % 3 == 0 else position
		corrupted = bytearray(encoded)
		if net == 'sym' and fmt == 'deprecated' and index % 2 == 0:
			replacement = rng.choice([c for c in b'0123456789abcdef' if c != corrupted[position]])
			corrupted[position] = replacement
		else:
			corrupted[position] ^= rng.randrange(1, 256)
		result.append((position, bytes(corrupted)))
	return result


def run_messages(check, rng, cases, per_message):
	"""Encodes with the implementation, then compares implementation and model on: recipient / sender decoding, re-framing, corruptions
	and decoding with another key."""
	jobs, meta = [], []
	for case in cases:
		net, fmt = case['net'], case['format']
		try:
			encoded = impl_encode(case)
		except Exception as ex:  # pylint: disable=broad-except
			check.fail(signature_of(case), f'encoding raised {type(ex).__name__}: {ex}', {'case': case, 'how': 'run.py replay <this file>'})
			continue
		case = dict(case, encoded=encoded.hex())
		deprecated = net == 'sym' and fmt == 'deprecated'
		pub = {name: public_of(net, bytes.fromhex(case[name])).hex() for name in 'abc'}
		ephemeral = encoded[8:40].hex() if fmt == 'delegation' else None

		def job(role, secret, public, data, **extra):
			jobs.append({'net': net, 'deprecated': deprecated, 'secret': secret, 'public': public, 'encoded': data})
			meta.append(dict(extra, case=case, role=role))

		job('recipient', case['b'], pub['a'], encoded)
		if fmt != 'delegation':
			job('sender', case['a'], pub['b'], encoded)
		job('other-key', case['c'], pub['a'], encoded)
		if case.get('round_trip_only'):
			continue
		for position, corrupted in corruptions(rng, case, encoded, per_message):
			job('corrupted', case['b'], pub['a'], corrupted, position=position)
		if fmt == 'delegation':
			for _ in range(2):
				corrupted = bytearray(encoded)
				position = rng.randrange(8, 40)
				corrupted[position] ^= rng.randrange(1, 256)
				job('corrupted-ephemeral-key', case['b'], pub['a'], bytes(corrupted), position=position)
		for cut in (0, 1, 20, 27, len(encoded) - 1)[:3 if per_message < 20 else 5]:
			job('truncated', case['b'], pub['a'], encoded[:cut], position=cut)
	outs = [impl_decode(entry) for entry in jobs]
	models = model_decode(jobs)
	for entry, info, out, model in zip(jobs, meta, outs, models):
		case, role = info['case'], info['role']
		check.case(f'message:{case["net"]}:{case["format"]}:{role}:{out[:4]}', entry['secret'] + entry['public'] + entry['encoded'].hex())
		replay = {'case': {**case, 'kind': 'decode', 'role': role, 'job': {**entry, 'encoded': entry['encoded'].hex()}}, 'observed': out[:300], 'how': 'run.py replay <this file>'}
		if out != model:
			check.disagree('framing-model+AES-oracle-vs-MessageEncoder.try_decode', replay['case'], out[:300], model[:300])
		problem = oracle_decode(case, role, entry, out)
		if problem:
			check.fail(signature_of(replay['case']), problem, replay)
	return reframe(check, cases_with_encoding(meta))


def cases_with_encoding(meta):
	seen, result = set(), []
	for info in meta:
		key = info['case']['encoded']
		if key not in seen:
			seen.add(key)
			result.append(info['case'])
	return result


def oracle_decode(case, role, entry, out):
	plaintext = case['plaintext']
	if role in ('recipient', 'sender'):
		return None if out == f'ok:T:{plaintext}' else f'the {role} does not recover the plaintext of a {case["format"]} message: {out[:120]}'
	if case['net'] != 'sym':
		return None      # the property promises the clean not-decoded result on Symbol only
	if role in ('corrupted', 'other-key'):
		if role == 'corrupted' and case['format'] == 'deprecated' and same_binary(entry['encoded'], bytes.fromhex(case['encoded'])):
			# only the case of a hex digit changed: tag, nonce and ciphertext are the same bytes, so the plaintext must still come out
			return None if out == f'ok:T:{plaintext}' else f'a re-spelled hex digit changes the decoding result: {out[:120]}'
		if not out.startswith('ok:F:'):
			return f'decoding a message with {"an altered byte at offset " + str(entry.get("position", "")) if role == "corrupted" else "another key"} ' \
				f'gives {out[:120]} instead of a clean not-decoded result'
	return None


def same_binary(first, second):
	"""Whether two wallet-format messages (marker byte + hex text) carry the same bytes."""
	try:
		return first[:1] == second[:1] and bytes.fromhex(first[1:].decode('ascii')) == bytes.fromhex(second[1:].decode('ascii'))
	except (ValueError, UnicodeDecodeError):
		return False


def reframe(check, cases):
	"""Encode direction: with the iv / salt / ephemeral key the implementation drew, the model key and the AES oracle, the model's
	framing must reproduce the implementation's bytes exactly."""
	requests, kept = [], []
	for case in cases:
		net, fmt = case['net'], case['format']
		encoded, plaintext = bytes.fromhex(case['encoded']), bytes.fromhex(case['plaintext'])
		recipient_public = public_of(net, bytes.fromhex(case['b'])).hex()
		binary = encoded
		if net == 'sym' and fmt == 'deprecated':
			try:
				binary = encoded[:1] + bytes.fromhex(encoded[1:].decode('ascii'))
			except ValueError:
				check.fail(signature_of(case), 'deprecated wallet format is not marker byte + hex text', {'case': case, 'how': 'run.py replay <this file>'})
				continue
		tag_at, iv_at, ct_at = layout(net, fmt, binary)
		iv = binary[iv_at:ct_at]
		if net == 'nem' and fmt == 'deprecated':
			salt = binary[:32]
			key = edmodel.query([f'shareddep nem {case["a"]} {recipient_public} {salt.hex()}'])[0]
			ciphertext = aes_cbc_seal(bytes.fromhex(key), iv, plaintext)
			requests.append(f'nemencodedep {case["a"]} {recipient_public} {salt.hex()} {iv.hex()} {hexarg(plaintext)} {hexarg(ciphertext)}')
			kept.append((case, 'ok:2:' + encoded.hex()))
			continue
		sender = case['a']
		if fmt == 'delegation':
			# the ephemeral private key is not observable: the model is given the key pair's public half through the shared key of the
			# recipient (node) side, which shared_symmetric identifies with the sender's
			key = edmodel.query([f'shared sym {case["b"]} {binary[8:40].hex()}'])[0]
		else:
			key = edmodel.query([f'shared {net} {sender} {recipient_public}'])[0]
		ciphertext, tag = aes_gcm_seal(bytes.fromhex(key), iv, plaintext)
		if fmt == 'delegation':
			expected = bytes.fromhex('FE2A8061577301E2') + binary[8:40] + tag + iv + ciphertext
			check.case('message:sym:delegation:layout', case['encoded'])
			if expected != encoded:
				check.fail(signature_of(case), 'delegation message is not marker || ephemeral public key || tag || iv || ciphertext under the shared key',
					{'case': case, 'how': 'run.py replay <this file>'})
			continue
		if net == 'sym':
			requests.append(f'symencode {1 if fmt == "deprecated" else 0} {sender} {recipient_public} {iv.hex()} {hexarg(plaintext)} {hexarg(ciphertext)} {tag.hex()}')
			kept.append((case, 'ok:' + encoded.hex()))
		else:
			requests.append(f'nemencode {sender} {recipient_public} {iv.hex()} {hexarg(plaintext)} {hexarg(ciphertext)} {tag.hex()}')
			kept.append((case, 'ok:2:' + encoded.hex()))
	answers = edmodel.query(requests)
	for (case, expected), answer in zip(kept, answers):
		check.case(f'message:{case["net"]}:{case["format"]}:reframe', case['encoded'])
		if answer != expected:
			check.disagree('framing-model-encode-vs-MessageEncoder.encode', {k: v[:200] for k, v in case.items()}, expected[:300], answer[:300])
	return len(cases)


def signature_of(case):
	return f'{case["kind"]}:{case.get("net", "")}:{case.get("format", case.get("what", ""))}:{case.get("role", "")}:' \
		+ hashlib.sha256(repr(sorted((k, str(v)) for k, v in case.items())).encode('utf8')).hexdigest()[:12]


def run(check, unrecognised):
	check.trusted += [
		'translator harness/gen.py (KeyPairOps, MessageOps: constants / operators of the anchors listed in harness/gens/c07.py; hole-less anchors are pinned verbatim)',
		'cryptography 38.0.4 / OpenSSL: AES-GCM, AES-CBC + PKCS7 (implementation side AND the AEAD/CBC oracle handed the model\'s arguments), HKDF (implementation side)',
		'harness nacl.bindings shim (NEM public keys), sha3 shim (Keccak of the NEM implementation side and of the oracle)',
		'RFC 8032 section 6 sample code transcribed in harness/edmodel.py + hmac/hashlib HKDF (oracle reference for the shared key)',
		'OCaml 4.13.1 + zarith 1.12 + Coq extraction with these directives (verbatim):'] + edmodel.extraction_directives()
	check.assume += [
		'EdZ_group_premise: the integer formulas of Sym/EdZ.v implement a commutative group with base point of order L and an injective, '
		'decodable 32-byte encoding (the edwards25519 group law) -- NOT proved, premise of every *_partial theorem, sampled only',
		'open_seal: AES-GCM opens what it sealed under the same key, nonce; dec_enc: AES-CBC/PKCS7 decrypts what it encrypted (Section hypotheses)',
		'AES-GCM authenticity (a tampered tag / nonce / ciphertext or another key makes `open` fail) is cryptographic, not a theorem; sampled',
		'random choices of the code (iv, salt, ephemeral key) are arguments of the model']
	check.extra['rule'] = 'key pairs x plaintexts (0, 15, 16, 17, 1024 bytes and random sizes) x {Symbol, NEM} x formats (current, deprecated hex ' \
		'wrapper / CBC, delegation); per message: recipient, sender, third key, single-byte corruptions spread over tag / iv / ciphertext, ' \
		'truncations, re-framing; shared keys in both directions, refused public keys (non-canonical, outside the subgroup, off the curve; on NEM also ' \
		'through the deprecated salted derivation), deprecated NEM derivation; one process deriving and exchanging messages on both networks in turn with the ' \
		'same / byte-reversed / palindromic / unrelated secret bytes; NEM current-format messages of lengths 4 mod 16 (>= 36) whose nonce is chosen so ' \
		'that the bytes also read as a deprecated-layout message with valid padding. distinct = distinct (role, keys, encoded bytes)'
	for module in ('KeyPairOps', 'MessageOps'):
		for anchor in unrecognised.get(module, []):
			check.notes.append(f'anchor not recognised, pinned constants used: {anchor}')
			check.broken.append(f'shape:{anchor}')
	status, out = run_command(['/usr/bin/python3', '-m', 'nacl.bindings'], 120, cwd=SHIMS)
	if status != 0:
		raise RuntimeError(f'nacl.bindings shim self-test failed:\n{out}')
	check.prove('C14.v')
	rng = check.rng
	quick = check.tier == 'quick'
	n_pairs, n_message_pairs, per_message = (20, 6, 12) if quick else (1000, 100, 30)
	try:
		edmodel.ensure_binary()
	except edmodel.ModelUnavailable as ex:
		check.obligation('executable-model-builds', False, str(ex)[-1500:])
		for case in gen_shared_cases(rng, 20) + gen_shared_sessions(rng, 10):
			out = impl_shared(case)
			check.case(f'{case["kind"]}:{case["net"]}', repr(sorted(case.items())))
			problem = oracle_shared(case, out)
			if problem:
				check.fail(signature_of(case), problem, {'case': case, 'observed': out, 'how': 'run.py replay <this file>'})
		return

	shared_cases = gen_shared_cases(rng, n_pairs) + gen_shared_sessions(rng, 10 if quick else 200)
	first = shared_cases[0]
	cross = [
		f'shared sym {first["a"]} {public_of("sym", bytes.fromhex(first["b"])).hex()}',
		f'shared nem {first["b"]} {public_of("nem", bytes.fromhex(first["a"])).hex()}',
		f'shared sym {first["a"]} {(edmodel.RP + 3).to_bytes(32, "little").hex()}',
		f'symdecode 1 0 {first["a"]} {public_of("sym", bytes.fromhex(first["b"])).hex()} 01{rand_bytes(rng, 40).hex()}',
		f'hash sha256 {rand_bytes(rng, 100).hex()}']
	from concurrent.futures import ThreadPoolExecutor
	with ThreadPoolExecutor(max_workers=1) as background:
		pending = background.submit(edmodel.cross_check, check, cross, 'c14x')
		outs = [impl_shared(case) for case in shared_cases]
		models = model_shared(shared_cases)
		for case, out, model in zip(shared_cases, outs, models):
			label = f'{case["kind"]}:{case["net"]}' + (f':{case["what"]}' if 'what' in case else '') + (':refused' if out[0].startswith('reject') else '')
			check.case(label, repr(sorted(case.items())))
			derived = [value for position, value in enumerate(out) if position % 4 < 2] if case['kind'] == 'shared-session' else out
			if derived != model[:len(derived)]:
				check.disagree('EdZ+HKDF-model-vs-SharedKey.derive_shared_key', case, out, model)
			if case['kind'] == 'shared' and (model[2] != public_of(case['net'], bytes.fromhex(case['a'])).hex()):
				check.disagree('EdZ-public-key-vs-reference', case, public_of(case['net'], bytes.fromhex(case['a'])).hex(), model[2])
			problem = oracle_shared(case, out)
			if problem:
				check.fail(signature_of(case), problem, {'case': case, 'observed': out, 'how': 'run.py replay <this file>'})
		message_cases = gen_message_cases(rng, n_message_pairs) + gen_two_layout_cases(rng, 6 if quick else 60)
		run_messages(check, rng, message_cases, per_message)
		check.extra['extraction_cross_checked_cases'] = pending.result()
	for case, out in list(zip(shared_cases, outs))[:3]:
		check.sample({'case': case, 'observed': out})
	for case in message_cases[:3]:
		check.sample({'case': {k: (v if len(str(v)) < 100 else str(v)[:100] + '...') for k, v in case.items()}})


def replay(data):
	case = data['replay']['case']
	if case['kind'].startswith('shared'):
		out = impl_shared(case)
		problem = oracle_shared(case, out)
	elif case['kind'] == 'decode':
		job = dict(case['job'], encoded=bytes.fromhex(case['job']['encoded']))
		out = impl_decode(job)
		problem = oracle_decode(case, case['role'], job, out)
	else:
		try:
			encoded = impl_encode(case)
			out, problem = encoded.hex(), None
		except Exception as ex:  # pylint: disable=broad-except
			out, problem = f'crash:{type(ex).__name__}', f'encoding raised {type(ex).__name__}'
	print('observed:', out if len(str(out)) < 400 else str(out)[:400])
	print('property:', problem or 'holds')
	return 1 if problem else 0
