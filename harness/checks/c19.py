"""C19: the C++ linter is silent on conforming code and flags every seeded violation.

(a) SILENCE         the real linter, invoked as scripts/ci/lint_cpp.sh invokes it, on the current tree
(b) CORRESPONDENCE  Coq model (Lint/LineRules.v over regenerated Gen/LintPatterns.v) against the real validator classes
(c) SEEDED          a catalogue of edits, each violating one rule, applied to real files in scratch trees; the real linter
                    must report the rule for the file (and line), exit non-zero, and be silent again after the undo
(d) INDEPENDENT     in-process oracles written from the property text only (no model, no pinned skeleton): dependency rules read from
                    the rule file's documented meaning against check_dependencies / DepsChecker.match (names that are prefixes, suffixes
                    or extensions of one another; name sets with several members), blank-line bookkeeping and include extraction of
                    HeaderParser.parse_file on synthetic sources (exotic separator characters, CRLF, no final LF, first / last line)
                    and on the tree's files with one extra blank line per class of preceding line
"""
import hashlib
import multiprocessing
import os
import re
import shutil
import subprocess
import time
from pathlib import Path

from .. import common
from ..common import coq_eval
from ..gens import c19 as gen19

MANIFEST = {
	'text': 'proof, partial. Qed theorems (Props/C19.v) over the model Lint/LineRules.v with patterns/limits/operators regenerated '
		'from linters/cpp on every run: generic seeded_flagged (search-based rules, any neighbour classes validated by the kernel), and '
		'per family: whitespace (trailing, leading spaces, tabs-only line, space after operator, tab inside, double space, comma, '
		'carriage return), line length, `template <`, `catch` placement, the typo list (every translatable pattern of TypoChecker, '
		'witness validated by vm_compute), consecutive blank lines, blank line before the last line (whitespace-only; the empty-line '
		'case is a refuted statement = known finding), pragma-once / licence header (missing licence, missing pragma, empty line after pragma), region pairing, unseed_restores, exit_nonzero (< 256 failures). '
		'Dependency rules (Lint/Deps.v over the regenerated deps.config): define expansion = product of leaf names, closure soundness '
		'(every compiled allow-pair is a path of declared rules; completeness half not proved), an include without a justifying path is '
		'reported. NO theorem (exercised only by seeded runs against the real linter): include order and first include, preprocessor '
		'indentation (modelled by C20), namespace versus path, forward declarations, brace / return formatting, cross-component '
		'includes, copyright hash, and every other validator of validation.py. Silence of the whole tree is an execution of '
		'the real linter, not a theorem. The stripped-line rules are proved for every line whose text left of the seeded word is a closed prefix, with the silent shapes outside that class refuted by witness lines; the dependency closure is characterised exactly (Lint/LineRulesProofs2.v, DepsProofs2.v).',
	'design_ref': 'DESIGN.md section 4, C19',
	'technique': 'Coq proof over regenerated model + vm_compute correspondence with the Python validators + seeded runs of the real linter',
}

CATAPULT = common.REPO / 'client' / 'catapult'
LINTER = common.REPO / 'linters' / 'cpp' / 'checkProjectStructure.py'
LINT_ARGS = ['--text', '--dest-dir', '.', '--dep-check-dir', 'src', '--dep-check-dir', 'extensions', '--dep-check-dir', 'plugins']
SOURCE_DIRS = ('src', 'sdk', 'tests', 'plugins', 'extensions', 'tools')

IMPORTS = 'From Symv Require Import Base.Bytes Base.PyOps Lint.Regex Lint.LineRules Gen.LintPatterns.'
PRELUDE = IMPORTS + '''
Open Scope string_scope.
Definition render_f (f : finding) : string := f_rule f ++ "|" ++ Z_to_string (f_line f) ++ "|" ++ f_kind f ++ ";".
Definition render (fs : list finding) : string := String.concat "" (map render_f fs).
Definition stateful (hdr : bool) (ls : list line) : list finding :=
  (ws_final ls ++ pragma_check hdr ls ++ region_check ls ++ consec false 1 ls ++ near_end ls)%list.
Definition L := of_string.
'''

LINE_VALIDATORS = ('WhitespaceLineValidator', 'LineLengthValidator', 'TemplateSpaceValidator', 'CatchWithoutClosingTryBrace', 'TypoChecker')
FILE_VALIDATORS = ('WhitespaceLineValidator', 'PragmaOnceValidator', 'RegionValidator')
FILE_GROUPS = ('whitespaceLines', 'pragmaErrors', 'regionValidator', 'consecutiveEmpty', 'emptyNearEnd')


# ---------------------------------------------------------------------------------------------------------------------
# running the real linter the way CI does

SUITE_RE = re.compile(r'^===== (.*) ===== \(tests: (\d+), failures: (\d+)\)$')


class Suites(dict):
	"""suite name -> error lines; .counts: suite name -> failures as printed in the suite header."""

	def __init__(self):
		super().__init__()
		self.counts = {}


def run_linter(cwd, timeout=1800):
	"""lint_cpp.sh: cd client/catapult; PYTHONPATH=<linters/cpp> python3 <linters/cpp>/checkProjectStructure.py --text --dest-dir .
	--dep-check-dir src --dep-check-dir extensions --dep-check-dir plugins.  Returns (status, Suites, raw output)."""
	status, out = common.run(['/usr/bin/python3', str(LINTER)] + LINT_ARGS, timeout, cwd=str(cwd), env=common.impl_env())
	suites = Suites()
	current = None
	for line in out.split('\n'):
		match = SUITE_RE.match(line)
		if match:
			current = match.group(1)
			suites.setdefault(current, [])
			suites.counts[current] = suites.counts.get(current, 0) + int(match.group(3))
			continue
		if line.startswith('>>> SUMMARY') or line.startswith('*** lint elapsed'):
			current = None
			continue
		if current is not None and line.strip():
			suites[current].append(line)
	return status, suites, out


def total_errors(suites):
	return sum(suites.counts.values())


def cpp_files(root, source_dirs=SOURCE_DIRS):
	found = []
	for source_dir in source_dirs:
		for base, _, names in os.walk(root / source_dir):
			for name in names:
				if name.endswith('.h') or name.endswith('.cpp'):
					found.append(os.path.relpath(os.path.join(base, name), root))
	return sorted(found)


def exclusion_base(files):
	"""Files that must be present for the linter's own `Exclusions` suite to stay silent (every exclusion entry must be hit)."""
	import checkProjectStructure as cps  # pylint: disable=import-error,import-outside-toplevel
	analyzer = cps.Analyzer(cps.AnalyzerOptions())
	base = []
	for path in files:
		before = sum(len(hit) for hit in analyzer.present_exclusions.values())
		analyzer.validate_maps(path)
		if sum(len(hit) for hit in analyzer.present_exclusions.values()) != before:
			base.append(path)
	return base


def component_of(path):
	parts = path.split('/')
	return '/'.join(parts[:3]) if len(parts) > 3 else '/'.join(parts[:-1])


def quick_sample(files):
	"""Deterministic ~10 % of the components (first three path elements), whole components."""
	chosen = [path for path in files if hashlib.sha256(component_of(path).encode('utf8')).digest()[0] % 10 == 0]
	return chosen


def copy_files(files, target):
	for path in files:
		destination = target / path
		destination.parent.mkdir(parents=True, exist_ok=True)
		shutil.copyfile(CATAPULT / path, destination)


# ---------------------------------------------------------------------------------------------------------------------
# correspondence: real validators

def _load_validators(names):
	import validation  # pylint: disable=import-error,import-outside-toplevel
	return [getattr(validation, name)() for name in names]


def normalise_kind(kind):
	kind = str(kind)
	for prefix in ('Space after operator', 'Carriage returns present in file', 'nested region', 'invalid region'):
		if kind.startswith(prefix):
			return prefix
	return kind


class RealLines:
	def __init__(self, tables):
		self.validators = _load_validators(LINE_VALIDATORS)
		translatable = {item['id'] for item in tables['typo']}
		self.dropped = {item['id'] for item in tables['untranslatable'] if item['where'].startswith('TypoChecker')} - translatable

	def verdict(self, line):
		found = []

		def reporter(name, err):
			found.append((name, err.lineno, err.kind))

		try:
			for validator in self.validators:
				validator.reset('src/catapult/x.cpp', reporter)
				validator.check(1, line)
		except Exception as ex:  # pylint: disable=broad-except
			return f'crash:{type(ex).__name__}'
		return ''.join(f'{name}|{lineno}|{normalise_kind(kind)};' for name, lineno, kind in found if not (name == 'nameTypo' and kind in self.dropped))


def real_file(scratch, index, is_header, lines):
	"""Runs HeaderParser.parse_file (the real reader: bytes, split at LF, utf8) with the three stateful modelled validators."""
	import HeaderParser  # pylint: disable=import-error,import-outside-toplevel
	path = scratch / f'case{index}{".h" if is_header else ".cpp"}'
	path.write_bytes('\n'.join(lines).encode('utf8') + (b'\n' if lines else b''))
	found = []

	def reporter(group, err):
		if group == 'whitespaceLines' and err.lineno != 0:
			return
		if group in FILE_GROUPS:
			found.append((FILE_GROUPS.index(group), group, err.lineno, err.kind))

	try:
		HeaderParser.HeaderParser(reporter, str(path), _load_validators(FILE_VALIDATORS))
	except TypeError:
		return 'crash:TypeError'
	except RuntimeError:
		return None  # unknown preprocessor directive: outside the modelled part of parse_file
	except Exception as ex:  # pylint: disable=broad-except
		return f'crash:{type(ex).__name__}'
	finally:
		path.unlink()
	found.sort(key=lambda item: item[0])
	return ''.join(f'{group}|{lineno}|{normalise_kind(kind)};' for _, group, lineno, kind in found)


def coq_line(text):
	if all(32 <= ord(c) < 127 or c == '\t' for c in text):
		return '(L "' + text.replace('"', '""') + '")'
	return '[' + '; '.join(str(ord(c)) for c in text) + ']%Z'


def model_file_output(text):
	return 'crash:TypeError' if 'crash|' in text else text


# ---------------------------------------------------------------------------------------------------------------------
# correspondence: case generation

TOKENS = [
	' ', '  ', '\t', ',', ',x', ' ,', ',)', '(! ', '//', '"', "'", '/*', '*/', ';;', ' ;', '\r', 'template <', 'template  <', ' catch', '{ }', '){',
	'// region', '// endregion', '//region', 'x\t', ' it;', '0xab', '0XA', 'u)', ' .', ' ', ' ', '#include "test/', 'typedef', 'Noop']


def perturb_line(rng, line, witnesses):
	for _ in range(rng.choice([1, 1, 2, 3])):
		position = rng.randrange(len(line) + 1)
		kind = rng.randrange(10)
		if kind < 5:
			line = line[:position] + rng.choice(TOKENS) + line[position:]
		elif kind < 8:
			line = line[:position] + rng.choice(witnesses) + line[position:]
		elif kind == 8 and line:
			position = rng.randrange(len(line))
			line = line[:position] + line[position + 1:]
		else:
			line = line + ' ' * rng.choice([0, 1, 2]) + '/' * rng.choice([0, 2]) + 'x' * rng.randrange(60, 150)
	return line.replace('\n', '')


def boundary_lines(rng):
	lines = []
	for length in (138, 139, 140, 141):
		lines.append('x' * length)
		tabs = rng.randrange(1, 6)
		lines.append('\t' * tabs + 'y' * (length - 4 * tabs))
		lines.append('\t' * tabs + 'y' * (length - 4 * tabs - 1) + ';')
	return lines


REGION_LINES = ['\t// region foo', '\t// endregion', '// region', '// endregion', '\t//region x', '\t// region nested // region', '\t// end region', 'x // endregion y']
HEAD_LINES = ['#pragma once', '#include "x.h"', '#include <vector>', '', '', '\t', ' ', '/**', '**/', '*** text **/', '#define X', 'namespace catapult {', '\r', 'int x;\r']


def perturb_file(rng, lines):
	"""A compact variant of a real file: head, a few body lines, tail; then random structural edits."""
	body = lines[24:-5] if len(lines) > 40 else lines[24:]
	picked = sorted(rng.sample(range(len(body)), min(len(body), rng.randrange(0, 10)))) if body else []
	compact = lines[:24] + [body[i] for i in picked] + (lines[-5:] if len(lines) > 40 else [])
	for _ in range(rng.randrange(0, 5)):
		kind = rng.randrange(8)
		position = rng.randrange(len(compact) + 1)
		if kind == 0 and compact:
			del compact[min(position, len(compact) - 1)]
		elif kind == 1:
			compact.insert(position, '')
		elif kind == 2:
			compact.insert(position, rng.choice(REGION_LINES))
		elif kind == 3:
			compact.insert(position, rng.choice(HEAD_LINES))
		elif kind == 4 and len(compact) > 1:
			compact.insert(len(compact) - 1, rng.choice(['', '\t', ' ', '\t\t', 'x']))
		elif kind == 5 and compact:
			victim = rng.randrange(min(len(compact), 26))
			del compact[victim]
		elif kind == 6:
			compact.insert(rng.randrange(min(len(compact), 24) + 1), rng.choice(HEAD_LINES))
		else:
			compact = compact[:rng.randrange(len(compact) + 1)]
	return [line.replace('\n', '') for line in compact]


# ---------------------------------------------------------------------------------------------------------------------
# dependency rules (DepsChecker): correspondence

DEPS_PRELUDE = '''From Symv Require Import Base.Bytes Lint.Regex Lint.Deps Lint.DepsProofs Base.PyOps Gen.LintPatterns Gen.LintDeps.
Open Scope string_scope.
Definition deps_fuel : nat := Z.to_nat (define_level_limit - define_level_start).
Definition render_rules (o : option (list rule)) : string :=
  match o with
  | None => "error"
  | Some rs => String.concat ";" (map (fun r => fst r ++ ">" ++ snd r) rs)
  end.
Definition compiled_now : list rule := match create_rules deps_fuel deps_defines deps_lines with Some c => c | None => [] end.
Definition compiled_re_now : list (regex * regex) := Eval vm_compute in precompile deps_names compiled_now.
Definition allowed_now (src dest : list Z) : bool := allowed_precompiled compiled_re_now src dest.
Definition sources_now : string := String.concat ";" (nodup string_dec (map fst compiled_now)).
Definition targets_of (s : string) : string := String.concat ";" (map snd (filter (fun r => String.eqb (fst r) s) compiled_now)).
Definition L := of_string.
'''


def real_deps_checker(text=None):
	"""DepsChecker over the shipped deps.config (text None) or over a given configuration text (parse + create_rules)."""
	import io  # pylint: disable=import-outside-toplevel
	from DepsChecker import DepsChecker  # pylint: disable=import-error,import-outside-toplevel
	errors = []
	if text is None:
		return DepsChecker('deps.config', errors), errors
	checker = DepsChecker.__new__(DepsChecker)
	checker.config_path = 'deps.config'
	checker.errors = errors
	checker.verbose = False
	checker.lines = []
	checker.defines = {}
	checker.rules = []
	checker.parse(io.StringIO(text))
	checker.create_rules()
	return checker, errors


def canonical_rules(pairs):
	return ';'.join(sorted(set(f'{a}>{b}' for a, b in pairs)))


def real_rules_outcome(text):
	try:
		checker, _ = real_deps_checker(text)
	except RuntimeError as ex:
		return 'error' if 'nesting level' in str(ex) or 'loop in rules' in str(ex) else f'crash:{ex}'
	except Exception as ex:  # pylint: disable=broad-except
		return f'crash:{type(ex).__name__}'
	return canonical_rules((src.pattern[1:-1], dest.pattern[1:-1]) for src, dest in checker.rules)


def coq_string(text):
	assert all(32 <= ord(c) < 127 for c in text) and '"' not in text, text
	return '"' + text + '"'


def random_deps_config(rng):
	names = ['a', 'b', 'c', 'd', 'e', 'f/g', 'h.*', 'K', 'M', 'N', 'P']
	lines = []
	for key in rng.sample(['K', 'M', 'N', 'P'], rng.randrange(0, 4)):
		lines.append(f'{key} = ' + ' '.join(rng.sample(names, rng.randrange(1, 4))))
	for _ in range(rng.randrange(1, 9)):
		lines.append(f'{rng.choice(names)} -> {rng.choice(names)}' + rng.choice(['', '  # note', '']))
	rng.shuffle(lines)
	return '\n'.join(lines) + '\n'


def model_rules_expr(text):
	lines, defines, bad = gen19.parse_deps_text(text)
	if bad:
		return None
	rules = '[' + '; '.join(f'({coq_string(a)}, {coq_string(b)})' for a, b in lines) + ']'
	defs = '[' + '; '.join(f'({coq_string(k)}, [{"; ".join(coq_string(v) for v in vs)}])' for k, vs in defines) + ']'
	return f'render_rules (create_rules deps_fuel {defs} {rules})'


def dependency_pairs(files, contents_of):
	"""(including directory, included directory) pairs exactly as check_dependencies derives them from the tree's includes."""
	pairs = set()
	for path in files:
		if not re.match(r'src|extensions|plugins', path) or 'tests' in path:
			continue
		parts = os.path.dirname(path).split('/')
		source = '/'.join(parts[1:] if parts[0] == 'src' else parts)
		for match in re.finditer(r'^\s*#\s*include[ \t]*"([^">]*)"', contents_of(path), re.M):
			directory = os.path.dirname(match.group(1))
			if directory:
				pairs.add((source, directory))
	return sorted(pairs)


# ---------------------------------------------------------------------------------------------------------------------
# model-independent oracles (property text only; they never look at the Coq model nor at the linter's own code)

class DepsOracle:
	"""Reading of a deps.config from its documented meaning: `NAME = a b c` names a set, `S -> D` lets S use D, a name standing for a
	set means every member, permissions are transitive, and a directory is covered by a rule name only when the WHOLE directory name
	matches it (names are regular expressions).  An include of a single-directory path is an include relative to the including directory."""

	def __init__(self, text):
		lines, defines, self.bad = gen19.parse_deps_text(text)
		table = dict(defines)

		def leaves(name, depth=0):
			if name not in table or depth > 8:
				return [name]
			return [leaf for member in table[name] for leaf in leaves(member, depth + 1)]

		self.edges = {}
		for src, dest in lines:
			for a in leaves(src):
				for b in leaves(dest):
					self.edges.setdefault(a, set()).add(b)
		self.closure = {}
		self.cyclic = False
		for start in self.edges:
			seen = set()
			stack = list(self.edges[start])
			while stack:
				name = stack.pop()
				if name in seen:
					continue
				seen.add(name)
				stack.extend(self.edges.get(name, ()))
			self.cyclic = self.cyclic or start in seen
			self.closure[start] = seen
		self._compiled = {}

	def _full(self, pattern, text):
		if pattern not in self._compiled:
			self._compiled[pattern] = re.compile(pattern)
		return self._compiled[pattern].fullmatch(text) is not None

	def sources_covering(self, directory):
		return [name for name in self.closure if self._full(name, directory)]

	def allowed(self, src, dest):
		if '/' not in dest and dest != 'catapult':
			dest = src + '/' + dest
		return any(self._full(target, dest) for name in self.sources_covering(src) for target in self.closure[name])


def dep_component(path):
	"""Directory name under which the dependency rules know a file (src/ is dropped), or None when the file is not dependency-checked."""
	if not re.match(r'src|extensions|plugins', path) or 'tests' in path:
		return None
	parts = os.path.dirname(path).split('/')
	return '/'.join(parts[1:] if parts[0] == 'src' else parts)


def shipped_deps_text():
	return (common.REPO / 'linters' / 'cpp' / 'deps.config').read_text(encoding='utf8')


def _literal_name(name):
	return bool(re.fullmatch(r'[A-Za-z0-9_/]+', name))


def prefix_related(oracle, components):
	"""[(rule source R, component B, [D...])]: a proper prefix of B's name is covered by R, B itself is not, and D is something R may
	use (transitively) that B may not.  Derived from the real rule file and the real directory names."""
	found = []
	for component in sorted(components):
		for source in sorted(oracle.closure):
			pattern = re.compile(source)
			if not pattern.match(component) or pattern.fullmatch(component):
				continue
			forbidden = sorted(d for d in oracle.closure[source] if _literal_name(d) and '/' in d and d != component and not oracle.allowed(component, d))
			if forbidden:
				found.append((source, component, forbidden))
	return found


def header_names(files):
	"""include directory (every suffix of a real directory) -> a real header name in it."""
	names = {}
	for path in files:
		if not path.endswith('.h'):
			continue
		parts = os.path.dirname(path).split('/')
		for k in range(len(parts)):
			names.setdefault('/'.join(parts[k:]), os.path.basename(path))
	return names


def real_dependency_reports(files_and_includes, text=None):
	"""checkProjectStructure.check_dependencies (the function main() calls after the walk) over {file name: [included paths]} with the
	CI --dep-check-dir arguments; returns the (component, 'a -> b', message) violations the Dependencies suite would print."""
	import argparse  # pylint: disable=import-outside-toplevel
	import checkProjectStructure as cps  # pylint: disable=import-error,import-outside-toplevel
	checker, errors = real_deps_checker(text)
	entries = {}
	for name, includes in files_and_includes.items():
		entry = cps.Entry(os.path.dirname(name), os.path.basename(name), None)
		entry.set_includes(list(includes))
		entries[name] = entry
	cps.check_dependencies(entries, checker, argparse.Namespace(dep_check_dir=['src', 'extensions', 'plugins']))
	return errors


PREFIX_NAMES = ['a', 'ab', 'abc', 'a/b', 'a/bc', 'a/b/c', 'a_b', 'b', 'ba', 'b/a', 'c/a', 'x/a/b', 'a.*', 'a/.*', 'ab.*', 'c', 'cc', 'c/c', 'd']


def prefix_config(rng):
	"""A small acyclic configuration over names that are prefixes / suffixes / extensions of one another; defines expanding to several
	targets on either side of a rule."""
	names = list(PREFIX_NAMES)
	rng.shuffle(names)
	order = {name: index for index, name in enumerate(names)}
	lines = []
	defines = {}
	for key in rng.sample(['K', 'M', 'N'], rng.randrange(0, 4)):
		defines[key] = rng.sample(names, rng.randrange(2, 5))
		lines.append(f'{key} = ' + ' '.join(defines[key]))

	def level(name, highest):
		members = defines.get(name, [name])
		return (max if highest else min)(order[m] for m in members)

	for _ in range(rng.randrange(2, 10)):
		src = rng.choice(names + list(defines))
		dest = rng.choice(names + list(defines))
		if level(src, True) < level(dest, False):   # every member of src precedes every member of dest: no cycle can arise
			lines.append(f'{src} -> {dest}' + rng.choice(['', '', ' # note']))
	rng.shuffle(lines)
	return '\n'.join(lines) + '\n'


def directory_variants(names):
	"""Directory names around rule names: the names themselves (when literal), extended, truncated, prefixed and nested ones."""
	out = set()
	for name in names:
		base = name.replace('/.*', '').replace('.*', '')
		if not base:
			continue
		out.update({base, base + 'x', base + '_x', base + '/x', 'x' + base, 'x/' + base, base[:-1] or base, base + '/' + base.split('/')[-1]})
	return sorted(n for n in out if n and not n.startswith('/') and not n.endswith('/'))


BLANK_SURE = set(' \t\r\x0b\x0c')
EXOTIC = ['\x0b', '\x0c', '\x1c', '\x1d', '\x1e', '\x85', '\u2028', '\u2029', '\r']


def file_lines(text):
	"""Lines as the compiler / an editor counts them: separated by LF only; no extra line after a final LF."""
	lines = text.split('\n')
	return lines[:-1] if text.endswith('\n') else lines


def blank_expectations(lines):
	"""(line numbers where 'consecutive blank lines' must be reported, line numbers where it must not): a line is surely blank when it
	holds nothing but space / tab / CR / FF / VT, surely not blank when it holds a non-white character; anything else is left open."""
	sure = [all(c in BLANK_SURE for c in line) for line in lines]
	surely_not = [any(not c.isspace() for c in line) for line in lines]
	must = [k + 1 for k in range(1, len(lines)) if sure[k] and sure[k - 1]]
	must_not = [k + 1 for k in range(len(lines)) if surely_not[k] or (k > 0 and surely_not[k - 1]) or k == 0]
	return must, must_not


def parse_observed(scratch, text, name='probe.h'):
	"""HeaderParser (no line validators) on the text: (consecutiveEmpty line numbers, extracted includes) or 'crash:<name>'."""
	import HeaderParser  # pylint: disable=import-error,import-outside-toplevel
	path = scratch / name
	path.write_bytes(text.encode('utf8'))
	found = []
	try:
		parser = HeaderParser.HeaderParser(lambda group, err: found.append((group, err.lineno)), str(path), [])
	except Exception as ex:  # pylint: disable=broad-except
		return f'crash:{type(ex).__name__}'
	return sorted(lineno for group, lineno in found if group == 'consecutiveEmpty'), list(parser.includes)


SYNTH_CODE = ['int x = 1;', '\tfoo();', '}', 'namespace a {', '// comment', '\t/* x */', '\tconst char* Text = "a b";', 'struct A {};', 'x \\']
SYNTH_DIRECTIVES = ['#define A 1', '#ifdef A', '#endif', '#pragma once', '#else', '#undef A', 'extern "C" {', '#if defined(A) && \\', '#define M(x) \\', '\t#define B \\']
SYNTH_CONTINUED = ['\tx; \\', '\t\\', '\ty']
SYNTH_INCLUDES = [('#include "a/b.h"', '"a/b.h"'), ('#include <vector>', '<vector>'), ('\t#include "c.h"', '"c.h"'), ('#  include "d/e/f.h" // note', '"d/e/f.h"'), ('#include"g/h.h"', '"g/h.h"')]
SYNTH_BLANKS = ['', '', '', '', ' ', '\t', '\x0c', '\x0b']


def synthetic_source(rng):
	"""(text, expected includes): a small file built line by line with known roles; blank lines in every position (first lines excepted),
	also right after a backslash; includes on the very first / very last line; exotic separator characters inside lines; CRLF; no final LF."""
	crlf = rng.randrange(8) == 0
	lines = []
	includes = []
	consumed = False   # the previous line was a directive (or its continuation) ending in a backslash
	count = rng.randrange(1, 14)
	for index in range(count):
		kind = rng.randrange(10)
		edge = index in (0, count - 1)
		if consumed and kind < 6:
			line = rng.choice(SYNTH_CONTINUED + ['', '']) if not crlf else rng.choice(['\ty', ''])
		elif (edge and kind < 5) or kind < 2:
			line, name = rng.choice(SYNTH_INCLUDES)
			if not consumed:
				includes.append(name)
		elif kind < 5 and index > 0:
			line = rng.choice(SYNTH_BLANKS)
		elif kind < 7:
			line = rng.choice([d for d in SYNTH_DIRECTIVES if not (crlf and d.endswith('\\'))])
		else:
			line = rng.choice([c for c in SYNTH_CODE if not (crlf and c.endswith('\\'))])
			if rng.randrange(3) == 0 and len(line) > 4 and not line.endswith('\\'):
				position = rng.randrange(2, len(line) - 1)
				line = line[:position] + rng.choice(EXOTIC) + line[position:]
		directive = line.lstrip().startswith('#') and 'include' not in line
		consumed = (directive or consumed) and line.endswith('\\')
		lines.append(line)
	separator = '\r\n' if crlf else '\n'
	text = separator.join(lines) + (separator if rng.randrange(5) else '')
	return text, includes


FIXED_SOURCES = [
	('', []), ('\n', []), ('int x;', []), ('#include "a/b.h"', ['"a/b.h"']), ('#include "a/b.h"\n', ['"a/b.h"']), ('int x;\n#include <a>', ['<a>']),
	('#define M(x) \\\n\n\nint a;\n', []), ('#define M(x) \\\n\tx \\\n\n\nint a;\n', []), ('#if defined(A) && \\\n\n\n\tdefined(B)\n#endif\n', []),
	('#define M \\\n#include "not/one.h"\n#include "is/one.h"\n', ['"is/one.h"']), ('int a;\n\n\n', []), ('int a;\n\n\n#include <b>', ['<b>']),
	('int a;\r\n\r\n\r\nint b;\r\n', []), ('int a; // x\x0cy\n\n\nint b;\n', []), ('int a; // x\u2028y\n\n\nint b;\n', []), ('a\rb\n\n\nc\n', []),
	('x \\\n\n\nint a;\n', []), ('// comment \\\n\n\nint a;\n', []), ('\t#include "c.h" // \x85\n \n\t\n', ['"c.h"'])]


BLANK_CLASSES = (
	('after a line ending in a backslash', lambda prev, prev2: prev.endswith('\\')),
	('after the last line of a backslash-continued macro', lambda prev, prev2: prev2.endswith('\\') and not prev.endswith('\\')),
	('after an #include', lambda prev, prev2: bool(re.match(r'\s*#\s*include', prev))),
	('after another directive', lambda prev, prev2: prev.lstrip().startswith('#')),
	('after an extern line', lambda prev, prev2: prev.lstrip().startswith('extern')),
	('after a comment', lambda prev, prev2: prev.lstrip().startswith(('//', '*', '/*'))),
	('after an opening brace', lambda prev, prev2: prev.endswith('{')),
	('after a closing brace', lambda prev, prev2: prev.lstrip().startswith('}')),
	('after a statement', lambda prev, prev2: prev.endswith(';')),
	('elsewhere', lambda prev, prev2: True))


def blank_class(lines, i):
	prev = lines[i - 1] if i > 0 else ''
	prev2 = lines[i - 2] if i > 1 else ''
	return next(name for name, predicate in BLANK_CLASSES if predicate(prev, prev2))


# ---------------------------------------------------------------------------------------------------------------------
# seeded violations

def _indices(lines, predicate, start=21):
	return [i for i in range(start, len(lines)) if predicate(lines[i])]


def _plain(line):
	return line.strip() and not any(c in line for c in '"\'/\\#') and '\t' not in line.lstrip('\t')


class Edit:
	"""One catalogue edit on one file: new line list, the suite and text expected in the linter output, reported line or None."""

	def __init__(self, family, path, new_lines, suite, text, lineno, note=''):
		self.family = family
		self.path = path
		self.new_lines = new_lines
		self.suite = suite
		self.text = text
		self.lineno = lineno
		self.note = note


def _replace(lines, index, new):
	return lines[:index] + new + lines[index + 1:]


def catalogue(tables):  # pylint: disable=too-many-locals,too-many-statements
	"""family -> function(rng, path, lines) -> Edit or None.  lines = file content split at LF (last element '' for the final LF)."""
	entries = {}

	def family(name):
		def register(function):
			entries[name] = function
			return function
		return register

	def pick(rng, candidates):
		return rng.choice(candidates) if candidates else None

	@family('whitespace: trailing space')
	def _(rng, path, lines):
		i = pick(rng, _indices(lines, lambda l: l.strip() and not l.endswith('\\')))
		return None if i is None else Edit('', path, _replace(lines, i, [lines[i] + ' ']), 'Whitespaces', 'Whitespace at line ending', i + 1)

	@family('whitespace: spaces at beginning of a line')
	def _(rng, path, lines):
		i = pick(rng, _indices(lines, lambda l: l.strip() and not l.startswith('#')))
		return None if i is None else Edit('', path, _replace(lines, i, [' ' + lines[i]]), 'Whitespaces', 'Spaces at beginning of a line', i + 1)

	@family('whitespace: tabs in empty line')
	def _(rng, path, lines):
		i = pick(rng, [k for k in _indices(lines, lambda l: l == '') if k + 1 < len(lines) - 1])
		return None if i is None else Edit('', path, _replace(lines, i, ['\t']), 'Whitespaces', 'Tabs in empty line', i + 1)

	@family('whitespace: space after operator')
	def _(rng, path, lines):
		i = pick(rng, _indices(lines, lambda l: '(!' in l and '"' not in l))
		if i is None:
			return None
		return Edit('', path, _replace(lines, i, [lines[i].replace('(!', '(! ', 1)]), 'Whitespaces', 'Space after operator', i + 1)

	@family('whitespace: tab inside the text')
	def _(rng, path, lines):
		i = pick(rng, _indices(lines, lambda l: _plain(l) and ' = ' in l))
		if i is None:
			return None
		return Edit('', path, _replace(lines, i, [lines[i].replace(' = ', '\t= ', 1)]), 'Whitespaces', 'Tab present inside the text', i + 1)

	@family('whitespace: spaces in the middle')
	def _(rng, path, lines):
		i = pick(rng, _indices(lines, lambda l: _plain(l) and ' = ' in l))
		if i is None:
			return None
		return Edit('', path, _replace(lines, i, [lines[i].replace(' = ', '  = ', 1)]), 'Whitespaces', 'Spaces in the middle', i + 1)

	@family('whitespace: comma not followed by a space')
	def _(rng, path, lines):
		i = pick(rng, _indices(lines, lambda l: _plain(l) and re.search(r', [A-Za-z]', l) and not re.search(r',[^ ]', l)))
		if i is None:
			return None
		return Edit('', path, _replace(lines, i, [re.sub(r', ([A-Za-z])', r',\1', lines[i], count=1)]), 'Whitespaces', 'Comma should be followed by a space', i + 1)

	@family('whitespace: carriage return')
	def _(rng, path, lines):
		i = pick(rng, _indices(lines, lambda l: l.strip()))
		return None if i is None else Edit('', path, _replace(lines, i, [lines[i] + '\r']), 'Whitespaces', 'Carriage returns present in file', 0)

	@family('line length')
	def _(rng, path, lines):
		i = pick(rng, _indices(lines, lambda l: _plain(l) and l.endswith(';')))
		if i is None:
			return None
		width = len(lines[i].replace('\t', '    '))
		padding = ' // ' + 'x' * max(1, 140 - width - 4)
		return Edit('', path, _replace(lines, i, [lines[i] + padding]), 'LongLines', 'Line too long', i + 1, f'expanded width {width + len(padding)}')

	@family('template followed by space')
	def _(rng, path, lines):
		i = pick(rng, _indices(lines, lambda l: 'template<' in l))
		if i is None:
			return None
		return Edit('', path, _replace(lines, i, [lines[i].replace('template<', 'template <', 1)]), 'Template', 'Template followed by space', i + 1)

	@family('catch placement')
	def _(rng, path, lines):
		i = pick(rng, _indices(lines, lambda l: re.match(r'^\t+} catch \(', l)))
		if i is None:
			return None
		indent = re.match(r'^\t+', lines[i]).group(0)
		return Edit('', path, _replace(lines, i, [indent + '}', indent + lines[i][len(indent) + 2:]]), 'Catch Formatting', 'catch and closing try brace', i + 2)

	def typo_edit(rng, path, lines, item):
		word = item['witness']
		contexts = set(item['contexts'])
		if ('KOther', 'KNone') in contexts:
			i = pick(rng, _indices(lines, lambda l: re.match(r'^\t+// [A-Za-z ]+$', l)))
			if i is None:
				return None
			new = _replace(lines, i, [lines[i] + ' ' + word])
		elif ('KNone', 'KNone') in contexts or ('KNone', 'KOther') in contexts:
			i = pick(rng, _indices(lines, lambda l: re.match(r'^\t\t+// [A-Za-z ]+$', l)))
			if i is None or not path.endswith('.cpp'):
				return None
			new = lines[:i + 1] + [word + ('' if ('KNone', 'KNone') in contexts else ' // seeded')] + lines[i + 1:]
			i += 1
		else:
			return None
		return Edit('', path, new, 'Typos', item['id'], i + 1, f'pattern {item["pattern"]!r} witness {word!r}')

	for item in tables['typo']:
		entries[f'typo[{item["index"]}]: {item["id"]}'] = (lambda rng, path, lines, item=item: typo_edit(rng, path, lines, item))

	# fixed typo catalogue: words spelled out by the linter's own messages (independent of the regenerated patterns)
	fixed = [
		('Timestamp not TimeStamp or Time Stamp', 'TimeStamp'), ('Filesystem not FileSystem or File System', 'File System'),
		('Filename not FileName or File_Name or File Name', 'File_Name'), ('Nonzero not NonZero or Non Zero or NotZero or Not Zero', 'NotZero'),
		('ThreadPool not Threadpool', 'Threadpool'), ('Blockchain not BlockChain or Block Chain', 'BlockChain'),
		('NotEmpty not NonEmpty or non-empty', 'non-empty'), ('Roundtrip not RoundTrip or Round Trip', 'Round Trip'),
		('ValidationResult not ValidatorResult', 'ValidatorResult'), ('SubCache or sub cache not Subcache or sub-cache', 'sub-cache'),
		('catapult not cataputl', 'cataputl'), ('use NoOp* instead of Noop', 'Noop'), ('prefer using', 'typedef'), ('prefer uint8_t', 'unsigned char'),
		('cosigner(s) => cosignatory(ies)', 'cosigner'), ('use shuts down instead of shutdowns', 'shutdowns'), ('rephrase to avoid \', and\'', 'foo, and bar')]
	for message, word in fixed:
		def fixed_edit(rng, path, lines, message=message, word=word):
			i = pick(rng, _indices(lines, lambda l: re.match(r'^\t+// [A-Za-z ]+$', l)))
			if i is None:
				return None
			return Edit('', path, _replace(lines, i, [lines[i] + ' ' + word]), 'Typos', message, i + 1, f'fixed catalogue word {word!r}')
		entries[f'typo (fixed catalogue): {message}'] = fixed_edit

	@family('consecutive blank lines')
	def _(rng, path, lines):
		i = pick(rng, [k for k in _indices(lines, lambda l: l == '') if k + 1 < len(lines) - 1])
		return None if i is None else Edit('', path, lines[:i + 1] + [''] + lines[i + 1:], 'Consecutiveempty', 'Consecutive empty lines', i + 2)

	@family('blank line near end: whitespace-only line before the last line')
	def _(rng, path, lines):
		if len(lines) < 30 or lines[-1] != '':
			return None
		new = lines[:-2] + ['\t'] + lines[-2:]
		return Edit('', path, new, 'Emptynearend', 'Empty line near end of file', len(new))

	@family('blank line near end: empty line before the last line')
	def _(rng, path, lines):
		if len(lines) < 30 or lines[-1] != '':
			return None
		new = lines[:-2] + [''] + lines[-2:]
		return Edit('', path, new, 'Emptynearend', 'Empty line near end of file', len(new))

	@family('pragma: missing #pragma once')
	def _(rng, path, lines):
		if not path.endswith('.h') or '#pragma once' not in lines[:30]:
			return None
		i = lines.index('#pragma once')
		return Edit('', path, lines[:i] + lines[i + 1:], 'Pragmas', 'Missing `#pragma once`', None)

	@family('pragma: empty line after #pragma once')
	def _(rng, path, lines):
		if not path.endswith('.h') or '#pragma once' not in lines[:30]:
			return None
		i = lines.index('#pragma once')
		if not lines[i + 1].startswith('#include'):
			return None
		return Edit('', path, lines[:i + 1] + [''] + lines[i + 1:], 'Pragmas', 'Empty line after `#pragma once`', None)

	@family('licence header: missing')
	def _(rng, path, lines):
		if lines[0] != '/**' or any(l.startswith('/**') for l in lines[1:]):
			return None
		return Edit('', path, ['/*'] + lines[1:], 'Pragmas', 'Missing license info', None)

	@family('licence header: altered text')
	def _(rng, path, lines):
		if lines[0] != '/**' or len(lines) < 25:
			return None
		i = rng.randrange(1, 19)
		return Edit('', path, _replace(lines, i, [lines[i] + 'x']), 'CopyrightCommentChecker', 'invalid copyright comment', 1)

	@family('licence header: line shifted by leading white space')
	def _(rng, path, lines):
		# the licence text is compared line by line, white space included: an indented licence line is not the licence
		if lines[0] != '/**' or len(lines) < 25:
			return None
		i = rng.randrange(1, 19)
		return Edit('', path, _replace(lines, i, [rng.choice(['\t', ' ', '  ']) + lines[i]]), 'CopyrightCommentChecker', 'invalid copyright comment', 1)

	@family('region pairing: deleted endregion')
	def _(rng, path, lines):
		i = pick(rng, _indices(lines, lambda l: l.strip() == '// endregion'))
		return None if i is None else Edit('', path, lines[:i] + lines[i + 1:], 'RegionValidator', 'non-closed region', None)

	@family('region pairing: malformed region marker')
	def _(rng, path, lines):
		i = pick(rng, _indices(lines, lambda l: l.strip().startswith('// region ')))
		if i is None:
			return None
		return Edit('', path, _replace(lines, i, [lines[i].replace('// region ', '//region ', 1)]), 'RegionValidator', 'invalid region', i + 1)

	def include_block(lines):
		return [i for i in range(len(lines)) if re.match(r'^#include ["<]', lines[i])]

	@family('include order')
	def _(rng, path, lines):
		block = include_block(lines)
		start = 1 if path.endswith('.cpp') else 0
		pairs = [(a, b) for a, b in zip(block[start:], block[start + 1:]) if b == a + 1 and lines[a] != lines[b] and lines[a][9] == lines[b][9]]
		pair = pick(rng, pairs)
		if pair is None:
			return None
		a, b = pair
		new = list(lines)
		new[a], new[b] = new[b], new[a]
		return Edit('', path, new, 'Includesorder', 'Includes needs fixing', None)

	@family('first include')
	def _(rng, path, lines):
		block = include_block(lines)
		if not path.endswith('.cpp') or len(block) < 2 or block[1] != block[0] + 1 or lines[block[0]] == lines[block[1]]:
			return None
		new = list(lines)
		new[block[0]], new[block[1]] = new[block[1]], new[block[0]]
		return Edit('', path, new, 'Firstinclude', 'Expected first include to be', None)

	@family('preprocessor indentation')
	def _(rng, path, lines):
		i = pick(rng, [k for k in range(len(lines)) if re.match(r'^#(include|define|if|ifdef|ifndef|endif|else)\b', lines[k])])
		return None if i is None else Edit('', path, _replace(lines, i, ['\t' + lines[i]]), 'Indentedpreprocessor', 'preprocessor should be aligned to column 0', i + 1)

	@family('namespace versus path')
	def _(rng, path, lines):
		i = pick(rng, [k for k in range(len(lines)) if re.match(r'^namespace catapult { namespace [a-z_]+ {$', lines[k])])
		if i is None or path.startswith('tests/int') or '/int/' in path or '/bench/' in path:
			return None
		return Edit('', path, _replace(lines, i, ['namespace catapult { namespace zzseeded {']), 'Inconsistent', 'namespace is inconsistent with file location', None)

	@family('forward declarations')
	def _(rng, path, lines):
		if not path.endswith('.h'):
			return None
		pairs = []
		for k in range(len(lines) - 1):
			first = re.match(r'^(\t+)(class|struct) (\w+);$', lines[k])
			second = re.match(r'^(\t+)(class|struct) (\w+);$', lines[k + 1])
			if first and second and first.group(1) == second.group(1) and first.group(3).lower() != second.group(3).lower():
				pairs.append(k)
		k = pick(rng, pairs)
		if k is None:
			return None
		new = list(lines)
		new[k], new[k + 1] = new[k + 1], new[k]
		return Edit('', path, new, 'ForwardDeclaration', 'forward declarations mismatch', None)

	@family('return formatting')
	def _(rng, path, lines):
		candidates = [
			k for k in range(21, len(lines) - 1)
			if re.match(r'^\t+if \([^()]*\)$', lines[k]) and re.match(r'^\t+return [^;{}\[\]]*;$', lines[k + 1])]
		k = pick(rng, candidates)
		if k is None:
			return None
		return Edit('', path, lines[:k] + [lines[k] + ' ' + lines[k + 1].strip()] + lines[k + 2:], 'ReturnOnNewLine', '`return` should be on newline', k + 1)

	@family('brace formatting')
	def _(rng, path, lines):
		banned = (
			'namespace', 'const', 'final', 'override', 'noexcept', 'mutable', 'public', 'protected', 'private', 'struct', 'class', 'enum', 'try',
			'else', 'do', 'union', 'case', '//', '->', 'return', '"')
		candidates = [
			k for k in range(21, len(lines))
			if re.search(r'\b[A-Z][A-Za-z0-9_]*\{', lines[k]) and not any(word in lines[k] for word in banned) and not lines[k].endswith('\\')]
		k = pick(rng, candidates)
		if k is None:
			return None
		return Edit('', path, _replace(lines, k, [re.sub(r'\b([A-Z][A-Za-z0-9_]*)\{', r'\1 {', lines[k], count=1)]), 'SpaceBrace', 'Space between type or variable', k + 1)

	@family('cross-component include')
	def _(rng, path, lines):
		match = re.match(r'^tests/catapult/([a-z_]+)/[A-Za-z0-9_]+\.cpp$', path)
		if not match:
			return None
		component = match.group(1)
		i = pick(rng, [k for k in range(len(lines)) if lines[k].startswith(f'#include "tests/catapult/{component}/test/')])
		if i is None:
			return None
		other = 'zzseeded'
		return Edit(
			'', path, _replace(lines, i, [lines[i].replace(f'tests/catapult/{component}/', f'tests/catapult/{other}/', 1)]), 'Cross_Includes',
			'Cross component includes', None)

	@family('dependency rule')
	def _(rng, path, lines):
		match = re.match(r'^src/catapult/(crypto|utils|deltaset|thread)/[A-Za-z0-9_]+\.(h|cpp)$', path)
		if not match:
			return None
		i = pick(rng, [k for k in range(len(lines)) if lines[k].startswith('#include "catapult/utils/')])
		if i is None:
			return None
		return Edit(
			'', path, _replace(lines, i, [lines[i].replace('catapult/utils/', 'catapult/cache/', 1)]), 'Dependencies',
			f'catapult/{match.group(1)} -> catapult/cache', None)

	return entries


# ---------------------------------------------------------------------------------------------------------------------
# stratified catalogue: within a rule family the seeded sites are stratified by the syntactic KIND of the line the edit applies
# to, so that an exemption hiding in one kind (e.g. "every #pragma") cannot go unnoticed; every kind present in the tree is covered

def _is_code(lines, i):
	return i >= 21 and _plain(lines[i]) and lines[i].endswith(';')


LINE_KINDS = {
	'code statement': (None, _is_code),
	'// comment line': ('// ', lambda lines, i: i >= 21 and bool(re.match(r'^\t*// [A-Za-z][A-Za-z ]*$', lines[i]))),
	'/// doc comment line': ('/// ', lambda lines, i: i >= 21 and bool(re.match(r'^\t*/// [A-Za-z][A-Za-z ]*\.$', lines[i]))),
	'line with a string literal': ('"', lambda lines, i: i >= 21 and bool(re.match(r'^\t+[^"#/\\]*"[A-Za-z ]{4,}"[^"/\\]*;$', lines[i]))),
	'#include line': ('#include', lambda lines, i: bool(re.match(r'^#include ["<][^ ]*[">]$', lines[i]))),
	'#define line': ('#define', lambda lines, i: bool(re.match(r'^#define \w+ [\w:]+$', lines[i]))),
	'macro continuation line': ('\\\n', lambda lines, i: i >= 21 and bool(re.match(r'^\t+[^"/#]*[\w;)] \\$', lines[i])) and lines[i - 1].endswith('\\')),
	'licence header line': (None, lambda lines, i: 1 <= i <= 18 and lines[0] == '/**' and lines[i].startswith('*** ')),
	'first line of file': (None, lambda lines, i: i == 0 and lines[0] == '/**'),
	'last line of file': (None, lambda lines, i: i == len(lines) - 2 and lines[-1] == '' and bool(lines[i].strip()) and len(lines) > 30),
	'blank line': (None, lambda lines, i: 21 <= i < len(lines) - 3 and lines[i] == ''),
}


def _pad(line, width=141):
	return 'x' * max(1, width - len(line.replace('\t', '    ')))


def code_mask(line):
	"""([True for a character of code, False for one inside a string literal or the trailing // comment], column of the comment or None)
	- or None for a line this plain reading does not cover (character literals, /* */, escapes, raw strings, // inside a string, an open
	string, an empty string literal - the last one is reported to the lead separately: the linter's own stripping takes `"", a, "x"` for one string)."""
	if "'" in line or '/*' in line or '*/' in line or '\\' in line or 'R"' in line or '""' in line:
		return None
	mask = []
	in_string = False
	for position, char in enumerate(line):
		if in_string:
			mask.append(False)
			in_string = char != '"'
			if line.startswith('//', position):
				return None
		elif char == '"':
			mask.append(False)
			in_string = True
		elif line.startswith('//', position):
			return mask + [False] * (len(line) - position), position
		else:
			mask.append(True)
	return None if in_string else (mask, None)


COMMA_KINDS = ('beside a trailing // comment', 'two blanks inside the trailing // comment', 'beside a string literal', 'two blanks inside a string literal')


def comma_sites(line, kind):
	"""Columns of the commas in the code of `line` after which the blank can be removed (`, x` -> `,x`; comma and blank are code, what
	follows is code other than `)` or the opening quote of a string literal), when the line is of the given kind and its code holds
	neither a comma without a blank nor a run of blanks; else []."""
	if ', ' not in line or ('two blanks' in kind) != ('  ' in line) or ('//' if 'comment' in kind else '"') not in line:
		return []
	reading = code_mask(line)
	if reading is None:
		return []
	mask, comment = reading
	strings = '"' in line[:comment]
	outside = [p for p in range(len(line) - 1) if line[p:p + 2] == '  ' and not mask[p] and not mask[p + 1]]
	if (comment is None or strings) if 'comment' in kind else (comment is not None or not strings):
		return []
	if bool(outside) != ('two blanks' in kind):
		return []
	code = [p for p in range(len(line)) if mask[p]]
	if any(line[p] == ',' and p + 1 < len(line) and line[p + 1] != ' ' for p in code):
		return []
	if any(line[p] == ' ' and p + 1 < len(line) and mask[p + 1] and line[p + 1] == ' ' for p in code):
		return []
	return [p for p in code if line[p] == ',' and p + 2 < len(line) and mask[p + 1] and line[p + 1] == ' ' and line[p + 2] not in ' \t)/']


def strata_catalogue(tables, texts):  # pylint: disable=too-many-locals,too-many-statements
	"""stratum name -> make(rng, path, lines) with attributes .needle (file prefilter) and .informational."""
	entries = {}

	def add(name, needle, make, informational=False):
		make.needle = needle
		make.informational = informational
		entries[name] = make

	def line_family(family, suite, text, kinds, edit, reports_line=True):
		for kind in kinds:
			needle, predicate = LINE_KINDS[kind]

			def make(rng, path, lines, kind=kind, predicate=predicate):
				candidates = [i for i in range(len(lines)) if predicate(lines, i)]
				if not candidates:
					return None
				i = rng.choice(candidates)
				new = edit(lines[i], kind, rng)
				if new is None:
					return None
				new = new if isinstance(new, list) else [new]
				return Edit('', path, lines[:i] + new + lines[i + 1:], suite, text, (i + len(new)) if reports_line else None, f'stratum {kind}')
			add(f'{family} [{kind}]', needle, make)

	every = [k for k in LINE_KINDS if k != 'blank line']

	def before_backslash(line, kind, extra):
		return line[:-2] + extra + ' \\' if kind == 'macro continuation line' else line + extra

	line_family('whitespace: trailing space', 'Whitespaces', 'Whitespace at line ending', every, lambda l, k, r: l + ' ')
	line_family(
		'whitespace: spaces at beginning of a line', 'Whitespaces', 'Spaces at beginning of a line',
		[k for k in every if k != 'first line of file'] + ['first line of file'], lambda l, k, r: ' ' + l)
	line_family('whitespace: tab inside the text', 'Whitespaces', 'Tab present inside the text', every, lambda l, k, r: (
		re.sub(r'"([A-Za-z])', '"\\1\t', l, count=1) if k == 'line with a string literal' else l + '\t'))
	line_family('whitespace: carriage return', 'Whitespaces', 'Carriage returns present in file', every + ['blank line'], lambda l, k, r: l + '\r', reports_line=False)

	def double_space(line, kind, _rng):
		match = re.search(r'(?<=\S) (?=\S)', line[8:] if kind == '#define line' else line)
		if not match:
			return None
		position = match.start() + (8 if kind == '#define line' else 0)
		return line[:position] + ' ' + line[position:]

	line_family('whitespace: spaces in the middle', 'Whitespaces', 'Spaces in the middle', ['code statement', '#define line', 'macro continuation line'], double_space)

	def drop_space_after_comma(line, _kind, _rng):
		if re.search(r',[^ ]', line) or not re.search(r', [A-Za-z]', line):
			return None
		return re.sub(r', ([A-Za-z])', r',\1', line, count=1)

	line_family('whitespace: comma not followed by a space', 'Whitespaces', 'Comma should be followed by a space', ['code statement', 'macro continuation line'], drop_space_after_comma)

	LINE_KINDS['#define line with parameters'] = ('#define', lambda lines, i: bool(re.match(r'^#define \w+\(\w+, \w+[^"/]*$', lines[i])))
	line_family('whitespace: comma not followed by a space', 'Whitespaces', 'Comma should be followed by a space', ['#define line with parameters'], drop_space_after_comma)

	# the same comma edit in the CODE of lines that also hold a trailing // comment or a string literal, stratified by what that comment /
	# literal holds: a run of two blanks there is allowed (aligned comments, message texts) and must not hide the comma in the code
	for kind in COMMA_KINDS:
		def comma_beside(rng, path, lines, kind=kind):
			candidates = [(i, sites) for i, sites in ((i, comma_sites(lines[i], kind)) for i in range(21, len(lines))) if sites]
			if not candidates:
				return None
			i, sites = rng.choice(candidates)
			position = rng.choice(sites)
			new = lines[i][:position + 1] + lines[i][position + 2:]
			return Edit('', path, lines[:i] + [new] + lines[i + 1:], 'Whitespaces', 'Comma should be followed by a space', i + 1, f'stratum {kind}; blank after column {position + 1} removed')
		comma_beside.wanted = 2 if 'two blanks' in kind else 0
		add(f'whitespace: comma not followed by a space [{kind}]', ', ', comma_beside)

	def comma_after_empty_literal(rng, path, lines):
		# `f("", g(""))`: the blank after the comma that follows an EMPTY string literal, on a line that holds another quote later on
		candidates = [i for i in range(21, len(lines)) if re.search(r'\("", [^"]*"', lines[i]) and '//' not in lines[i] and '  ' not in lines[i].strip()]
		if not candidates:
			return None
		i = rng.choice(candidates)
		position = lines[i].index('"", ') + 2
		new = lines[i][:position + 1] + lines[i][position + 2:]
		return Edit('', path, lines[:i] + [new] + lines[i + 1:], 'Whitespaces', 'Comma should be followed by a space', i + 1, 'stratum comma after an empty string literal')
	add('whitespace: comma not followed by a space [after an empty string literal]', '"", ', comma_after_empty_literal)

	def comma_beside_slashes_literal(rng, path, lines):
		# `EXPECT_EQ("mongodb://host", x)`: a comma in the code of a line whose string literal holds `//` (the linter strips `//.*` first)
		candidates = []
		for i in range(21, len(lines)):
			line = lines[i]
			if '//' not in line or line.count('"') % 2 or '\\' in line or "'" in line or '/*' in line:
				continue
			inside, holds, after = False, False, None   # after: column where the first literal that holds // ends
			for position, char in enumerate(line):
				if char == '"':
					inside = not inside
					if not inside and holds and after is None:
						after = position
				elif line.startswith('//', position):
					if not inside:
						after = None
						break
					holds = True
			if after is None:
				continue
			inside = False
			for position, char in enumerate(line[:-2]):
				if char == '"':
					inside = not inside
				elif char == ',' and not inside and position > after and line[position + 1] == ' ' and line[position + 2] not in ' )"':
					candidates.append((i, position))
		if not candidates:
			return None
		i, position = rng.choice(candidates)
		new = lines[i][:position + 1] + lines[i][position + 2:]
		return Edit('', path, lines[:i] + [new] + lines[i + 1:], 'Whitespaces', 'Comma should be followed by a space', i + 1, 'stratum comma beside a string literal that holds //')
	add('whitespace: comma not followed by a space [beside a literal holding //]', '://', comma_beside_slashes_literal)

	line_family('whitespace: tabs in empty line', 'Whitespaces', 'Tabs in empty line', ['blank line'], lambda l, k, r: '\t')
	LINE_KINDS['blank line after the licence header'] = (None, lambda lines, i: i == 20 and lines[i] == '' and lines[0] == '/**')
	line_family('whitespace: tabs in empty line', 'Whitespaces', 'Tabs in empty line', ['blank line after the licence header'], lambda l, k, r: '\t')

	def too_long(line, kind, _rng):
		if kind in ('// comment line', '/// doc comment line', 'licence header line', 'first line of file'):
			return line + ' ' + _pad(line + ' ')
		if kind == 'macro continuation line':
			return line[:-2] + ' /* ' + _pad(line + ' /*  */') + ' */ \\'
		return line + ' // ' + _pad(line + ' // ')

	line_family('line length', 'LongLines', 'Line too long', every, too_long)

	# typo list: the same words in every kind of position
	anywhere = [item for item in tables['typo'] if len(item['contexts']) == 9]
	plain_words = [item for item in anywhere if re.match(r'^[A-Za-z][A-Za-z0-9_]*$', item['witness'])]

	def typo_family(kind, place, words):
		needle, predicate = LINE_KINDS[kind]

		def make(rng, path, lines):
			candidates = [i for i in range(len(lines)) if predicate(lines, i)]
			if not candidates or not words:
				return None
			i = rng.choice(candidates)
			item = rng.choice(words)
			new = place(lines[i], item['witness'])
			if new is None:
				return None
			return Edit('', path, lines[:i] + [new] + lines[i + 1:], 'Typos', item['id'], i + 1, f'stratum {kind}; pattern {item["pattern"]!r} witness {item["witness"]!r}')
		add(f'typo list [{kind}]', needle, make)

	typo_family('// comment line', lambda l, w: l + ' ' + w, anywhere)
	typo_family('/// doc comment line', lambda l, w: l[:-1] + ' ' + w + '.', anywhere)
	typo_family('code statement', lambda l, w: (re.sub(r'\b([a-z][A-Za-z]{3,})\b', lambda m: m.group(1) + w, l, count=1) if re.search(r'\b[a-z][A-Za-z]{3,}\b', l) else None), plain_words)
	typo_family('line with a string literal', lambda l, w: re.sub(r'"([A-Za-z])', '"' + w + ' \\1', l, count=1), plain_words)
	typo_family('#include line', lambda l, w: l + ' // ' + w, anywhere)
	typo_family('#define line', lambda l, w: l + w, plain_words)
	typo_family('macro continuation line', lambda l, w: l[:-2] + ' /* ' + w + ' */ \\', plain_words)
	typo_family('licence header line', lambda l, w: l + ' ' + w, anywhere)
	typo_family('last line of file', lambda l, w: l + ' // ' + w, anywhere)

	# typo list, the entries that are about punctuation (their wording is quoted from the linter's messages), seeded on lines that hold
	# nothing but punctuation - closing lines of lambdas, calls, initialiser lists, empty bodies - where no word can trigger anything.
	# (`};` closing a class is left out: a second semicolon there makes the linter's namespace parser give up on the whole run.)
	def wordless_family(kind, message, regex, edit):
		pattern = re.compile(regex)

		def make(rng, path, lines):
			candidates = [i for i in range(21, len(lines)) if pattern.match(lines[i])]
			if not candidates:
				return None
			i = rng.choice(candidates)
			new = edit(lines[i])
			assert not re.search(r'\w', new), new
			return Edit('', path, lines[:i] + [new] + lines[i + 1:], 'Typos', message, i + 1, f'stratum {kind}: {lines[i].strip()!r} -> {new.strip()!r}')
		add(f'typo list [line without a word character: {kind}]', None, make)

	closing_call = r'^\t+[})]*\);$'
	wordless_family('second semicolon after a closing `);`', 'no double semicolons', closing_call, lambda l: l + ';')
	wordless_family('blank before the semicolon of a closing `);`', 'no space before semicolon', closing_call, lambda l: l[:-1] + ' ;')
	wordless_family('blank inside an empty body `{}`', 'don\'t leave space between braces `{}`', r'^\t+\{\}$', lambda l: l[:-1] + ' }')
	wordless_family('blank before the comma of a closing `},`', 'do not have space before comma', r'^\t+[})]+,$', lambda l: l[:-1] + ' ,')
	wordless_family('blank between the closing braces `}}`', 'remove space between braces', r'^\t+\}\}[;)]*$', lambda l: l.replace('}}', '} }', 1))

	# consecutive blank lines by position
	def blank_family(kind, predicate):
		def make(rng, path, lines):
			candidates = [i for i in range(len(lines)) if predicate(lines, i)]
			if not candidates:
				return None
			i = rng.choice(candidates)
			return Edit('', path, lines[:i + 1] + [''] + lines[i + 1:], 'Consecutiveempty', 'Consecutive empty lines', i + 2, f'stratum {kind}')
		add(f'consecutive blank lines [{kind}]', None, make)

	blank_family('blank line after the licence header', LINE_KINDS['blank line after the licence header'][1])
	blank_family('blank line after #pragma once or the include block', lambda lines, i: 21 <= i < len(lines) - 3 and lines[i] == '' and lines[i - 1].startswith('#'))
	blank_family('blank line after a backslash-continued macro', lambda lines, i: 22 <= i < len(lines) - 3 and lines[i] == '' and lines[i - 2].endswith('\\') and not lines[i - 1].endswith('\\'))
	blank_family('blank line inside an indented block', lambda lines, i: 21 <= i < len(lines) - 3 and lines[i] == '' and lines[i + 1].startswith('\t\t'))
	blank_family('blank line before a namespace-level declaration', lambda lines, i: 21 <= i < len(lines) - 3 and lines[i] == '' and bool(re.match(r'^\t?[A-Za-z/]', lines[i + 1])))
	blank_family('last blank line of the file', lambda lines, i: lines[i] == '' and i >= 21 and '' not in lines[i + 1:-1] and i < len(lines) - 2)
	blank_family('blank right after a backslash line', lambda lines, i: 21 <= i < len(lines) - 3 and lines[i] == '' and lines[i - 1].endswith('\\'))
	blank_family('blank right before a backslash line', lambda lines, i: 21 <= i < len(lines) - 3 and lines[i] == '' and lines[i + 1].endswith('\\'))

	# preprocessor indentation: every directive keyword (and every first word after `pragma`) that occurs in the tree
	kinds = set()
	for text in texts.values():
		for match in re.finditer(r'^#[ \t]*(\w+)(?:[ \t]+(\w+))?', text, re.M):
			kinds.add(('pragma ' + (match.group(2) or '')) if match.group(1) == 'pragma' else match.group(1))
	known = {'include', 'define', 'undef', 'if', 'ifdef', 'ifndef', 'elif', 'else', 'endif', 'error'}

	def indent_family(kind):
		pattern = re.compile(r'^#' + re.escape(kind).replace('\\ ', r'[ \t]+') + r'\b')

		def make(rng, path, lines):
			candidates = [i for i in range(len(lines)) if pattern.match(lines[i])]
			if not candidates:
				return None
			i = rng.choice(candidates)
			return Edit('', path, lines[:i] + ['\t' + lines[i]] + lines[i + 1:], 'Indentedpreprocessor', 'preprocessor should be aligned to column 0', i + 1, f'stratum #{kind}')
		add(f'preprocessor indentation [#{kind}]', '#' + kind.split(' ')[0], make)

	for kind in sorted(kinds):
		if kind in known or kind.startswith('pragma '):
			indent_family(kind)

	def indent_position(kind, predicate):
		def make(rng, path, lines):
			candidates = [i for i in range(len(lines)) if predicate(lines, i)]
			if not candidates:
				return None
			i = rng.choice(candidates)
			return Edit('', path, lines[:i] + ['\t' + lines[i]] + lines[i + 1:], 'Indentedpreprocessor', 'preprocessor should be aligned to column 0', i + 1, f'stratum {kind}')
		add(f'preprocessor indentation [{kind}]', '#', make)

	indent_position('directive on the last line of the file', lambda lines, i: i == len(lines) - 2 and lines[-1] == '' and lines[i].startswith('#'))
	indent_position('first directive of the file', lambda lines, i: lines[i].startswith('#') and lines[i] != '#pragma once' and not any(l.startswith('#') and l != '#pragma once' for l in lines[:i]))
	indent_position('multi-line #define (first line)', lambda lines, i: bool(re.match(r'^#define .*\\$', lines[i])))
	indent_position('directive nested inside #if', lambda lines, i: bool(re.match(r'^#(define|include|undef)', lines[i])) and i > 0 and bool(re.match(r'^#(if|ifdef|ifndef|else)', lines[i - 1])))

	def continuation_only(rng, path, lines):
		candidates = [i for i in range(len(lines) - 1) if re.match(r'^#define .*\\$', lines[i]) and re.match(r'^\t[^\t]', lines[i + 1])]
		if not candidates:
			return None
		i = rng.choice(candidates) + 1
		return Edit(
			'', path, lines[:i] + ['\t' + lines[i]] + lines[i + 1:], 'Indentedpreprocessor', 'first continuation must have single indent', i + 1,
			'stratum: extra tab on the first continuation line of a column-0 multi-line #define')
	add('preprocessor indentation [first continuation line only] (informational)', '\\\n', continuation_only, informational=True)

	# include order: one stratum per class of the swapped neighbours
	classes = {
		'local "x.h"': r'^#include "[^/"]+"$', '"catapult/..."': r'^#include "catapult/', '"tests/..."': r'^#include "tests/', '"src/..."': r'^#include "src/',
		'"plugins/..."': r'^#include "plugins/', '"<extension>/src/..."': r'^#include "[a-z]+/src/', '<boost/...>': r'^#include <boost/', '<std>': r'^#include <[a-z_]+>$',
		'<c header .h>': r'^#include <[a-z_/]+\.h>$', '"mongo/..."': r'^#include "mongo/'}

	def order_exempt(line):
		# includes the linter's configuration (exclusions.SPECIAL_INCLUDES) exempts from the order rule ("always in an ifdef", ...)
		import exclusions  # pylint: disable=import-error,import-outside-toplevel
		spelled = line[len('#include '):].strip()
		return any(pattern_.match(spelled) for pattern_ in exclusions.SPECIAL_INCLUDES)

	def order_family(kind, regex):
		pattern = re.compile(regex)

		def make(rng, path, lines):
			block = [i for i in range(len(lines)) if re.match(r'^#include ["<]', lines[i])]
			start = 1 if path.endswith('.cpp') else 0
			# only neighbours that ARE in ascending order as written (a few files keep a deliberately unsorted pair, e.g. <windows.h> before
			# <psapi.h>, and are exempted by the linter's exclusions): swapping an ascending same-class pair provably breaks the order
			pairs = [a for a, b in zip(block[start:], block[start + 1:]) if b == a + 1 and lines[a] < lines[b] and lines[a].lower() < lines[b].lower()
				and pattern.match(lines[a]) and pattern.match(lines[b]) and not order_exempt(lines[a]) and not order_exempt(lines[b])]
			if not pairs:
				return None
			a = rng.choice(pairs)
			new = list(lines)
			new[a], new[a + 1] = new[a + 1], new[a]
			return Edit('', path, new, 'Includesorder', 'Includes needs fixing', None, f'stratum {kind}')
		add(f'include order [{kind}]', '#include', make)

	for kind, regex in classes.items():
		order_family(kind, regex)
	# the same by path depth (the comparator has a rule of its own for two-element paths: "goes to bottom")
	for kind, regex in {
		'both of two path elements': r'^#include "[^/"]+/[^/"]+"$', 'both of three path elements': r'^#include "[^/"]+/[^/"]+/[^/"]+"$',
		'both of four or more path elements': r'^#include "[^/"]+/[^/"]+/[^/"]+/[^"]+"$'}.items():
		order_family(kind, regex)

	def order_mixed_depth(rng, path, lines):
		# a deeper include directly above a two-element include with the same first element ("catapult/utils/X.h" above "catapult/types.h"):
		# the tree is silent, so the pair is in the linter's order as written and the two differ; swapped, it is not
		block = [i for i in range(len(lines)) if re.match(r'^#include ["<]', lines[i])]
		start = 1 if path.endswith('.cpp') else 0
		pairs = [a for a, b in zip(block[start:], block[start + 1:]) if b == a + 1
			and re.match(r'^#include "([^/"]+)/[^/"]+/[^"]+"$', lines[a]) and re.match(r'^#include "[^/"]+/[^/"]+"$', lines[b])
			and lines[a].split('/')[0] == lines[b].split('/')[0] and not order_exempt(lines[a]) and not order_exempt(lines[b])]
		if not pairs:
			return None
		a = rng.choice(pairs)
		new = list(lines)
		new[a], new[a + 1] = new[a + 1], new[a]
		return Edit('', path, new, 'Includesorder', 'Includes needs fixing', None, 'stratum deeper include above a two-element include')
	add('include order [two-element include above a deeper one]', '#include', order_mixed_depth)

	def order_boundary(rng, path, lines):
		block = [i for i in range(len(lines)) if re.match(r'^#include ["<]', lines[i])]
		start = 1 if path.endswith('.cpp') else 0
		pairs = [a for a, b in zip(block[start:], block[start + 1:]) if b == a + 1 and lines[a][9] == '"' and lines[b][9] == '<']
		if not pairs:
			return None
		a = rng.choice(pairs)
		new = list(lines)
		new[a], new[a + 1] = new[a + 1], new[a]
		return Edit('', path, new, 'Includesorder', 'Includes needs fixing', None, 'stratum quoted/angle boundary')
	add('include order [quoted include after angle include]', '#include', order_boundary)

	# first include / namespace: one stratum per rule set (top directory, src vs tests)
	def area_of(path):
		parts = path.split('/')
		return parts[0] + ('/tests' if 'tests' in parts[1:] or 'test' in parts[1:] else '')

	areas = sorted({area_of(path) for path in texts})

	def first_include_family(area):
		def make(rng, path, lines):
			if area_of(path) != area or not path.endswith('.cpp'):
				return None
			block = [i for i in range(len(lines)) if re.match(r'^#include ["<]', lines[i])]
			if len(block) < 2 or block[1] != block[0] + 1 or lines[block[0]] == lines[block[1]]:
				return None
			new = list(lines)
			new[block[0]], new[block[1]] = new[block[1]], new[block[0]]
			return Edit('', path, new, 'Firstinclude', 'Expected first include to be', None, f'stratum {area}')
		add(f'first include [{area}]', '#include', make)

	def own_header_removed(rng, path, lines):
		# a .cpp whose first include is its own header: delete that include altogether (the next include moves to the front)
		if not path.endswith('.cpp') or '/int/' in path or '/bench/' in path or '/stress/' in path:
			return None
		block = [i for i in range(len(lines)) if re.match(r'^#include ["<]', lines[i])]
		stem = path.rsplit('/', 1)[-1][:-4]
		if len(block) < 2 or lines[block[0]] != f'#include "{stem}.h"':
			return None
		return Edit('', path, lines[:block[0]] + lines[block[0] + 1:], 'Firstinclude', 'Expected first include to be', None, 'stratum own header removed')
	own_header_removed.wanted = 3
	add('first include [own header removed]', '#include', own_header_removed)

	def namespace_family(area):
		def make(rng, path, lines):
			if area_of(path) != area or '/int/' in path or '/bench/' in path or path.startswith('tests/int'):
				return None
			candidates = [k for k in range(len(lines)) if re.match(r'^namespace catapult { namespace [a-z_]+ {$', lines[k])]
			if not candidates:
				return None
			i = rng.choice(candidates)
			return Edit('', path, lines[:i] + ['namespace catapult { namespace zzseeded {'] + lines[i + 1:], 'Inconsistent', 'namespace is inconsistent with file location', None, f'stratum {area}')
		add(f'namespace versus path [{area}]', 'namespace catapult', make)

	for area in areas:
		first_include_family(area)
		namespace_family(area)

	def namespace_like_a_directory(rng, path, lines):
		# a test utility directory (…/tests/…/test/…): the namespace must be catapult::test; the name of a directory ABOVE the file is
		# a wrong namespace that a substring test against the path would let through
		parts = path.split('/')
		if parts[0] != 'tests' or 'test' not in parts[1:-1] or 'int' in parts or 'bench' in parts or 'mocks' in parts:
			return None
		candidates = [k for k in range(len(lines)) if lines[k] == 'namespace catapult { namespace test {']
		# nested utility directories only (tests/<area>/…/test/…), and the directory that follows `catapult` in the path: the namespace
		# catapult::<that directory> spells a substring of the path
		if parts[1] == 'test' or 'catapult' not in parts[1:-2]:
			return None
		name = parts[parts.index('catapult', 1) + 1].replace('_', '')   # the linter compares against the path with underscores stripped
		names = [name] if re.fullmatch(r'[a-z_]+', name) and name not in ('test', 'tests', 'catapult', 'mocks', 'int', 'bench') else []
		if not candidates or not names:
			return None
		i = rng.choice(candidates)
		return Edit(
			'', path, lines[:i] + [f'namespace catapult {{ namespace {rng.choice(names)} {{'] + lines[i + 1:], 'Inconsistent',
			'namespace is inconsistent with file location', None, 'stratum namespace named after a directory above a test utility file')
	namespace_like_a_directory.wanted = 6   # directory names differ in how they survive the linter's path normalisation: several sites
	add('namespace versus path [test utility directory, namespace named after a parent directory]', 'namespace catapult', namespace_like_a_directory)

	# dependency rules: one stratum per --dep-check-dir
	def dependency_family(kind, path_regex, include_prefix, replacement):
		def make(rng, path, lines):
			if not re.match(path_regex, path) or 'tests' in path:
				return None
			candidates = [k for k in range(len(lines)) if lines[k].startswith(f'#include "{include_prefix}')]
			if not candidates:
				return None
			i = rng.choice(candidates)
			return Edit('', path, lines[:i] + [lines[i].replace(include_prefix, replacement, 1)] + lines[i + 1:], 'Dependencies', f'-> {replacement.rstrip("/")}', None, f'stratum {kind}')
		add(f'dependency rule [{kind}]', '#include "' + include_prefix, make)

	dependency_family('plugins', r'^plugins/txes/[a-z_]+/src/[a-z]+/', 'catapult/', 'tools/health/')
	dependency_family('extensions', r'^extensions/[a-z]+/src/', 'catapult/', 'tools/health/')
	dependency_family('src (local single-directory include)', r'^src/catapult/(crypto|utils)/[A-Za-z0-9_]+\.(h|cpp)$', 'catapult/utils/', 'zzseeded/')

	# dependency rules: components whose directory name merely EXTENDS a name the rule file has rules for (catapult/io -> catapult/ionet,
	# catapult/cache -> catapult/cache_db, extensions/mongo -> extensions/mongo/plugins/...): what only the shorter name may use stays
	# forbidden for the longer one.  Pairs and forbidden targets come from the real rule file and the real directory names.
	oracle = DepsOracle(shipped_deps_text())
	components = {dep_component(path) for path in texts} - {None}
	headers = header_names(texts)

	def insert_include(rng, lines, path, directory):
		block = [k for k in range(len(lines)) if re.match(r'^#include "', lines[k])]
		if path.endswith('.cpp'):
			block = block[1:]
		if not block:
			return None
		k = rng.choice(block)
		return lines[:k + 1] + [f'#include "{directory}/{headers.get(directory, "Seeded.h")}"'] + lines[k + 1:]

	def extended_source_family(source, extended, forbidden):
		def make(rng, path, lines):
			if dep_component(path) != extended:
				return None
			directory = rng.choice(forbidden)
			new = insert_include(rng, lines, path, directory)
			if new is None:
				return None
			return Edit('', path, new, 'Dependencies', f'{extended} -> {directory} ', None, f'stratum: {extended} extends the rule name {source}; {directory} is for {source} only')
		add(f'dependency rule [{extended} extends {source}]', '#include "', make)

	for source, extended, forbidden in prefix_related(oracle, components):
		extended_source_family(source, extended, forbidden)

	def extended_target(rng, path, lines, mode):
		component = dep_component(path)
		if component is None:
			return None
		targets = sorted({t for name in oracle.sources_covering(component) for t in oracle.closure[name] if _literal_name(t) and '/' in t})
		rng.shuffle(targets)
		for target in targets:
			if mode == 'prefix':
				choices = sorted(c for c in headers if c.startswith(target) and c != target and '/' in c and not oracle.allowed(component, c))
			else:
				choices = [c for c in ('zz/' + target, 'zz' + target) if not oracle.allowed(component, c)]
			if choices:
				directory = rng.choice(choices)
				new = insert_include(rng, lines, path, directory)
				if new is None:
					return None
				return Edit('', path, new, 'Dependencies', f'{component} -> {directory} ', None, f'stratum: {directory} has the allowed {target} as a proper {mode}')
		return None

	def extended_target_prefix(rng, path, lines):
		return extended_target(rng, path, lines, 'prefix')

	def extended_target_suffix(rng, path, lines):
		return extended_target(rng, path, lines, 'suffix')

	add('dependency rule [included name extends an allowed name]', '#include "', extended_target_prefix)
	add('dependency rule [included name ends with an allowed name]', '#include "', extended_target_suffix)

	# cross-component includes: one stratum per rule set
	def cross_family(kind, path_regex, include_regex, replacement, site_filter=None):
		def make(rng, path, lines):
			match = re.match(path_regex, path)
			if not match:
				return None
			pattern = re.compile(include_regex.format(*[re.escape(g) for g in match.groups()]))
			candidates = [k for k in range(len(lines)) if pattern.match(lines[k]) and (site_filter is None or site_filter(path, lines[k]))]
			if not candidates:
				return None
			i = rng.choice(candidates)
			return Edit('', path, lines[:i] + [pattern.sub(replacement, lines[i], count=1)] + lines[i + 1:], 'Cross_Includes', 'Cross component includes', None, f'stratum {kind}')
		add(f'cross-component include [{kind}]', '#include "', make)

	cross_family('plugins', r'^plugins/txes/([a-z_]+)/tests/.*\.cpp$', r'^#include "plugins/txes/[a-z_]+/tests/', '#include "plugins/txes/zzseeded/tests/')

	# ExtensionRules.validate_cross_includes reports a foreign extension's test header unless the directory of the including file under
	# <extension>/ (fourth path element; for files right under tests/ the file name) and the third element of the include have the same
	# name up to the first underscore - a comparison meant for the plugin families of extensions/mongo.  Two strata: names differ (must be
	# reported), names equal (`finalization/tests/test/X.cpp` including `other/tests/test/...`: reported to the lead separately)
	def sub_directories(path, line):
		parts = path.split('/')
		included = line[len('#include "'):].split('"')[0].split('/')
		if len(parts) < 4 or len(included) < 3:
			return None
		return parts[3].split('_')[0], included[2].split('_')[0]

	def differ(path, line):
		names = sub_directories(path, line)
		return names is not None and names[0] != names[1]

	def equal(path, line):
		names = sub_directories(path, line)
		return names is not None and names[0] == names[1]
	cross_family('extensions', r'^extensions/([a-z]+)/tests/.*\.cpp$', r'^#include "{0}/tests/', '#include "zzseeded/tests/', differ)
	cross_family('extensions, equally named sub-directory', r'^extensions/([a-z]+)/tests/.*\.cpp$', r'^#include "{0}/tests/', '#include "zzseeded/tests/', equal)
	return entries


def seeded_worker(job):  # pylint: disable=too-many-locals
	"""Runs one seeded site: scratch tree = exclusion base of the file's top directory + the file; seeded run, undo, clean run."""
	scratch_root, index, family, path, old_text, new_text, suite, text, lineno, base = job
	tree = Path(scratch_root) / f'site{index}'
	if tree.exists():
		shutil.rmtree(tree)
	tree.mkdir(parents=True)
	result = {'family': family, 'path': path, 'suite': suite, 'text': text, 'lineno': lineno}
	try:
		copy_files(base, tree)
		target = tree / path
		target.parent.mkdir(parents=True, exist_ok=True)
		target.write_bytes(new_text.encode('utf8'))
		status, suites, out = run_linter(tree, 600)
		errors = suites.get(suite, [])
		joined = '\n'.join(errors)
		blocks = joined.split(path)
		mentioned = any(text in block for block in blocks[1:]) if suite != 'Dependencies' else any(text in e and path in e for e in errors)
		line_ok = True
		if lineno is not None and lineno != 0:
			line_ok = any(f'{path}:{lineno} ' in e and text in e for e in errors)
		total = total_errors(suites)
		result.update({
			'reported': bool(mentioned), 'line_ok': bool(line_ok), 'status': status, 'total': total,
			'status_ok': status is not None and status != 0 and status == (total & 0xFF if total else 1),
			'seeded_output': '' if mentioned and line_ok else out[-1500:],
			'suites_hit': {name: count for name, count in suites.counts.items() if count}})
		target.write_bytes(old_text.encode('utf8'))
		status, suites, out = run_linter(tree, 600)
		result.update({'clean_status': status, 'clean_total': total_errors(suites), 'clean_output': '' if status == 0 else out[-1500:]})
	finally:
		shutil.rmtree(tree, ignore_errors=True)
	return result


# ---------------------------------------------------------------------------------------------------------------------

def independent_oracles(check, scratch, files, all_contents):  # pylint: disable=too-many-locals,too-many-branches,too-many-statements
	"""Property oracles that use neither the Coq model nor the pinned skeletons; every failure carries its input."""
	quick = check.tier == 'quick'
	rng = check.rng
	stats = {}

	# -- dependency rules, shipped rule file: every (component, include directory) the tree knows, plus directory names around them
	shipped = shipped_deps_text()
	oracle = DepsOracle(shipped)
	components = sorted({dep_component(path) for path in files} - {None})
	headers = header_names(files)
	first_file = {}
	for path in files:
		component = dep_component(path)
		if component is not None:
			first_file.setdefault(component, path)
	related = prefix_related(oracle, components)
	probes = {}   # file name -> [(include, expected allowed)]

	def probe(component, directory, why):
		name = first_file.get(component) or (('' if component.startswith(('extensions', 'plugins')) else 'src/') + component + '/Seeded.h')
		if dep_component(name) != component:
			return
		include = f'{directory}/{headers.get(directory, "Seeded.h")}'
		probes.setdefault(name, {})[include] = (component, directory, oracle.allowed(component, directory), why)

	for source, component, forbidden in related:
		for directory in forbidden:
			probe(component, directory, f'{component} extends the rule name {source}')
	destinations = sorted({d for targets in oracle.closure.values() for d in targets if _literal_name(d) and '/' in d})
	varied = directory_variants([c for c in components if c.count('/') <= 2] + [s for s in oracle.closure if s.count('/') <= 2])
	for _ in range(4000 if quick else 40000):
		probe(rng.choice(components + varied), rng.choice(destinations + directory_variants(rng.sample(destinations, 2))), 'random pair')
	reports = real_dependency_reports({name: list(table) for name, table in probes.items()})
	reported = {(message.split(' # ')[1].split(' includes ')[0], message.split(' includes ')[1]) for _, _, message in reports}
	stats['shipped_rule_file'] = {'prefix_related_pairs': len(related), 'probes': sum(len(t) for t in probes.values()), 'reported': len(reported)}
	flat = [(name, include) + item for name, table in probes.items() for include, item in table.items()]
	flat.sort(key=lambda item: (item[5] == 'random pair', not item[0].startswith('src/'), item[0], item[1]))
	for name, include, component, directory, allowed, why in flat:
		for _ in (0,):
			check.case('oracle:deps:' + ('allowed' if allowed else 'forbidden') + (':prefix-related' if why != 'random pair' else ''), (name, include))
			observed = (name, include) not in reported
			if observed != allowed:
				stem = 'forbidden-dependency-not-reported' if not allowed else 'allowed-dependency-reported'
				check.fail(
					f'deps-oracle:{stem}',
					f'{name} (component {component}) includes "{include}": the rule file {"allows" if allowed else "does not allow"} {component} -> {directory} '
					f'({why}), the linter {"does not report" if observed else "reports"} it',
					{'kind': 'deps', 'config': None, 'file': name, 'include': include, 'component': component, 'directory': directory,
						'expected': 'allowed' if allowed else 'reported', 'how': 'run.py replay <this file>'})

	# -- dependency rules, synthetic rule files over names that are prefixes / suffixes / extensions of one another
	configs = 0
	pairs_checked = 0
	for _ in range(100 if quick else 2000):
		text = prefix_config(rng)
		synthetic = DepsOracle(text)
		if synthetic.bad or synthetic.cyclic:
			continue
		try:
			checker, _ = real_deps_checker(text)
		except Exception as ex:  # pylint: disable=broad-except
			check.fail('deps-oracle:rule-file-rejected', f'an acyclic rule file with one-level name sets is rejected: {type(ex).__name__}: {ex}', {
				'kind': 'deps', 'config': text, 'file': None, 'include': None, 'expected': 'accepted', 'how': 'run.py replay <this file>'})
			continue
		configs += 1
		variants = directory_variants(PREFIX_NAMES)
		names = sorted(set(rng.sample(variants, min(len(variants), 24))) | {n for n in PREFIX_NAMES if _literal_name(n)} | {'catapult'})
		mismatch = None
		for src in names:
			for dest in names:
				expected = synthetic.allowed(src, dest)
				observed = bool(checker.match('x.h', src, dest, dest + '/y.h'))
				pairs_checked += 1
				if observed != expected and mismatch is None:
					mismatch = (src, dest, expected, observed)
		check.case('oracle:deps:synthetic-rule-file', text)
		if mismatch:
			src, dest, expected, observed = mismatch
			stem = 'forbidden-dependency-not-reported' if not expected else 'allowed-dependency-reported'
			check.fail(
				f'deps-oracle:synthetic:{stem}', f'rule file {text!r}: {src} -> {dest} is {"allowed" if expected else "not allowed"} by the rules, '
				f'DepsChecker.match says {"allowed" if observed else "reported"}',
				{'kind': 'deps', 'config': text, 'file': None, 'include': None, 'component': src, 'directory': dest,
					'expected': 'allowed' if expected else 'reported', 'how': 'run.py replay <this file>'})
	stats['synthetic_rule_files'] = {'configs': configs, 'pairs': pairs_checked}

	# -- HeaderParser.parse_file: blank-line bookkeeping and include extraction on synthetic sources (exotic separators inside lines,
	#    CRLF, no final LF, empty file, includes on the first / last line, blank lines after a backslash)
	(scratch / 'oracle').mkdir(exist_ok=True)
	sources = list(FIXED_SOURCES) + [synthetic_source(rng) for _ in range(2000 if quick else 20000)]
	for text, includes in sources:
		lines = file_lines(text)
		must, must_not = blank_expectations(lines)
		observed = parse_observed(scratch / 'oracle', text)
		check.case('oracle:parse:' + ('blank-pair' if must else 'no-blank-pair'), text)
		replay_info = {'kind': 'parse', 'content': text, 'expected_consecutive_at': must, 'expected_includes': includes, 'how': 'run.py replay <this file>'}
		if isinstance(observed, str):
			check.fail(f'parse-oracle:{observed}', f'HeaderParser raises {observed[6:]} on {text!r}', replay_info)
			continue
		found, parsed = observed
		missing = [n for n in must if n not in found]
		spurious = [n for n in found if n in must_not]
		if missing:
			check.fail(
				'parse-oracle:consecutive-blank-lines-not-reported:' + _signature(blank_class(lines, missing[0] - 2)),
				f'lines {missing[0] - 1} and {missing[0]} of {text!r} are both blank, no consecutiveEmpty report for line {missing[0]} (reported: {found})', replay_info)
		if spurious:
			check.fail('parse-oracle:consecutive-blank-lines-reported-without-blank-pair', f'consecutiveEmpty reported at {spurious} of {text!r}', replay_info)
		if parsed != includes:
			check.fail('parse-oracle:includes-extracted', f'includes extracted from {text!r}: {parsed}, expected {includes}', replay_info)
	stats['synthetic_sources'] = len(sources)

	# -- the same bookkeeping on the tree's own files: one extra blank line next to a blank line, for every class of preceding line
	cap = 120 if quick else 10 ** 9
	taken = {}
	order = list(files)
	rng.shuffle(order)
	sites = 0
	for path in order:
		text = all_contents[path]
		lines = file_lines(text)
		by_class = {}
		for i in range(21, len(lines) - 1):
			if lines[i] == '' and lines[i + 1] != '' and lines[i - 1] != '':
				by_class.setdefault(blank_class(lines, i), []).append(i)
		for name, positions in sorted(by_class.items()):
			if taken.get(name, 0) >= cap:
				continue
			taken[name] = taken.get(name, 0) + 1
			i = rng.choice(positions)
			seeded = '\n'.join(lines[:i + 1] + [''] + lines[i + 1:]) + '\n'
			observed = parse_observed(scratch / 'oracle', seeded, 'probe' + os.path.splitext(path)[1])
			sites += 1
			check.case('oracle:parse:tree-file-extra-blank-line:' + name, (path, i))
			if isinstance(observed, str) or (i + 2) not in observed[0]:
				check.fail(
					'seeded-not-reported:consecutive-blank-lines-' + _signature(name),
					f'{path}: an extra blank line after the blank line {i + 1} ({name}) draws no consecutiveEmpty report for line {i + 2} '
					f'(HeaderParser says {observed if isinstance(observed, str) else observed[0]})',
					{'kind': 'seeded', 'family': f'consecutive blank lines [{name}] (in-process sweep)', 'path': path, 'expected_suite': 'Consecutiveempty',
						'expected_text': 'Consecutive empty lines', 'expected_line': i + 2, 'seeded_content': seeded, 'note': name, 'how': 'run.py replay <this file>'})
	stats['tree_files_extra_blank_line'] = {'sites': sites, 'per_class': taken}
	check.extra['independent_oracles'] = stats


def _signature(text):
	return re.sub(r'[^A-Za-z0-9]+', '-', text).strip('-')[:70]


def run(check, unrecognised):  # pylint: disable=too-many-locals,too-many-branches,too-many-statements
	quick = check.tier == 'quick'
	rng = check.rng
	check.trusted += [
		'translator harness/gens/c19.py: Python re._parser parse tree -> Regex.v term (fail-closed subset); pinned skeletons of the modelled '
		'validator methods, HeaderParser.parse_file, create_validators, ConReporter.suite and main (harness/shapes/LintPatterns.json)',
		'modelled, not verified: CPython re (sre) semantics for the translated subset, str.strip/startswith, file iteration over bytes, '
		'process exit status = low byte of sys.exit argument',
		'the seeded catalogue (harness/checks/c19.py) decides what counts as a violation of each rule family']
	check.assume += [
		'lines contain no code point 10; \\w and \\d are modelled for code points < 128 only (the tree is pure ASCII, checked per run)',
		'one seeded violation produces fewer than 256 reports (exit status is the failure count modulo 256)']
	check.extra['rule'] = (
		'(b) per-line cases: distinct lines of the analysed files (quick: random 1200 distinct lines of the 10 % component sample + 150 lines '
		'of expanded width >= 120; thorough: every distinct line of the tree) + perturbed lines (random insertion of whitespace / comma / '
		'quote / comment / region tokens and of witness words, deletions, padding to widths around the limit); per-file cases: real files '
		'(quick 30, thorough all) and compacted, structurally perturbed variants (blank lines, pragma, licence, region markers, CR); '
		'non-trivial = distinct inputs with a non-empty verdict on either side or a perturbed input. '
		'(c) seeded sites: random applicable (file, line) per catalogue family, quick 2 / thorough 40 sites per family '
		'(typo family: every translatable pattern at least once in thorough, 6 random patterns in quick); every family is additionally STRATIFIED '
		'by the syntactic kind of the line the edit applies to (code / comment / doc comment / string literal / #include / #define / macro continuation / '
		'licence header / first and last line; every preprocessor directive keyword and every `#pragma <word>` occurring in the tree; include classes; '
		'rule set per top directory; blank-line positions incl. directly after / before a line ending in a backslash; the comma edit in the code of lines '
		'that also hold a trailing // comment or a string literal, with and without a run of two blanks inside that comment / literal; the '
		'punctuation entries of the typo list on lines without any word character (`});` `{}` `},` `}}`); dependency rules for every '
		'component whose directory name extends a name the rule file has rules for, and for included directories that extend / end with an '
		'allowed name), at least one site per stratum present in the tree (quick 1, thorough 8). '
		'(b3) model-independent oracles, in process: checkProjectStructure.check_dependencies on the shipped deps.config against a reading of the '
		'rule file written from its documented meaning (every prefix-related (rule name, component, target) triple of the tree + random '
		'(component, directory) pairs incl. extended / truncated / prefixed names), DepsChecker.match on random acyclic rule files over names '
		'that are prefixes / suffixes of one another with multi-member name sets; HeaderParser.parse_file on synthetic sources built line by '
		'line with known roles (blank lines after a backslash, FF / VT / FS-RS / NEL / U+2028 / lone CR inside lines, CRLF, no final LF, empty file, '
		'includes on the first / last line): consecutive-blank-line reports and extracted includes; one extra blank line per class of preceding '
		'line in the tree\'s own files (quick 120 files per class, thorough all)')
	if unrecognised.get('LintPatterns'):
		for key in unrecognised['LintPatterns']:
			check.broken.append(f'shape:{key}')
		check.notes.append(f'anchors not recognised (pinned constants used, tie broken): {unrecognised["LintPatterns"]}')

	tables = gen19.build_tables()
	check.extra['patterns'] = {
		'typo_translated': len(tables['typo']), 'not_translatable': [f'{i["where"]}: {i["pattern"]} ({i["reason"]})' for i in tables['untranslatable']],
		'missing': tables['missing']}

	start = time.time()
	check.prove('C19.v')
	check.extra['prove_seconds'] = round(time.time() - start, 1)

	scratch = common.scratch_dir('c19')
	try:
		files = cpp_files(CATAPULT)
		base = exclusion_base(files)
		check.extra['tree'] = {'files': len(files), 'exclusion_base': len(base)}
		non_ascii = [path for path in files if any(b > 127 for b in (CATAPULT / path).read_bytes())]
		if non_ascii:
			check.notes.append(f'files with non-ASCII bytes (\\w/\\d modelled for ASCII only): {non_ascii[:5]}')

		# ---- (a) silence
		start = time.time()
		sample = sorted(set(quick_sample(files)) | set(base))
		if quick:
			tree = scratch / 'silence'
			copy_files(sample, tree)
			status, suites, out = run_linter(tree)
			scope = f'scratch copy of {len(sample)} files (10 % component sample + exclusion base)'
		else:
			status, suites, out = run_linter(CATAPULT)
			scope = f'whole tree in place (read-only, --text writes no report files), {len(files)} files'
		expected_suites = 42
		check.extra['silence'] = {
			'scope': scope, 'exit': status, 'suites': len(suites), 'failures': total_errors(suites), 'seconds': round(time.time() - start, 1)}
		check.case('silence', scope)
		if len(suites) < expected_suites:
			check.fail(
				'silence:suites-missing', f'the linter printed {len(suites)} suites, {expected_suites} expected (a validator or report section is gone)',
				{'kind': 'silence', 'scope': scope, 'suites': sorted(suites), 'exit': status, 'how': 'run.py replay <this file>'})
		if status != 0 or total_errors(suites):
			first = next(((name, errs[0] if errs else '') for name, errs in suites.items() if suites.counts.get(name)), ('<none>', out[-800:]))
			check.fail(
				'silence:' + _signature(first[0] + ' ' + first[1]), f'linter not silent on the unchanged tree: exit {status}, suite {first[0]}: {first[1][:300]}',
				{'kind': 'silence', 'scope': scope, 'suite': first[0], 'error': first[1], 'exit': status, 'how': 'run.py replay <this file>'})

		# ---- (b) correspondence
		start = time.time()
		real = RealLines(tables)
		pool_files = sample if quick else files
		contents = {path: (CATAPULT / path).read_text(encoding='utf8') for path in pool_files}
		distinct = sorted({line for text in contents.values() for line in text.split('\n')})
		wide = [line for line in distinct if len(line.replace('\t', '    ')) >= 120]
		chosen = sorted(set(rng.sample(distinct, min(len(distinct), 1200)) + rng.sample(wide, min(len(wide), 150)))) if quick else distinct
		witnesses = [item['witness'] for item in tables['typo']] + [item['witness'] for item in tables['single'].values() if item and item['witness']]
		perturbed = boundary_lines(rng) + [item['witness'] for item in tables['typo']]
		for _ in range(700 if quick else 20000):
			perturbed.append(perturb_line(rng, rng.choice(distinct), witnesses))
		cases = [('real', line) for line in chosen] + [('perturbed', line) for line in sorted(set(perturbed) - set(chosen))]
		outs = [real.verdict(line) for _, line in cases]
		models = coq_eval(PRELUDE, [f'render (per_line 1 {coq_line(line)})' for _, line in cases], 'c19l', shard=120 if quick else 400, timeout=1500)
		flagged = 0
		for (kind, line), out, mod in zip(cases, outs, models):
			check.case(f'line:{kind}' + (':flagged' if out else ''), line, nontrivial=bool(out or mod or kind == 'perturbed'))
			flagged += bool(out)
			if out != mod:
				check.disagree('LineRules.per_line-vs-validation.py', {'line': line}, out, mod)
		for (kind, line), out in list(zip(cases, outs))[::max(1, len(cases) // 3)][:3]:
			check.sample({'line': line, 'verdict': out})

		file_paths = sorted(rng.sample(pool_files, min(len(pool_files), 30))) if quick else pool_files
		file_cases = []
		for path in file_paths:
			lines = contents[path].split('\n')
			if lines and lines[-1] == '':
				lines = lines[:-1]
			file_cases.append(('real', path.endswith('.h'), lines))
		donors = [path for path in pool_files if contents[path].count('\n') < 400]
		for _ in range(150 if quick else 3000):
			path = rng.choice(donors)
			lines = contents[path].split('\n')[:-1]
			file_cases.append(('perturbed', path.endswith('.h') if rng.randrange(6) else not path.endswith('.h'), perturb_file(rng, lines)))
		(scratch / 'files').mkdir()
		file_outs = [real_file(scratch / 'files', k, hdr, lines) for k, (_, hdr, lines) in enumerate(file_cases)]
		file_models = coq_eval(
			PRELUDE, [f'render (stateful {"true" if hdr else "false"} [{"; ".join(coq_line(l) for l in lines)}])' for _, hdr, lines in file_cases],
			'c19f', shard=12 if quick else 40, timeout=1500)
		for (kind, hdr, lines), out, mod in zip(file_cases, file_outs, file_models):
			if out is None:
				check.case('file:skipped-unknown-preprocessor-directive', (hdr, tuple(lines)), nontrivial=False)
				continue
			mod = model_file_output(mod)
			check.case(f'file:{kind}' + (':flagged' if out else ''), (hdr, tuple(lines)), nontrivial=bool(out or mod or kind == 'perturbed'))
			if out != mod:
				check.disagree('LineRules.stateful-vs-HeaderParser/validation.py', {'header': hdr, 'lines': lines}, out, mod)
		check.sample({'file_case_lines': file_cases[-1][2][-6:], 'verdict': file_outs[-1]})
		check.extra['correspondence'] = {
			'line_cases': len(cases), 'line_cases_flagged_by_implementation': flagged, 'file_cases': len(file_cases),
			'file_cases_flagged_by_implementation': sum(1 for out in file_outs if out), 'seconds': round(time.time() - start, 1)}


		# ---- (b2) dependency rules: DepsChecker against Lint/Deps.v on the shipped deps.config, on the include pairs of the tree and on random configurations
		start = time.time()
		dep_files = [path for path in files if re.match(r'src|extensions|plugins', path) and 'tests' not in path]
		pairs = dependency_pairs(dep_files, lambda path: contents[path] if path in contents else (CATAPULT / path).read_text(encoding='utf8'))
		checker, _ = real_deps_checker()
		sources = sorted({a for a, _ in pairs})
		destinations = sorted({b for _, b in pairs})
		chosen_pairs = set(pairs if not quick else rng.sample(pairs, min(len(pairs), 40)))
		for _ in range(40 if quick else 1500):
			chosen_pairs.add((rng.choice(sources), rng.choice(destinations)))
		dep_cases = sorted(pair for pair in chosen_pairs if all(32 <= ord(c) < 127 and c != '"' for c in pair[0] + pair[1]))
		dep_real = ['T' if checker.match('x.h', a, b, 'y.h') else 'F' for a, b in dep_cases]
		config_texts = [random_deps_config(rng) for _ in range(80 if quick else 3000)]
		config_cases = [(text, model_rules_expr(text)) for text in config_texts]
		config_cases = [(text, expr) for text, expr in config_cases if expr is not None]
		shipped = {}
		for src, dest in checker.rules:
			shipped.setdefault(src.pattern[1:-1], set()).add(dest.pattern[1:-1])
		shipped_sources = sorted(shipped)
		dep_models = coq_eval(
			DEPS_PRELUDE,
			['sources_now'] + [f'bool_to_string (allowed_now (L "{a}") (L "{b}"))' for a, b in dep_cases] + [expr for _, expr in config_cases]
			+ [f'targets_of {coq_string(source)}' for source in shipped_sources],
			'c19d', shard=16 if quick else 60, timeout=1500)
		check.case('deps:shipped-config-sources', 'deps.config')
		if sorted(set(dep_models[0].split(';'))) != shipped_sources:
			check.disagree(
				'Deps.create_rules-vs-DepsChecker(deps.config)', {'config': 'linters/cpp/deps.config', 'what': 'rule sources'},
				shipped_sources[:20], sorted(set(dep_models[0].split(';')))[:20])
		for source, mod in zip(shipped_sources, dep_models[1 + len(dep_cases) + len(config_cases):]):
			check.case('deps:shipped-config-closure', source)
			if sorted(set(mod.split(';'))) != sorted(shipped[source]):
				check.disagree(
					'Deps.create_rules-vs-DepsChecker(deps.config)', {'config': 'linters/cpp/deps.config', 'source': source},
					sorted(shipped[source])[:20], sorted(set(mod.split(';')))[:20])
		for (a, b), out, mod in zip(dep_cases, dep_real, dep_models[1:1 + len(dep_cases)]):
			check.case('deps:match:' + ('allowed' if out == 'T' else 'reported'), (a, b))
			if out != mod:
				check.disagree('Deps.deps_allowed-vs-DepsChecker.match', {'src': a, 'dest': b}, out, mod)
		for (text, _), mod in zip(config_cases, dep_models[1 + len(dep_cases):1 + len(dep_cases) + len(config_cases)]):
			out = real_rules_outcome(text)
			mod = mod if mod == 'error' else canonical_rules(tuple(item.split('>')) for item in mod.split(';') if item)
			check.case('deps:config:' + ('error' if out == 'error' else 'rules'), text)
			if out != mod:
				check.disagree('Deps.create_rules-vs-DepsChecker(random config)', {'config': text}, out, mod)
		check.extra['dependency_correspondence'] = {
			'shipped_rules': len(checker.rules), 'include_pairs_in_tree': len(pairs), 'match_cases': len(dep_cases),
			'match_cases_reported': dep_real.count('F'), 'random_configs': len(config_cases), 'seconds': round(time.time() - start, 1)}

		# ---- (b3) model-independent oracles, in process: dependency rules and the line reader of HeaderParser
		start = time.time()
		all_contents = {path: (contents[path] if path in contents else (CATAPULT / path).read_text(encoding='utf8')) for path in files}
		independent_oracles(check, scratch, files, all_contents)
		check.extra['independent_oracles']['seconds'] = round(time.time() - start, 1)

		# ---- (c) seeded violations
		start = time.time()
		entries = catalogue(tables)
		strata = strata_catalogue(tables, all_contents)
		entries.update(strata)
		per_family = 2 if quick else 40
		typo_families = [name for name in entries if name.startswith('typo[')]
		typo_chosen = set(rng.sample(typo_families, min(6, len(typo_families)))) if quick else set(typo_families)
		fixed_typo_families = [name for name in entries if name.startswith('typo (fixed')]
		fixed_chosen = set(rng.sample(fixed_typo_families, min(6, len(fixed_typo_families)))) if quick else set(fixed_typo_families)
		base_by_top = {}
		for path in base:
			base_by_top.setdefault(path.split('/')[0], []).append(path)
		jobs = []
		inapplicable = []
		informational = set()
		excluded = set(base)
		candidates = [path for path in files if path not in excluded]
		for name, make in entries.items():
			if (name.startswith('typo[') and name not in typo_chosen) or (name.startswith('typo (fixed') and name not in fixed_chosen):
				continue
			stratum = name in strata
			if getattr(make, 'informational', False):
				informational.add(name)
			wanted = (1 if quick else 8) if stratum else ((1 if quick else 2) if name.startswith('typo') else per_family)
			wanted = max(wanted, getattr(make, 'wanted', 0))
			needle = getattr(make, 'needle', None)
			found = 0
			order = list(candidates)
			rng.shuffle(order)
			for path in (order if stratum else order[:400 if quick else 1500]):
				text = all_contents[path]
				if needle and needle not in text:
					continue
				lines = text.split('\n')
				edit = make(rng, path, lines)
				if edit is None:
					continue
				new_text = '\n'.join(edit.new_lines)
				if new_text == text:
					continue
				jobs.append((
					str(scratch / 'seeded'), len(jobs), name, path, text, new_text, edit.suite, edit.text, edit.lineno,
					base_by_top.get(path.split('/')[0], []), edit.note))
				found += 1
				if found >= wanted:
					break
			if not found:
				inapplicable.append(name)
		(scratch / 'seeded').mkdir()
		with multiprocessing.Pool(common.NCPU) as pool:
			results = pool.map(seeded_worker, [job[:10] for job in jobs], chunksize=1)
		by_family = {}
		unreported_informational = []
		for job, result in zip(jobs, results):
			family = result['family']
			stats = by_family.setdefault(family, {'sites': 0, 'reported': 0})
			stats['sites'] += 1
			check.case('seeded:' + family.split(':')[0].split('[')[0], (family, result['path'], job[5]))
			ok = result['reported'] and result['line_ok']
			stats['reported'] += bool(ok)
			replay = {
				'kind': 'seeded', 'family': family, 'path': result['path'], 'expected_suite': result['suite'], 'expected_text': result['text'],
				'expected_line': result['lineno'], 'seeded_content': job[5], 'note': job[10], 'how': 'run.py replay <this file>'}
			if not ok and family in informational:
				unreported_informational.append({'family': family, 'path': result['path'], 'line': result['lineno'], 'note': job[10]})
			elif not ok:
				check.fail(
					'seeded-not-reported:' + _signature(family),
					f'seeded violation "{family}" in {result["path"]} (line {result["lineno"]}): suite {result["suite"]} does not report '
					f'"{result["text"]}" for the file; suites reporting: {result.get("suites_hit")}; exit {result.get("status")}',
					dict(replay, observed=result.get('suites_hit'), exit=result.get('status')))
			elif not result['status_ok']:
				check.fail(
					'seeded-exit-status:' + _signature(family),
					f'seeded violation "{family}" in {result["path"]}: {result["total"]} failures reported but exit status {result["status"]}',
					dict(replay, observed=result.get('suites_hit'), exit=result.get('status')))
			if result.get('clean_status') != 0 or result.get('clean_total'):
				check.fail(
					'undo-not-silent:' + _signature(family),
					f'after undoing "{family}" in {result["path"]} the linter reports {result.get("clean_total")} failures, exit {result.get("clean_status")}',
					dict(replay, clean_output=result.get('clean_output')))
		check.sample({'seeded': {k: v for k, v in results[0].items() if k in ('family', 'path', 'suite', 'text', 'lineno', 'status', 'total')}} if results else {})
		check.extra['seeded'] = {
			'sites': len(jobs), 'families': len(by_family), 'strata': len(strata), 'per_family': by_family, 'families_without_applicable_site': inapplicable,
			'informational_strata_unreported': unreported_informational,
			'seconds': round(time.time() - start, 1)}
		if unreported_informational:
			check.notes.append(
				'informational stratum (not gated, reported to the lead as a candidate finding): an extra tab on the FIRST CONTINUATION line of a column-0 '
				'multi-line #define is not reported (report_indents checks a continuation only after an indented directive, fix_indents after every '
				f'directive): {unreported_informational[:3]}')
		if inapplicable:
			check.notes.append(f'catalogue families without an applicable site in the searched files: {inapplicable}')
	finally:
		shutil.rmtree(scratch, ignore_errors=True)


def replay(data):
	"""Re-runs a recorded seeded violation (or the silence run) against the real linter."""
	info = data['replay']
	common.setup_impl_path()
	scratch = common.scratch_dir('c19replay')
	try:
		if info.get('kind') == 'deps':
			text = info.get('config')
			oracle = DepsOracle(text if text is not None else shipped_deps_text())
			if info.get('file'):
				reports = real_dependency_reports({info['file']: [info['include']]}, text)
				observed = 'reported' if reports else 'allowed'
				print('file:', info['file'], 'includes', info['include'], '->', [message for _, _, message in reports] or 'no Dependencies report')
			else:
				try:
					checker, _ = real_deps_checker(text)
				except Exception as ex:  # pylint: disable=broad-except
					print('rule file rejected:', type(ex).__name__, ex)
					return 1
				observed = 'allowed' if checker.match('x.h', info['component'], info['directory'], info['directory'] + '/y.h') else 'reported'
				print('rule file:', repr(text))
			expected = 'allowed' if oracle.allowed(info['component'], info['directory']) else 'reported'
			print(f'{info["component"]} -> {info["directory"]}: by the rules {expected}, linter: {observed}')
			print('property:', 'holds' if expected == observed else 'fails')
			return 0 if expected == observed else 1
		if info.get('kind') == 'parse':
			text = info['content']
			lines = file_lines(text)
			must, must_not = blank_expectations(lines)
			observed = parse_observed(scratch, text)
			print('content:', repr(text))
			print('blank pairs end at lines:', must, '| includes expected:', info.get('expected_includes'))
			print('HeaderParser:', observed)
			bad = isinstance(observed, str) or any(n not in observed[0] for n in must) or any(n in must_not for n in observed[0]) \
				or observed[1] != info.get('expected_includes', observed[1])
			print('property:', 'fails' if bad else 'holds')
			return 1 if bad else 0
		files = cpp_files(CATAPULT)
		if info.get('kind') == 'silence':
			status, suites, _ = run_linter(CATAPULT)
			print('exit:', status, 'failures:', total_errors(suites))
			return 1 if status != 0 or total_errors(suites) else 0
		base = [path for path in exclusion_base(files) if path.split('/')[0] == info['path'].split('/')[0]]
		copy_files(base, scratch)
		target = scratch / info['path']
		target.parent.mkdir(parents=True, exist_ok=True)
		target.write_bytes(info['seeded_content'].encode('utf8'))
		status, suites, _ = run_linter(scratch)
		errors = suites.get(info['expected_suite'], [])
		hit = [e for e in errors if info['path'] in e or info['expected_text'] in e]
		reported = info['expected_text'] in '\n'.join(errors) and info['path'] in '\n'.join(errors)
		print('exit:', status, 'suites reporting:', {name: count for name, count in suites.counts.items() if count})
		print('expected:', info['expected_suite'], '/', info['expected_text'], '/ line', info.get('expected_line'))
		print('observed:', hit[:3] if hit else 'not reported')
		print('property:', 'holds' if reported and status else 'fails')
		return 0 if reported and status else 1
	finally:
		shutil.rmtree(scratch, ignore_errors=True)
