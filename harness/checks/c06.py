"""C06: the validator accepts every consistent schema and reports (rather than crashes on) every broken reference."""
import contextlib
import copy
import io
import json
import shutil
import subprocess

from .. import astdump, common

MANIFEST = {
	'text': 'Props/C06.v: over the functional model of AstValidator in both modes (Cats/Validate.v: dict semantics, partial lookups with an '
		'explicit Crash outcome, operators / literals / attribute tables regenerated from AstValidator.py and ast.py on every run) the '
		'validator never crashes (all schemas of Cats/Ast.v), a consistent schema yields no error in either stage (consistent = an '
		'independent boolean predicate), every broken reference of each kind is reported on the declaring struct and member, and nothing '
		'is reported outside the carriers of the site; the model is compared with the Python AstValidator (real parser, real '
		'AstPostProcessor) on both shipped schema sets, on random consistent schemas and on every (site x breakage kind) of those, and the '
		'property oracle (no exception, a carrier named, no non-carrier named, CLI exit status 2) runs on the implementation. Initializer constants: completeness for what the code checks, with the type-inequality formulation refuted on a hand-built AST (Cats/ValidateProofs2.v).',
	'design_ref': 'DESIGN.md section 4, C06',
	'technique': 'Coq proof over regenerated model + vm_compute correspondence with the Python implementation',
}

PRELUDE = '''From Symv Require Import Cats.Validate Cats.AstRender.
Open Scope string_scope.
Fixpoint patch1 (l : list decl) (i : nat) (d : decl) : list decl :=
  match l, i with [] , _ => [] | _ :: r, O => d :: r | x :: r, S k => x :: patch1 r k d end.
Definition patch (l : list decl) (ps : list (nat * decl)) : list decl := fold_left (fun acc p => patch1 acc (fst p) (snd p)) ps l.
Fixpoint set_nth {A} (i : nat) (x : A) (l : list A) : list A :=
  match l, i with [], _ => [] | _ :: r, O => x :: r | y :: r, S k => y :: set_nth k x r end.
Definition patch_field (i : nat) (f : field) (d : decl) : decl :=
  match d with
  | DStruct st => DStruct {| s_name := s_name st; s_disp := s_disp st; s_fields := set_nth i f (s_fields st); s_factory_type := s_factory_type st;
                             s_attrs := s_attrs st; s_comment := s_comment st; s_requires_unaligned := s_requires_unaligned st |}
  | _ => d
  end.
Fixpoint map_nth {A} (i : nat) (g : A -> A) (l : list A) : list A :=
  match l, i with [], _ => [] | y :: r, O => g y :: r | y :: r, S k => y :: map_nth k g r end.
(* whole-declaration patches, then single-member patches (declaration index, member index, member) *)
Definition patch2 (l : list decl) (ps : list (nat * decl)) (fs : list (nat * nat * field)) : list decl :=
  fold_left (fun acc p => map_nth (fst (fst p)) (patch_field (snd (fst p)) (snd p)) acc) fs (patch l ps).
Definition sep : string := nl ++ "@@" ++ nl.
Definition run2 (pre post : list decl) : string := render_result (validate Pre pre) ++ sep ++ render_result (validate Post post).
Definition run1 (pre : list decl) : string := render_result (validate Pre pre) ++ sep ++ "none".
'''

INT_TYPES = ['uint8', 'uint16', 'uint32', 'uint64', 'int8', 'int16', 'int32', 'int64']
OPS = ['equals', 'not equals', 'in', 'not in']
UNKNOWN_TYPE = 'Zz9'
UNKNOWN_MEMBER = 'zz_none'
UNKNOWN_CONST = 'ZZ_NONE'
CLI_ERROR_STATUS = 2     # the property text: exit status 2 when a validation stage reports errors

CORE_KINDS = {
	'member-type-unknown', 'elem-type-unknown', 'inlined-type-unknown', 'named-inline-type-unknown', 'size-member-unknown', 'sort-key-unknown',
	'sort-key-on-int-array', 'sort-key-on-alias-array', 'sort-key-on-enum-array', 'sizeof-member-unknown', 'sizeref-member-unknown',
	'cond-member-unknown', 'cond-value-not-in-enum', 'cond-value-number-for-enum', 'cond-value-not-numeric', 'const-value-not-in-enum',
	'const-type-not-enum', 'dup-member', 'dup-enum-value'}


# ---------------------------------------------------------------------------------------------------------------------
# schema IR -> CATS text

def type_text(ty):
	if ty[0] in ('int', 'name'):
		return ty[1]
	return f'array({type_text(ty[1])}, {ty[2]})'


def attr_text(attr):
	name = attr[0]
	if name == 'alignment':
		return f'@alignment({attr[1]})' if attr[2] is None else f'@alignment({attr[1]}, {attr[2]})'
	if name == 'sizeref':
		return f'@sizeref({attr[1]}, {attr[2]})'
	if name == 'sort_key':
		return f'@sort_key({attr[1]})'
	if name in ('is_byte_constrained', 'is_aligned', 'is_size_implicit', 'is_bitwise'):
		return f'@{name}'
	if name == 'size':
		return f'@size({attr[1]})'
	if name == 'discriminator':
		return '@discriminator(' + ', '.join(attr[1]) + ')'
	if name == 'comparer':
		return '@comparer(' + ', '.join(m if t is None else f'{m}!{t}' for m, t in attr[1]) + ')'
	if name == 'initializes':
		return f'@initializes({attr[1]}, {attr[2]})'
	raise ValueError(attr)


def member_text(member):
	form = member['form']
	if form == 'uinline':
		return f'\tinline {member["type"][1]}\n'
	if form == 'ninline':
		return f'\t{member["name"]} = inline {member["type"][1]}\n'
	if form in ('const', 'reserved'):
		return f'\t{member["name"]} = make_{form}({type_text(member["type"])}, {member["value"]})\n'
	if form == 'sizeof':
		return f'\t{member["name"]} = sizeof({type_text(member["type"])}, {member["value"]})\n'
	text = ''.join(f'\t{attr_text(a)}\n' for a in member['attrs'])
	cond = ''
	if member.get('cond'):
		cond = ' if {} {} {}'.format(*member['cond'])
	return text + f'\t{member["name"]} = {type_text(member["type"])}{cond}\n'


def decl_text(decl):
	kind = decl['k']
	if kind == 'alias':
		return f'using {decl["name"]} = {decl["type"]}\n'
	if kind == 'enum':
		text = ''.join(f'{attr_text(a)}\n' for a in decl['attrs'])
		text += f'enum {decl["name"]} : {decl["base"]}\n'
		return text + ''.join(f'\t{name} = {value}\n' for name, value in decl['values'])
	text = ''.join(f'{attr_text(a)}\n' for a in decl['attrs'])
	text += (f'{decl["mod"]} ' if decl['mod'] else '') + f'struct {decl["name"]}\n'
	return text + ''.join(member_text(m) for m in decl['members'])


def schema_text(ir):
	return '\n'.join(decl_text(d) for d in ir)


# ---------------------------------------------------------------------------------------------------------------------
# random consistent schemas (every reference kind)

class Builder:
	def __init__(self, rng):
		self.rng = rng
		self.ir = []
		self.aliases = []
		self.enums = []
		self.structs = []      # names in order
		self.info = {}         # struct name -> {'layout': [(name, type, form)], 'bases': set, 'pending': [(const, type)], 'decl': decl}
		self.flags = set()

	def rand_int(self):
		return ('int', self.rng.choice(INT_TYPES))

	def number(self):
		value = self.rng.choice([0, 1, 2, 7, 255, 0x1000, self.rng.randrange(1 << 16)])
		return f'0x{value:X}' if self.rng.randrange(4) == 0 else str(value)

	def build(self):
		rng = self.rng
		for i in range(rng.randrange(1, 4)):
			name = f'Al{i}'
			self.aliases.append(name)
			self.ir.append({'k': 'alias', 'name': name, 'type': rng.choice(INT_TYPES) if rng.randrange(3) else f'binary_fixed({rng.choice([8, 20, 32])})'})
		for i in range(rng.randrange(1, 3)):
			name = f'En{i}'
			values = [(f'V{i}N{k}', k + rng.randrange(3)) for k in range(rng.randrange(2, 5))]
			self.enums.append((name, [v for v, _ in values]))
			self.ir.append({'k': 'enum', 'name': name, 'base': rng.choice(INT_TYPES[:4]), 'values': values, 'attrs': [('is_bitwise',)] if rng.randrange(3) == 0 else []})
		count = rng.randrange(4, 9)
		roles = ['elem', 'implicit', 'template']
		while len(roles) < count:
			roles.append(rng.choice(['elem', 'template', 'abstract', 'plain', 'concrete', 'concrete', 'implicit', 'inlinebase']))
		tail = roles[2:]
		rng.shuffle(tail)
		roles = roles[:2] + tail
		for index, role in enumerate(roles):
			self.struct(index, role)
		# declaration order does not matter to the validator: sometimes shuffle the declarations
		if rng.randrange(3) == 0:
			rng.shuffle(self.ir)
		return self.ir

	def struct(self, index, role):
		rng = self.rng
		name = f'St{index}'
		mod = {'template': 'inline', 'inlinebase': 'inline', 'abstract': 'abstract'}.get(role)
		decl = {'k': 'struct', 'name': name, 'mod': mod, 'attrs': [], 'members': []}
		info = {'layout': [], 'bases': set(), 'pending': [], 'decl': decl, 'role': role}
		members = decl['members']
		counter = [0]

		def fresh(prefix='f'):
			counter[0] += 1
			return f'{prefix}{index}x{counter[0]}' if prefix.islower() else f'{prefix}{index}X{counter[0]}'

		def own_targets(types=None):
			"""own named members usable as member-level reference targets in both stages"""
			return [m for m in members if m['form'] not in ('ninline', 'uinline', 'const') and (types is None or m['type'][0] in types)]

		def add_int(prefix='f'):
			member = {'form': 'field', 'name': fresh(prefix), 'type': self.rand_int(), 'attrs': [], 'cond': None}
			members.append(member)
			return member

		# unnamed inlines
		if role not in ('template', 'elem') and self.structs:
			for _ in range(rng.choice([0, 1, 1, 2])):
				candidates = [s for s in self.structs if not (({s} | self.info[s]['bases']) & info['bases']) and self.info[s]['role'] != 'template']
				if not candidates:
					break
				base = rng.choice(candidates)
				members.append({'form': 'uinline', 'name': None, 'type': ('name', base)})
				info['bases'] |= {base} | self.info[base]['bases']
				info['pending'] += [p for p in self.info[base]['pending'] if p not in info['pending']]
		# named inlines
		templates = [s for s in self.structs if self.info[s]['role'] == 'template']
		if templates and rng.randrange(3) != 0:
			for _ in range(rng.choice([1, 1, 2])):
				members.append({'form': 'ninline', 'name': fresh('n'), 'type': ('name', rng.choice(templates))})
		# own members
		for _ in range(rng.randrange(2, 7)):
			self.member(index, role, members, fresh, own_targets, add_int)
		if role == 'template' or rng.randrange(2):
			rng.shuffle(members)
		# layout
		for member in members:
			if member['form'] == 'uinline':
				info['layout'] += self.info[member['type'][1]]['layout']
			elif member['form'] == 'ninline':
				info['layout'] += [(f'{member["name"]}_{n}', t, f) for n, t, f in self.info[member['type'][1]]['layout']]
			else:
				info['layout'].append((member['name'], member['type'], member['form']))
		concrete = mod is None
		if concrete:
			for const, ty in info['pending']:
				if not any(n == const for n, _, _ in info['layout']):
					value = self.number() if ty[0] == 'int' else rng.choice(dict(self.enums)[ty[1]])
					member = {'form': 'const', 'name': const, 'type': ty, 'value': value}
					members.insert(rng.randrange(len(members) + 1), member)
					info['layout'].append((const, ty, 'const'))
			info['pending'] = []
		# struct attributes
		attrs = decl['attrs']
		if role == 'implicit' or rng.randrange(5) == 0:
			attrs.append(('is_size_implicit',))
		if rng.randrange(3) == 0:
			attrs.append(('is_aligned',))
		layout = info['layout']
		plain = [n for n, _, f in layout if f != 'const']
		ints = [n for n, t, f in layout if t[0] == 'int' and f != 'const']
		if ints and rng.randrange(3) == 0:
			attrs.append(('size', rng.choice(ints)))
		if plain and rng.randrange(3) == 0:
			attrs.append(('discriminator', rng.sample(plain, min(len(plain), rng.randrange(1, 4)))))
		if plain and rng.randrange(3) == 0:
			attrs.append(('comparer', [(m, rng.choice([None, 'ripemd_keccak_256'])) for m in rng.sample(plain, min(len(plain), rng.randrange(1, 3)))]))
		if rng.randrange(2) == 0:
			consts = [(n, t) for n, t, f in layout if f == 'const' and n[0].isupper()]
			simple = [(n, t) for n, t, f in layout if f == 'field' and t[0] in ('int', 'name')]
			pairs = [(target, const) for const, ct in consts for target, tt in simple if tt == ct]
			first = None
			if pairs and rng.randrange(2):
				target, const = rng.choice(pairs)
				attrs.append(('initializes', target, const))
				first = 'typed'
			elif not concrete and simple:
				target, ty = rng.choice(simple)
				if ty[0] == 'int' or ty[1] in dict(self.enums):
					const = f'W{index}X{len(info["pending"])}'
					attrs.append(('initializes', target, const))
					info['pending'].append((const, ty))
					first = 'pending'
			# several initializers on one template (what the shipped transaction / block headers do): one whose constant is left to the
			# structs that use the template AND one whose constant the template declares itself, in either order (attrs are shuffled below)
			if not concrete and first and simple and rng.randrange(3):
				self.flags.add('template-with-two-initializers')
				if first == 'typed':
					candidates = [(t, ty) for t, ty in simple if ty[0] == 'int' or ty[1] in dict(self.enums)]
					if candidates:
						target, ty = rng.choice(candidates)
						const = f'W{index}X{len(info["pending"])}'
						attrs.append(('initializes', target, const))
						info['pending'].append((const, ty))
				else:
					if not pairs:
						own_simple = [(m['name'], m['type']) for m in members if m['form'] == 'field' and m['type'][0] == 'int' and not m.get('cond')]
						if own_simple:
							target, ty = rng.choice(own_simple)
							const = fresh('K')
							members.append({'form': 'const', 'name': const, 'type': ty, 'value': self.number()})
							layout.append((const, ty, 'const'))
							pairs = [(target, const)]
					if pairs:
						target, const = rng.choice(pairs)
						attrs.append(('initializes', target, const))
		rng.shuffle(attrs)
		self.ir.append(decl)
		self.structs.append(name)
		self.info[name] = info

	def member(self, index, role, members, fresh, own_targets, add_int):
		rng = self.rng
		choice = rng.choice(['int', 'int', 'named', 'array', 'array', 'sizeref', 'sizeof', 'const', 'reserved', 'cond', 'cond'])
		structs = list(self.structs)
		if choice == 'int':
			add_int()
		elif choice == 'named':
			pool = self.aliases + [e for e, _ in self.enums] + structs
			members.append({'form': 'field', 'name': fresh(), 'type': ('name', rng.choice(pool)), 'attrs': [], 'cond': None})
		elif choice == 'array':
			kind = rng.choice(['int', 'alias', 'enum', 'struct', 'struct'])
			if kind == 'struct' and not structs:
				kind = 'int'
			elem = {'int': self.rand_int(), 'alias': ('name', rng.choice(self.aliases)), 'enum': ('name', rng.choice(self.enums)[0])}.get(kind)
			attrs = []
			if kind == 'struct':
				target = rng.choice(structs)
				elem = ('name', target)
				keys = [m['name'] for m in self.info[target]['decl']['members'] if m['form'] not in ('ninline', 'uinline', 'const')]
				if keys and rng.randrange(2) and (role != 'template' or rng.randrange(4) == 0):
					attrs.append(('sort_key', rng.choice(keys)))
					if role == 'template':
						self.flags.add('sort-key-in-template')
			size_kind = rng.choice(['num', 'fill', 'member', 'member'])
			if size_kind == 'num':
				size = self.number()
			elif size_kind == 'fill':
				size = '__FILL__'
			else:
				ints = own_targets(('int',))
				size = (rng.choice(ints) if ints and rng.randrange(2) else add_int())['name']
			if rng.randrange(4) == 0:
				attrs.append(('alignment', rng.choice([4, 8]), rng.choice([None, 'pad_last', 'not pad_last'])))
			if rng.randrange(4) == 0:
				attrs.append(('is_byte_constrained',))
			rng.shuffle(attrs)
			members.append({'form': 'field', 'name': fresh(), 'type': ('array', elem, size), 'attrs': attrs, 'cond': None})
		elif choice == 'sizeref':
			targets = own_targets() or [add_int()]
			members.append({
				'form': 'field', 'name': fresh(), 'type': self.rand_int(), 'attrs': [('sizeref', rng.choice(targets)['name'], rng.randrange(5))], 'cond': None})
		elif choice == 'sizeof':
			implicit = [s for s in structs if ('is_size_implicit',) in self.info[s]['decl']['attrs']]
			if not implicit or (role == 'template' and rng.randrange(4)):
				add_int()
				return
			if role == 'template':
				self.flags.add('sizeof-in-template')
			target = {'form': 'field', 'name': fresh(), 'type': ('name', rng.choice(implicit)), 'attrs': [], 'cond': None}
			sizeof = {'form': 'sizeof', 'name': fresh(), 'type': ('int', rng.choice(INT_TYPES[:4])), 'value': target['name']}
			members.extend(rng.sample([target, sizeof], 2))
		elif choice in ('const', 'reserved'):
			name = fresh('K') if choice == 'const' else fresh()
			if rng.randrange(2):
				members.append({'form': choice, 'name': name, 'type': self.rand_int(), 'value': self.number()})
			else:
				enum, values = rng.choice(self.enums)
				members.append({'form': choice, 'name': name, 'type': ('name', enum), 'value': rng.choice(values)})
		else:
			enum_names = dict(self.enums)
			links = [m for m in own_targets() if m['form'] in ('field', 'reserved', 'sizeof') and (m['type'][0] == 'int' or m['type'][1] in enum_names)]
			if not links or rng.randrange(3) == 0:
				if rng.randrange(2):
					link = add_int()
				else:
					link = {'form': 'field', 'name': fresh(), 'type': ('name', rng.choice(self.enums)[0]), 'attrs': [], 'cond': None}
					members.append(link)
			else:
				link = rng.choice(links)
			value = self.number() if link['type'][0] == 'int' else rng.choice(enum_names[link['type'][1]])
			ty = rng.choice([self.rand_int(), ('name', rng.choice(self.aliases)), ('array', self.rand_int(), self.number())])
			members.append({'form': 'field', 'name': fresh(), 'type': ty, 'attrs': [], 'cond': (value, rng.choice(OPS), link['name'])})


def gen_schema(rng):
	builder = Builder(rng)
	ir = builder.build()
	return ir, sorted(builder.flags)


# ---------------------------------------------------------------------------------------------------------------------
# reference sites and the ways of breaking exactly one of them

def decl_by_name(ir, name):
	found = [d for d in ir if d['name'] == name]
	return found[-1] if found else None


def carriers(ir, name):
	"""the declaring struct plus every struct that (transitively) inlines it, named or unnamed"""
	result = {name}
	changed = True
	while changed:
		changed = False
		for decl in ir:
			if decl['k'] == 'struct' and decl['name'] not in result:
				if any(m['form'] in ('uinline', 'ninline') and m['type'][1] in result for m in decl['members']):
					result.add(decl['name'])
					changed = True
	return result


def layout_of(ir, name, seen=()):
	"""(harness's own expansion, used only to pick attribute targets) expanded (member name, type, form) list"""
	decl = decl_by_name(ir, name)
	result = []
	if decl is None or decl['k'] != 'struct' or name in seen:
		return result
	for member in decl['members']:
		if member['form'] == 'uinline':
			result += layout_of(ir, member['type'][1], seen + (name,))
		elif member['form'] == 'ninline':
			result += [(f'{member["name"]}_{n}', t, f) for n, t, f in layout_of(ir, member['type'][1], seen + (name,))]
		else:
			result.append((member['name'], member['type'], member['form']))
	return result


def breaks_of(ir):
	"""every (site x breakage kind): list of (kind, decl index, member index or None, mutation)"""
	out = []
	kinds = {d['name']: d['k'] for d in ir}
	enums = {d['name']: [v for v, _ in d['values']] for d in ir if d['k'] == 'enum'}
	aliases = [d['name'] for d in ir if d['k'] == 'alias']
	structs = {d['name']: d for d in ir if d['k'] == 'struct'}

	def setter(path, value):
		def mutate(decl):
			node = decl
			for key in path[:-1]:
				node = node[key]
			node[path[-1]] = value
		return mutate

	for di, decl in enumerate(ir):
		if decl['k'] == 'enum':
			name, _ = decl['values'][0]
			out.append(('dup-enum-value', di, None, lambda d, n=name: d['values'].append((n, 77))))
			continue
		if decl['k'] != 'struct':
			continue
		members = decl['members']
		own = [m for m in members if m['form'] not in ('uinline', 'ninline', 'const')]
		for mi, member in enumerate(members):
			form = member['form']
			base = ['members', mi]
			if form == 'uinline':
				out.append(('inlined-type-unknown', di, mi, setter(base + ['type'], ('name', UNKNOWN_TYPE))))
				continue
			# duplicate member
			if form == 'const':
				dup = {'form': 'const', 'name': member['name'], 'type': ('int', 'uint8'), 'value': '1'}
			else:
				dup = {'form': 'field', 'name': member['name'], 'type': ('int', 'uint8'), 'attrs': [], 'cond': None}
			out.append(('dup-member', di, mi, lambda d, m=dup, at=mi: d['members'].insert(at + 1, m)))
			if form == 'ninline':
				out.append(('named-inline-type-unknown', di, mi, setter(base + ['type'], ('name', UNKNOWN_TYPE))))
				for kind, pool in (
						('named-inline-of-plain-struct', [n for n, s in structs.items() if s['mod'] is None]),
						('named-inline-of-abstract-struct', [n for n, s in structs.items() if s['mod'] == 'abstract']),
						('named-inline-of-alias', aliases), ('named-inline-of-enum', list(enums))):
					if pool:
						out.append((kind, di, mi, setter(base + ['type'], ('name', pool[(di + mi) % len(pool)]))))
				continue
			ty = member['type']
			if form == 'field':
				if ty[0] == 'name':
					out.append(('member-type-unknown', di, mi, setter(base + ['type'], ('name', UNKNOWN_TYPE))))
					out.append(('inapplicable-attr-alignment-on-named', di, mi, setter(base + ['attrs'], member['attrs'] + [('alignment', 8, None)])))
				if ty[0] == 'int':
					out.append(('inapplicable-attr-sort-key-on-int', di, mi, setter(base + ['attrs'], member['attrs'] + [('sort_key', 'zz_key')])))
					out.append(('inapplicable-attr-byte-constrained-on-int', di, mi, setter(base + ['attrs'], [('is_byte_constrained',)] + member['attrs'])))
				if ty[0] == 'array':
					elem = ty[1]
					sort_keys = [a for a in member['attrs'] if a[0] == 'sort_key']
					others = [a for a in member['attrs'] if a[0] != 'sort_key']
					if elem[0] == 'name':
						out.append(('elem-type-unknown', di, mi, setter(base + ['type'], ('array', ('name', UNKNOWN_TYPE), ty[2]))))
					if not isinstance(ty[2], int) and not ty[2][0].isdigit() and ty[2] != '__FILL__':
						out.append(('size-member-unknown', di, mi, setter(base + ['type'], ('array', elem, UNKNOWN_MEMBER))))
					if sort_keys:
						out.append(('sort-key-unknown', di, mi, setter(base + ['attrs'], others + [('sort_key', UNKNOWN_MEMBER)])))
					else:
						kind = 'int' if elem[0] == 'int' else kinds.get(elem[1])
						if kind in ('int', 'alias', 'enum'):
							out.append((f'sort-key-on-{kind}-array', di, mi, setter(base + ['attrs'], others + [('sort_key', 'zz_key')])))
					if own:
						out.append(('inapplicable-attr-sizeref-on-array', di, mi, setter(base + ['attrs'], member['attrs'] + [('sizeref', own[0]['name'], 1)])))
				for ai, attr in enumerate(member['attrs']):
					if attr[0] == 'sizeref':
						attrs = list(member['attrs'])
						attrs[ai] = ('sizeref', UNKNOWN_MEMBER, attr[2])
						out.append(('sizeref-member-unknown', di, mi, setter(base + ['attrs'], attrs)))
				if member.get('cond'):
					value, op, link = member['cond']
					out.append(('cond-member-unknown', di, mi, setter(base + ['cond'], (value, op, UNKNOWN_MEMBER))))
					link_member = [m for m in members if m.get('name') == link][-1]
					if link_member['type'][0] == 'int':
						out.append(('cond-value-not-numeric', di, mi, setter(base + ['cond'], (UNKNOWN_CONST, op, link))))
					else:
						out.append(('cond-value-not-in-enum', di, mi, setter(base + ['cond'], (UNKNOWN_CONST, op, link))))
						out.append(('cond-value-number-for-enum', di, mi, setter(base + ['cond'], ('7', op, link))))
			if form in ('const', 'reserved') and ty[0] == 'name':
				out.append(('const-value-not-in-enum', di, mi, setter(base + ['value'], UNKNOWN_CONST)))
				pool = aliases + [n for n in structs if n != decl['name']]
				if pool:
					out.append(('const-type-not-enum', di, mi, setter(base + ['type'], ('name', pool[(di + mi) % len(pool)]))))
			if form == 'sizeof':
				out.append(('sizeof-member-unknown', di, mi, setter(base + ['value'], UNKNOWN_MEMBER)))
				target_index = [k for k, m in enumerate(members) if m.get('name') == member['value']][-1]
				out.append(('sizeof-target-type-unknown', di, target_index, setter(['members', target_index, 'type'], ('name', UNKNOWN_TYPE))))
				for other in own:
					if other is member or other['name'] == member['value']:
						continue
					oty = other['type']
					if oty[0] == 'name' and kinds.get(oty[1]) == 'struct':
						implicit = ('is_size_implicit',) in structs[oty[1]]['attrs']
						if implicit:
							continue
						kind = 'sizeof-of-not-size-implicit-struct'
					else:
						kind = 'sizeof-of-fixed-size-' + (oty[0] if oty[0] != 'name' else kinds.get(oty[1]))
					out.append((kind, di, mi, setter(base + ['value'], other['name'])))
		# struct-level attributes (checked after expansion, in the expanded layout)
		layout = layout_of(ir, decl['name'])
		for ai, attr in enumerate(decl['attrs']):
			base = ['attrs', ai]
			if attr[0] == 'size':
				out.append(('size-attr-unknown', di, None, setter(base, ('size', UNKNOWN_MEMBER))))
				others = [n for n, t, f in layout if t[0] != 'int' and f != 'const']
				if others:
					out.append(('size-attr-not-integer', di, None, setter(base, ('size', others[ai % len(others)]))))
			if attr[0] == 'discriminator':
				values = list(attr[1])
				values[-1] = UNKNOWN_MEMBER
				out.append(('discriminator-unknown', di, None, setter(base, ('discriminator', values))))
			if attr[0] == 'comparer':
				values = list(attr[1])
				values[0] = (UNKNOWN_MEMBER, values[0][1])
				out.append(('comparer-unknown', di, None, setter(base, ('comparer', values))))
			if attr[0] == 'initializes':
				out.append(('initializes-target-unknown', di, None, setter(base, ('initializes', UNKNOWN_MEMBER, attr[2]))))
				if decl['mod'] is None:
					out.append(('initializes-value-unknown', di, None, setter(base, ('initializes', attr[1], UNKNOWN_CONST))))
				present = {n: t for n, t, _ in layout}
				if attr[2] in present:
					others = [n for n, t, f in layout if f != 'const' and type_text(t) != type_text(present[attr[2]])]
					if others:
						out.append(('initializes-type-mismatch', di, None, setter(base, ('initializes', others[ai % len(others)], attr[2]))))
	return out


def apply_break(ir, item):
	kind, di, mi, mutate = item
	broken = copy.deepcopy(ir)
	member = None
	if mi is not None:
		member = ir[di]['members'][mi].get('name')
	mutate(broken[di])
	return broken, {'kind': kind, 'struct': ir[di]['name'], 'member': member, 'carriers': sorted(carriers(ir, ir[di]['name']))}


# ---------------------------------------------------------------------------------------------------------------------
# implementation side: real parser, real validator, real post processor

class Impl:
	def __init__(self, scratch=None):
		from catparser.__main__ import LarkMultiFileParser
		from catparser.ast import AstException
		from catparser.AstPostProcessor import AstPostProcessor
		from catparser.AstValidator import AstValidator
		self.ast_exception = AstException
		self.validator = AstValidator
		self.processor = AstPostProcessor
		self.owns_scratch = scratch is None
		self.scratch = common.scratch_dir('c06') if scratch is None else scratch
		self.scratch.mkdir(parents=True, exist_ok=True)
		self.parser = LarkMultiFileParser()
		self.parser.set_include_path(str(self.scratch))
		self.counter = 0

	def close(self):
		if self.owns_scratch:
			shutil.rmtree(self.scratch, ignore_errors=True)

	def parse_text(self, text):
		path = self.scratch / 'case.cats'
		path.write_text(text, encoding='utf8')
		self.parser.processed_filepaths = []
		with contextlib.redirect_stdout(io.StringIO()):
			return self.parser.parse(str(path))

	def stage(self, descriptors, mode):
		validator = self.validator(descriptors)
		validator.set_validation_mode(mode)
		try:
			validator.validate()
		except Exception as ex:  # pylint: disable=broad-except
			return f'crash:{type(ex).__name__}'
		return canon_errors((e.typename, list(e.field_names or []), e.message) for e in validator.errors)

	def run_descriptors(self, descriptors, want_terms=True):
		"""both stages the way __main__ runs them (the second stage is also run after a first stage with errors, when expansion succeeds)"""
		result = {'pre_decls': [decl_parts(d) for d in descriptors] if want_terms else None}
		result['pre'] = self.stage(descriptors, self.validator.Mode.PRE_EXPANSION)
		processor = self.processor(descriptors)
		try:
			processor.apply_attributes()
			processor.expand_named_inlines()
			processor.expand_unnamed_inlines()
			result['expand'] = 'ok'
		except self.ast_exception:
			result['expand'] = 'reject'
		except Exception as ex:  # pylint: disable=broad-except
			result['expand'] = f'crash:{type(ex).__name__}'
		if result['expand'] == 'ok':
			try:
				result['post_decls'] = [decl_parts(d) for d in descriptors] if want_terms else None
			except Exception as ex:  # pylint: disable=broad-except
				result['expand'] = f'crash:undumpable:{type(ex).__name__}'
		if result['expand'] == 'ok':
			result['post'] = self.stage(descriptors, self.validator.Mode.POST_EXPANSION)
		else:
			result['post_decls'] = None
			result['post'] = None
		return result

	def run_text(self, text):
		return self.run_descriptors(self.parse_text(text))


def decl_parts(descriptor):
	"""(Gallina term of the declaration, the same with the member list cut out, member terms) -- the last two None unless a struct"""
	text = astdump.coq_decl(descriptor)
	if type(descriptor).__name__ != 'Struct':
		return (text, None, None)
	fields = [astdump.coq_field(f) for f in descriptor.fields]
	listing = '[' + '; '.join(fields) + ']'
	if text.count(listing) != 1:
		return (text, None, None)
	return (text, text.replace(listing, '@FIELDS@'), fields)


def canon_errors(errors):
	return sorted([typename, sorted(fields), message] for typename, fields, message in errors)


def parse_model_stage(text):
	if text == 'none':
		return None
	if not text.startswith('ok'):
		return text
	errors = []
	for line in text.split('\n')[1:]:
		typename, fields, message = line.split('|', 2)
		errors.append((typename, [f for f in fields.split(',') if f], message))
	return canon_errors(errors)


def cli_status(text_path, include):
	status, out = common.run(
		['/usr/bin/python3', '-m', 'catparser', '--schema', str(text_path), '--include', str(include), '--quiet'], 120, env=common.impl_env())
	return status, out


# ---------------------------------------------------------------------------------------------------------------------
# property oracle P (from the property text; independent of the model)

CRASH_SIGNATURES = {
	'sizeof-target-type-unknown': 'validator-crash:sizeof-target-of-unknown-type',
	'member-type-unknown': 'validator-crash:sizeof-target-of-unknown-type',   # the only crash on an unknown member type: the member is a sizeof target
	'sort-key-on-int-array': 'validator-crash:sort-key-on-int-array',
	'sort-key-on-alias-array': 'validator-crash:sort-key-on-alias-array',
	'sort-key-on-enum-array': 'validator-crash:sort-key-on-enum-array',
	'named-inline-of-alias': 'validator-crash:named-inline-of-alias',
	'named-inline-of-enum': 'validator-crash:named-inline-of-enum',
}


def oracle_consistent(result, flags):
	"""no error before or after expansion; returns (signature, text) or None"""
	for stage in ('pre', 'post'):
		value = result[stage]
		if isinstance(value, str):
			return f'validator-crash:consistent-schema:{stage}', f'{stage}-expansion validation of a consistent schema raised {value}'
	if result['expand'] != 'ok':
		return 'expansion-failed:consistent-schema', f'expansion of a consistent schema ended with {result["expand"]}'
	if result['pre']:
		return 'pre-false-error:consistent-schema', f'pre-expansion validation reports {result["pre"][:2]} on a consistent schema'
	if result['post']:
		return classify_post_false_errors(result['post'], flags), f'post-expansion validation reports {result["post"][:2]} on a consistent schema'
	return None


def classify_post_false_errors(errors, flags):
	"""one stable signature per family of expansion-caused false errors; anything that is not entirely explained by the flagged
	families keeps the generic signature (and so stays a violation)"""
	import re
	inline_prefixes = [f[len('ninline:'):] + '_' for f in flags if f.startswith('ninline:')]
	nested_prefixes = [f[len('nested-prefix:'):] for f in flags if f.startswith('nested-prefix:')]
	families = set()
	for _, _, message in errors:
		quoted = re.findall(r'"([^"]*)"', message)
		if 'sort-key-in-template' in flags and message.startswith('reference to unknown sort_key property') \
			and any(q.startswith(p) for q in quoted for p in inline_prefixes):
			families.add('sort-key')
		elif 'sizeof-in-template' in flags and message.startswith('reference to unknown sizeof property'):
			families.add('sizeof')
		elif nested_prefixes and any(p in q for q in quoted for p in nested_prefixes):
			families.add('nested')
		else:
			return 'post-false-error:consistent-schema'
	if 'sizeof' in families:
		return 'post-false-error:sizeof-in-named-inline-template'      # repaired in /repo (a802ad69a): a regression is a violation
	if 'sort-key' in families:
		return 'post-false-error:sort-key-in-named-inline-template'
	return 'post-false-error:nested-named-inline-template-declared-after-use'


def names_member(fields, member):
	return member in fields or any(f.endswith('_' + member) for f in fields)


def oracle_broken(result, site):
	kind = site['kind']
	for stage in ('pre', 'post'):
		value = result[stage]
		if isinstance(value, str):
			return CRASH_SIGNATURES.get(kind, f'validator-crash:{kind}'), \
				f'{stage}-expansion validation raised {value} instead of reporting the broken reference ({kind} in {site["struct"]}::{site["member"]})'
	errors = list(result['pre'])
	if not result['pre']:
		# the command line reaches the second stage only after a clean first stage and a successful expansion
		if result['expand'] != 'ok':
			return f'not-reported:{kind}', f'first stage reports nothing and expansion ends with {result["expand"]}: no stage reports the broken reference ({kind})'
		errors += result['post']
	elif result['post']:
		errors += result['post']
	if not errors:
		return f'not-reported:{kind}', f'no stage reports the broken reference ({kind} in {site["struct"]}::{site["member"]})'
	allowed = set(site['carriers'])
	outside = [e for e in errors if e[0] not in allowed]
	if outside:
		return f'reported-outside-carriers:{kind}', f'{outside[0]} names a struct that neither contains nor inherits the broken reference (carriers {sorted(allowed)})'
	member = site['member']
	if not any(e[0] == site['struct'] and (member is None or member in e[1]) for e in errors) \
		and not any(e[0] in allowed and (member is None or names_member(e[1], member)) for e in errors):
		return f'member-not-named:{kind}', f'no error names {site["struct"]}::{member}: {errors[:3]}'
	return None


# minimal schemas for the defects found so far: run first, so that the replay written for a signature is the small one
PROBES = [
	('struct Foo\n\tr1_size = sizeof(uint8, r1)\n\tr1 = Zz9\n', 'sizeof-target-type-unknown', 'Foo', 'r1', []),
	('struct Foo\n\t@sort_key(kk)\n\tarr = array(uint16, 4)\n', 'sort-key-on-int-array', 'Foo', 'arr', []),
	('using Al = uint16\n\nstruct Foo\n\t@sort_key(kk)\n\tarr = array(Al, 4)\n', 'sort-key-on-alias-array', 'Foo', 'arr', []),
	('enum En : uint8\n\tAA = 1\n\nstruct Foo\n\t@sort_key(kk)\n\tarr = array(En, 4)\n', 'sort-key-on-enum-array', 'Foo', 'arr', []),
	('using Al = uint16\n\nstruct Foo\n\tbar = inline Al\n', 'named-inline-of-alias', 'Foo', 'bar', []),
	('enum En : uint8\n\tAA = 1\n\nstruct Foo\n\tbar = inline En\n', 'named-inline-of-enum', 'Foo', 'bar', []),
	('struct El\n\tkk = uint8\n\ninline struct Tpl\n\t@sort_key(kk)\n\tarr = array(El, 4)\n\nstruct Foo\n\tbar = inline Tpl\n',
		None, None, None, ['sort-key-in-template', 'ninline:bar']),
	('@is_size_implicit\nstruct Other\n\tbaz = uint8\n\ninline struct Tpl\n\tr1_size = sizeof(uint8, r1)\n\tr1 = Other\n\nstruct Foo\n\tbar = inline Tpl\n',
		None, None, None, ['sizeof-in-template']),
	('@size(bar_qq_r1)\nstruct Foo\n\tbar = inline Tpl\n\ninline struct Tpl\n\tqq = inline Tp0\n\ninline struct Tp0\n\tr1 = uint8\n',
		None, None, None, ['nested-template-after-use', 'ninline:bar', 'nested-prefix:bar_qq_']),
]
# templates (abstract / inline, without users) with two initializers: the constant of one is left to the users of the template (tolerated), the
# constant of the other is declared by the template itself; consistent, and broken by giving that constant another type than its target - in
# both orders of the two attributes
for _mod in ('abstract', 'inline'):
	for _attrs in (['@initializes(version, ENTITY_VERSION)', '@initializes(network, DEFAULT_NETWORK)'],
			['@initializes(network, DEFAULT_NETWORK)', '@initializes(version, ENTITY_VERSION)']):
		for _const_type, _kind in (('uint8', None), ('uint16', 'initializes-type-mismatch')):
			PROBES.append((
				'\n'.join(_attrs) + f'\n{_mod} struct Header\n\tDEFAULT_NETWORK = make_const({_const_type}, 104)\n\tversion = uint8\n\tnetwork = uint8\n\n'
				'struct Other\n\tpayload_size = uint32\n\tpayload = array(uint8, payload_size)\n',
				_kind, 'Header' if _kind else None, None, []))


# ---------------------------------------------------------------------------------------------------------------------
# model side

def model_expr(base, variants):
	"""base / variants: impl results (pre_decls, post_decls); one Coq expression (a list of strings) for a schema and all its broken variants"""
	def listing(decls):
		return '[' + ';\n '.join(d[0] for d in decls) + ']'

	lines = ['(let b := ' + listing(base['pre_decls']) + ' in']
	if base['post_decls'] is not None:
		lines.append(' let bp := ' + listing(base['post_decls']) + ' in')
	runs = []

	def patched(name, reference, decls):
		if reference is None or len(reference) != len(decls):
			return listing(decls)
		whole, members = [], []
		for index, (old, new) in enumerate(zip(reference, decls)):
			if old[0] == new[0]:
				continue
			if old[1] is not None and old[1] == new[1] and len(old[2]) == len(new[2]):
				members += [f'({index}%nat, {k}%nat, {g})' for k, (f, g) in enumerate(zip(old[2], new[2])) if f != g]
			else:
				whole.append(f'({index}%nat, {new[0]})')
		if not whole and not members:
			return name
		return f'(patch2 {name} [' + ';\n '.join(whole) + '] [' + ';\n '.join(members) + '])'

	for result in [base] + variants:
		pre = patched('b', base['pre_decls'], result['pre_decls'])
		if result['post_decls'] is None:
			runs.append(f'run1 {pre}')
		else:
			runs.append(f'run2 {pre} {patched("bp", base["post_decls"], result["post_decls"])}')
	lines.append(' [' + ';\n '.join(runs) + '])')
	return '\n'.join(lines), len(runs)


def split_model(parts):
	out = []
	for part in parts:
		pre, post = part.split('\n@@\n')
		out.append((parse_model_stage(pre), parse_model_stage(post)))
	return out


def eval_groups(exprs, tag, shard, timeout=1500):
	"""like common.coq_eval, for expressions of type `list string` (one string per variant keeps every string short):
	exprs = [(expression, number of strings)]; returns one list of strings per expression"""
	import os
	import re
	work = common.COQ / 'Cases' / f'{tag}_{os.getpid()}'
	if work.exists():
		shutil.rmtree(work)
	work.mkdir(parents=True)
	names = []
	for k in range(0, len(exprs), shard):
		name = f'cases_{k // shard}'
		defs = '\n'.join(f'Definition g{i} : list string :=\n{expr}.' for i, (expr, _) in enumerate(exprs[k:k + shard]))
		total = ' ++ '.join(f'g{i}' for i in range(len(exprs[k:k + shard])))
		text = f'{PRELUDE}\nOpen Scope string_scope.\nSet Printing Width 1000000.\nSet Printing Depth 10000000.\n{defs}\n' \
			f'Definition out : list string := ({total})%list.\nEval vm_compute in out.\n'
		(work / f'{name}.v').write_text(text, encoding='utf8')
		names.append(name)
	pending = list(names)
	running = []
	outputs = {}
	failed = None
	while pending or running:
		while pending and len(running) < common.NCPU:
			name = pending.pop(0)
			command = f'ulimit -s unlimited 2>/dev/null; exec timeout {timeout} coqc -Q {common.COQ} Symv -Q {work} SymvCases{os.getpid()} {work / (name + ".v")}'
			running.append((name, subprocess.Popen(['bash', '-c', command], stdout=subprocess.PIPE, stderr=subprocess.STDOUT, text=True)))
		name, proc = running.pop(0)
		out, _ = proc.communicate()
		if proc.returncode != 0:
			failed = (name, out)
		outputs[name] = out
	if failed:
		raise RuntimeError(f'model evaluation failed for {work / (failed[0] + ".v")}:\n{failed[1][-3000:]}')
	string_re = re.compile(r'"((?:[^"]|"")*)"')
	results = []
	for k, name in enumerate(names):
		found = [m.group(1).replace('""', '"') for m in string_re.finditer(outputs[name])]
		counts = [n for _, n in exprs[k * shard:(k + 1) * shard]]
		if len(found) != sum(counts):
			raise RuntimeError(f'model evaluation of {name} produced {len(found)} strings, expected {sum(counts)}:\n{outputs[name][:2000]}')
		for count in counts:
			results.append(found[:count])
			found = found[count:]
	shutil.rmtree(work)
	return results


# ---------------------------------------------------------------------------------------------------------------------

def compare(check, name, case_id, result, model_pair, text):
	pre, post = model_pair
	if result['pre'] != pre:
		check.disagree(f'{name}:pre-expansion', {'case': case_id, 'schema': text}, result['pre'], pre)
	if result['post'] != post:
		check.disagree(f'{name}:post-expansion', {'case': case_id, 'schema': text}, result['post'], post)


def shipped_sets():
	root = common.REPO / 'catbuffer' / 'schemas'
	return [('symbol', root / 'symbol' / 'all.cats', root / 'symbol'), ('nem', root / 'nem' / 'all.cats', root / 'nem')]


def run(check, unrecognised):
	check.trusted += [
		'translator harness/gens/c06.py (ValidateOps: operators, literals, Mode constants, exit status, attribute-name tables of ast.py)',
		'harness/astdump.py (ast.py objects -> Gallina terms of Cats/Ast.v), the schema generator / breaker of harness/checks/c06.py',
		'the post-expansion schema is the one produced by the real AstPostProcessor (its model is C05\'s Cats/Expand.v)',
		'modelled, not verified: CPython dict / set / f-string / hasattr semantics']
	check.assume += [
		'hasattr on a str / lark.Token field type is false for every attribute name (true of the four names the grammar admits)',
		'post-stage frame theorem: the expanded broken schema differs from the expanded consistent one only inside the carriers (C05 expand_frame)']
	check.extra['rule'] = 'both shipped schema sets; seeded random consistent schemas covering every reference kind, each with every ' \
		'(site x breakage kind); distinct = distinct CATS text; non-trivial = every case (each runs the real parser, both validation stages and the expansion)'
	if unrecognised.get('ValidateOps'):
		check.notes.append(f'anchors not recognised, pinned (= repaired) hole values used for them: {unrecognised["ValidateOps"]}')
		for key in unrecognised['ValidateOps']:
			check.broken.append(f'shape:{key}')
	check.extra['core_breakage_kinds'] = sorted(CORE_KINDS)
	check.extra['partial'] = ['completeness_initializer_constant_partial (existence of the error for an unknown / wrongly typed initializer constant: '
		'only exercised by the correspondence)']
	check.prove('C06.v')

	impl = Impl()
	try:
		_run_cases(check, impl)
	finally:
		impl.close()
	# at most five replays are written: the crashes first (D5 signatures first), the expansion-related false errors last
	order = ['validator-crash:sizeof-target-of-unknown-type', 'validator-crash:sort-key-on-int-array', 'validator-crash:sort-key-on-alias-array']

	def priority(finding):
		if finding.signature in order:
			return order.index(finding.signature)
		if finding.signature.startswith('validator-crash'):
			return len(order)
		return len(order) + (2 if 'template' in finding.signature else 1)
	check.failures.sort(key=priority)


_WORKER = {}


def _worker_init(scratch):
	import os
	from pathlib import Path
	common.setup_impl_path()
	_WORKER['impl'] = Impl(Path(scratch) / f'w{os.getpid()}')


def _worker_run(texts):
	return [_WORKER['impl'].run_text(text) for text in texts]


def expansion_flags(ir):
	"""names the oracle needs to recognise the two known families: every named-inline member, and the prefixes left unexpanded when a
	named-inline template that itself contains a named inline is declared after one of its users"""
	position = {d['name']: i for i, d in enumerate(ir)}
	structs = {d['name']: d for d in ir if d['k'] == 'struct'}
	flags = []
	for decl in structs.values():
		for member in decl['members']:
			if member['form'] != 'ninline':
				continue
			flags.append(f'ninline:{member["name"]}')
			template = structs.get(member['type'][1])
			if template and position[template['name']] > position[decl['name']]:
				flags += [f'nested-prefix:{member["name"]}_{m["name"]}_' for m in template['members'] if m['form'] == 'ninline']
	if any(f.startswith('nested-prefix:') for f in flags):
		flags.append('nested-template-after-use')
	return sorted(set(flags))


def _run_cases(check, impl):
	import concurrent.futures
	rng = check.rng
	exprs = []
	groups = []   # (name, [(case_id, text, result, site or None, flags)])

	# shipped schema sets
	for name, path, include in shipped_sets():
		descriptors = astdump.parse_files(path, include)
		result = impl.run_descriptors(descriptors)
		check.case('shipped', name)
		problem = oracle_consistent(result, [])
		if problem:
			check.fail(f'shipped:{name}:{problem[0]}', problem[1], {'shipped': name, 'how': 'run.py replay <this file>'})
		exprs.append(model_expr(result, []))
		groups.append((f'shipped:{name}', [(f'shipped:{name}', str(path), result, None, [])]))

	for number, (text, kind, struct, member, flags) in enumerate(PROBES):
		result = impl.run_text(text)
		site = None if kind is None else {'kind': kind, 'struct': struct, 'member': member, 'carriers': [struct]}
		check.case('probe', text)
		exprs.append(model_expr(result, []))
		groups.append((f'probe{number}', [(f'probe{number}', text, result, site, flags)]))

	count = 150 if check.tier == 'quick' else 5000
	all_sites = 0 if check.tier == "quick" else 200    # the first schemas get every (site x kind), the others one site per kind (plus a few)
	jobs = []
	for index in range(count):
		ir, flags = gen_schema(rng)
		flags = flags + expansion_flags(ir)
		items = [(f'schema{index}', schema_text(ir), None, flags)]
		taken = {}
		breaks = breaks_of(ir)
		rng.shuffle(breaks)
		for item in breaks:
			if index >= all_sites and taken.get(item[0], 0) >= 1 and rng.randrange(8):
				continue
			taken[item[0]] = taken.get(item[0], 0) + 1
			broken_ir, site = apply_break(ir, item)
			items.append((f'schema{index}:{site["kind"]}:{site["struct"]}:{site["member"]}', schema_text(broken_ir), site, flags))
		jobs.append(items)

	with concurrent.futures.ProcessPoolExecutor(max_workers=max(2, common.NCPU // 2), initializer=_worker_init, initargs=(str(impl.scratch),)) as pool:
		outcomes = list(pool.map(_worker_run, [[text for _, text, _, _ in items] for items in jobs], chunksize=4))

	cli_cases = []
	for index, (items, results) in enumerate(zip(jobs, outcomes)):
		full = [(case_id, text, result, site, flags) for (case_id, text, site, flags), result in zip(items, results)]
		check.case('consistent', full[0][1])
		for _, text, _, site, _ in full[1:]:
			check.case('broken:' + site['kind'], text)
		exprs.append(model_expr(results[0], results[1:]))
		groups.append((f'schema{index}', full))
		if index % max(1, count // 12) == 0:
			cli_cases.append(full[0])
			cli_cases += full[1:][:: max(1, len(full) // 3)][:3]

	try:
		models = eval_groups(exprs, 'c06', 4 if check.tier == 'quick' else 20)
	except RuntimeError as ex:
		# the regenerated model could not be evaluated (possible only on a changed tree): the tie is broken, the oracle still runs
		check.broken.append('correspondence:model-evaluation-failed')
		check.notes.append(str(ex)[-1500:])
		models = [None] * len(groups)
	sampled = 0
	for (name, items), parts in zip(groups, models):
		pairs = split_model(parts) if parts is not None else [None] * len(items)
		base_problem = None
		for (case_id, schema, result, site, flags), pair in zip(items, pairs):
			if pair is not None:
				compare(check, 'Validate-model-vs-AstValidator', case_id, result, pair, schema)
			if site is None:
				problem = base_problem = oracle_consistent(result, flags)
			else:
				# the false errors of a base schema that already fails the first clause would be counted again for each of its variants
				problem = None if base_problem else oracle_broken(result, site)
			if problem and not name.startswith('shipped'):
				check.fail(problem[0], problem[1], {'schema': schema, 'site': site, 'flags': flags, 'observed': observed(result), 'how': 'run.py replay <this file>'})
			if site is not None and sampled < 6 and rng.randrange(40) == 0:
				sampled += 1
				check.sample({'case': case_id, 'site': site, 'observed': observed(result)})

	# the command line: exit status 2 exactly when a stage reports errors, 0 for consistent schemas
	def run_cli(numbered):
		number, (_, schema, _, _, _) = numbered
		path = impl.scratch / f'cli{number}.cats'
		path.write_text(schema, encoding='utf8')
		return cli_status(path, impl.scratch)

	with concurrent.futures.ThreadPoolExecutor(max_workers=8) as pool:
		statuses = list(pool.map(run_cli, enumerate(cli_cases)))
	for (case_id, schema, result, site, flags), (status, out) in zip(cli_cases, statuses):
		check.case('cli', schema)
		expected = 0 if site is None else int(CLI_ERROR_STATUS)
		problem = oracle_consistent(result, flags) if site is None else oracle_broken(result, site)
		if status != expected and not (site is None and problem):
			signature = problem[0] if problem else f'cli-exit-status:{"consistent" if site is None else site["kind"]}'
			check.fail(signature, f'python -m catparser exits with {status}, expected {expected}: {(out or "")[-300:]}',
				{'schema': schema, 'site': site, 'flags': flags, 'cli': True, 'how': 'run.py replay <this file>'})


def observed(result):
	return {'pre': result['pre'], 'expand': result['expand'], 'post': result['post']}


def replay(data):
	info = data['replay']
	impl = Impl()
	try:
		if 'shipped' in info:
			name, path, include = [s for s in shipped_sets() if s[0] == info['shipped']][0]
			result = impl.run_descriptors(astdump.parse_files(path, include), want_terms=False)
			problem = oracle_consistent(result, [])
		else:
			result = impl.run_descriptors(impl.parse_text(info['schema']), want_terms=False)
			problem = oracle_consistent(result, info.get('flags', [])) if info.get('site') is None else oracle_broken(result, info['site'])
			if info.get('cli'):
				path = impl.scratch / 'replay.cats'
				path.write_text(info['schema'], encoding='utf8')
				status, out = cli_status(path, impl.scratch)
				expected = 0 if info.get('site') is None else CLI_ERROR_STATUS
				print('cli exit status:', status, 'expected:', expected)
				if status != expected:
					problem = problem or ('cli-exit-status', out[-300:])
		print('observed:', json.dumps(observed(result))[:2000])
		print('property:', f'{problem[0]}: {problem[1]}' if problem else 'holds')
		return 1 if problem else 0
	finally:
		impl.close()
